#!/bin/sh
# Builds the overlay interpreter /verif/.venv (python 3.12 = /venv's interpreter + z3, cvc5, sympy from the
# offline wheelhouse; /venv's site-packages (numpy, numba, scipy, pytransform3d, the repo) are added through a .pth).
set -e
cd "$(dirname "$0")"
if [ ! -x .venv/bin/python ] || ! .venv/bin/python -c "import z3, sympy, numpy, numba" 2>/dev/null; then
  rm -rf .venv
  /venv/bin/python -m venv .venv --without-pip
  echo "import site; site.addsitedir('/venv/lib/python3.12/site-packages')" > .venv/lib/python3.12/site-packages/_base.pth
  PIP_NO_INDEX=1 .venv/bin/python -m pip install -q --no-index --find-links /opt/veriftools/wheels z3-solver sympy cvc5 jsonschema >/dev/null
fi
.venv/bin/python -c "import z3, sympy, numpy, numba; print('d3vc interpreter ok: z3', z3.get_version_string(), 'numpy', numpy.__version__, 'numba', numba.__version__)"
# meta-rules used by the C05 contracts (rank induction on a finite index set): checked by Lean 4 + Mathlib (pre-built oleans, ~4 min cold)
mkdir -p .work
if command -v lean >/dev/null 2>&1; then
  if (cd lean && timeout 1200 lean FinRank.lean >/dev/null 2>../.work/lean_err.txt); then echo ok > .work/lean_ok; echo "lean/FinRank.lean accepted"; else rm -f .work/lean_ok; echo "lean/FinRank.lean NOT checked (see .work/lean_err.txt)"; fi
fi
