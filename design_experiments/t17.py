# _line_to_box, (+,+,+) case, face i0=0,i1=1,i2=2: (p1) distance-0 branch, (p2) edge branch "v1>=-e1, v2<-e2, tmp<=2 lsqr e1"
from z3 import *
import time,sys
def chk(name,S,to=120000):
    S.set("timeout",to); t0=time.time(); r=S.check(); print(f"{name:50s}",r,round(time.time()-t0,2)); sys.stdout.flush()
P=[Real(f'P{i}') for i in range(3)]; D=[Real(f'D{i}') for i in range(3)]; e=[Real(f'e{i}') for i in range(3)]
pm=[P[i]-e[i] for i in range(3)]; pp=[P[i]+e[i] for i in range(3)]
base=[D[0]>0,D[1]>0,D[2]>0,e[0]>0,e[1]>0,e[2]>0]
sel_face0=[D[1]*pm[0]>=D[0]*pm[1], D[2]*pm[0]>=D[0]*pm[2]]
def kkt(c,t,sq):
    Lp=[P[i]+t*D[i] for i in range(3)]; n=[Lp[i]-c[i] for i in range(3)]
    conds=[And(c[i]<=e[i],c[i]>=-e[i]) for i in range(3)]
    conds.append(sum(n[i]*D[i] for i in range(3))==0)
    for i in range(3):
        conds.append(Implies(n[i]>0,c[i]==e[i])); conds.append(Implies(n[i]<0,c[i]==-e[i]))
    conds.append(sq==sum(n[i]*n[i] for i in range(3)))
    return conds
# p1
S=Solver(); S.add(*base,*sel_face0, D[0]*pp[1]>=D[1]*pm[0], D[0]*pp[2]>=D[2]*pm[0])
c=[e[0], P[1]-D[1]*pm[0]/D[0], P[2]-D[2]*pm[0]/D[0]]; t=-pm[0]/D[0]
for idx,cond in enumerate(kkt(c,t,RealVal(0))):
    S.push(); S.add(Not(cond)); chk(f"p1 clause {idx}",S); S.pop()
# p2
S=Solver(); S.add(*base,*sel_face0, D[0]*pp[1]>=D[1]*pm[0], Not(D[0]*pp[2]>=D[2]*pm[0]))
lsq=D[0]*D[0]+D[2]*D[2]; tmp=lsq*pp[1]-D[1]*(D[0]*pm[0]+D[2]*pp[2])
S.add(tmp<=2*lsq*e[1])
tt=tmp/lsq; lsq2=lsq+D[1]*D[1]; tmp2=pp[1]-tt; delta=D[0]*pm[0]+D[1]*tmp2+D[2]*pp[2]; lp=-delta/lsq2
sq=pm[0]*pm[0]+tmp2*tmp2+pp[2]*pp[2]+delta*lp
c=[e[0], tt-e[1], -e[2]]
for idx,cond in enumerate(kkt(c,lp,sq)):
    S.push(); S.add(Not(cond)); chk(f"p2 clause {idx}",S,60000); S.pop()
