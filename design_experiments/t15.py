from z3 import *
import time, sys
def chk(name,S,to=120000):
    S.set("timeout",to); t0=time.time(); r=S.check(); print(f"{name:55s}",r,round(time.time()-t0,2)); sys.stdout.flush(); return r
R=[[Real(f'R{i}{j}') for j in range(3)] for i in range(3)]
rad=[Real(f'r{j}') for j in range(3)]
orth=[]
for i in range(3):
    for j in range(i,3):
        orth.append(sum(R[k][i]*R[k][j] for k in range(3))==(1 if i==j else 0))
        orth.append(sum(R[i][k]*R[j][k] for k in range(3))==(1 if i==j else 0))
# ellipsoid_aabb as coded: extents = R*r; /= colnorm (=r_j) ; *= r  -> R_ij r_j ; extent_b = max_a sum_j R_aj R_bj r_j
def mx(a,b): return If(a>=b,a,b)
ext0 = mx(mx(sum(R[0][j]*R[0][j]*rad[j] for j in range(3)), sum(R[1][j]*R[0][j]*rad[j] for j in range(3))), sum(R[2][j]*R[0][j]*rad[j] for j in range(3)))
# a point of the ellipsoid: x = R y, sum (y_j/r_j)^2 <= 1 ; x_0 = sum_j R0j y_j
y=[Real(f'y{j}') for j in range(3)]
S=Solver(); S.add(*orth); S.add(*[rj>0 for rj in rad]); S.add(sum((y[j]/rad[j])*(y[j]/rad[j]) for j in range(3))<=1)
S.add(sum(R[0][j]*y[j] for j in range(3)) > ext0)
r_=chk("ellipsoid_aabb enclosure axis0 (expect sat)",S)
if r_==sat:
    m=S.model(); print({str(d):m[d].as_decimal(4) if hasattr(m[d],'as_decimal') else m[d] for d in m.decls()})
# simpler search: restrict to rotation about z (2D) to help
c,s_=Reals('c s_')
S=Solver(); S.add(c*c+s_*s_==1, *[rj>0 for rj in rad])
R2=[[c,-s_,0],[s_,c,0],[0,0,1]]
ext0 = mx(mx(sum(R2[0][j]*R2[0][j]*rad[j] for j in range(3)), sum(R2[1][j]*R2[0][j]*rad[j] for j in range(3))), sum(R2[2][j]*R2[0][j]*rad[j] for j in range(3)))
S.add(sum((y[j]/rad[j])*(y[j]/rad[j]) for j in range(3))<=1, sum(R2[0][j]*y[j] for j in range(3)) > ext0)
r_=chk("ellipsoid_aabb enclosure axis0, z-rotation family",S)
if r_==sat:
    m=S.model(); print({str(d):(m[d].as_decimal(4) if is_algebraic_value(m[d]) or is_rational_value(m[d]) else m[d]) for d in m.decls()})
