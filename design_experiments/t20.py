# portfolio calibration: dump a few hard queries to SMT2 and try cvc5 1.0.3 CLI, z3 4.8.12 CLI
from z3 import *
import subprocess, time, sys
def V(n): return [Real(f"{n}{i}") for i in range(3)]
def dot(a,b): return sum(x*y for x,y in zip(a,b))
def sub(a,b): return [x-y for x,y in zip(a,b)]
def add(a,b): return [x+y for x,y in zip(a,b)]
def sc(k,a): return [k*x for x in a]
qs={}
# Q1: triangle edge AB region KKT in raw coordinates (z3-5.1 unknown@120s)
a,b,c=V('a'),V('b'),V('c'); ab=sub(b,a); ac=sub(c,a)
d1=dot(ab,sc(-1,a)); d2=dot(ac,sc(-1,a)); d3=dot(ab,sc(-1,b)); d4=dot(ac,sc(-1,b)); vc=d1*d4-d3*d2
t=Real('t'); v=add(a,sc(t,ab))
S=Solver(); S.add(Not(And(d1<=0,d2<=0)),Not(And(d3>=0,d4<=d3)),vc<=0,d1>=0,d3<=0,t*(d1-d3)==d1, Not(And(dot(v,a)>=dot(v,v),dot(v,b)>=dot(v,v),dot(v,c)>=dot(v,v))))
qs['tri_AB_raw']=S.to_smt2()
# Q2: cone extremal plain
l0,l1,l2,r,h,x0,x1,x2,n,rho=Reals('l0 l1 l2 r h x0 x1 x2 n rho')
S=Solver(); S.add(r>0,h>0,n>=0,n*n==l0*l0+l1*l1)
dp0=If(n==0,0,l0*r/n); dp1=If(n==0,0,l1*r/n); rim=l0*dp0+l1*dp1>=l2*h
vv=[If(rim,dp0,0),If(rim,dp1,0),If(rim,0,h)]
S.add(rho>=0,rho*rho==x0*x0+x1*x1,x2>=0,x2<=h,rho<=r*(1-x2/h), x0*l0+x1*l1+x2*l2>vv[0]*l0+vv[1]*l1+vv[2]*l2)
qs['cone_plain']=S.to_smt2()
for name,txt in qs.items():
    open(name+'.smt2','w').write("(set-logic QF_NRA)\n"+txt)
    for tool,cmd in [("cvc5",["cvc5","--tlimit=60000",name+'.smt2']),("z3-4.8",["z3","-T:60",name+'.smt2']),("z3-new",["z3-new","-T:60",name+'.smt2'])]:
        t0=time.time()
        try: out=subprocess.run(cmd,capture_output=True,text=True,timeout=90).stdout.strip().split("\n")[0]
        except subprocess.TimeoutExpired: out="timeout"
        print(f"{name:12s} {tool:7s} {out:10s} {time.time()-t0:.1f}s"); sys.stdout.flush()
