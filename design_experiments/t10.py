exec(open('t5.py').read().split("s=mkstate('')")[0])
s=mkstate('')
root,F,i0=Ints('root F i0')
done=Array('done',I,BoolSort())
q_lo=[Real(f'qlo{k}') for k in range(3)]; q_hi=[Real(f'qhi{k}') for k in range(3)]
def ov(i): return And(*[And(s['lo'][k][i]<=q_hi[k], s['hi'][k][i]>=q_lo[k]) for k in range(3)])
S=Solver(); S.set("timeout",120000)
S.add(*inv(s,root,F)); S.add(root!=-1)
rng=lambda x: And(x>=0,x<F)
i=Int('i'); j=Int('j')
# exit facts
S.add(done[root])
S.add(ForAll([i], Implies(And(rng(i), live(s,i), i!=root, done[s['parent'][i]], ov(s['parent'][i])), done[i])))
# boxes well-formed lo<=hi for leaves not needed
# induction step
S.add(rng(i0), live(s,i0), ov(i0))
S.add(ForAll([j], Implies(And(rng(j), live(s,j), s['rank'][j]>s['rank'][i0], ov(j)), done[j])))
S.add(Not(done[i0]))
import time; t0=time.time(); print("completeness induction step:", S.check(), round(time.time()-t0,2))
