import sympy as sp
P=sp.symbols('P0:3'); D=sp.symbols('D0:3'); e=sp.symbols('e0:3')
pm=[P[i]-e[i] for i in range(3)]; pp=[P[i]+e[i] for i in range(3)]
lsq=D[0]**2+D[2]**2; tmp=lsq*pp[1]-D[1]*(D[0]*pm[0]+D[2]*pp[2])
tt=tmp/lsq; lsq2=lsq+D[1]**2; tmp2=pp[1]-tt; delta=D[0]*pm[0]+D[1]*tmp2+D[2]*pp[2]; lp=-delta/lsq2
sq=pm[0]**2+tmp2**2+pp[2]**2+delta*lp
c=[e[0], tt-e[1], -e[2]]
n=[P[i]+lp*D[i]-c[i] for i in range(3)]
print("n1 =", sp.cancel(n[1]))
print("n.D =", sp.cancel(sum(n[i]*D[i] for i in range(3))))
print("sq - |n|^2 =", sp.cancel(sq-sum(x**2 for x in n)))
print("n0 =", sp.factor(sp.cancel(n[0])))
print("n2 =", sp.factor(sp.cancel(n[2])))
