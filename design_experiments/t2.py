from z3 import *
import time
def chk(name, s, to=60000):
    s.set("timeout", to)
    t=time.time(); r=s.check(); print(name, r, round(time.time()-t,2))
    return r
l0,l1,l2,x0,x1,x2 = Reals('l0 l1 l2 x0 x1 x2')
r0,r1,r2,n = Reals('r0 r1 r2 n')
# Lemma CS3: (a.b)^2 <= |a|^2|b|^2  via Lagrange identity
a0,a1,a2,b0,b1,b2=Reals('a0 a1 a2 b0 b1 b2')
S=Solver()
dot=a0*b0+a1*b1+a2*b2; na=a0*a0+a1*a1+a2*a2; nb=b0*b0+b1*b1+b2*b2
S.add(dot*dot > na*nb); chk("CS3 direct",S, 30000)
S=Solver()
c0=a1*b2-a2*b1; c1=a2*b0-a0*b2; c2=a0*b1-a1*b0
S.add(Not(na*nb - dot*dot == c0*c0+c1*c1+c2*c2)); chk("Lagrange identity",S)
# ellipsoid extremal with CS instance as hint
S=Solver()
S.add(r0>0,r1>0,r2>0,n>=0, n*n==(l0*r0)**2+(l1*r1)**2+(l2*r2)**2)
w0=If(n==0, l0*r0, l0*r0/n)*r0; w1=If(n==0,l1*r1,l1*r1/n)*r1; w2=If(n==0,l2*r2,l2*r2/n)*r2
y0,y1,y2=x0/r0,x1/r1,x2/r2; m0,m1,m2=l0*r0,l1*r1,l2*r2
d=y0*m0+y1*m1+y2*m2
S.add(d*d <= (y0*y0+y1*y1+y2*y2)*(m0*m0+m1*m1+m2*m2))  # CS instance
S.add(y0**2+y1**2+y2**2<=1, x0*l0+x1*l1+x2*l2 > w0*l0+w1*l1+w2*l2); chk("ell extremal + CS hint",S)
# abstracted version: introduce fresh vars for y, m
Y0,Y1,Y2,M0,M1,M2,D,NY,NM=Reals('Y0 Y1 Y2 M0 M1 M2 D NY NM')
S=Solver()
S.add(n>=0, n*n==NM, NY<=1, NY>=0, D*D<=NY*NM, D>n); chk("abstract core",S)
