# query_overlap loop body preserves the traversal invariant (stack = array+len, ghost onstack/pos/done)
exec(open('t5.py').read().split("s=mkstate('')")[0])
import time,sys
s=mkstate('')
root,F,n=Ints('root F n')
stack=Array('stack',I,I); pos=Array('pos',I,I)
onst=Array('onst',I,BoolSort()); done=Array('done',I,BoolSort()); inres=Array('inres',I,BoolSort())
q_lo=[Real(f'qlo{k}') for k in range(3)]; q_hi=[Real(f'qhi{k}') for k in range(3)]
def ov(i): return And(*[And(s['lo'][k][i]<=q_hi[k], s['hi'][k][i]>=q_lo[k]) for k in range(3)])
rng=lambda x: And(x>=0,x<F)
i=Int('i'); k=Int('k')
def J(stack,n,pos,onst,done,inres):
    c=[]
    c.append(n>=0)
    c.append(ForAll([k], Implies(And(k>=0,k<n), And(rng(stack[k]), live(s,stack[k]), onst[stack[k]], pos[stack[k]]==k))))
    c.append(ForAll([i], Implies(And(rng(i),onst[i]), And(pos[i]>=0,pos[i]<n, stack[pos[i]]==i, Not(done[i]), live(s,i)))))
    c.append(Or(onst[root],done[root]))
    c.append(ForAll([i], Implies(And(rng(i),live(s,i),i!=root,Or(onst[i],done[i])), done[s['parent'][i]])))
    c.append(ForAll([i], Implies(And(rng(i),live(s,i),i!=root,done[s['parent'][i]],ov(s['parent'][i])), Or(onst[i],done[i]))))
    c.append(ForAll([i], Implies(rng(i), inres[i]==And(done[i], s['typ'][i]==LEAF, ov(i)))))
    c.append(ForAll([i], Implies(And(rng(i),done[i]), live(s,i))))
    return c
S=Solver(); S.set("timeout",20000)
S.add(*inv(s,root,F)); S.add(root!=-1)
S.add(*J(stack,n,pos,onst,done,inres)); S.add(n>0)
x=stack[n-1]; n1=n-1
onst1=Store(onst,x,False); done1=Store(done,x,True)
isleaf = s['typ'][x]==LEAF
l=s['left'][x]; r=s['right'][x]
# branch overlapping: push l, r
stackB=Store(stack,n1,l); nB=n1+1
posB=Store(pos,l,n1); onstB=Store(onst1,l,True)
inres1=Store(inres,x,True)
cases={"no-overlap":(Not(ov(x)),(stack,n1,pos,onst1,done1,inres)),
       "leaf-overlap":(And(ov(x),isleaf),(stack,n1,pos,onst1,done1,inres1)),
       "branch-overlap":(And(ov(x),Not(isleaf)),(stackB,nB,posB,onstB,done1,inres))}
for name,(cond,st) in cases.items():
    post=J(*st)
    for idx,c in enumerate(post):
        S.push(); S.add(cond); S.add(Not(c)); t0=time.time(); r_=S.check(); print(name,"J",idx,r_,round(time.time()-t0,2)); sys.stdout.flush(); S.pop()
