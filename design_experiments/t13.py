import sympy as sp, time
aa,ab,ac,bb,bc,cc=sp.symbols('aa ab ac bb bc cc')
G={('a','a'):aa,('a','b'):ab,('a','c'):ac,('b','b'):bb,('b','c'):bc,('c','c'):cc}
def g(x,y): return G[(x,y)] if (x,y) in G else G[(y,x)]
def dot(u,v): return sum(cu*cv*g(x,y) for x,cu in u.items() for y,cv in v.items())
def lin(*terms):
    r={}
    for k,u in terms:
        for x,c in u.items(): r[x]=r.get(x,0)+k*c
    return r
A={'a':1};B={'b':1};C={'c':1}
AB=lin((1,B),(-1,A)); AC=lin((1,C),(-1,A)); BC=lin((1,C),(-1,B))
mA=lin((-1,A)); mB=lin((-1,B)); mC=lin((-1,C))
d1=dot(AB,mA); d2=dot(AC,mA); d3=dot(AB,mB); d4=dot(AC,mB); d5=dot(AB,mC); d6=dot(AC,mC)
vc=d1*d4-d3*d2; vb=d5*d2-d1*d6; va=d3*d6-d5*d4
detG=sp.Matrix([[aa,ab,ac],[ab,bb,bc],[ac,bc,cc]]).det()
nls=dot(AB,AB)*dot(AC,AC)-dot(AB,AC)**2
v0=AB;v1=AC
d00=dot(v0,v0); d11=dot(v1,v1); d01=dot(v0,v1); den1=d00*d11-d01*d01; a0=dot(A,v0); a1=dot(A,v1)
V=(d01*a1-d11*a0)/den1; W=(d01*a0-d00*a1)/den1; U=1-V-W
p=lin((U,A),(V,B),(W,C))
t=time.time()
print("p.v0:", sp.cancel(dot(p,v0)), " p.v1:", sp.cancel(dot(p,v1)))
l=[va/nls,vb/nls,vc/nls]; p2=lin((l[0],A),(l[1],B),(l[2],C))
print("p'.v0:", sp.cancel(dot(p2,v0)), " p'.v1:", sp.cancel(dot(p2,v1)), " sum-1:", sp.cancel(sum(l)-1))
print("p'.a*nls - detG:", sp.cancel(dot(p2,A)*nls-detG))
print("U - va/nls:", sp.cancel(U-l[0]), " V - vb/nls:", sp.cancel(V-l[1]), "W - vc/nls:", sp.cancel(W-l[2]))
print("secs", round(time.time()-t,2))
