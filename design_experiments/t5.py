# Feasibility: insert_leaf straight-line part preserves tree invariant (quantified arrays)
from z3 import *
import time, sys
I=IntSort(); R=RealSort()
def A(n): return Array(n, I, I)
LEAF, BRANCH = 1, 2
def mkstate(sfx):
    return dict(parent=A('parent'+sfx), left=A('left'+sfx), right=A('right'+sfx), typ=A('typ'+sfx),
                lo=[Array(f'lo{k}{sfx}', I, R) for k in range(3)], hi=[Array(f'hi{k}{sfx}', I, R) for k in range(3)],
                rank=Array('rank'+sfx, I, R))
def live(s,i): return Or(s['typ'][i]==LEAF, s['typ'][i]==BRANCH)
def boxeq(s,i):
    l=s['left'][i]; r=s['right'][i]
    return And(*[And(s['lo'][k][i]==If(s['lo'][k][l]<=s['lo'][k][r], s['lo'][k][l], s['lo'][k][r]),
                     s['hi'][k][i]==If(s['hi'][k][l]>=s['hi'][k][r], s['hi'][k][l], s['hi'][k][r])) for k in range(3)])
def inv(s, root, F, exc=None):
    i=Int('i')
    rng=lambda x: And(x>=0, x<F)
    c=[]
    c.append(Or(root==-1, And(rng(root), live(s,root), s['parent'][root]==-1)))
    c.append(Implies(root==-1, ForAll([i], Implies(rng(i), Not(live(s,i))))))
    c.append(ForAll([i], Implies(rng(i), Or(s['typ'][i]==-1, live(s,i)))))
    br = lambda i: And(rng(s['left'][i]), rng(s['right'][i]), s['left'][i]!=s['right'][i],
                       live(s,s['left'][i]), live(s,s['right'][i]),
                       s['parent'][s['left'][i]]==i, s['parent'][s['right'][i]]==i,
                       s['rank'][i]>s['rank'][s['left'][i]], s['rank'][i]>s['rank'][s['right'][i]])
    c.append(ForAll([i], Implies(And(rng(i), s['typ'][i]==BRANCH), br(i))))
    if exc is None:
        c.append(ForAll([i], Implies(And(rng(i), s['typ'][i]==BRANCH), boxeq(s,i))))
    else:
        c.append(ForAll([i], Implies(And(rng(i), s['typ'][i]==BRANCH, Not(exc(i))), boxeq(s,i))))
    c.append(ForAll([i], Implies(And(rng(i), live(s,i), i!=root),
             And(rng(s['parent'][i]), s['typ'][s['parent'][i]]==BRANCH,
                 Or(s['left'][s['parent'][i]]==i, s['right'][s['parent'][i]]==i)))))
    return c
s=mkstate('')
root,F,leaf,sib,N=Ints('root F leaf sib N')
pre = inv(s,root,F+0)  # F here = filled_len (allocated/used prefix)
S=Solver(); S.set("timeout",120000)
S.add(*pre)
# preconditions: leaf is pending (typ -1) index < F, sibling live in range, root != -1, capacity F < N
S.add(leaf>=0, leaf<F, s['typ'][leaf]==-1, root!=-1, sib>=0, sib<F, live(s,sib))
# straight-line code
typ1=Store(s['typ'], leaf, LEAF)
oldp=s['parent'][sib]
newp=F; F2=F+1
parent1=Store(s['parent'], newp, oldp)
left1=Store(s['left'], newp, sib)
right1=Store(s['right'], newp, leaf)
typ2=Store(typ1, newp, BRANCH)
lo1=[Store(s['lo'][k], newp, If(s['lo'][k][leaf]<=s['lo'][k][sib], s['lo'][k][leaf], s['lo'][k][sib])) for k in range(3)]
hi1=[Store(s['hi'][k], newp, If(s['hi'][k][leaf]>=s['hi'][k][sib], s['hi'][k][leaf], s['hi'][k][sib])) for k in range(3)]
parent2=Store(Store(parent1, leaf, newp), sib, newp)
root2=If(oldp==-1, newp, root)
left2=If(oldp==-1, left1, If(s['left'][oldp]==sib, Store(left1, oldp, newp), left1))
right2=If(oldp==-1, right1, If(s['left'][oldp]==sib, right1, Store(right1, oldp, newp)))
# ghost rank update: dense choice
rk=Real('rk_new')
rank_leaf=Real('rk_leaf')
rank2=Store(Store(s['rank'], newp, rk), leaf, rank_leaf)
S.add(rank_leaf < rk, rk > s['rank'][sib], Implies(oldp!=-1, rk < s['rank'][oldp]))
t=dict(parent=parent2,left=left2,right=right2,typ=typ2,lo=lo1,hi=hi1,rank=rank2)
# note merge(leaf,sib) vs boxeq(newp) = merge(left=sib,right=leaf): symmetric
post = inv(t, root2, F2, exc=lambda i: And(oldp!=-1, i==oldp))
# check each conjunct separately
for idx,c in enumerate(post):
    S.push(); S.add(Not(c)); t0=time.time(); r=S.check(); print("post",idx,r,round(time.time()-t0,2)); sys.stdout.flush(); S.pop()
# vacuity: pre satisfiable?
t0=time.time(); print("pre sat?", S.check(), round(time.time()-t0,2))
