from z3 import *
import time, sys
def chk(name,S,to=90000):
    S.set("timeout",to); t0=time.time(); r=S.check(); print(f"{name:55s}",r,round(time.time()-t0,2)); sys.stdout.flush(); return r
def sq(x): return x*x
l0,l1,l2,r,h,x0,x1,x2,s,n=Reals('l0 l1 l2 r h x0 x1 x2 s n')
# (a) cone: base disk radius r at z=0, apex (0,0,h). cone = {(x0,x1,z): 0<=z<=h, sqrt(x0^2+x1^2) <= r(1-z/h)}
S=Solver(); S.add(r>0,h>0,n>=0,n*n==l0*l0+l1*l1)
dp0=If(n==0,0,l0*r/n); dp1=If(n==0,0,l1*r/n)
rim = l0*dp0+l1*dp1 >= l2*h
v=[If(rim,dp0,0),If(rim,dp1,0),If(rim,0,h)]
rho=Real('rho'); 
S.push(); S.add(rho>=0, rho*rho==v[0]*v[0]+v[1]*v[1]); S.add(Not(And(v[2]>=0,v[2]<=h, rho<=r*(1-v[2]/h)))); chk("cone member",S); S.pop()
S.push(); S.add(rho>=0, rho*rho==x0*x0+x1*x1, x2>=0,x2<=h, rho<=r*(1-x2/h)); S.add(x0*l0+x1*l1+x2*l2 > v[0]*l0+v[1]*l1+v[2]*l2); chk("cone extremal (plain)",S); S.pop()
S.push(); S.add(rho>=0, rho*rho==x0*x0+x1*x1, x2>=0,x2<=h, rho<=r*(1-x2/h)); S.add(sq(x0*l0+x1*l1)<=(x0*x0+x1*x1)*(l0*l0+l1*l1)); S.add(x0*l0+x1*l1+x2*l2 > v[0]*l0+v[1]*l1+v[2]*l2); chk("cone extremal (+CS2)",S); S.pop()
# abstracted: q = x0 l0 + x1 l1 <= rho*n
q=Real('q')
S2=Solver(); S2.add(r>0,h>0,n>=0,rho>=0,x2>=0,x2<=h,rho<=r*(1-x2/h), q<=rho*n)
S2.add(q+x2*l2 > If(r*n>=l2*h, r*n, l2*h)); chk("cone extremal (abstract core)",S2)
# (b) box
h0,h1,h2=Reals('h0 h1 h2')
sg=lambda t: If(t>0,1,If(t<0,-1,0))
S=Solver(); S.add(h0>0,h1>0,h2>0, x0<=h0,x0>=-h0,x1<=h1,x1>=-h1,x2<=h2,x2>=-h2)
S.add(x0*l0+x1*l1+x2*l2 > sg(l0)*h0*l0+sg(l1)*h1*l1+sg(l2)*h2*l2); chk("box extremal",S)
# (c) capsule: segment z in [-h/2,h/2] + ball r
S=Solver(); S.add(r>0,h>0,s>=0,s*s==l0*l0+l1*l1+l2*l2)
c=[If(s==0,r,l0*r/s),If(s==0,0,l1*r/s),If(s==0,0,l2*r/s)+If(l2>0,h/2,-h/2)]
z=Real('z')
S.push(); S.add(Not(Exists([z],And(z>=-h/2,z<=h/2, sq(c[0])+sq(c[1])+sq(c[2]-z)<=r*r)))); chk("capsule member (exists z)",S); S.pop()
zc=If(l2>0,h/2,-h/2)
S.push(); S.add(Not(sq(c[0])+sq(c[1])+sq(c[2]-zc)<=r*r)); chk("capsule member (witness z)",S); S.pop()
S.push(); S.add(z>=-h/2,z<=h/2, sq(x0)+sq(x1)+sq(x2-z)<=r*r, x0*l0+x1*l1+x2*l2 > c[0]*l0+c[1]*l1+c[2]*l2); chk("capsule extremal (plain)",S); S.pop()
w=Real('w')
S3=Solver(); S3.add(r>0,h>0,s>=0, z>=-h/2,z<=h/2, w<=r*s, w+z*l2 > r*s+If(l2>0,h/2,-h/2)*l2); chk("capsule extremal (abstract core)",S3)
