# Nesterov project_triangle_origin: KKT per leaf under the GJK precondition (a newest, previous closest point in relint(bc))
from z3 import *
import time,sys
exec(open('t4.py').read().split("A={'a':1}")[0])
def chk(name,S,to=120000):
    S.set("timeout",to); t0=time.time(); r=S.check(); print(f"{name:40s}",r,round(time.time()-t0,2)); sys.stdout.flush()
A={'a':1};B={'b':1};C={'c':1}
AB=lin((1,B),(-1,A)); AC=lin((1,C),(-1,A)); mA=lin((-1,A))
detG = aa*(bb*cc-bc*bc) - ab*(ab*cc-bc*ac) + ac*(ab*bc-bb*ac)
psd=[aa>=0,bb>=0,cc>=0, aa*bb-ab*ab>=0, aa*cc-ac*ac>=0, bb*cc-bc*bc>=0, detG>=0]
# abc = AB x AC ; (abc x AC).(-a) = [(AB x AC) x AC].(-a) = (AC (AB.AC) - AB (AC.AC)).(-a)   using (u x v) x w = v(u.w) - u(v.w)
ABAC=dot(AB,AC); ACAC=dot(AC,AC); ABAB=dot(AB,AB)
edge_ac2o = ABAC*dot(AC,mA) - ACAC*dot(AB,mA)
# AB x abc = AB x (AB x AC) = AB (AB.AC) - AC (AB.AB)
edge_ab2o = ABAB*0  # placeholder
edge_ab2o = ABAC*dot(AB,mA) - ABAB*dot(AC,mA)
towards_c = dot(AC,mA); towards_b = dot(AB,mA)
nls = ABAB*ACAC-ABAC*ABAC
# precondition: previous closest point x = beta b + gamma c, beta,gamma>0, sum 1, x.(b-c)=0, a.x < x.x
be,ga=Reals('be ga')
X=lin((be,B),(ga,C))
pre=[be>0,ga>0,be+ga==1, dot(X,lin((1,B),(-1,C)))==0, dot(X,A)<dot(X,X)]
def kkt(v): return And(dot(v,A)>=dot(v,v), dot(v,B)>=dot(v,v), dot(v,C)>=dot(v,v))
def seg(P,Q,PQ,w):  # origin_to_segment(a=P,b=Q,ab=PQ,ab_dot_a0=w): ((PQ.Q) P + w Q)/PQ.PQ
    den=dot(PQ,PQ); return lin((dot(PQ,Q)/den,P),(w/den,Q)), den
leaves=[]
v,den=seg(A,C,AC,towards_c); leaves.append(("ac",[edge_ac2o>=0,towards_c>=0,den>0],v))
v,den=seg(A,B,AB,towards_b); leaves.append(("ac>=0,tc<0,tb>=0 -> ab",[edge_ac2o>=0,towards_c<0,towards_b>=0,den>0],v))
leaves.append(("ac>=0,tc<0,tb<0 -> a",[edge_ac2o>=0,towards_c<0,towards_b<0],A))
v,den=seg(A,B,AB,towards_b); leaves.append(("ab2o>=0,tb>=0 -> ab",[edge_ac2o<0,edge_ab2o>=0,towards_b>=0,den>0],v))
leaves.append(("ab2o>=0,tb<0 -> a",[edge_ac2o<0,edge_ab2o>=0,towards_b<0],A))
for name,pc,v in leaves:
    S=Solver(); S.add(*psd,*pre); S.add(*pc); S.add(Not(kkt(v))); chk(name,S)
# face leaf: ray = -(abc.(-a))/(abc.abc) * abc ; abc.x = T for all x in {a,b,c} up to sign; v.x = (T^2/nls), v.v = T^2/nls -> KKT equality; membership needs bary>=0
