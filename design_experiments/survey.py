import ast, sys, os, collections
root="/repo/distance3d"
skip={"test","visualization.py","plotting.py","random.py","benchmark.py","io.py"}
np_calls=collections.Counter(); node_types=collections.Counter(); other_calls=collections.Counter(); methods=collections.Counter()
per_file={}
for dp,dn,fn in os.walk(root):
    if "/test" in dp: continue
    for f in fn:
        if not f.endswith(".py") or f in skip: continue
        p=os.path.join(dp,f); t=ast.parse(open(p).read())
        for fd in ast.walk(t):
            if isinstance(fd,(ast.FunctionDef,)):
                for n in ast.walk(fd):
                    node_types[type(n).__name__]+=1
                    if isinstance(n,ast.Call):
                        fu=n.func
                        if isinstance(fu,ast.Attribute):
                            base=fu.value
                            chain=[]
                            while isinstance(base,ast.Attribute): chain.append(base.attr); base=base.value
                            if isinstance(base,ast.Name) and base.id in("np","math","numba"):
                                np_calls[base.id+"."+".".join(reversed(chain+[]))+("." if chain else "")+fu.attr]+=1
                            else: methods["."+fu.attr]+=1
                        elif isinstance(fu,ast.Name): other_calls[fu.id]+=1
print("NODE TYPES:",sorted(node_types.items(),key=lambda x:-x[1]))
print("\nNP/MATH CALLS:",sorted(np_calls.items(),key=lambda x:-x[1]))
print("\nMETHOD CALLS:",sorted(methods.items(),key=lambda x:-x[1])[:70])
builtins={k:v for k,v in other_calls.items() if k in dir(__builtins__)}
print("\nBUILTINS:",sorted(builtins.items(),key=lambda x:-x[1]))
