from z3 import *
import time, sys
def chk(name, s, to=120000):
    s.set("timeout", to)
    t=time.time(); r=s.check(); print(name, r, round(time.time()-t,2)); sys.stdout.flush()
    return r
def V(n): return [Real(f"{n}{i}") for i in range(3)]
def dot(a,b): return sum(x*y for x,y in zip(a,b))
def sub(a,b): return [x-y for x,y in zip(a,b)]
def add(a,b): return [x+y for x,y in zip(a,b)]
def sc(k,a): return [k*x for x in a]
def cross(a,b): return [a[1]*b[2]-a[2]*b[1], a[2]*b[0]-a[0]*b[2], a[0]*b[1]-a[1]*b[0]]
a,b,c=V('a'),V('b'),V('c')
ab=sub(b,a); ac=sub(c,a); bc=sub(c,b)
n=cross(ab,ac); nls=dot(n,n)
ap=sc(-1,a); d1=dot(ab,ap); d2=dot(ac,ap)
bp=sc(-1,b); d3=dot(ab,bp); d4=dot(ac,bp)
cp=sc(-1,c); d5=dot(ab,cp); d6=dot(ac,cp)
vc=d1*d4-d3*d2; vb=d5*d2-d1*d6; va=d3*d6-d5*d4
def kkt(v): return And(dot(v,a)>=dot(v,v), dot(v,b)>=dot(v,v), dot(v,c)>=dot(v,v))
nondeg = nls>0
# path conditions in order
pA = And(d1<=0,d2<=0)
pB = And(d3>=0, d4<=d3)
pAB = And(vc<=0, d1>=0, d3<=0)
pC = And(d6>=0, d5<=d6)
pAC = And(vb<=0, d2>=0, d6<=0)
pBC = And(va<=0, d4-d3>=0, d5-d6>=0)
cases=[]
cases.append(("A",[pA], a))
cases.append(("B",[Not(pA),pB], b))
t=Real('t')
cases.append(("AB",[Not(pA),Not(pB),pAB, t*(d1-d3)==d1], add(a,sc(t,ab))))
cases.append(("C",[Not(pA),Not(pB),Not(pAB),pC], c))
cases.append(("AC",[Not(pA),Not(pB),Not(pAB),Not(pC),pAC, t*(d2-d6)==d2], add(a,sc(t,ac))))
cases.append(("BC",[Not(pA),Not(pB),Not(pAB),Not(pC),Not(pAC),pBC, t*((d4-d3)+(d5-d6))==(d4-d3)], add(b,sc(t,bc))))
k=Real('k')
cases.append(("face",[Not(pA),Not(pB),Not(pAB),Not(pC),Not(pAC),Not(pBC), k*(3*nls)==dot(add(add(a,b),c),n)], sc(k,n)))
which = sys.argv[1:] 
for name,pc,v in cases:
    if which and name not in which: continue
    S=Solver(); S.add(nondeg); S.add(*pc); S.add(Not(kkt(v)))
    chk("tri KKT "+name,S)
