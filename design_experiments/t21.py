# re-run earlier "unknown" queries with the dedicated QF_NRA solver (nlsat) instead of the default combined solver
from z3 import *
import time,sys,re
src3=open('t3.py').read()
src3=src3.replace("S=Solver(); S.add(nondeg)","S=SolverFor('QF_NRA'); S.add(nondeg)")
src3=src3.replace("def chk(name, s, to=120000):","def chk(name, s, to=60000):")
print("== t3 raw-coordinate triangle with SolverFor('QF_NRA')"); sys.stdout.flush()
sys.argv=['t3.py','AB','AC','BC','face']
exec(src3)
