from z3 import *
import time
a,e,b,c,f,rr,eps=Reals('a e b c f rr eps')
S=Solver(); S.set("timeout",120000)
# gram of (d1,d2,r): psd
S.add(a>=0,e>=0,rr>=0,a*e-b*b>=0,a*rr-c*c>=0,e*rr-f*f>=0, a*(e*rr-f*f)-b*(b*rr-f*c)+c*(b*f-e*c)>=0)
S.add(eps>0)
def clamp(x): return If(x<0,0,If(x>1,1,x))
# general nondegenerate branch: a>=eps, e>eps
S.add(a>=eps, e>eps)
denom=a*e-b*b
s0=If(denom!=0, clamp((b*f-c*e)/denom), 0)
t0=(b*s0+f)/e
s=If(t0<0, clamp(-c/a), If(t0>1, clamp((b-c)/a), s0))
t=If(t0<0, 0, If(t0>1, 1, t0))
# q(s,t)=|r + s d1 - t d2|^2 ; grad_s = 2(c + s a - t b); grad_t = 2(-f - s b + t e)
gs=c+s*a-t*b; gt=-f-s*b+t*e
kkt=And(s>=0,s<=1,t>=0,t<=1,
        Implies(And(s>0,s<1), gs==0), Implies(s==0, gs>=0), Implies(s==1, gs<=0),
        Implies(And(t>0,t<1), gt==0), Implies(t==0, gt>=0), Implies(t==1, gt<=0))
S.add(Not(kkt))
t1=time.time(); print("segseg KKT general:", S.check(), round(time.time()-t1,2))
