from z3 import *
import time, sys
def chk(name, s, to=120000):
    s.set("timeout", to)
    t=time.time(); r=s.check(); print(name, r, round(time.time()-t,2)); sys.stdout.flush()
    return r
aa,ab,ac,bb,bc,cc,T=Reals('aa ab ac bb bc cc T')
G={('a','a'):aa,('a','b'):ab,('a','c'):ac,('b','b'):bb,('b','c'):bc,('c','c'):cc}
def g(x,y): return G[(x,y)] if (x,y) in G else G[(y,x)]
# vector = dict basis->coef
def dot(u,v): return sum(cu*cv*g(x,y) for x,cu in u.items() for y,cv in v.items())
def lin(*terms):
    r={}
    for k,u in terms:
        for x,c in u.items(): r[x]=r.get(x,0)+k*c
    return r
A={'a':1};B={'b':1};C={'c':1}
AB=lin((1,B),(-1,A)); AC=lin((1,C),(-1,A)); BC=lin((1,C),(-1,B))
mA=lin((-1,A)); mB=lin((-1,B)); mC=lin((-1,C))
d1=dot(AB,mA); d2=dot(AC,mA); d3=dot(AB,mB); d4=dot(AC,mB); d5=dot(AB,mC); d6=dot(AC,mC)
vc=d1*d4-d3*d2; vb=d5*d2-d1*d6; va=d3*d6-d5*d4
detG = aa*(bb*cc-bc*bc) - ab*(ab*cc-bc*ac) + ac*(ab*bc-bb*ac)
psd=[aa>=0,bb>=0,cc>=0, aa*bb-ab*ab>=0, aa*cc-ac*ac>=0, bb*cc-bc*bc>=0, detG>=0]
nls = dot(AB,AB)*dot(AC,AC)-dot(AB,AC)**2   # |ab x ac|^2
def kkt(v): return And(dot(v,A)>=dot(v,v), dot(v,B)>=dot(v,v), dot(v,C)>=dot(v,v))
pA = And(d1<=0,d2<=0); pB = And(d3>=0, d4<=d3); pAB = And(vc<=0, d1>=0, d3<=0)
pC = And(d6>=0, d5<=d6); pAC = And(vb<=0, d2>=0, d6<=0); pBC = And(va<=0, d4-d3>=0, d5-d6>=0)
t=Real('t')
cases=[("A",[pA],A),("B",[Not(pA),pB],B),
 ("AB",[Not(pA),Not(pB),pAB,t*(d1-d3)==d1], lin((1,A),(t,AB))),
 ("C",[Not(pA),Not(pB),Not(pAB),pC],C),
 ("AC",[Not(pA),Not(pB),Not(pAB),Not(pC),pAC,t*(d2-d6)==d2], lin((1,A),(t,AC))),
 ("BC",[Not(pA),Not(pB),Not(pAB),Not(pC),Not(pAC),pBC,t*((d4-d3)+(d5-d6))==(d4-d3)], lin((1,B),(t,BC)))]
# face: v = n * ((a+b+c).n)/(3 nls); n = ABxAC. n.a = n.b = n.c = T (triple product [a,b,c]) ; T^2 = detG
# v.x = k * T where k = (3T)/(3 nls) = T/nls ; v.v = k^2 nls
k=Real('k')
for name,pc,v in cases:
    S=Solver(); S.add(*psd); S.add(nls>0); S.add(*pc); S.add(Not(kkt(v)))
    chk("gram tri KKT "+name,S)
S=Solver(); S.add(*psd); S.add(nls>0, T*T==detG, k*nls==T)
S.add(Not(pA),Not(pB),Not(pAB),Not(pC),Not(pAC),Not(pBC))
vv=k*k*nls; vx=k*T
S.add(Not(vx>=vv)); chk("gram tri KKT face",S)
# membership for face: bary = (va,vb,vc)/(va+vb+vc) all >=0 
S=Solver(); S.add(*psd); S.add(nls>0)
S.add(Not(pA),Not(pB),Not(pAB),Not(pC),Not(pAC),Not(pBC))
S.add(Or(va<0,vb<0,vc<0)); chk("gram tri face bary>=0",S)
S=Solver(); S.add(Not(va+vb+vc==nls)); chk("va+vb+vc==nls identity",S)
