"""Sweep of the 34 distance functions: feasibility, consistency, optimality vs an SLSQP/grid oracle,
on random and lattice (exactly degenerate) inputs. Design-time reconnaissance only."""
import shim, sys, numpy as np, itertools, traceback
from scipy.optimize import minimize
import distance3d.distance as D
import pytransform3d.rotations as pr
rs=np.random.RandomState(int(sys.argv[1]) if len(sys.argv)>1 else 0)
CUBE=[np.array(m,dtype=float) for m in [np.eye(3), [[0,1,0],[0,0,1],[1,0,0]], [[0,0,1],[1,0,0],[0,1,0]], [[1,0,0],[0,0,-1],[0,1,0]], [[0,-1,0],[1,0,0],[0,0,1]]]]
def rot(lat): return CUBE[rs.randint(len(CUBE))].copy() if lat else pr.random_matrix(rs)
def vec(lat,scale=2): return rs.choice([-2,-1,-0.5,0,0.5,1,2],3).astype(float) if lat else rs.randn(3)*scale
def size(lat,n=None):
    v = rs.choice([0.5,1,2], n if n else 1).astype(float) if lat else 0.3+rs.rand(n if n else 1)*2
    return v if n else float(v[0])
def unit(lat): 
    R=rot(lat); return np.ascontiguousarray(R[:,2])
class P:  # primitive: args(), pt(theta), x0s, bounds, cons, contains(p)
    pass
def mk(kind,lat):
    p=P(); p.kind=kind; B=1e3
    if kind=="point":
        c=vec(lat); p.args=(c,); p.dim=0; p.pt=lambda th:c; p.bounds=[]; p.cons=[]; p.contains=lambda q:np.linalg.norm(q-c)
    elif kind=="line":
        c=vec(lat); u=unit(lat); p.args=(c,u); p.dim=1; p.pt=lambda th:c+th[0]*u; p.bounds=[(-B,B)]; p.cons=[]
        p.contains=lambda q:np.linalg.norm((q-c)-((q-c)@u)*u)
    elif kind=="segment":
        s=vec(lat); e=s+ (rot(lat)[:,0]*size(lat)); p.args=(s,e); p.dim=1; p.pt=lambda th:s+th[0]*(e-s); p.bounds=[(0,1)]; p.cons=[]
        def cont(q):
            t=np.clip((q-s)@(e-s)/((e-s)@(e-s)),0,1); return np.linalg.norm(q-(s+t*(e-s)))
        p.contains=cont
    elif kind=="plane":
        c=vec(lat); R=rot(lat); n=np.ascontiguousarray(R[:,2]); x=R[:,0]; y=R[:,1]; p.args=(c,n); p.dim=2
        p.pt=lambda th:c+th[0]*x+th[1]*y; p.bounds=[(-B,B)]*2; p.cons=[]; p.contains=lambda q:abs((q-c)@n)
    elif kind=="triangle":
        while True:
            T=np.array([vec(lat) for _ in range(3)])
            if np.linalg.norm(np.cross(T[1]-T[0],T[2]-T[0]))>0.2: break
        p.args=(T,); p.dim=2; p.pt=lambda th:T[0]+th[0]*(T[1]-T[0])+th[1]*(T[2]-T[0]); p.bounds=[(0,1)]*2
        p.cons=[{'type':'ineq','fun':lambda th,o: 1-th[o]-th[o+1]}]
        def cont(q):
            d,_=D.point_to_triangle(np.ascontiguousarray(q),T); return d   # uses library (only for membership of a returned point)
        n=np.cross(T[1]-T[0],T[2]-T[0]); n/=np.linalg.norm(n)
        def cont2(q):
            w=q-T[0]; off=abs(w@n); A=np.array([T[1]-T[0],T[2]-T[0]]).T; uv,*_=np.linalg.lstsq(A,w-(w@n)*n,rcond=None)
            viol=max(0,-uv[0],-uv[1],uv[0]+uv[1]-1); return off+viol
        p.contains=cont2
    elif kind=="rectangle":
        c=vec(lat); R=rot(lat); ax=np.ascontiguousarray(R[:,:2].T); l=size(lat,2); p.args=(c,ax,l); p.dim=2
        p.pt=lambda th:c+th[0]*ax[0]+th[1]*ax[1]; p.bounds=[(-l[0]/2,l[0]/2),(-l[1]/2,l[1]/2)]; p.cons=[]
        def cont(q):
            w=q-c; a=w@ax[0]; b=w@ax[1]; off=np.linalg.norm(w-a*ax[0]-b*ax[1]); return off+max(0,abs(a)-l[0]/2)+max(0,abs(b)-l[1]/2)
        p.contains=cont
    elif kind=="box":
        T=np.eye(4); T[:3,:3]=rot(lat); T[:3,3]=vec(lat); s=size(lat,3); p.args=(T,s); p.dim=3
        p.pt=lambda th:T[:3,3]+T[:3,:3]@th; p.bounds=[(-s[i]/2,s[i]/2) for i in range(3)]; p.cons=[]
        p.contains=lambda q: np.maximum(np.abs(T[:3,:3].T@(q-T[:3,3]))-s/2,0).sum()
    elif kind in("disk","circle"):
        c=vec(lat); R=rot(lat); n=np.ascontiguousarray(R[:,2]); r=size(lat); p.args=(c,r,n); 
        if kind=="disk":
            p.dim=2; p.pt=lambda th:c+th[0]*R[:,0]+th[1]*R[:,1]; p.bounds=[(-r,r)]*2
            p.cons=[{'type':'ineq','fun':lambda th,o: r*r-th[o]**2-th[o+1]**2}]
            def cont(q):
                w=q-c; a=w@R[:,0]; b=w@R[:,1]; return abs(w@n)+max(0,np.hypot(a,b)-r)
        else:
            p.dim=1; p.pt=lambda th:c+r*(np.cos(th[0])*R[:,0]+np.sin(th[0])*R[:,1]); p.bounds=[(-4,4)]; p.cons=[]; p.grid=True
            def cont(q):
                w=q-c; a=w@R[:,0]; b=w@R[:,1]; return abs(w@n)+abs(np.hypot(a,b)-r)
        p.contains=cont
    elif kind=="cylinder":
        T=np.eye(4); T[:3,:3]=rot(lat); T[:3,3]=vec(lat); r=size(lat); L=size(lat); p.args=(T,r,L); p.dim=3
        p.pt=lambda th:T[:3,3]+T[:3,:3]@th; p.bounds=[(-r,r),(-r,r),(-L/2,L/2)]
        p.cons=[{'type':'ineq','fun':lambda th,o: r*r-th[o]**2-th[o+1]**2}]
        def cont(q):
            w=T[:3,:3].T@(q-T[:3,3]); return max(0,np.hypot(w[0],w[1])-r)+max(0,abs(w[2])-L/2)
        p.contains=cont
    elif kind=="ellipsoid":
        T=np.eye(4); T[:3,:3]=rot(lat); T[:3,3]=vec(lat); rad=size(lat,3); p.args=(T,rad); p.dim=3
        p.pt=lambda th:T[:3,3]+T[:3,:3]@th; p.bounds=[(-rad[i],rad[i]) for i in range(3)]
        p.cons=[{'type':'ineq','fun':lambda th,o: 1-sum((th[o+i]/rad[i])**2 for i in range(3))}]
        def cont(q):
            w=T[:3,:3].T@(q-T[:3,3]); return max(0,np.sqrt(((w/rad)**2).sum())-1)*rad.min()
        p.contains=cont
    return p
def oracle(p1,p2):
    n1,n2=p1.dim,p2.dim
    f=lambda th: ((p1.pt(th[:n1])-p2.pt(th[n1:]))**2).sum()
    cons=[{'type':'ineq','fun':(lambda th,c=c,o=0:c['fun'](th,o))} for c in p1.cons]+[{'type':'ineq','fun':(lambda th,c=c,o=n1:c['fun'](th,o))} for c in p2.cons]
    best=np.inf
    starts=[]
    for _ in range(12):
        th=[]
        for (lo,hi) in p1.bounds+p2.bounds:
            lo2,hi2=max(lo,-5),min(hi,5); th.append(rs.uniform(lo2,hi2))
        starts.append(np.array(th))
    if getattr(p1,'grid',False) or getattr(p2,'grid',False):
        starts=[]
        for a in np.linspace(-np.pi,np.pi,25):
            th=[rs.uniform(max(lo,-5),min(hi,5)) for (lo,hi) in p1.bounds+p2.bounds]
            if getattr(p1,'grid',False): th[0]=a
            if getattr(p2,'grid',False): th[n1]=a
            starts.append(np.array(th))
    if n1+n2==0: return np.sqrt(f(np.zeros(0)))
    for th0 in starts:
        r=minimize(f,th0,method='SLSQP',bounds=p1.bounds+p2.bounds,constraints=cons,options={'ftol':1e-14,'maxiter':300})
        if r.fun<best and all(c['fun'](r.x)>-1e-7 for c in cons): best=r.fun
    return np.sqrt(max(best,0))
K={"point":"point","line":"line","line_segment":"segment","plane":"plane","triangle":"triangle","rectangle":"rectangle","disk":"disk","circle":"circle","box":"box","ellipsoid":"ellipsoid","cylinder":"cylinder"}
def split(name):
    for a in sorted(K,key=len,reverse=True):
        if name.startswith(a+"_to_"):
            return a,name[len(a)+4:]
stats={}
N=int(sys.argv[2]) if len(sys.argv)>2 else 12
for name in D.__all__:
    a,b=split(name); fn=getattr(D,name)
    st=dict(n=0,exc=0,infeas=0,incons=0,subopt=0,superopt=0,ex=None)
    for it in range(N):
        lat = it%2==1
        p1=mk(K[a],lat); p2=mk(K[b],lat)
        try:
            out=fn(*[np.ascontiguousarray(x) if isinstance(x,np.ndarray) else x for x in p1.args+p2.args])
        except Exception as e:
            st['exc']+=1; st['ex']=st['ex'] or ("EXC",type(e).__name__,str(e)[:80],lat); continue
        st['n']+=1
        d=float(out[0]); pts=[np.asarray(o,dtype=float) for o in out[1:] if isinstance(o,np.ndarray) and np.asarray(o).shape==(3,)]
        if a=="point": c1,c2=p1.args[0],pts[0]
        elif name.startswith("plane_to_") and b!="plane": c1,c2=pts[0],pts[1]
        else: c1,c2=(pts[0],pts[1]) if len(pts)>=2 else (None,None)
        tol=1e-6
        if c1 is not None:
            m1,m2=p1.contains(c1),p2.contains(c2)
            if name.startswith("plane_to_") and b!="plane" and (m1>tol or m2>tol):  # order may be swapped
                m1b,m2b=p1.contains(c2),p2.contains(c1)
                if max(m1b,m2b)<max(m1,m2): m1,m2=m1b,m2b
            if max(m1,m2)>tol:
                st['infeas']+=1; st['ex']=st['ex'] or ("INFEAS",round(m1,6),round(m2,6),lat,[x.tolist() if isinstance(x,np.ndarray) else x for x in p1.args+p2.args])
            if abs(np.linalg.norm(c1-c2)-d)>1e-6: st['incons']+=1; st['ex']=st['ex'] or ("INCONS",d,float(np.linalg.norm(c1-c2)),lat)
        do=oracle(p1,p2)
        if d>do+max(1e-4,6e-3*(K[a]=="circle" or K[b]=="circle")): 
            st['subopt']+=1; st['ex']=st['ex'] or ("SUBOPT",round(d,6),round(do,6),lat,[x.tolist() if isinstance(x,np.ndarray) else x for x in p1.args+p2.args])
        if d<do-1e-4: st['superopt']+=1
    stats[name]=st
    print(f"{name:32s} n={st['n']:3d} exc={st['exc']} infeas={st['infeas']} incons={st['incons']} subopt={st['subopt']} below_oracle={st['superopt']}  {'' if not st['ex'] else str(st['ex'])[:230]}"); sys.stdout.flush()
