import shim, numpy as np
np.set_printoptions(precision=5, suppress=True)
from distance3d import colliders, gjk, epa, mpr
# row h: sphere vs cone (generic support) with nesterov
s = colliders.Sphere(np.array([0.,0,0]), 1.0)
T=np.eye(4); T[:3,3]=[5,0,0]
cone = colliders.Cone(T, 1.0, 1.0)
print("jolt     sphere-cone:", gjk.gjk_distance_jolt(s, cone)[0])
print("nesterov sphere-cone:", gjk.gjk_nesterov_accelerated_distance(s, cone))
cyl = colliders.Cylinder(T, 1.0, 1.0)
print("jolt     sphere-cyl:", gjk.gjk_distance_jolt(s, cyl)[0], " nesterov:", gjk.gjk_nesterov_accelerated_distance(s, cyl))
disk = colliders.Disk(np.array([5.,0,0]), 1.0, np.array([0,0,1.]))
print("jolt     sphere-disk:", gjk.gjk_distance_jolt(s, disk)[0], " nesterov:", gjk.gjk_nesterov_accelerated_distance(s, disk))
# row i: EPA winding
b1 = colliders.Box(np.eye(4), np.array([2.,2,2]))
T2=np.eye(4); T2[:3,3]=[1.5,0.2,0.1]
b2 = colliders.Box(T2, np.array([2.,2,2]))
d,a,b,simplex = gjk.gjk_distance_jolt(b1,b2)
print("gjk dist", d)
for perm in [(0,1,2,3),(0,2,1,3)]:
    sx = simplex[list(perm)]
    try:
        mtv, faces, ok = epa.epa(sx, b1, b2)
        print("perm",perm,"mtv",mtv,"|mtv|",np.linalg.norm(mtv),"success",ok)
    except Exception as e: print("perm",perm,"EXC",type(e).__name__,e)
print("mpr:", mpr.mpr_penetration(b1,b2))
