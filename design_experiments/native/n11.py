import shim, numpy as np, sys
from scipy.optimize import minimize
from distance3d import colliders, gjk
import pytransform3d.rotations as pr
rs=np.random.RandomState(11)
CUBE=[np.eye(3), np.array([[0,1,0],[0,0,1],[1,0,0.]]), np.array([[1,0,0],[0,0,-1],[0,1,0.]])]
def box_dist(T1,s1,T2,s2):
    f=lambda th: ((T1[:3,3]+T1[:3,:3]@th[:3]-T2[:3,3]-T2[:3,:3]@th[3:])**2).sum()
    b=[(-s1[i]/2,s1[i]/2) for i in range(3)]+[(-s2[i]/2,s2[i]/2) for i in range(3)]
    best=np.inf
    for _ in range(6):
        x0=np.array([rs.uniform(lo,hi) for lo,hi in b]); r=minimize(f,x0,method='L-BFGS-B',bounds=b,options={'ftol':1e-16,'gtol':1e-12})
        best=min(best,r.fun)
    return np.sqrt(best)
bad=0; n=0; worst=0; exc=0
for it in range(300):
    lat=it%2==1
    T1=np.eye(4); T2=np.eye(4)
    if lat:
        T1[:3,:3]=CUBE[rs.randint(3)]; T2[:3,:3]=CUBE[rs.randint(3)]; T2[:3,3]=rs.choice([-3,-2,-1.5,-1,0,1,1.5,2,3],3)
        s1=rs.choice([0.5,1,2],3).astype(float); s2=rs.choice([0.5,1,2],3).astype(float)
    else:
        T1[:3,:3]=pr.random_matrix(rs); T2[:3,:3]=pr.random_matrix(rs); T2[:3,3]=rs.randn(3)*2; s1=0.3+rs.rand(3)*2; s2=0.3+rs.rand(3)*2
    do=box_dist(T1,s1,T2,s2)
    try: d,a,b,_=gjk.gjk_distance_jolt(colliders.Box(T1,s1),colliders.Box(T2,s2))
    except Exception as e: exc+=1; print("EXC",type(e).__name__,str(e)[:80],lat); continue
    n+=1; err=abs(d-do); worst=max(worst,err)
    ok_pts = True
    if d<1e300:
        la=np.abs(T1[:3,:3].T@(a-T1[:3,3]))-s1/2; lb=np.abs(T2[:3,:3].T@(b-T2[:3,3]))-s2/2
        ok_pts = la.max()<1e-6 and lb.max()<1e-6 and abs(np.linalg.norm(a-b)-d)<1e-6
    if err>1e-5 or not ok_pts:
        bad+=1
        if bad<=5: print("BAD lat",lat,"gjk",d,"oracle",do,"pts_ok",ok_pts,"T2",T2[:3,3].tolist(),s1.tolist(),s2.tolist())
print("n",n,"bad",bad,"worst err",worst,"exc",exc)
