import shim, numpy as np
import distance3d.containment_test as ct
import pytransform3d.rotations as pr
rs=np.random.RandomState(7)
def pose():
    T=np.eye(4); T[:3,:3]=pr.random_matrix(rs); T[:3,3]=rs.randn(3); return T
def local(T,P): return (P-T[:3,3])@T[:3,:3]
N=4000; bad={}
for it in range(40):
    T=pose(); r=0.3+rs.rand(); h=0.3+rs.rand(); rad=0.3+rs.rand(3); s=0.3+rs.rand(3)
    P=rs.randn(N,3)*1.2+T[:3,3]
    # add boundary-ish points: axis points, apex, rim
    L=local(T,P)
    spec={}
    spec['sphere']=(np.linalg.norm(P-T[:3,3],axis=1)-r, ct.points_in_sphere(P,T[:3,3],r))
    zc=np.clip(L[:,2],-h/2,h/2); spec['capsule']=(np.sqrt(L[:,0]**2+L[:,1]**2+(L[:,2]-zc)**2)-r, ct.points_in_capsule(P,T,r,h))
    spec['ellipsoid']=(np.sqrt(((L/rad)**2).sum(axis=1))-1, ct.points_in_ellipsoid(P,T,rad))
    spec['cylinder']=(np.maximum(np.hypot(L[:,0],L[:,1])-r, np.abs(L[:,2])-h/2), ct.points_in_cylinder(P,T,r,h))
    spec['box']=((np.abs(L)-s/2).max(axis=1), ct.points_in_box(P,T,s))
    rho=np.hypot(L[:,0],L[:,1]); z=L[:,2]
    spec['cone']=(np.maximum(np.maximum(-z,z-h), rho-r*(1-z/h)), ct.points_in_cone(P,T,r,h))
    for k,(sd,res) in spec.items():
        wrong=((sd<-1e-9)&(~res))|((sd>1e-9)&res)
        if wrong.any(): bad[k]=bad.get(k,0)+int(wrong.sum())
print("mismatches:",bad if bad else "none", "over",40*N,"points per shape")
# disk: in-plane points
T=pose(); r=0.8; c=T[:3,3]; n=np.ascontiguousarray(T[:3,2])
Q=c+ (rs.randn(2000,2)@T[:3,:2].T)
rho=np.linalg.norm(Q-c,axis=1); res=ct.points_in_disk(Q,c,r,n)
print("disk in-plane mismatches:", int((((rho<r-1e-9)&~res)|((rho>r+1e-9)&res)).sum()), " (rounding of in-plane points may exceed 10 eps:", int((np.abs((Q-c)@n)>10*np.finfo(float).eps).sum()),")")
