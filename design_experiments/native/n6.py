import shim, numpy as np
from distance3d import colliders, random as r3
import pytransform3d.rotations as pr
rs=np.random.RandomState(3)
E=np.eye(3)
def chk(name, mk, n=300):
    worst_enc=0; worst_tight=0
    for _ in range(n):
        c=mk()
        bb=c.aabb()
        for k in range(3):
            hi=c.support_function(E[k].copy())[k]; lo=c.support_function(-E[k].copy())[k]
            worst_enc=max(worst_enc, hi-bb[k,1], bb[k,0]-lo)
            worst_tight=max(worst_tight, bb[k,1]-hi, lo-bb[k,0])
    print(f"{name:10s} max protrusion {worst_enc:.3e}  max slack {worst_tight:.3e}")
def pose():
    T=np.eye(4); T[:3,:3]=pr.random_matrix(rs); T[:3,3]=rs.randn(3); return T
chk("sphere", lambda: colliders.Sphere(rs.randn(3), rs.rand()+0.1))
chk("box", lambda: colliders.Box(pose(), rs.rand(3)+0.1))
chk("cylinder", lambda: colliders.Cylinder(pose(), rs.rand()+0.1, rs.rand()+0.1))
chk("capsule", lambda: colliders.Capsule(pose(), rs.rand()+0.1, rs.rand()+0.1))
chk("ellipsoid", lambda: colliders.Ellipsoid(pose(), rs.rand(3)+0.1))
chk("cone", lambda: colliders.Cone(pose(), rs.rand()+0.1, rs.rand()+0.1))
def disk():
    T=pose(); return colliders.Disk(T[:3,3].copy(), rs.rand()+0.1, T[:3,2].copy())
chk("disk", disk)
def ell():
    T=pose(); return colliders.Ellipse(T[:3,3].copy(), np.ascontiguousarray(T[:3,:2].T), rs.rand(2)+0.1)
chk("ellipse", ell)
chk("margin(box)", lambda: colliders.Margin(colliders.Box(pose(), rs.rand(3)+0.1), 0.1))
chk("margin(cyl)", lambda: colliders.Margin(colliders.Cylinder(pose(), 0.5, 1.0), 0.1))
