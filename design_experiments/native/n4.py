import shim, numpy as np
from distance3d import colliders, gjk, epa
rs=np.random.RandomState(1)
bad=0; tot=0; fails=0
dirs = rs.randn(20000,3); dirs/=np.linalg.norm(dirs,axis=1)[:,None]
for it in range(300):
    v1 = rs.randn(8,3); v2 = rs.randn(8,3)*0.8 + rs.randn(3)*0.3
    c1=colliders.ConvexHullVertices(v1); c2=colliders.ConvexHullVertices(v2)
    d,a,b,sx = gjk.gjk_distance_jolt(c1,c2)
    if d>0: continue
    try: mtv,faces,ok = epa.epa(sx,c1,c2)
    except AssertionError: fails+=1; continue
    if not ok: fails+=1; continue
    tot+=1
    # brute-force depth: min over dirs of h_{A-B}(n)
    h = (v1@dirs.T).max(axis=0) - (v2@dirs.T).min(axis=0)
    depth = h.min()
    L=np.linalg.norm(mtv)
    if L > depth*1.05+1e-6:
        bad+=1
        if bad<=3:
            vol = np.dot(np.cross(sx[1]-sx[0], sx[2]-sx[0]), sx[3]-sx[0])
            print("BAD it",it,"|mtv|",L,"bruteforce depth<=",depth,"simplex signed vol",vol)
print("tot",tot,"bad",bad,"nosuccess",fails)
