import os, sys, types, warnings
warnings.filterwarnings("ignore")
import numpy as np
if not hasattr(np, "row_stack"): np.row_stack = np.vstack
# stub visualization (open3d unavailable)
vis = types.ModuleType("distance3d.visualization")
class RigidBodyTetrahedralMesh:
    def __init__(self,*a,**k): pass
    def set_data(self,*a,**k): pass
vis.RigidBodyTetrahedralMesh = RigidBodyTetrahedralMesh
vis.Mesh = RigidBodyTetrahedralMesh; vis.Ellipse = RigidBodyTetrahedralMesh
sys.modules["distance3d.visualization"] = vis
sys.path.insert(0, "/repo")
