import shim, numpy as np
from distance3d.aabb_tree import AabbTree, all_aabbs_overlap
# row c: empty tree
t = AabbTree()
for name, f in [("overlaps_aabb", lambda: t.overlaps_aabb(np.array([[0,1],[0,1],[0,1.]]))),
                ("get_root_aabb", lambda: t.get_root_aabb()),
                ("overlaps_aabb_tree", lambda: t.overlaps_aabb_tree(AabbTree()))]:
    try: print(name, "->", f())
    except Exception as e: print(name, "EXC", type(e).__name__, e)
# row d: sort multi-batch
rs = np.random.RandomState(0)
def boxes(n):
    lo = rs.rand(n,3)*10; hi = lo + rs.rand(n,3)
    return np.dstack((lo,hi))
for mode in ["none","sort","shuffle"]:
    t = AabbTree(); b1=boxes(5); b2=boxes(4)
    try:
        t.insert_aabbs(b1, list(range(5)), pre_insertion_methode=mode)
        t.insert_aabbs(b2, list(range(5,9)), pre_insertion_methode=mode)
        allb = np.concatenate((b1,b2))
        q = np.array([[0,10],[0,10],[0,10.]])
        _, ov = t.overlaps_aabb(q)
        got = sorted(t.external_data_list[i] for i in ov)
        print(mode, "leaves found", got, "nodes", len(t.nodes))
    except Exception as e: print(mode, "EXC", type(e).__name__, e)
