import shim, numpy as np, itertools
from distance3d.hydroelastic_contact._tetra_mesh_creation import make_tetrahedral_box, make_tetrahedral_cube
from distance3d.hydroelastic_contact._mesh_processing import tetrahedral_mesh_volumes
# C17 box classes
for size in [(1,2,3),(1,1,3),(1,3,1),(3,1,1),(1,3,3),(3,1,3),(3,3,1),(2,2,2),(1,1+1e-15,3),(1,1.0000001,3)]:
    s=np.array(size,dtype=float)
    V,T,P=make_tetrahedral_box(s)
    pts=V[T]; e=pts[:,1:]-pts[:,[0]]; signed=np.einsum('ij,ij->i',np.cross(e[:,0],e[:,1]),e[:,2])/6
    vols=tetrahedral_mesh_volumes(pts)
    print(size,"nV",len(V),"nT",len(T),"sum",round(vols.sum(),9),"true",np.prod(s),"min|vol|",vols.min(),"signs",(signed>0).sum(),(signed<0).sum(),"pot",sorted(set(np.round(P,6))))
V,T,P=make_tetrahedral_cube(2.0); pts=V[T]; print("cube sum",tetrahedral_mesh_volumes(pts).sum(), "pot",P.tolist())
