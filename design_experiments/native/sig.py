import shim, inspect
import distance3d.distance as D
for n in D.__all__:
    f=getattr(D,n)
    try: print(n, inspect.signature(getattr(f,'py_func',f)))
    except Exception as e: print(n, "??", e)
