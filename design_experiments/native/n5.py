import shim, numpy as np
from distance3d import colliders, gjk, epa
rs=np.random.RandomState(2)
dirs = rs.randn(20000,3); dirs/=np.linalg.norm(dirs,axis=1)[:,None]
pos=neg=zero=0; bad=0; tot=0; exc=0
def run(c1,c2,v1s,v2s,tag):
    global pos,neg,zero,bad,tot,exc
    d,a,b,sx = gjk.gjk_distance_jolt(c1,c2)
    if d>0: return
    vol = np.dot(np.cross(sx[1]-sx[0], sx[2]-sx[0]), sx[3]-sx[0])
    if vol>1e-12: pos+=1
    elif vol<-1e-12: neg+=1
    else: zero+=1
    try: mtv,faces,ok = epa.epa(sx,c1,c2)
    except AssertionError: exc+=1; return
    if not ok: return
    tot+=1
    h = v1s(dirs) - v2s(dirs)   # h_A(n) + h_B(-n)
    depth=h.min(); L=np.linalg.norm(mtv)
    if L>depth*1.05+1e-6:
        bad+=1
        if bad<=5: print(tag,"BAD |mtv|",L,"depth<=",depth,"vol",vol,"simplex",sx.tolist())
for it in range(400):
    # boxes axis aligned, small integer offsets -> degenerate gjk terminations
    s1=rs.choice([0.5,1,2],3).astype(float); s2=rs.choice([0.5,1,2],3).astype(float)
    T1=np.eye(4); T2=np.eye(4); T2[:3,3]=rs.choice([-1,-0.5,0,0.25,0.5,1],3)
    c1=colliders.Box(T1,s1); c2=colliders.Box(T2,s2)
    v1=c1.vertices; v2=c2.vertices
    run(c1,c2,lambda D:(v1@D.T).max(axis=0), lambda D:(v2@D.T).min(axis=0),"box")
print("vol sign pos",pos,"neg",neg,"zero",zero,"tot",tot,"bad",bad,"assert",exc)
