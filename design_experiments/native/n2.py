import shim, numpy as np
np.set_printoptions(precision=4, suppress=True)
# row e: make_halfplanes compaction
from distance3d.hydroelastic_contact._tetrahedron_intersection import make_halfplanes
from distance3d.utils import plane_basis_from_normal
n = np.array([0,0,1.0]); cart2plane = np.vstack(plane_basis_from_normal(n))
X = np.zeros((8,4))
X[0] = [0,0,1,-0.5]
for i in range(1,8): X[i] = [np.cos(i), np.sin(i), 0.3*i, -1.0]
hp = make_halfplanes(X, n*0.0, cart2plane)
print("halfplanes rows", len(hp)); print(hp)
# row f: wrench transform
from distance3d.hydroelastic_contact._forces import _transform_wrenches
import pytransform3d.rotations as pr
R = pr.matrix_from_axis_angle([0,0,1,np.pi/2]); T=np.eye(4); T[:3,:3]=R
f = np.array([1.0,0,0]); z=np.zeros(3)
w12,w21 = _transform_wrenches(T, f, z, z)
print("R f =", R@f, " code force21 =", w21[:3])
# row g
from distance3d.hydroelastic_contact import RigidBody, find_contact_surface
b1 = RigidBody.make_cube(np.eye(4), 1.0); T2=np.eye(4); T2[:3,3]=[0.5,0,0]; b2 = RigidBody.make_cube(T2, 1.0)
try:
    find_contact_surface(b1,b2,use_aabb_trees=True); print("aabb trees ok")
except Exception as e: print("use_aabb_trees EXC", type(e).__name__, e)
# row l: RigidBody.aabb in body frame
T3=np.eye(4); T3[:3,3]=[10,0,0]; b3=RigidBody.make_cube(T3,1.0); print("aabb of cube at x=10:", b3.aabb().tolist())
