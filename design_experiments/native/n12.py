import shim, numpy as np
from distance3d.hydroelastic_contact import RigidBody, find_contact_surface, contact_forces
from distance3d.geometry import barycentric_coordinates_tetrahedron
def run(T1,T2,tag):
    b1=RigidBody.make_box(T1.copy(),np.array([1.,1,1])); b2=RigidBody.make_box(T2.copy(),np.array([1.,1,1]))
    cs=find_contact_surface(b1,b2)
    worst=0; area=0
    for k,(i,j) in enumerate(zip(cs.intersecting_tetrahedra1,cs.intersecting_tetrahedra2)):
        poly=cs.contact_polygons[k]; t1=b1.tetrahedra_points[i]; t2=b2.tetrahedra_points[j]
        for v in poly:
            bc1=barycentric_coordinates_tetrahedron(v,t1); bc2=barycentric_coordinates_tetrahedron(v,t2)
            worst=min(worst,bc1.min(),bc2.min())
        area+=cs.contact_areas[k]
    print(tag,"intersection",cs.intersection,"pairs",len(cs.contact_polygons),"min barycentric coord over all polygon vertices",round(worst,4),"total area",round(area,4))
T1=np.eye(4); T2=np.eye(4); T2[:3,3]=[0,0,0.9]
run(T1,T2,"aligned stack dz=0.9:")
import pytransform3d.rotations as pr
T3=np.eye(4); T3[:3,:3]=pr.matrix_from_axis_angle([0.3,0.5,0.8,0.4]/np.linalg.norm([0.3,0.5,0.8,0.4][:3]) if False else np.r_[np.array([0.3,0.5,0.8])/np.linalg.norm([0.3,0.5,0.8]),0.4]); T3[:3,3]=[0.1,0.2,0.9]
run(T1,T3,"generic pose:")
# action-reaction and swap
i,w12,w21=contact_forces(RigidBody.make_box(T1.copy(),np.ones(3)),RigidBody.make_box(T3.copy(),np.ones(3)))
j,v12,v21=contact_forces(RigidBody.make_box(T3.copy(),np.ones(3)),RigidBody.make_box(T1.copy(),np.ones(3)))
print("f12",np.round(w12[:3],4),"f21",np.round(w21[:3],4)," swapped: f12'",np.round(v12[:3],4),"f21'",np.round(v21[:3],4))
