import shim, numpy as np
from distance3d import colliders, gjk, mpr
import pytransform3d.rotations as pr
rs=np.random.RandomState(5)
def obb_sat_gap(T1,s1,T2,s2):
    # exact separating axis test for boxes: returns max over 15 axes of gap (positive => separated by that gap along axis)
    A=T1[:3,:3]; B=T2[:3,:3]; t=T2[:3,3]-T1[:3,3]; a=s1/2; b=s2/2
    axes=[A[:,i] for i in range(3)]+[B[:,i] for i in range(3)]+[np.cross(A[:,i],B[:,j]) for i in range(3) for j in range(3)]
    best=-np.inf
    for L in axes:
        n=np.linalg.norm(L)
        if n<1e-9: continue
        L=L/n
        ra=sum(a[i]*abs(A[:,i]@L) for i in range(3)); rb=sum(b[i]*abs(B[:,i]@L) for i in range(3))
        best=max(best, abs(t@L)-ra-rb)
    return best
names=["jolt","libccd","mpr","nest","nestprim"]
fn=[gjk.gjk_intersection_jolt, gjk.gjk_intersection_libccd, mpr.mpr_intersection, gjk.gjk_nesterov_accelerated_intersection, gjk.gjk_nesterov_accelerated_primitives_intersection]
miss={n:0 for n in names}; ghost={n:0 for n in names}; exc={n:0 for n in names}; tot=0
ex={}
for it in range(400):
    T1=np.eye(4); T2=np.eye(4)
    if it%2==0:
        T1[:3,:3]=pr.random_matrix(rs); T2[:3,:3]=pr.random_matrix(rs); T2[:3,3]=rs.randn(3)*1.2
    else:  # lattice
        T2[:3,3]=rs.choice([-2,-1,-0.5,0,0.5,1,2],3)
    s1=rs.choice([0.5,1,2],3).astype(float); s2=rs.choice([0.5,1,2],3).astype(float)
    gap=obb_sat_gap(T1,s1,T2,s2)
    if abs(gap)<1e-2: continue
    truth = gap<0
    tot+=1
    for n,f in zip(names,fn):
        try: r=bool(f(colliders.Box(T1.copy(),s1.copy()),colliders.Box(T2.copy(),s2.copy())))
        except Exception as e:
            exc[n]+=1; ex.setdefault(n,(type(e).__name__,str(e)[:60],T2[:3,3].tolist(),s1.tolist(),s2.tolist())); continue
        if truth and not r:
            miss[n]+=1; ex.setdefault(n+"_miss",(gap,T2[:3,3].tolist(),s1.tolist(),s2.tolist(),it%2))
        if (not truth) and r:
            ghost[n]+=1; ex.setdefault(n+"_ghost",(gap,T2[:3,3].tolist(),s1.tolist(),s2.tolist(),it%2))
print("tot",tot,"miss",miss,"ghost",ghost,"exc",exc)
for k,v in ex.items(): print(k,v)
