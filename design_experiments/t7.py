# original GJK backup procedure, 3 points, Gram form: final candidate satisfies KKT?
from z3 import *
import time
G00,G10,G11,G20,G21,G22=Reals('G00 G10 G11 G20 G21 G22')
psd=[G00>=0,G11>=0,G22>=0,G00*G11-G10*G10>=0,G00*G22-G20*G20>=0,G11*G22-G21*G21>=0,
     G00*(G11*G22-G21*G21)-G10*(G10*G22-G21*G20)+G20*(G10*G21-G11*G20)>=0]
d12=G00-G10; d02=G11-G10; d24=G00-G20; e132=G10-G21; d26=d02*d24+d12*e132
e123=G20-G21; d04=G22-G20; d16=d04*d12+d24*e123; e213=-e123; d15=G22-G21; d25=G11-G21; d06=d15*d02+d25*e213
Gm=[[G00,G10,G20],[G10,G11,G21],[G20,G21,G22]]
def cand(idx, w):  # weights unnormalized
    s=sum(w); lam=[0,0,0]
    for i,wi in zip(idx,w): lam[i]=wi/s
    return lam
def nsq(l): return sum(l[i]*l[j]*Gm[i][j] for i in range(3) for j in range(3))
def vdot(l,j): return sum(l[i]*Gm[i][j] for i in range(3))
cands=[(BoolVal(True),[1,0,0]),
       (And(d02>0,d12>0),cand([0,1],[d02,d12])),
       (And(d04>0,d24>0),cand([0,2],[d04,d24])),
       (And(d06>0,d16>0,d26>0),cand([0,1,2],[d06,d16,d26])),
       (BoolVal(True),[0,1,0]),(BoolVal(True),[0,0,1]),
       (And(d15>0,d25>0),cand([2,1],[d25,d15]))]
# final = any candidate that's enabled and has minimal norm among enabled ones
res=[]
for k,(en,l) in enumerate(cands):
    S=Solver(); S.set("timeout",120000); S.add(*psd)
    S.add(en)
    for en2,l2 in cands: S.add(Implies(en2, nsq(l)<=nsq(l2)))
    S.add(Or(*[vdot(l,j)<nsq(l) for j in range(3)]))
    t0=time.time(); r=S.check(); print("cand",k,r,round(time.time()-t0,2))
