from z3 import *
import time,sys
src=open('t14.py').read().replace("S=Solver()","S=SolverFor('QF_NRA')").replace("to=90000","to=60000")
# drop exists-query (not QF)
src=src.replace('S.push(); S.add(Not(Exists([z],And(z>=-h/2,z<=h/2, sq(c[0])+sq(c[1])+sq(c[2]-z)<=r*r)))); chk("capsule member (exists z)",S); S.pop()','')
exec(src)
