# vacuity: concrete 3-node tree satisfies pre (finite arrays via K + Store), solver must say sat on ground instance
exec(open('t5.py').read().split("S=Solver()")[0])
from z3 import *
S=Solver()
def arr(vals, default, sort=IntSort()):
    a=K(IntSort(), default)
    for k,v in vals.items(): a=Store(a,k,v)
    return a
c=dict(parent=arr({0:2,1:2,2:-1},IntVal(-1)), left=arr({2:0},IntVal(-1)), right=arr({2:1},IntVal(-1)), typ=arr({0:1,1:1,2:2,3:-1},IntVal(-1)),
 lo=[arr({0:0,1:1,2:0},RealVal(0),RealSort()) for k in range(3)], hi=[arr({0:1,1:2,2:2},RealVal(0),RealSort()) for k in range(3)],
 rank=arr({0:0,1:0,2:1},RealVal(0),RealSort()))
for cc in inv(c, IntVal(2), IntVal(4)):
    S.push(); S.add(Not(cc)); print(S.check()); S.pop()
