from z3 import *
import time
exec(open('t4.py').read().split("t=Real('t')")[0])
def chk(name,S,to=60000):
    S.set("timeout",to); t0=time.time(); r=S.check(); print(name,r,round(time.time()-t0,2))
v0=AB; v1=AC; v2=BC
d00=dot(v0,v0); d11=dot(v1,v1); d22=dot(v2,v2); d01=dot(v0,v1); d12=dot(v1,v2)
den1=d00*d11-d01*d01; a0=dot(A,v0); a1=dot(A,v1)
U,V,W=Reals('U V W')
S=Solver(); S.add(den1!=0, V*den1==d01*a1-d11*a0, W*den1==d01*a0-d00*a1, U==1-V-W)
p=lin((U,A),(V,B),(W,C))
S.push(); S.add(Or(dot(p,v0)!=0, dot(p,v1)!=0)); chk("code bary: p ⟂ v0,v1",S); S.pop()
# Ericson weights
S2=Solver(); S2.add(nls!=0)
l=[Real('l0'),Real('l1'),Real('l2')]
S2.add(l[0]*nls==va, l[1]*nls==vb, l[2]*nls==vc)
p2=lin((l[0],A),(l[1],B),(l[2],C))
S2.push(); S2.add(Or(dot(p2,v0)!=0, dot(p2,v1)!=0, l[0]+l[1]+l[2]!=1)); chk("ericson weights: p' ⟂ v0,v1, sum 1",S2); S2.pop()
S2.push(); S2.add(dot(p2,A)*nls != detG); chk("p'.a * nls == detG",S2); S2.pop()
# uniqueness: two coefficient vectors summing to 1 with p ⟂ v0,v1 and den1 != 0 -> equal
x=[Real(f'x{i}') for i in range(3)]; y=[Real(f'y{i}') for i in range(3)]
S3=Solver(); S3.add(den1!=0, sum(x)==1, sum(y)==1)
px=lin((x[0],A),(x[1],B),(x[2],C)); py=lin((y[0],A),(y[1],B),(y[2],C))
S3.add(dot(px,v0)==0,dot(px,v1)==0,dot(py,v0)==0,dot(py,v1)==0, Or(*[x[i]!=y[i] for i in range(3)]))
chk("uniqueness of projection coefficients",S3)
