from z3 import *
import time
def chk(name,S,to=120000):
    S.set("timeout",to); t=time.time(); r=S.check(); print(name,r,round(time.time()-t,2))
# (b) cylinder aabb axis i enclosure: point x = t + y0 e0 + y1 e1 + y2 a, component i: y0 e0i + y1 e1i + y2 ai ; row i of R unit: e0i^2+e1i^2+ai^2=1
e0,e1,a,y0,y1,y2,r,L,s=Reals('e0 e1 a y0 y1 y2 r L s')
S=Solver(); S.add(e0*e0+e1*e1+a*a==1, r>0,L>0, y0*y0+y1*y1<=r*r, y2<=L/2,y2>=-L/2, s>=0, s*s==1-a*a)
ext=L/2*If(a>=0,a,-a)+r*s
S.push(); S.add(y0*e0+y1*e1+y2*a>ext); chk("cyl aabb upper",S); S.pop()
# with CS hint
S.push(); S.add((y0*e0+y1*e1)**2<=(y0*y0+y1*y1)*(e0*e0+e1*e1)); S.add(y0*e0+y1*e1+y2*a>ext); chk("cyl aabb upper + CS2 hint",S); S.pop()
# (c) points_in_capsule: code's clamped-t test  <=>  exists t in [0,1] |p - (s0 + t d)|^2 <= r^2 ; gram: w=p-s0: ww, wd, dd
ww,wd,dd,rr,t=Reals('ww wd dd rr t')
S=Solver(); S.add(ww>=0,dd>0,ww*dd-wd*wd>=0, rr>0)
tc=wd/dd; tcl=If(tc<0,0,If(tc>1,1,tc))
code = ww-2*tcl*wd+tcl*tcl*dd <= rr*rr
S.push(); S.add(code, ForAll([t], Implies(And(t>=0,t<=1), ww-2*t*wd+t*t*dd>rr*rr))); chk("capsule code=>spec",S); S.pop()
S.push(); S.add(Not(code), t>=0,t<=1, ww-2*t*wd+t*t*dd<=rr*rr); chk("capsule spec=>code",S); S.pop()
