# Tetrahedron composition: given face results with KKT contracts, is best visible-face point the tetra min-norm point?
from z3 import *
import time, sys, itertools
names='abcd'
G={}
for i,x in enumerate(names):
    for y in names[i:]:
        G[(x,y)]=Real('g_'+x+y)
def g(x,y): return G[(x,y)] if (x,y) in G else G[(y,x)]
def dot(u,v): return sum(cu*cv*g(x,y) for x,cu in u.items() for y,cv in v.items())
def lin(*terms):
    r={}
    for k,u in terms:
        for x,c in u.items(): r[x]=r.get(x,0)+k*c
    return r
E={x:{x:1} for x in names}
def det3(m): return (m[0][0]*(m[1][1]*m[2][2]-m[1][2]*m[2][1]) - m[0][1]*(m[1][0]*m[2][2]-m[1][2]*m[2][0]) + m[0][2]*(m[1][0]*m[2][1]-m[1][1]*m[2][0]))
def gram(vs,ws): return [[dot(v,w) for w in ws] for v in vs]
# triple products of basis triples
T={}
for tri in itertools.combinations(names,3): T[tri]=Real('T_'+''.join(tri))
def perm_sign(p):
    p=list(p); s=1
    for i in range(len(p)):
        for j in range(i+1,len(p)):
            if p[i]>p[j]: s=-s
    return s
def triple(u,v,w):
    tot=0
    for x,cx in u.items():
        for y,cy in v.items():
            for z,cz in w.items():
                if len({x,y,z})<3: continue
                key=tuple(sorted((x,y,z))); sg=perm_sign((x,y,z))
                tot=tot+cx*cy*cz*sg*T[key]
    return tot
cons=[]
# T relations: T_x*T_y = det(mixed gram)
keys=list(T)
for i,k1 in enumerate(keys):
    for k2 in keys[i:]:
        cons.append(T[k1]*T[k2]==det3(gram([E[x] for x in k1],[E[x] for x in k2])))
# psd basics
for x in names: cons.append(g(x,x)>=0)
for x,y in itertools.combinations(names,2): cons.append(g(x,x)*g(y,y)-g(x,y)**2>=0)
# 4 vectors in R^3: 4x4 gram det == 0
def det4(m):
    return sum(((-1)**j)*m[0][j]*det3([[m[r][c] for c in range(4) if c!=j] for r in range(1,4)]) for j in range(4))
cons.append(det4(gram([E[x] for x in names],[E[x] for x in names]))==0)
a,b,c,d=[E[x] for x in names]
ab=lin((1,b),(-1,a)); ac=lin((1,c),(-1,a)); ad=lin((1,d),(-1,a)); bd=lin((1,d),(-1,b)); bc=lin((1,c),(-1,b))
signp=[triple(a,ab,ac), triple(a,ac,ad), triple(a,ad,ab), triple(b,bd,bc)]
signd=[triple(ad,ab,ac), triple(ab,ac,ad), triple(ac,ad,ab), -triple(ab,bd,bc)]
faces=[('a','b','c'),('a','c','d'),('a','d','b'),('b','d','c')]
opp=['d','b','c','a']
S=Solver(); S.set("timeout",300000)
S.add(*cons)
S.add(*[s>0 for s in signd])
out=[sp>=0 for sp in signp]
# face results: q_F = sum lam y ; KKT on face
Q=[]; 
for fi,F in enumerate(faces):
    lam=[Real(f'l{fi}{x}') for x in F]
    q=lin(*[(lam[k],E[F[k]]) for k in range(3)])
    Q.append(q)
    S.add(Implies(out[fi], And(*[l>=0 for l in lam], sum(lam)==1, *[dot(q,E[x])>=dot(q,q) for x in F])))
# claim for face 0 chosen as best among flagged
S.add(out[0])
for fi in range(1,4): S.add(Implies(out[fi], dot(Q[0],Q[0])<=dot(Q[fi],Q[fi])))
S.add(dot(Q[0],d) < dot(Q[0],Q[0]))
t0=time.time(); print(S.check(), round(time.time()-t0,1))
