# C01 consistency: closest_point_triangle face-region result equals barycentric recombination by get_barycentric_coordinates_plane
from z3 import *
import time
exec(open('t4.py').read().split("t=Real('t')")[0])   # reuse Gram setup: A,B,C,dot,lin,psd,nls,d1..,va,vb,vc,T,detG,pA..pBC
def chk(name,S,to=120000):
    S.set("timeout",to); t0=time.time(); r=S.check(); print(name,r,round(time.time()-t0,2))
# get_barycentric_coordinates_plane, branch d00<=d22 nondegenerate
v0=AB; v1=AC; v2=BC
d00=dot(v0,v0); d11=dot(v1,v1); d22=dot(v2,v2); d01=dot(v0,v1); d12=dot(v1,v2)
den1=d00*d11-d01*d01
a0=dot(A,v0); a1=dot(A,v1)
V=Real('V'); W=Real('W'); U=Real('U')
S=Solver(); S.add(*psd); S.add(nls>0, den1!=0)
S.add(V*den1==d01*a1-d11*a0, W*den1==d01*a0-d00*a1, U==1-V-W)
p=lin((U,A),(V,B),(W,C))
k=Real('k'); S.add(T*T==detG, k*nls==T)
# face point q = k*n, with n.x = T for x in {a,b,c}, n.n = nls.  |p - q|^2 = p.p - 2 k (U+V+W) T + k^2 nls
S.push(); S.add(Not(dot(p,p) - 2*k*(U+V+W)*T + k*k*nls == 0)); chk("plane-bary recombination == face point (branch 1)",S); S.pop()
S.push(); S.add(Not(pA),Not(pB),Not(pAB),Not(pC),Not(pAC),Not(pBC)); S.add(Or(U<0,V<0,W<0)); chk("bary >=0 in face region (branch 1)",S); S.pop()
# branch 2: d00>d22
den2=d11*d22-d12*d12; c1=dot(C,v1); c2=dot(C,v2)
S=Solver(); S.add(*psd); S.add(nls>0, den2!=0)
S.add(U*den2==d22*c1-d12*c2, V*den2==d11*c2-d12*c1, W==1-U-V)
p=lin((U,A),(V,B),(W,C)); S.add(T*T==detG, k*nls==T)
S.push(); S.add(Not(dot(p,p) - 2*k*(U+V+W)*T + k*k*nls == 0)); chk("plane-bary recombination (branch 2)",S); S.pop()
