# Feasibility: cylinder support extremality + membership in reals
from z3 import *
import time
def chk(name, s, to=60000):
    s.set("timeout", to)
    t=time.time(); r=s.check(); print(name, r, round(time.time()-t,2))
    return r
l0,l1,l2,r,L,x0,x1,x2,s = Reals('l0 l1 l2 r L x0 x1 x2 s')
# code: s = sqrt(l0^2+l1^2); z = -L/2 if l2<0 else L/2; if s==0: v=(r,0,z) else d=r/s; v=(l0 d, l1 d, z)
S=Solver()
S.add(r>0, L>0, s>=0, s*s==l0*l0+l1*l1)
z = If(l2<0, -L/2, L/2)
d = r/s
v0 = If(s==0, r, l0*d); v1 = If(s==0, 0, l1*d); v2=z
# membership
S.push(); S.add(Not(And(v0*v0+v1*v1<=r*r, v2<=L/2, v2>=-L/2))); chk("cyl member",S); S.pop()
# extremal
S.push(); S.add(x0*x0+x1*x1<=r*r, x2<=L/2, x2>=-L/2, x0*l0+x1*l1+x2*l2 > v0*l0+v1*l1+v2*l2); chk("cyl extremal",S); S.pop()

# ellipsoid: v = norm_vector(l*rad)*rad
r0,r1,r2,n = Reals('r0 r1 r2 n')
S=Solver()
S.add(r0>0,r1>0,r2>0,n>=0, n*n==(l0*r0)**2+(l1*r1)**2+(l2*r2)**2)
w0=If(n==0, l0*r0, l0*r0/n)*r0; w1=If(n==0,l1*r1,l1*r1/n)*r1; w2=If(n==0,l2*r2,l2*r2/n)*r2
S.push(); S.add(Not((w0/r0)**2+(w1/r1)**2+(w2/r2)**2<=1)); chk("ell member",S); S.pop()
S.push(); S.add((x0/r0)**2+(x1/r1)**2+(x2/r2)**2<=1, x0*l0+x1*l1+x2*l2 > w0*l0+w1*l1+w2*l2); chk("ell extremal",S); S.pop()
