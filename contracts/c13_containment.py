"""C13: points_in_<shape> returns True exactly for the points of the closed shape, element-wise for a batch."""
import numpy as np
from d3vc.engine import contract
from d3vc import spec
from d3vc.spec import dot, sq, sym
from contracts._shapes import SHAPES

FN = {"sphere": "points_in_sphere", "capsule": "points_in_capsule", "ellipsoid": "points_in_ellipsoid", "disk": "points_in_disk",
      "cone": "points_in_cone", "cylinder": "points_in_cylinder", "box": "points_in_box"}
BATCH = 2


def make(shape):
    fn = "distance3d.containment_test." + FN[shape.name]

    @contract("containment_test.%s" % FN[shape.name], fn=fn, props=["C13"], deps=["distance3d.utils.invert_transform"],
              opts=dict(abs_ite=(shape.name == "box")))
    def _c(cx):
        """for a batch of 2 arbitrary points (row-parametric numpy code): result[i] is True iff points[i] is in the closed shape"""
        f = cx.target()
        P = shape.params(cx, lo=0.2)
        pts = []
        for i in range(BATCH):
            if shape.has_pose:
                pw, _ = spec.world_point(cx, "p%d" % i, P["T"])
            else:
                pw = cx.vec("p%d" % i) if sym(cx) else spec.arr(cx, [cx.real("p%d_%d" % (i, j), lo=-12.0, hi=12.0) for j in range(3)])
            pts.append(pw)
        points = np.array(pts, dtype=object if sym(cx) else float)
        res = cx.call(f, points, *shape.ctor_args(cx, P))
        cx.prove("result_shape", bool(isinstance(res, np.ndarray) and res.shape == (BATCH,)))
        for i in range(BATCH):
            if shape.name == "disk":
                # band form required by the property: outside the plane by more than 1e-9 => False; exactly in the plane and
                # within the radius => True
                y = spec.to_local_point(cx, P["T"], pts[i])
                rho2 = y[0] * y[0] + y[1] * y[1]
                if res[i]:
                    cx.prove("true_implies_near[%d]" % i, cx.all([cx.le(y[2], 1e-9), cx.le(-1e-9, y[2]),
                                                                  spec._len_slack(cx, rho2, P["r"] * P["r"])]))
                else:
                    cx.prove("false_implies_not_exactly_in[%d]" % i, cx.neg(shape.member(cx, P, pts[i])), tol=0.0)
                continue
            if res[i]:
                cx.prove("true_implies_member[%d]" % i, shape.member(cx, P, pts[i]))
            else:
                # concrete reading: the statement's band - False is wrong only for a point at least 1e-9*L INSIDE (L >= 1); the point is
                # given in local coordinates, the code sees it after a world round trip, so a boundary point may move by an ulp
                cx.prove("false_implies_outside[%d]" % i, shape.not_member(cx, P, pts[i], "q%d" % i), tol=1e-9)
        cx.cover("end")


for _n in FN:
    make(SHAPES[_n])


# ---------------------------------------------------------------------------------------------- convex mesh
def _det3(a, b, c):
    return dot(a, spec.cross(b, c))


def _sub(a, b):
    return [a[i] - b[i] for i in range(3)]


TETRA_FACES = [(0, 2, 1), (0, 1, 3), (0, 3, 2), (1, 2, 3)]     # outward winding for a positively oriented tetrahedron


@contract("containment_test.points_in_convex_mesh[tetrahedron]", fn="distance3d.containment_test.points_in_convex_mesh", props=["C13"],
          deps=["distance3d.utils.invert_transform"])
def _(cx):
    """any positively oriented tetrahedron (symbolic vertices, outward wound faces), any pose, batch of 2 arbitrary points: result[i] is True
    iff all four barycentric coordinates of points[i] (signed sub-volumes, an oracle independent of face normals and centres) are >= 0"""
    f = cx.target()
    T = spec.pose(cx, "T")
    if sym(cx):
        V = [cx.vec("v%d" % i) for i in range(4)]
    else:
        V = [spec.arr(cx, [cx.real("v%d_%d" % (i, j), lo=-2.0, hi=2.0) for j in range(3)]) for i in range(4)]
    det = _det3(_sub(V[1], V[0]), _sub(V[2], V[0]), _sub(V[3], V[0]))
    if sym(cx):
        cx.assume(det > 0, "pre:positively_oriented")
    else:
        from d3vc.sym import CB
        cx.assume(CB(1e-2 - float(det)), "pre:positively_oriented")
    verts = np.ascontiguousarray(np.array(V, dtype=object if sym(cx) else float))
    tris = np.array(TETRA_FACES, dtype=int)
    pts, locs = [], []
    for i in range(BATCH):
        pw, y = spec.world_point(cx, "p%d" % i, T)
        pts.append(pw)
        locs.append(y)
    points = np.array(pts, dtype=object if sym(cx) else float)
    res = cx.call(f, points, T, verts, tris)
    cx.prove("result_shape", bool(isinstance(res, np.ndarray) and res.shape == (BATCH,)))
    for i in range(BATCH):
        y = locs[i]
        # barycentric numerators: replace vertex k by the point
        D = []
        for k in range(4):
            W = [y if j == k else V[j] for j in range(4)]
            D.append(_det3(_sub(W[1], W[0]), _sub(W[2], W[0]), _sub(W[3], W[0])))
        if sym(cx):
            if res[i]:
                cx.prove("true_implies_member[%d]" % i, cx.all([cx.ge(Dk, 0.0) for Dk in D]))
            else:
                cx.prove("false_implies_outside[%d]" % i, cx.any([cx.lt(Dk, 0.0) for Dk in D]))
        else:
            from d3vc.sym import CB
            lam = [float(Dk) / float(det) for Dk in D]
            scale = max(1.0, max(abs(float(c)) for v in V for c in v))
            if res[i]:
                cx.prove("true_implies_member[%d]" % i, CB(-min(lam) * scale), tol=1e-9 * scale)
            else:
                cx.prove("false_implies_outside[%d]" % i, CB(min(lam) * scale), tol=1e-9 * scale)
    cx.cover("end")


OCTA_V = np.array([[1.0, 0, 0], [-1.0, 0, 0], [0, 1.0, 0], [0, -1.0, 0], [0, 0, 1.0], [0, 0, -1.0]])
OCTA_T = np.array([[0, 2, 4], [2, 1, 4], [1, 3, 4], [3, 0, 4], [2, 0, 5], [1, 2, 5], [3, 1, 5], [0, 3, 5]], dtype=int)


@contract("containment_test.points_in_convex_mesh[octahedron]", fn="distance3d.containment_test.points_in_convex_mesh", props=["C13"],
          deps=["distance3d.utils.invert_transform"], opts=dict(abs_ite=True))
def _(cx):
    """regular octahedron scaled by a symbolic size (8 outward wound faces, none coplanar with another), any pose, one arbitrary point (the batch dimension is covered by the tetrahedron contract):
    result[i] is True iff |y0| + |y1| + |y2| <= size in the mesh frame"""
    f = cx.target()
    T = spec.pose(cx, "T")
    s = spec.size(cx, "size", 1e-2, 1e2)
    verts = np.ascontiguousarray(np.array([[s * c for c in row] for row in OCTA_V], dtype=object if sym(cx) else float))
    pts, locs = [], []
    for i in range(1):
        pw, y = spec.world_point(cx, "p%d" % i, T)
        pts.append(pw)
        locs.append(y)
    points = np.array(pts, dtype=object if sym(cx) else float)
    res = cx.call(f, points, T, verts, OCTA_T)
    for i in range(1):
        y = locs[i]
        l1 = cx.abs(y[0]) + cx.abs(y[1]) + cx.abs(y[2])
        if res[i]:
            cx.prove("true_implies_member[%d]" % i, cx.le(l1, s), tol=1e-9)
        else:
            cx.prove("false_implies_outside[%d]" % i, cx.gt(l1, s), tol=1e-9)
    cx.cover("end")
