"""C13: points_in_<shape> returns True exactly for the points of the closed shape, element-wise for a batch."""
import numpy as np
from d3vc.engine import contract
from d3vc import spec
from d3vc.spec import dot, sq, sym
from contracts._shapes import SHAPES

FN = {"sphere": "points_in_sphere", "capsule": "points_in_capsule", "ellipsoid": "points_in_ellipsoid", "disk": "points_in_disk",
      "cone": "points_in_cone", "cylinder": "points_in_cylinder", "box": "points_in_box"}
BATCH = 2


def make(shape):
    fn = "distance3d.containment_test." + FN[shape.name]

    @contract("containment_test.%s" % FN[shape.name], fn=fn, props=["C13"], deps=["distance3d.utils.invert_transform"],
              opts=dict(abs_ite=(shape.name == "box")))
    def _c(cx):
        """for a batch of 2 arbitrary points (row-parametric numpy code): result[i] is True iff points[i] is in the closed shape"""
        f = cx.target()
        P = shape.params(cx, lo=0.2)
        pts = []
        for i in range(BATCH):
            if shape.has_pose:
                pw, _ = spec.world_point(cx, "p%d" % i, P["T"])
            else:
                pw = cx.vec("p%d" % i) if sym(cx) else spec.arr(cx, [cx.real("p%d_%d" % (i, j), lo=-12.0, hi=12.0) for j in range(3)])
            pts.append(pw)
        points = np.array(pts, dtype=object if sym(cx) else float)
        res = cx.call(f, points, *shape.ctor_args(cx, P))
        cx.prove("result_shape", bool(isinstance(res, np.ndarray) and res.shape == (BATCH,)))
        for i in range(BATCH):
            if shape.name == "disk":
                # band form required by the property: outside the plane by more than 1e-9 => False; exactly in the plane and
                # within the radius => True
                y = spec.to_local_point(cx, P["T"], pts[i])
                rho2 = y[0] * y[0] + y[1] * y[1]
                if res[i]:
                    cx.prove("true_implies_near[%d]" % i, cx.all([cx.le(y[2], 1e-9), cx.le(-1e-9, y[2]),
                                                                  spec._len_slack(cx, rho2, P["r"] * P["r"])]))
                else:
                    cx.prove("false_implies_not_exactly_in[%d]" % i, cx.neg(shape.member(cx, P, pts[i])), tol=0.0)
                continue
            if res[i]:
                cx.prove("true_implies_member[%d]" % i, shape.member(cx, P, pts[i]))
            else:
                cx.prove("false_implies_outside[%d]" % i, shape.not_member(cx, P, pts[i], "q%d" % i), tol=0.0)
        cx.cover("end")


for _n in FN:
    make(SHAPES[_n])
