"""Contracts of the helpers that other contracts use as summaries."""
import numpy as np
from d3vc.engine import contract
from d3vc import spec
from d3vc.spec import dot, sq, cross


@contract("utils.plane_basis_from_normal", fn="distance3d.utils.plane_basis_from_normal", props=["C03", "C04", "C13"],
          prop_level=False)
def _(cx):
    """for every unit normal n: x, y, n are orthonormal and right-handed (x cross y = n); no division by zero"""
    f = cx.target()
    n = spec.unit_vector(cx, "n")
    x, y = cx.call(f, n)
    cx.prove("x_unit", cx.eq(sq(x), 1.0))
    cx.prove("y_unit", cx.eq(sq(y), 1.0))
    cx.prove("x_perp_y", cx.eq(dot(x, y), 0.0))
    cx.prove("x_perp_n", cx.eq(dot(x, n), 0.0))
    cx.prove("y_perp_n", cx.eq(dot(y, n), 0.0))
    c = cross(x, y)
    cx.prove("right_handed", cx.all([cx.eq(c[i], n[i]) for i in range(3)]))
    cx.prove("layout", bool(x.flags.c_contiguous and y.flags.c_contiguous and x.shape == (3,) and y.shape == (3,)))
    cx.cover("end")


@contract("utils.norm_vector", fn="distance3d.utils.norm_vector", props=["C03", "C07", "C08"], prop_level=False)
def _(cx):
    """result is v/|v| (unit length, parallel to v with positive factor) for v != 0 and v itself for v = 0"""
    f = cx.target()
    v = cx.vec("v")
    res = cx.call(f, v)
    s = cx.sqrt(sq(v))
    if cx.mode == "sym":
        if s == 0:
            cx.prove("zero_stays", cx.eq(res, v))
        else:
            cx.prove("unit", cx.eq(sq(res), 1.0))
            cx.prove("parallel", cx.all([cx.eq(res[i] * s, v[i]) for i in range(3)]))
    else:
        if s == 0:
            cx.prove("zero_stays", cx.eq(res, v))
        else:
            cx.prove("unit", cx.eq(sq(res), 1.0))
            cx.prove("parallel", cx.all([cx.eq(res[i] * s, v[i]) for i in range(3)]))
    cx.cover("end")
