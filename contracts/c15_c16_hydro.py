"""C15 / C16: the closed-form kernels of the hydroelastic pipeline that a VC generator can reach:
   _tetrahedron_intersection.make_halfplanes (row compaction), _halfplanes.intersect_two_halfplanes / point_outside_of_halfplane,
   _forces._transform_wrenches (rigid transformation law of wrenches, action = -reaction)."""
import numpy as np
from d3vc.engine import contract
from d3vc import spec
from d3vc.spec import dot, sq, sym, cross
from d3vc.sym import Uninit, CB

HT = "distance3d.hydroelastic_contact._tetrahedron_intersection"
HF = "distance3d.hydroelastic_contact._forces"
HP = "distance3d.hydroelastic_contact._halfplanes"


@contract("hydroelastic.make_halfplanes", fn=HT + ".make_halfplanes", props=["C15", "C20"], opts=dict(feasibility=False))
def _(cx):
    """for 8 arbitrary face planes of which any subset of three designated ones (4 designations) may be parallel to the contact plane:
    the returned array holds exactly the half-planes of the faces whose in-plane normal is longer
    than EPSILON, in face order, every entry written (no uninitialised row): p = n2d * ds / |n2d|^2, direction = (n2d_y, -n2d_x)"""
    f = cx.target()
    eps = cx.abstract_constant(HT, "EPSILON")
    if sym(cx):
        X = np.array([[cx.real("X_%d%d" % (i, j)) for j in range(4)] for i in range(8)], dtype=object)
        pp = cx.vec("pp")
        c2p = np.array([[cx.real("c_%d%d" % (i, j)) for j in range(3)] for i in range(2)], dtype=object)
        # which three faces may be parallel to the plane (all others are assumed regular): start / middle / end of the table
        free = [(0, 1, 2), (2, 4, 5), (5, 6, 7), (0, 3, 7)][cx.choice(4, "free_faces")]
        for i in range(8):
            if i not in free:
                n2 = [dot(X[i, :3], c2p[0]), dot(X[i, :3], c2p[1])]
                cx.assume(cx.sqrt(n2[0] * n2[0] + n2[1] * n2[1]) > eps, "regular_face[%d]" % i)
    else:
        rng = cx.rng
        X = np.array([[cx.real("X_%d%d" % (i, j), lo=-2.0, hi=2.0) for j in range(4)] for i in range(8)])
        if rng.random() < 0.6:
            # axis-aligned contact plane: faces parallel to it have an EXACTLY vanishing in-plane normal (the measure-zero case)
            perm = list(rng.sample(range(3), 3))
            E = np.eye(3)
            n, a, b = E[perm[0]], E[perm[1]], E[perm[2]]
            for i in range(8):
                if rng.random() < 0.35:
                    X[i, :3] = n * rng.choice([-1.0, 1.0]) * rng.uniform(0.5, 2.0)
        else:
            n = spec.unit_vector(cx, "n")
            a = np.cross(n, [1.0, 0.3, 0.2]); a /= np.linalg.norm(a); b = np.cross(n, a)
        c2p = np.ascontiguousarray(np.array([a, b]))
        pp = n * cx.real("d", lo=-1.0, hi=1.0)
        for i in range(8):
            nn_i = float(np.dot(X[i, :3], a) ** 2 + np.dot(X[i, :3], b) ** 2)
            # gap precondition of the contract: the in-plane normal is exactly zero or clearly regular
            cx.assume(CB(-1.0) if (nn_i == 0.0 or nn_i > 1e-12) else CB(1.0), "gap:|n2d|")
    X = np.ascontiguousarray(X)
    res = cx.call(f, X, np.ascontiguousarray(pp), np.ascontiguousarray(c2p))
    # specification, face by face
    want = []
    for i in range(8):
        n2 = [dot(X[i, :3], c2p[0]), dot(X[i, :3], c2p[1])]
        nn = n2[0] * n2[0] + n2[1] * n2[1]
        if sym(cx):
            s = cx.sqrt(nn)
            accepted = bool(s > eps)
            den = s * s           # |n2d|^2 written as the code writes it (norm * norm), so that equal quotients are recognised
        else:
            accepted = bool(np.sqrt(nn) > eps)
            den = nn
        if accepted:
            ds = -X[i, 3] - dot(X[i, :3], pp)
            want.append([n2[0] * ds / den, n2[1] * ds / den, n2[1], -n2[0]])
    cx.prove("row_count", bool(len(res) == len(want)))
    for j in range(min(len(res), len(want))):
        init = not any(isinstance(res[j, k], Uninit) for k in range(4)) if sym(cx) else bool(np.all(np.isfinite(res[j])))
        cx.prove("row_written[%d]" % j, bool(init))
        if init:
            for k in range(4):
                tol = 1e-9 if sym(cx) else 1e-9 * max(1.0, abs(float(want[j][k])))
                cx.prove("row_value[%d,%d]" % (j, k), cx.eq(res[j, k], want[j][k]), tol=tol)
    cx.cover("end")


@contract("hydroelastic._transform_wrenches", fn=HF + "._transform_wrenches", props=["C16", "C12"],
          deps=["distance3d.utils.adjoint_from_transform"])
def _(cx):
    """force/torque totals computed in the frame of body 2 are re-expressed in the world by the rigid motion T = (R, t):
    force_world = R f, torque_world = R tau + t x (R f); the two forces are exactly opposite (action = reaction)"""
    f = cx.target()
    T = spec.pose(cx, "T")
    fo = cx.vec("f") if sym(cx) else spec.arr(cx, [cx.real("f_%d" % i, lo=-3.0, hi=3.0) for i in range(3)])
    t12 = cx.vec("t12") if sym(cx) else spec.arr(cx, [cx.real("t12_%d" % i, lo=-3.0, hi=3.0) for i in range(3)])
    t21 = cx.vec("t21") if sym(cx) else spec.arr(cx, [cx.real("t21_%d" % i, lo=-3.0, hi=3.0) for i in range(3)])
    w12, w21 = cx.call(f, T, np.ascontiguousarray(fo), np.ascontiguousarray(t12), np.ascontiguousarray(t21))
    Rf = spec.to_world_dir(cx, T, fo)
    t = [T[i, 3] for i in range(3)]
    txRf = cross(t, Rf)
    cx.prove("force21_is_R_f", cx.eq(w21[:3], Rf), tol=1e-9)
    cx.prove("action_reaction", cx.eq(w12[:3], -1.0 * np.asarray(w21[:3])), tol=1e-9)
    Rt21 = spec.to_world_dir(cx, T, t21)
    Rt12 = spec.to_world_dir(cx, T, t12)
    cx.prove("torque21_law", cx.eq(w21[3:], spec.arr(cx, [Rt21[i] + txRf[i] for i in range(3)])), tol=1e-8)
    cx.prove("torque12_law", cx.eq(w12[3:], spec.arr(cx, [Rt12[i] - txRf[i] for i in range(3)])), tol=1e-8)
    cx.cover("end")


@contract("hydroelastic.RigidBody.express_in", fn="distance3d.hydroelastic_contact._rigid_body.RigidBody.express_in", props=["C16", "C17"],
          deps=["distance3d.utils.invert_transform", "distance3d.utils.transform_points"], opts=dict(minmax_ite=True))
def _(cx):
    """a body with every lazily computed cache filled (tetrahedra points, centre of mass, per-tetrahedron boxes, AABB tree) is re-expressed
    in another frame: its world geometry is unchanged (new_pose . new_vertices = old_pose . old_vertices) and its complete state
    equals that of a body constructed from the new pose and vertices - every attribute, so a cache that survives is a failure"""
    from contracts.c03_mesh import _state_equal
    K = cx.target("distance3d.hydroelastic_contact._rigid_body.RigidBody")
    T0 = spec.pose(cx, "T0")
    T1 = spec.pose(cx, "T1")
    if sym(cx):
        V = np.array([[cx.real("v%d_%d" % (i, j)) for j in range(3)] for i in range(4)], dtype=object)
    else:
        V = np.array([[cx.real("v%d_%d" % (i, j), lo=-1.0, hi=1.0) for j in range(3)] for i in range(4)], dtype=float)
    V = np.ascontiguousarray(V)
    e1, e2, e3 = [[V[k][j] - V[0][j] for j in range(3)] for k in (1, 2, 3)]
    det = dot(e1, spec.cross(e2, e3))
    if sym(cx):
        cx.assume(det * det > 0, "pre:tetrahedron_nondegenerate")        # volume > 0 (C17: factories only produce such tetrahedra)
    else:
        cx.assume(CB(1e-3 - abs(float(det))), "pre:tetrahedron_nondegenerate")
    tets = np.array([[0, 1, 2, 3]], dtype=int)
    pot = np.array([0.0, 0.0, 0.0, 0.5]) if not sym(cx) else np.array([0.0, 0.0, 0.0, 0.5], dtype=object)
    body = cx.call(K, np.ascontiguousarray(np.array(T0, dtype=T0.dtype)), V, tets, pot)
    which = cx.choice(3, "caches_filled")
    if which >= 1:
        cx.call(lambda: body.tetrahedra_points)
        cx.call(lambda: body.aabbs)
        cx.call(lambda: body.com)
    if which == 2:
        cx.call(lambda: body.aabb_tree)
    old_world = [spec.to_world_point(cx, T0, V[i]) for i in range(4)]
    cx.call(body.express_in, np.ascontiguousarray(np.array(T1, dtype=T1.dtype)))
    for i in range(4):
        cx.prove("world_vertex_unchanged[%d]" % i, cx.eq(spec.to_world_point(cx, body.body2origin_, body.vertices_[i]), old_world[i]), tol=1e-9)
    fresh = cx.call(K, np.ascontiguousarray(np.array(T1, dtype=T1.dtype)), body.vertices_, tets, pot)
    # observational equality: every lazily computed quantity is read on both bodies first, so a cache that is carried over CORRECTLY is
    # accepted, a stale or wrongly transformed one is not (the state comparison then covers the cached values as well)
    for b in (body, fresh):
        cx.call(lambda: b.tetrahedra_points)
        cx.call(lambda: b.aabbs)
        cx.call(lambda: b.com)
    _state_equal(cx, body, fresh, "RigidBody", set())
    cx.cover("end")
