"""C10 / C11 proof tier for point-to-<convex shape>: point_to_box, point_to_cylinder, point_to_rectangle, point_to_disk.

For a closed convex set X and a point p, q is THE closest point of X iff q in X and (p - q).(x - q) <= 0 for every x in X
(variational inequality).  Contract, from the statements of C10 and C11:
    requires  pose rigid, sizes in the primitive domain [0.2, 1e2], p arbitrary (given by its coordinates in the shape's frame,
              which is a bijection)
    ensures   q in X (membership predicate of d3vc/spec.py),  d >= 0,  d^2 = |p - q|^2,
              (p - q).(x - q) <= 0 for a Skolem point x of X                      (global optimality, C11)"""
import numpy as np
from d3vc.engine import contract
from d3vc import spec
from d3vc.spec import dot, sq, sym, arr
from d3vc.sym import CB
from contracts._shapes import SHAPES, contiguous

DIST = "distance3d.distance."


def _post(cx, shape, P, p, d, q, x, scale):
    cx.prove("closest_point_member", shape.member(cx, P, q))
    cx.prove("d_nonneg", cx.ge(d, 0.0))
    diff = [p[i] - q[i] for i in range(3)]
    if sym(cx):
        cx.prove("d_consistent", cx.eq(d * d, sq(diff)))
        cx.prove("optimal:variational_inequality", cx.le(dot(diff, [x[i] - q[i] for i in range(3)]), 0.0))
    else:
        cx.prove("d_consistent", CB(abs(float(d) - float(np.sqrt(sq(diff))))), tol=1e-9 * scale)
        cx.prove("optimal:variational_inequality", CB(float(dot(diff, [x[i] - q[i] for i in range(3)])) / scale), tol=1e-9 * scale)


def _scale(cx, P, p):
    if sym(cx):
        return 1.0
    return max(1.0, float(np.max(np.abs(np.asarray(p, dtype=float)))), float(np.max(np.abs(np.asarray(P["T"], dtype=float)[:3, 3]))))


@contract("distance.point_to_box", fn=DIST + "_box.point_to_box", props=["C10", "C11", "C12", "C20"],
          deps=["distance3d.utils.inverse_transform_point"], opts=dict(minmax_ite=True))
def _(cx):
    """every pose, size and point: closest point is in the box, d = |p - q|, no point of the box is closer (variational inequality)"""
    shape = SHAPES["box"]
    f = cx.target()
    P = shape.params(cx, lo=0.2)
    p, _ = spec.world_point(cx, "p", P["T"])
    d, q = cx.call(f, contiguous(p), P["T"], P["size"])
    x = shape.any_point(cx, P, "x")
    _post(cx, shape, P, p, d, q, x, _scale(cx, P, p))
    cx.cover("end")


@contract("distance.point_to_cylinder", fn=DIST + "_cylinder.point_to_cylinder", props=["C10", "C11", "C12", "C20"], opts=dict(minmax_ite=True))
def _(cx):
    """every pose, radius, length and point: closest point is in the cylinder, d = |p - q|, no point of the cylinder is closer"""
    shape = SHAPES["cylinder"]
    f = cx.target()
    P = shape.params(cx, lo=0.2)
    p, _ = spec.world_point(cx, "p", P["T"])
    d, q = cx.call(f, contiguous(p), P["T"], P["r"], P["L"])
    x = shape.any_point(cx, P, "x")
    _post(cx, shape, P, p, d, q, x, _scale(cx, P, p))
    cx.cover("end")


@contract("distance.point_to_disk", fn=DIST + "_disk.point_to_disk", props=["C10", "C11", "C12", "C20"], opts=dict(minmax_ite=True))
def _(cx):
    """every centre, unit normal, radius and point: closest point is in the disk, d = |p - q|, no point of the disk is closer"""
    shape = SHAPES["disk"]
    f = cx.target()
    P = shape.params(cx, lo=0.2)
    p, _ = spec.world_point(cx, "p", P["T"])
    d, q = cx.call(f, contiguous(p), P["c"], P["r"], P["n"])
    x = shape.any_point(cx, P, "x")
    _post(cx, shape, P, p, d, q, x, _scale(cx, P, p))
    cx.cover("end")


class _Rect:
    """rectangle: centre c, two orthonormal axes (rows of a (2, 3) array), lengths l0, l1; frame = pose whose first two columns are the axes"""
    name = "rectangle"

    def params(self, cx, lo=0.2):
        T = spec.pose(cx, "T", reduce="cols")
        return dict(T=T, c=contiguous(T[:3, 3]), axes=contiguous(np.array([T[:3, 0], T[:3, 1]], dtype=T.dtype)),
                    lengths=arr(cx, [spec.size(cx, "len_%d" % i, lo, 1e2) for i in range(2)]))

    def member(self, cx, P, x, tag=""):
        y = spec.to_local_point(cx, P["T"], x)
        h = [0.5 * P["lengths"][0], 0.5 * P["lengths"][1]]
        return cx.all([cx.eq(y[2], 0.0)] + [cx.le(y[i], h[i]) for i in range(2)] + [cx.le(-h[i], y[i]) for i in range(2)])

    def any_point(self, cx, P, name):
        h = [0.5 * P["lengths"][0], 0.5 * P["lengths"][1]]
        if sym(cx):
            a, b = cx.real(name + "_0"), cx.real(name + "_1")
        else:
            a, b = cx.real(name + "_0", lo=-h[0], hi=h[0]), cx.real(name + "_1", lo=-h[1], hi=h[1])
        cx.assume(cx.all([cx.le(a, h[0]), cx.le(-h[0], a), cx.le(b, h[1]), cx.le(-h[1], b)]), "skolem:%s in shape" % name)
        return spec.to_world_point(cx, P["T"], [a, b, 0.0])


@contract("distance.point_to_rectangle", fn=DIST + "_rectangle.point_to_rectangle", props=["C10", "C11", "C12", "C20"], opts=dict(minmax_ite=True))
def _(cx):
    """every centre, orthonormal axes, lengths and point: closest point is in the rectangle, d = |p - q|, no point of it is closer"""
    shape = _Rect()
    f = cx.target()
    P = shape.params(cx)
    p, _ = spec.world_point(cx, "p", P["T"])
    d, q = cx.call(f, contiguous(p), P["c"], P["axes"], P["lengths"])
    x = shape.any_point(cx, P, "x")
    _post(cx, shape, P, p, d, q, x, _scale(cx, P, p))
    cx.cover("end")


# ---------------------------------------------------------------------------------------------- plane to vertex hulls
PL = DIST + "_plane."


def _plane_hull(cx, nverts, name):
    """plane (frame T: unit normal = third column, plane point = translation) against the convex hull of `nverts` arbitrary points given
    by their coordinates in the plane's frame.  Exact claim outside the epsilon band of the segment-plane kernel the code calls with the
    literal 1e-6: for every pair of vertices the direction cosine of their difference with the normal is 0 or at least 1e-3."""
    T = spec.pose(cx, "T", reduce="cols")
    q, n = contiguous(T[:3, 3]), contiguous(T[:3, 2])
    loc = [cx.vec("v%d" % i) if sym(cx) else arr(cx, [cx.real("v%d_%d" % (i, j), lo=-20.0, hi=20.0) for j in range(3)]) for i in range(nverts)]
    for i in range(nverts):
        for j in range(i + 1, nverts):
            dz = loc[i][2] - loc[j][2]
            dd = sq([loc[i][k] - loc[j][k] for k in range(3)])
            if sym(cx):
                cx.assume(dd >= 0.04, "dom:vertex_distance[%d,%d]" % (i, j))
                cx.assume(cx.any([dz == 0, dz * dz >= 1e-6 * dd]), "gap:band[%d,%d]" % (i, j))
            else:
                cx.assume(CB(0.04 - float(dd)), "dom:vertex_distance[%d,%d]" % (i, j))
                v = float(dz * dz) / max(float(dd), 1e-300)
                cx.assume(CB(-1.0) if (float(dz) == 0.0 or v >= 1e-4) else CB(1.0), "gap:band[%d,%d]" % (i, j))
    pts = np.array([spec.to_world_point(cx, T, y) for y in loc], dtype=object if sym(cx) else float)
    return T, q, n, loc, contiguous(pts)


def _summarise_segment_to_plane(cx, T):
    """callee contract of _plane._line_segment_to_plane (proved as `distance.line_segment_to_plane` in contracts/c10_c11_lines.py): the caller
    is verified against that contract, not the body.  requires: segment of squared length >= 0.04, unit normal, epsilon in (0, 1e-3],
    direction cosine 0 or outside the band.  ensures: p1 on the segment, p2 in the plane, d >= 0, d^2 = |p1 - p2|^2, p1 - p2 parallel to the
    normal, KKT at both segment ends.  The two returned points are fresh, parameterised by their coordinates in the plane frame."""
    if not sym(cx):
        return
    from d3vc.vecops import cross as vcross

    def summary(s, e, q, n, eps):
        dd = [e[i] - s[i] for i in range(3)]
        dn = dot(dd, n)
        cx.prove("callee_pre:_line_segment_to_plane:nondegenerate", cx.ge(sq(dd), 0.04), kind="callee_pre", prop_level=False)
        cx.prove("callee_pre:_line_segment_to_plane:unit_normal", cx.eq(sq(n), 1.0), kind="callee_pre", prop_level=False)
        cx.prove("callee_pre:_line_segment_to_plane:epsilon", bool(0 < eps <= 1e-3), kind="callee_pre", prop_level=False)
        cx.prove("callee_pre:_line_segment_to_plane:gap", cx.any([cx.eq(dn, 0.0), cx.ge(dn * dn, eps * sq(dd))]), kind="callee_pre", prop_level=False)
        k = cx.scratch.get("n_summaries", 0)
        cx.scratch["n_summaries"] = k + 1
        y1, y2 = cx.vec("cs%d_y1" % k), cx.vec("cs%d_y2" % k)
        d = cx.real("cs%d_d" % k)
        p1, p2 = spec.to_world_point(cx, T, y1), spec.to_world_point(cx, T, y2)
        # the callee contract is stated over abstract vectors (Gram form), i.e. in any orthonormal frame: instantiate it in the plane frame
        sl, el, ql, nl = spec.to_local_point(cx, T, s), spec.to_local_point(cx, T, e), spec.to_local_point(cx, T, q), spec.to_local_dir(cx, T, n)
        ddl = [el[i] - sl[i] for i in range(3)]
        w = [y1[i] - sl[i] for i in range(3)]
        nv = [y1[i] - y2[i] for i in range(3)]
        # |w x dd|^2 = 0 with dd != 0 and 0 <= w.dd <= |dd|^2  <=>  w = tau dd for some tau in [0, 1]  (witness form, friendlier to nlsat)
        tau, lam = cx.real("cs%d_tau" % k), cx.real("cs%d_lam" % k)
        cx.assume(cx.all([cx.eq(w[i], tau * ddl[i]) for i in range(3)] + [cx.ge(tau, 0.0), cx.le(tau, 1.0)]), "callee_post:p1_on_segment")
        cx.assume(cx.eq(dot([y2[i] - ql[i] for i in range(3)], nl), 0.0), "callee_post:p2_in_plane")
        cx.assume(cx.all([cx.ge(d, 0.0), cx.eq(d * d, sq(nv))]), "callee_post:d_consistent")
        cx.assume(cx.all([cx.eq(nv[i], lam * nl[i]) for i in range(3)]), "callee_post:parallel_to_normal")     # |nv x n|^2 = 0, |n| = 1
        cx.assume(cx.all([cx.ge(dot(nv, [sl[i] - y1[i] for i in range(3)]), 0.0), cx.ge(dot(nv, [el[i] - y1[i] for i in range(3)]), 0.0)]), "callee_post:kkt")
        return d, contiguous(p1), contiguous(p2)
    cx.repo.patch(PL + "_line_segment_to_plane", summary)


def _plane_hull_post(cx, T, q, n, loc, res, height=None):
    """height(y): signed distance of the frame-T point y from the plane (default: the plane IS the frame's xy plane)"""
    d, p_plane, p_hull = res
    nverts = len(loc)
    height = height or (lambda y: y[2])
    hts = [height(y) for y in loc]
    sc = 1.0 if sym(cx) else max(1.0, float(np.max(np.abs(np.asarray(T, dtype=float)[:3, 3]))), max(float(np.max(np.abs(np.asarray(y, dtype=float)))) for y in loc))
    yp = spec.to_local_point(cx, T, p_plane)
    yh = spec.to_local_point(cx, T, p_hull)
    cx.prove("d_nonneg", cx.ge(d, 0.0))
    if sym(cx):
        cx.prove("plane_point_in_plane", cx.eq(height(yp), 0.0))
        cx.prove("d_consistent", cx.eq(d * d, sq([p_plane[i] - p_hull[i] for i in range(3)])))
        # true distance: 0 if the vertices are on both sides (or one is in the plane), else the smallest |height|
        for i in range(nverts):
            cx.prove("optimal:d_le_height[%d]" % i, cx.any([cx.le(d, hts[i]), cx.le(d, -hts[i])]))
        for i in range(nverts):
            for j in range(i + 1, nverts):
                cx.prove("optimal:zero_if_straddling[%d,%d]" % (i, j), cx.any([cx.ge(hts[i] * hts[j], 0.0), cx.eq(d, 0.0)]))
        cx.prove("optimal:d_attained_or_crossing", cx.any([cx.eq(d * d, hts[i] * hts[i]) for i in range(nverts)]
                                                          + [cx.all([cx.eq(d, 0.0), cx.lt(hts[i] * hts[j], 0.0)])
                                                             for i in range(nverts) for j in range(nverts) if i < j]))
        # hull point: a vertex, or a point of the segment between two vertices
        memb = [cx.all([cx.eq(yh[k], loc[i][k]) for k in range(3)]) for i in range(nverts)]
        for i in range(nverts):
            for j in range(nverts):
                if i != j:
                    w = [yh[k] - loc[i][k] for k in range(3)]
                    dd = [loc[j][k] - loc[i][k] for k in range(3)]
                    memb.append(cx.all([cx.eq(sq(spec.cross(w, dd)), 0.0), cx.ge(dot(w, dd), 0.0), cx.le(dot(w, dd), sq(dd))]))
        cx.prove("hull_point_in_hull", cx.any(memb))
    else:
        hs = [float(h) for h in hts]
        true = 0.0 if (min(hs) <= 0.0 <= max(hs)) else min(abs(h) for h in hs)
        cx.prove("plane_point_in_plane", CB(abs(float(height(yp)))), tol=1e-9 * sc)
        cx.prove("d_consistent", CB(abs(float(d) - float(np.linalg.norm(np.asarray(p_plane, dtype=float) - np.asarray(p_hull, dtype=float))))), tol=1e-9 * sc)
        cx.prove("optimal:d_is_true_distance", CB(abs(float(d) - true)), tol=1e-9 * sc)
        V = np.array([np.asarray(y, dtype=float) for y in loc])
        A = np.vstack([V.T, np.ones(nverts)])
        from scipy.optimize import nnls
        lam, rn = nnls(A, np.append(np.asarray(yh, dtype=float), 1.0))
        cx.prove("hull_point_in_hull", CB(float(rn)), tol=1e-9 * sc)


@contract("distance.plane_to_triangle", fn=PL + "plane_to_triangle", props=["C10", "C11", "C12", "C20"],
          deps=[PL + "_plane_to_convex_hull_points", PL + "_line_segment_to_plane", PL + "_line_to_plane", PL + "_point_to_plane"],
          opts=dict(abs_ite=True))
def _(cx):
    """unit normal, any three points, outside the epsilon band: plane point in the plane, triangle point a vertex or on an edge, d = |p1 - p2|,
    d = 0 when the vertices straddle the plane and the smallest vertex height otherwise (the true distance of a convex hull to a plane)"""
    f = cx.target()
    T, q, n, loc, pts = _plane_hull(cx, 3, "triangle")
    _summarise_segment_to_plane(cx, T)
    res = cx.call(f, q, n, pts)
    _plane_hull_post(cx, T, q, n, loc, res)
    cx.cover("end")


def _plane_in_frame(cx, T, loc, band=True):
    """a plane given in the frame T of the shape: unit normal nu and point pi in local coordinates (bijection with world planes); the band /
    domain preconditions of `_plane_hull` for the vertex list `loc`"""
    nu = spec.unit_vector(cx, "nu")
    pi = cx.vec("pi") if sym(cx) else arr(cx, [cx.real("pi_%d" % j, lo=-20.0, hi=20.0) for j in range(3)])
    n = contiguous(spec.to_world_dir(cx, T, nu))
    q = contiguous(spec.to_world_point(cx, T, pi))
    height = lambda y: dot(nu, [y[k] - pi[k] for k in range(3)])
    for i in range(len(loc) if band else 0):
        for j in range(i + 1, len(loc)):
            dz = height(loc[i]) - height(loc[j])
            dd = sq([loc[i][k] - loc[j][k] for k in range(3)])
            if sym(cx):
                cx.assume(dd >= 0.04, "dom:vertex_distance[%d,%d]" % (i, j))
                cx.assume(cx.any([dz == 0, dz * dz >= 1e-6 * dd]), "gap:band[%d,%d]" % (i, j))
            else:
                cx.assume(CB(0.04 - float(dd)), "dom:vertex_distance[%d,%d]" % (i, j))
                v = float(dz * dz) / max(float(dd), 1e-300)
                cx.assume(CB(-1.0) if (float(dz) == 0.0 or v >= 1e-4) else CB(1.0), "gap:band[%d,%d]" % (i, j))
    return q, n, height


@contract("distance.plane_to_rectangle", fn=PL + "plane_to_rectangle", props=["C10", "C11", "C12", "C20"],
          deps=[PL + "_plane_to_convex_hull_points", PL + "_line_segment_to_plane", "distance3d.geometry.convert_rectangle_to_vertices"],
          opts=dict(abs_ite=True))
def _(cx):
    """every rectangle (centre, orthonormal axes, lengths in [0.2, 1e2]) and every plane with unit normal outside the epsilon band: plane point in
    the plane, rectangle point a vertex or on a segment between two vertices, d = |p1 - p2|, d = the true distance (0 if the vertices
    straddle the plane, else the smallest vertex height)"""
    f = cx.target()
    shape = _Rect()
    P = shape.params(cx)
    h0, h1 = 0.5 * P["lengths"][0], 0.5 * P["lengths"][1]
    loc = [arr(cx, [sa * h0, sb * h1, 0.0]) for sa in (-1.0, 1.0) for sb in (-1.0, 1.0)]
    q, n, height = _plane_in_frame(cx, P["T"], loc)
    _summarise_segment_to_plane(cx, P["T"])
    res = cx.call(f, q, n, P["c"], P["axes"], P["lengths"])
    _plane_hull_post(cx, P["T"], q, n, loc, res, height)
    cx.cover("end")


def _box_corners(cx, P):
    h = [0.5 * P["size"][k] for k in range(3)]
    return [arr(cx, [sa * h[0], sb * h[1], sc * h[2]]) for sa in (-1.0, 1.0) for sb in (-1.0, 1.0) for sc in (-1.0, 1.0)]


@contract("geometry.convert_box_to_vertices", fn="distance3d.geometry.convert_box_to_vertices", props=["C10", "C11"], prop_level=False)
def _(cx):
    """every pose and size: the result is an (8, 3) array whose rows are the 8 corners T (+-s0/2, +-s1/2, +-s2/2), each sign pattern once"""
    f = cx.target()
    P = SHAPES["box"].params(cx, lo=0.2)
    res = cx.call(f, P["T"], P["size"])
    cx.prove("shape", bool(tuple(res.shape) == (8, 3)))
    for k, y in enumerate(_box_corners(cx, P)):
        w = spec.to_world_point(cx, P["T"], y)
        cx.prove("corner[%d]" % k, cx.all([cx.eq(res[k][i], w[i]) for i in range(3)]))
    cx.cover("end")


@contract("distance.plane_to_box:call_site", fn=PL + "plane_to_box", props=["C10", "C11"],
          deps=["distance3d.geometry.convert_box_to_vertices"], opts=dict(abs_ite=True))
def _(cx):
    """modular step of plane_to_box (every pose, sizes in [0.2, 1e2], every plane): the hull kernel `_plane_to_convex_hull_points` is
    replaced by an opaque summary; proved: the kernel receives the plane point and normal unchanged and an (8, 3) C-contiguous array of
    exactly the 8 corners of the box, and its result is returned unchanged.  The kernel itself is under contract for 3 points
    (`distance.plane_to_triangle`) and 4 points (`distance.plane_to_rectangle`); its contract for 8 points is NOT discharged (assumed by
    instantiation, see DESIGN section 6).  Natively (no summary): the full postcondition (true distance, members, d = |p1 - p2|)."""
    f = cx.target()
    P = SHAPES["box"].params(cx, lo=0.2)
    loc = _box_corners(cx, P)
    q, n, height = _plane_in_frame(cx, P["T"], loc, band=not sym(cx))     # the opaque kernel summary needs no band
    if not sym(cx):
        res = cx.call(f, q, n, P["T"], P["size"])
        _plane_hull_post(cx, P["T"], q, n, loc, res, height)
        cx.cover("end")
        return
    token = (cx.real("ks_d"), contiguous(cx.vec("ks_p1")), contiguous(cx.vec("ks_p2")))
    seen = []

    def summary(pp, pn, pts):
        seen.append(1)
        cx.prove("callee_arg:plane_point", cx.all([cx.eq(pp[i], q[i]) for i in range(3)]), kind="callee_pre")
        cx.prove("callee_arg:plane_normal", cx.all([cx.eq(pn[i], n[i]) for i in range(3)]), kind="callee_pre")
        cx.prove("callee_arg:points_layout", bool(tuple(pts.shape) == (8, 3)), kind="callee_pre")
        for k, y in enumerate(loc):
            w = spec.to_world_point(cx, P["T"], y)
            cx.prove("callee_arg:corner[%d]" % k, cx.all([cx.eq(pts[k][i], w[i]) for i in range(3)]), kind="callee_pre")
        return token
    cx.repo.patch(PL + "_plane_to_convex_hull_points", summary)
    res = cx.call(f, q, n, P["T"], P["size"])
    cx.prove("kernel_called_once", bool(len(seen) == 1))
    cx.prove("result_is_kernel_result", bool(len(res) == 3 and all(res[i] is token[i] for i in range(3))))
    cx.cover("end")


@contract("distance.point_to_circle", fn=DIST + "_circle.point_to_circle", props=["C10", "C11", "C12", "C20"],
          deps=["distance3d.utils.norm_vector"], opts=dict(minmax_ite=True))
def _(cx):
    """every centre, unit normal, radius and point outside the epsilon band (squared in-plane offset 0 or >= epsilon): closest point lies on
    the circle, d = |p - q|, no point of the circle is closer.  On the axis the code asks pytransform3d for a vector perpendicular to the
    normal: assumed contract of that dependency (non-zero, orthogonal to its argument)."""
    shape = SHAPES["disk"]
    f = cx.target()
    P = shape.params(cx, lo=0.2)
    T, r = P["T"], P["r"]
    p, ploc = spec.world_point(cx, "p", T)
    rho2 = ploc[0] * ploc[0] + ploc[1] * ploc[1]
    if sym(cx):
        eps = cx.real("epsilon")
        cx.assume((eps > 0) & (eps <= 1e-3), "dom:epsilon")
        cx.assume(cx.any([rho2 == 0, rho2 >= eps]), "gap:in-plane offset")
        # dependency summary: pr.perpendicular_to_vector(n) -> w with w.n = 0, w != 0 (given by its coordinates in the frame of the circle)
        wa, wb = cx.real("perp_0"), cx.real("perp_1")
        cx.assume(wa * wa + wb * wb > 0, "dep:perpendicular_to_vector:nonzero")

        class _PR:
            @staticmethod
            def perpendicular_to_vector(v):
                cx.prove("dep_pre:perpendicular_to_vector:arg_is_normal", cx.all([cx.eq(v[i], T[i, 2]) for i in range(3)]), kind="callee_pre", prop_level=False)
                return contiguous(spec.to_world_dir(cx, T, [wa, wb, 0.0]))
        cx.repo.module("distance3d.distance._circle")._ns["pr"] = _PR

        def norm_summary(v):
            """callee contract of utils.norm_vector (proved as `utils.norm_vector`): for v != 0 the result is s*v with s > 0 and unit length"""
            cx.prove("callee_pre:norm_vector:nonzero", cx.gt(sq(v), 0.0), kind="callee_pre", prop_level=False)
            sfac = cx.real("norm_scale")
            cx.assume(cx.all([cx.gt(sfac, 0.0), cx.eq(sfac * sfac * sq(v), 1.0)]), "callee_post:norm_vector:unit")
            return contiguous(np.array([sfac * v[i] for i in range(3)], dtype=object))
        cx.repo.patch("distance3d.utils.norm_vector", norm_summary)
    else:
        eps = 1e-6
        cx.assume(CB(-1.0) if (float(rho2) == 0.0 or float(rho2) >= 1e-4) else CB(1.0), "gap:in-plane offset")
    d, q = cx.call(f, contiguous(p), P["c"], r, P["n"], eps)
    yq = spec.to_local_point(cx, T, q)
    sc = _scale(cx, P, p)
    cx.prove("d_nonneg", cx.ge(d, 0.0))
    u, v = (cx.real("x_0"), cx.real("x_1")) if sym(cx) else (np.cos(cx.real("x_ang", lo=0.0, hi=6.3)), None)
    if sym(cx):
        cx.prove("closest_point_on_circle", cx.all([cx.eq(yq[2], 0.0), cx.eq(yq[0] * yq[0] + yq[1] * yq[1], r * r)]))
        cx.prove("d_consistent", cx.eq(d * d, sq([p[i] - q[i] for i in range(3)])))
        cx.assume(cx.eq(u * u + v * v, 1.0), "skolem:x on circle")
        x = [r * u, r * v, 0.0]
        cx.prove("optimal:no_circle_point_closer", cx.le(d * d, sq([ploc[i] - x[i] for i in range(3)])))
    else:
        ang = float(np.arccos(u))
        x = [r * np.cos(ang), r * np.sin(ang), 0.0]
        cx.prove("closest_point_on_circle", CB(max(abs(float(yq[2])), abs(float(np.hypot(yq[0], yq[1])) - r))), tol=1e-9 * sc)
        cx.prove("d_consistent", CB(abs(float(d) - float(np.linalg.norm(np.asarray(p, dtype=float) - np.asarray(q, dtype=float))))), tol=1e-9 * sc)
        cx.prove("optimal:no_circle_point_closer", CB(float(d) - float(np.linalg.norm(np.asarray(ploc, dtype=float) - np.asarray(x)))), tol=1e-9 * sc)
    cx.cover("end")
