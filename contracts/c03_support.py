"""C03: support mappings, first_vertex, center of every closed-form collider class (through the public methods,
so that the geometry.support_function_* kernels, utils.norm_vector, utils.transform_point and
utils.plane_basis_from_normal are verified as the text that runs, including the numba call signatures)."""
from d3vc.engine import contract
from d3vc import spec
from d3vc.spec import dot, sq
from contracts._shapes import SHAPES

KERNEL = {"cylinder": "support_function_cylinder", "capsule": "support_function_capsule", "ellipsoid": "support_function_ellipsoid",
          "box": "convert_box_to_vertices", "cone": "support_function_cone", "sphere": "support_function_sphere",
          "disk": "support_function_disk", "ellipse": "support_function_ellipse"}


def make(shape):
    K = shape.cls.rsplit(".", 1)[1]
    deps = ["distance3d.geometry." + KERNEL[shape.name], "distance3d.utils.transform_point", "distance3d.utils.norm_vector",
            "distance3d.utils.plane_basis_from_normal"]

    @contract("colliders.%s.support_function" % K, fn=shape.cls + ".support_function", props=["C03"], deps=deps)
    def _support(cx):
        """for every pose, size and direction d != 0: result is a point of the shape and no point of the shape projects further on d"""
        P = shape.params(cx)
        obj = shape.build(cx, P)
        d = shape.direction(cx, P)
        res = cx.call(obj.support_function, d)
        cx.prove("member", shape.member(cx, P, res))
        x = shape.any_point(cx, P, "y")
        use = shape.hints(cx, P, d, x, res)
        cx.prove("extremal", cx.le(dot(x, d), dot(res, d)), **(dict(use=use) if use else {}))
        cx.canary("strictly-beyond", cx.lt(dot(x, d), dot(res, d)))
        cx.cover("end")

    @contract("colliders.%s.first_vertex+center" % K, fn=shape.cls + ".first_vertex", props=["C03", "C08", "C02"], deps=[shape.cls + ".center"])
    def _fv(cx):
        """first_vertex() and center() are points of the shape"""
        P = shape.params(cx)
        obj = shape.build(cx, P)
        fv = cx.call(obj.first_vertex)
        cx.prove("first_vertex_member", shape.member(cx, P, fv))
        ce = cx.call(obj.center)
        cx.prove("center_member", shape.member(cx, P, ce))
        cx.cover("end")


for _s in SHAPES.values():
    make(_s)
