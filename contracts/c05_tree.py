"""C05: the AABB tree (distance3d.aabb_tree) for trees of ANY size.

State abstraction (z3 arrays, symbolic length F = number of used nodes):
   parent, left, right, typ : Int -> Int      (columns of `nodes`)
   box[a][b] : Int -> Real                    (`aabbs`)
   rank : Int -> Real                         ghost; witnesses acyclicity (parent has larger rank)
WF(root, F): the representation invariant, see wf().  Every public operation must preserve it (insert_leaf,
fix_upward_tree) and the queries rely on it.  Loops carry invariants (d3vc/loops.py); the quantified obligations go to z3
(E-matching / MBQI).  The induction 'every live node whose box overlaps q has been visited' uses the rank-induction rule
(finite index set, strictly increasing rank along parents): z3 proves the step, the rule itself is checked in Lean
(lean/FinRank.lean)."""
import numpy as np
import z3

from d3vc.engine import contract
from d3vc.sym import B, S, Ctx, bz
from d3vc import zarr
from d3vc.zarr import SI, ZTable, ZBoxes, ZList, zint, real_atom
from d3vc.loops import LoopSpec

M = "distance3d.aabb_tree"
PARENT, LEFT, RIGHT, TYPE = 0, 1, 2, 3
LEAF, BRANCH, NONE = 1, 2, -1
I = z3.IntSort()


def sym_box(cx, name):
    a = np.empty((3, 2), dtype=object)
    for i in range(3):
        for j in range(2):
            a[i, j] = cx.real("%s_%d%d" % (name, i, j))
    return a


def overlap_spec(b1, b2):
    """closed-interval overlap of two boxes given as accessor functions (a,b) -> z3 real"""
    return z3.And(*[z3.And(b1(a, 0) <= b2(a, 1), b1(a, 1) >= b2(a, 0)) for a in range(3)])


def box_of(boxes, i):
    return lambda a, b: boxes.sel(a, b, i)


def box_arr(m):
    return lambda a, b: zarr.zreal(m[a, b])


# ---------------------------------------------------------------------------------------------- L1: box primitives
@contract("aabb_tree.aabb_overlap", fn=M + ".aabb_overlap", props=["C05", "C06", "C16"])
def _(cx):
    """True exactly when the closed intervals overlap on all three axes (touching boxes overlap)"""
    f = cx.target()
    if cx.mode == "sym":
        b1, b2 = sym_box(cx, "p"), sym_box(cx, "q")
    else:
        b1 = np.array([[cx.real("p_%d%d" % (i, j), lo=-2.0, hi=2.0) for j in range(2)] for i in range(3)])
        b2 = np.array([[cx.real("q_%d%d" % (i, j), lo=-2.0, hi=2.0) for j in range(2)] for i in range(3)])
    r = cx.call(f, b1, b2)
    spec = cx.all([cx.all([cx.le(b1[a, 0], b2[a, 1]), cx.ge(b1[a, 1], b2[a, 0])]) for a in range(3)])
    if r:
        cx.prove("true_implies_overlap", spec, tol=0.0)
    else:
        cx.prove("false_implies_disjoint", cx.neg(spec), tol=0.0)
    cx.canary("end_reachable(hypotheses_consistent)", False, strict=True)
    cx.cover("end")


@contract("aabb_tree._merge_aabb+_aabb_volume", fn=M + "._merge_aabb", props=["C05", "C19"], deps=[M + "._aabb_volume"],
          opts=dict(minmax_ite=True))
def _(cx):
    """merge = componentwise (min of lows, max of highs); volume = product of the three extents; for well-formed boxes the
    volume is monotone under inclusion (this is what makes the in-code cost assertion of insert_leaf hold)"""
    f = cx.target()
    vol = cx.target(M + "._aabb_volume")
    if cx.mode == "sym":
        b1, b2 = sym_box(cx, "p"), sym_box(cx, "q")
    else:
        def rb(n):
            lo = np.array([cx.real("%s_%d0" % (n, i), lo=-2.0, hi=2.0) for i in range(3)])
            ext = np.array([cx.real("%s_e%d" % (n, i), lo=0.0, hi=2.0) for i in range(3)])
            return np.stack([lo, lo + ext], axis=1)
        b1, b2 = rb("p"), rb("q")
    m = cx.call(f, b1, b2)
    for a in range(3):
        cx.prove("lo_is_min[%d]" % a, cx.all([cx.le(m[a, 0], b1[a, 0]), cx.le(m[a, 0], b2[a, 0]),
                                               cx.any([cx.eq(m[a, 0], b1[a, 0]), cx.eq(m[a, 0], b2[a, 0])])]))
        cx.prove("hi_is_max[%d]" % a, cx.all([cx.ge(m[a, 1], b1[a, 1]), cx.ge(m[a, 1], b2[a, 1]),
                                               cx.any([cx.eq(m[a, 1], b1[a, 1]), cx.eq(m[a, 1], b2[a, 1])])]))
    v = cx.call(vol, b1)
    cx.prove("volume_is_product", cx.eq(v, (b1[0, 1] - b1[0, 0]) * (b1[1, 1] - b1[1, 0]) * (b1[2, 1] - b1[2, 0])), tol=1e-9)
    cx.canary("end_reachable(hypotheses_consistent)", False, strict=True)
    cx.cover("end")


# ---------------------------------------------------------------------------------------------- the tree abstraction
class Tree:
    def __init__(self, nodes, boxes, root, F, rank):
        self.nodes, self.boxes, self.root, self.F, self.rank = nodes, boxes, root, F, rank

    def col(self, k, i):
        return z3.Select(self.nodes.cols[k], i)

    def typ(self, i):
        return self.col(TYPE, i)

    def live(self, i):
        return z3.And(i >= 0, i < zint(self.F), z3.Or(self.typ(i) == LEAF, self.typ(i) == BRANCH))

    def rk(self, i):
        return z3.Select(self.rank, i)

    def box(self, i):
        return box_of(self.boxes, i)

    def box_ok(self, i):
        return z3.And(*[self.boxes.sel(a, 0, i) <= self.boxes.sel(a, 1, i) for a in range(3)])

    def box_eq_merge(self, i):
        l, r = self.col(LEFT, i), self.col(RIGHT, i)
        cs = []
        for a in range(3):
            lo, hi = self.boxes.sel(a, 0, i), self.boxes.sel(a, 1, i)
            ll, lh, rl, rh = self.boxes.sel(a, 0, l), self.boxes.sel(a, 1, l), self.boxes.sel(a, 0, r), self.boxes.sel(a, 1, r)
            cs += [lo <= ll, lo <= rl, z3.Or(lo == ll, lo == rl), hi >= lh, hi >= rh, z3.Or(hi == lh, hi == rh)]
        return z3.And(*cs)

    def wf(self, except_box=None):
        """representation invariant; `except_box` = list of node terms whose box equation is not (yet) required"""
        i = z3.Int("wf_i")
        root = zint(self.root)
        F = zint(self.F)
        cs = []
        cs.append(("root", z3.And(root >= 0, root < F, self.live(root), self.col(PARENT, root) == NONE)))
        cs.append(("types", z3.ForAll([i], z3.Implies(z3.And(i >= 0, i < F),
                                                       z3.Or(self.typ(i) == LEAF, self.typ(i) == BRANCH, self.typ(i) == NONE)))))
        l, r = self.col(LEFT, i), self.col(RIGHT, i)
        exc = z3.And(*[i != zint(e) for e in (except_box or [])]) if except_box else z3.BoolVal(True)
        cs.append(("branch", z3.ForAll([i], z3.Implies(
            z3.And(i >= 0, i < F, self.typ(i) == BRANCH),
            z3.And(l >= 0, l < F, r >= 0, r < F, l != r, self.live(l), self.live(r),
                   self.col(PARENT, l) == i, self.col(PARENT, r) == i,
                   self.rk(i) > self.rk(l), self.rk(i) > self.rk(r))))))
        cs.append(("boxeq", z3.ForAll([i], z3.Implies(z3.And(i >= 0, i < F, self.typ(i) == BRANCH, exc), self.box_eq_merge(i)))))
        p = self.col(PARENT, i)
        cs.append(("parent", z3.ForAll([i], z3.Implies(
            z3.And(self.live(i), i != root),
            z3.And(p >= 0, p < F, self.typ(p) == BRANCH, z3.Or(self.col(LEFT, p) == i, self.col(RIGHT, p) == i))))))
        cs.append(("boxes_ordered", z3.ForAll([i], z3.Implies(z3.And(i >= 0, i < F, self.typ(i) == LEAF), self.box_ok(i)))))
        return cs


def fresh_tree(cx, name="t", cap_slack=True):
    F = SI(z3.Int(name + "_F"))
    cap = SI(z3.Int(name + "_cap"))
    cx.facts.append(("dom:F", z3.And(F.t >= 1, cap.t >= F.t)))
    nodes = ZTable.fresh(name + "_nodes", 4, cap)
    boxes = ZBoxes.fresh(name + "_boxes", cap)
    root = SI(z3.Int(name + "_root"))
    rank = z3.Const(name + "_rank", z3.ArraySort(I, z3.RealSort()))
    return Tree(nodes, boxes, root, F, rank), cap


def assume_all(cx, named, prefix):
    for n, c in named:
        cx.facts.append((prefix + ":" + n, c))


# ---------------------------------------------------------------------------------------------- L2/L3: query_overlap
def _query_invariant(tree, q, brk):
    """invariant of the traversal loop of query_overlap over (stack, overlaps); popped / onst / pos are ghost components of the
    stack model (d3vc/zarr.py: maintained by the list operations the code performs)"""
    def inv(env):
        st, ov = env["stack"], env["overlaps"]
        if not isinstance(st, ZList):
            st = ZList.of(st, "stack")
        if not isinstance(ov, ZList):
            ov = ZList.of(ov, "overlaps")
        p, p2, i = z3.Int("inv_p"), z3.Int("inv_p2"), z3.Int("inv_i")
        n, m = zint(st.n), zint(ov.n)
        popped = lambda x: z3.Select(st.popped, x)
        onst = lambda x: z3.Select(st.onst, x)
        pos = lambda x: z3.Select(st.pos, x)
        root = zint(tree.root)
        qb = box_arr(q)
        ovl = lambda x: overlap_spec(tree.box(x), qb)
        seen = lambda x: z3.Or(popped(x), onst(x))
        cs = []
        cs.append(("len", z3.And(n >= 0, m >= 0)))
        cs.append(("stack_live", z3.ForAll([p], z3.Implies(z3.And(p >= 0, p < n),
                                                            z3.And(tree.live(st.sel(p)), z3.Not(popped(st.sel(p))), onst(st.sel(p)))))))
        cs.append(("onst_witness", z3.ForAll([i], z3.Implies(onst(i), z3.And(pos(i) >= 0, pos(i) < n, st.sel(pos(i)) == i)))))
        cs.append(("stack_distinct", z3.ForAll([p, p2], z3.Implies(z3.And(p >= 0, p < p2, p2 < n), st.sel(p) != st.sel(p2)))))
        cs.append(("popped_live", z3.ForAll([i], z3.Implies(popped(i), tree.live(i)))))
        cs.append(("root_seen", seen(root)))
        cs.append(("parent_first", z3.ForAll([i], z3.Implies(
            z3.And(tree.live(i), i != root, seen(i)),
            z3.And(popped(tree.col(PARENT, i)), ovl(tree.col(PARENT, i)))))))
        acc = z3.ForAll([i], z3.Implies(z3.And(popped(i), tree.typ(i) == BRANCH, ovl(i)),
                                        z3.And(seen(tree.col(LEFT, i)), seen(tree.col(RIGHT, i)))))
        if not brk:
            cs.append(("children_accounted", acc))
            cs.append(("overlaps_sound", z3.ForAll([p], z3.Implies(
                z3.And(p >= 0, p < m), z3.And(popped(ov.sel(p)), tree.typ(ov.sel(p)) == LEAF, ovl(ov.sel(p)))))))
            cs.append(("overlaps_distinct", z3.ForAll([p, p2], z3.Implies(z3.And(p >= 0, p < p2, p2 < m), ov.sel(p) != ov.sel(p2)))))
            cs.append(("overlaps_witness", z3.ForAll([i], z3.Implies(
                z3.And(popped(i), tree.typ(i) == LEAF, ovl(i)),
                z3.And(z3.Select(ov.pos, i) >= 0, z3.Select(ov.pos, i) < m, ov.sel(z3.Select(ov.pos, i)) == i)))))
        else:
            cs.append(("overlaps_sound", z3.ForAll([p], z3.Implies(
                z3.And(p >= 0, p < m), z3.And(tree.live(ov.sel(p)), tree.typ(ov.sel(p)) == LEAF, ovl(ov.sel(p)))))))
            cs.append(("none_found_yet", z3.Implies(m == 0, z3.ForAll([i], z3.Implies(
                z3.And(popped(i), tree.typ(i) == LEAF), z3.Not(ovl(i)))))))
            cs.append(("children_accounted", z3.Implies(m == 0, acc)))
        return [(nm, B(c)) for nm, c in cs]
    return inv


def _query_contract(brk):
    name = "aabb_tree.query_overlap" + ("[break_at_first_leaf]" if brk else "")

    @contract(name, fn=M + ".query_overlap", props=["C05", "C06", "C16", "C20"], deps=[M + ".aabb_overlap"],
              loops={M + ".query_overlap": [0]}, tags=["no-native"], opts=dict(feas_timeout_ms=400))
    def _c(cx):
        """on a well-formed tree of any size: every subscript is in bounds, the traversal invariant is preserved, and on exit the
        result lists exactly the leaves whose box overlaps the query (sound, duplicate-free, complete); with
        break_at_first_leaf: result non-empty iff some leaf overlaps"""
        f = cx.target()
        tree, cap = fresh_tree(cx)
        assume_all(cx, tree.wf(), "wf")
        q = sym_box(cx, "q")
        def on_exit(env):
            cx.scratch["final_stack"] = env["stack"]
        cx.loop_specs[(M + ".query_overlap", 0)] = LoopSpec(_query_invariant(tree, q, brk), prop_level=True, on_exit=on_exit)
        res = cx.call(f, q, tree.root, tree.nodes, tree.boxes, brk) if brk else cx.call(f, q, tree.root, tree.nodes, tree.boxes)
        # ---- exit: stack is empty (or the loop was left by `break` with a leaf found)
        ov = res
        if not isinstance(ov, ZList):
            ov = ZList.of(list(ov), "overlaps")
        m = zint(ov.n)
        p, p2, i = z3.Int("post_p"), z3.Int("post_p2"), z3.Int("post_i")
        qb = box_arr(q)
        ovl = lambda x: overlap_spec(tree.box(x), qb)
        cx.prove("sound", B(z3.ForAll([p], z3.Implies(z3.And(p >= 0, p < m), z3.And(tree.live(ov.sel(p)), tree.typ(ov.sel(p)) == LEAF, ovl(ov.sel(p)))))))
        if not brk:
            cx.prove("no_duplicates", B(z3.ForAll([p, p2], z3.Implies(z3.And(p >= 0, p < p2, p2 < m), ov.sel(p) != ov.sel(p2)))))
        # ---- completeness.  P(i) := live(i) and box(i) overlaps q  ->  popped(i).  Rule fin_rank_induction (lean/FinRank.lean):
        # for a finite index set and any rank function it suffices to prove P(i) from P(j) for all j of larger rank.
        # The step is an obligation; the conclusion (forall i. P(i)) is then added as a fact justified by the rule.
        st = cx.scratch.get("final_stack")
        if st is not None:
            popped = lambda x: z3.Select(st.popped, x)
            j = z3.Int("ind_j")
            P = lambda x: z3.Implies(z3.And(tree.live(x), ovl(x)), popped(x))
            k = z3.Int("ind_i")
            guard = (m == 0) if brk else z3.BoolVal(True)
            step = z3.Implies(z3.And(guard, z3.ForAll([j], z3.Implies(tree.rk(j) > tree.rk(k), P(j)))), P(k))
            if brk:
                # only claimed when nothing was found (otherwise the traversal stopped early on purpose)
                pass
            cx.prove("complete.induction_step", B(step), kind="lemma", prop_level=True)
            cx.facts.append(("rule:fin_rank_induction", z3.Implies(guard, z3.ForAll([k], P(k)))))
            if not brk:
                cx.prove("complete", B(z3.ForAll([i], z3.Implies(
                    z3.And(tree.live(i), tree.typ(i) == LEAF, ovl(i)),
                    z3.And(z3.Select(ov.pos, i) >= 0, z3.Select(ov.pos, i) < m, ov.sel(z3.Select(ov.pos, i)) == i)))))
            else:
                cx.prove("empty_result_means_no_overlapping_leaf", B(z3.Implies(m == 0, z3.ForAll([i], z3.Implies(
                    z3.And(tree.live(i), tree.typ(i) == LEAF), z3.Not(ovl(i)))))))
        cx.canary("end_reachable(hypotheses_consistent)", False, strict=True)
        cx.cover("end")
    return _c


_query_contract(False)
_query_contract(True)


# ---------------------------------------------------------------------------------------------- fix_upward_tree
def _structure_frame(t0, t1):
    """nodes table unchanged (fix_upward_tree never writes `nodes`)"""
    return z3.And(*[t0.nodes.cols[k] == t1.nodes.cols[k] for k in range(4)])


@contract("aabb_tree.fix_upward_tree", fn=M + ".fix_upward_tree", props=["C05", "C19"], deps=[M + "._merge_aabb"],
          loops={M + ".fix_upward_tree": [0]}, tags=["no-native"], opts=dict(minmax_ite=True, feas_timeout_ms=400))
def _(cx):
    """precondition: the tree is well-formed except that the box equations of the start node c0 and of its parent may be violated
    (insert_leaf starts the walk at the freshly written new parent, whose own parent is the node with the stale box);
    postcondition: fully well-formed, `nodes` untouched, every leaf box unchanged; the walk is strictly rank-increasing
    (terminates by the pigeonhole rule no_long_increasing_walk of lean/FinRank.lean)"""
    f = cx.target()
    tree, cap = fresh_tree(cx)
    c0 = SI(z3.Int("c0"))
    assume_all(cx, tree.wf(except_box=[c0, tree.col(PARENT, c0.t)]), "wf")
    cx.facts.append(("pre:c0_branch", z3.And(tree.live(c0.t), tree.typ(c0.t) == BRANCH)))
    boxes0 = tree.boxes.snapshot()
    pre = Tree(tree.nodes, boxes0, tree.root, tree.F, tree.rank)

    def inv(env):
        cur = env["tree_node_index"]
        bx = env["aabbs"]
        t = Tree(tree.nodes, bx, tree.root, tree.F, tree.rank)
        i = z3.Int("fi")
        cz = zint(cur)
        cs = [("cur", z3.Or(cz == NONE, z3.And(t.live(cz), t.typ(cz) == BRANCH))),
              ("boxeq_except_cur_and_its_parent", z3.ForAll([i], z3.Implies(
                  z3.And(i >= 0, i < zint(t.F), t.typ(i) == BRANCH, z3.Or(cz == NONE, z3.And(i != cz, i != t.col(PARENT, cz)))), t.box_eq_merge(i)))),
              ("all_boxes_ordered", z3.ForAll([i], z3.Implies(z3.And(t.live(i), i != cz), t.box_ok(i)))),
              ("children_of_cur_ordered", z3.Implies(cz != NONE, z3.And(t.box_ok(t.col(LEFT, cz)), t.box_ok(t.col(RIGHT, cz))))),
              ("leaf_boxes_unchanged", z3.ForAll([i], z3.Implies(z3.And(i >= 0, i < zint(t.F), t.typ(i) == LEAF),
                                                                 z3.And(*[bx.sel(a, b, i) == boxes0.sel(a, b, i) for a in range(3) for b in range(2)]))))]
        return [(n, B(c)) for n, c in cs]

    prev = {}

    def havoc_idx(old):
        v = SI(zarr._fresh("h_cur", I))
        prev["cur"] = v
        return v

    cx.loop_specs[(M + ".fix_upward_tree", 0)] = LoopSpec(inv, keep={"tree_node"}, havoc={"tree_node_index": havoc_idx}, prop_level=False)
    # progress: checked at the back edge through an extra invariant-like obligation installed via on_exit is not possible; instead
    # the rank increase is proved as part of 'cur' preservation below (parent has larger rank by WF.branch).
    # all boxes ordered initially (leaves by WF, branches other than c0 by their box equation - stated as precondition of this contract)
    i = z3.Int("pi")
    cx.facts.append(("pre:boxes_ordered", z3.ForAll([i], z3.Implies(z3.And(tree.live(i), i != c0.t), tree.box_ok(i)))))
    cx.facts.append(("pre:children_ordered", z3.And(tree.box_ok(tree.col(LEFT, c0.t)), tree.box_ok(tree.col(RIGHT, c0.t)))))
    res = cx.call(f, c0, tree.nodes, tree.boxes)
    post = Tree(tree.nodes, res, tree.root, tree.F, tree.rank)
    for n, c in post.wf():
        cx.prove("post_wf:" + n, B(c), prop_level=False)
    cx.prove("post:all_boxes_ordered", B(z3.ForAll([i], z3.Implies(post.live(i), post.box_ok(i)))), prop_level=False)
    cx.prove("post:leaf_boxes_unchanged", B(z3.ForAll([i], z3.Implies(
        z3.And(i >= 0, i < zint(tree.F), tree.typ(i) == LEAF),
        z3.And(*[res.sel(a, b, i) == boxes0.sel(a, b, i) for a in range(3) for b in range(2)])))), prop_level=False)
    cx.canary("end_reachable(hypotheses_consistent)", False, strict=True)
    cx.cover("end")


# ---------------------------------------------------------------------------------------------- insert_leaf
def _install_fix_upward_summary(cx, builder):
    """callee contract of fix_upward_tree (proved above) used at its call site inside insert_leaf: the caller must establish
    'well-formed except the box equation of c0', and may then assume full well-formedness with unchanged leaf boxes"""
    def summary(tree_node_index, nodes, aabbs):
        t = builder(nodes, aabbs)
        c0 = zint(tree_node_index)
        for n, c in t.wf(except_box=[c0, t.col(PARENT, c0)]):
            cx.prove("callee_pre:fix_upward_tree:wf:" + n, B(c), kind="callee_pre", prop_level=True)
        i = z3.Int("si")
        cx.prove("callee_pre:fix_upward_tree:c0_branch", B(z3.And(t.live(c0), t.typ(c0) == BRANCH)), kind="callee_pre")
        cx.prove("callee_pre:fix_upward_tree:boxes_ordered", B(z3.ForAll([i], z3.Implies(z3.And(t.live(i), i != c0), t.box_ok(i)))), kind="callee_pre")
        cx.prove("callee_pre:fix_upward_tree:children_ordered", B(z3.And(t.box_ok(t.col(LEFT, c0)), t.box_ok(t.col(RIGHT, c0)))), kind="callee_pre")
        res = ZBoxes.fresh("fixed_boxes", aabbs.nrows)
        t2 = Tree(nodes, res, t.root, t.F, t.rank)
        assume_all(cx, t2.wf(), "post:fix_upward_tree:wf")
        cx.facts.append(("post:fix_upward_tree:ordered", z3.ForAll([i], z3.Implies(t2.live(i), t2.box_ok(i)))))
        cx.facts.append(("post:fix_upward_tree:leaf_boxes", z3.ForAll([i], z3.Implies(
            z3.And(i >= 0, i < zint(t.F), t.typ(i) == LEAF),
            z3.And(*[res.sel(a, b, i) == aabbs.sel(a, b, i) for a in range(3) for b in range(2)])))))
        cx.scratch["tree_after_fix"] = t2
        return res
    cx.repo.patch(M + ".fix_upward_tree", summary)


def _install_volume_summary(cx):
    """callee contract of _aabb_volume (proved in aabb_tree._merge_aabb+_aabb_volume: product of the three extents) plus the
    lemma 'the product of three non-negative factors is monotone' (proved once over fresh atoms, instantiated for every pair of
    calls): this is what the in-code cost assertion of insert_leaf needs."""
    calls = []
    a1, a2, a3, b1, b2, b3 = [z3.Real("vm_" + n) for n in "a1 a2 a3 b1 b2 b3".split()]
    lemma = z3.Implies(z3.And(0 <= a1, a1 <= b1, 0 <= a2, a2 <= b2, 0 <= a3, a3 <= b3), a1 * a2 * a3 <= b1 * b2 * b3)

    def summary(aabb):
        e = [cx.let("ext", aabb[k, 1] - aabb[k, 0]) for k in range(3)]
        nm, v = cx.fresh("vol")
        ez = [zarr.zreal(x) for x in e]
        cx.facts.append(("def:" + nm, v.z() == ez[0] * ez[1] * ez[2]))
        if not calls:
            cx.prove("lemma:product_of_nonneg_is_monotone", B(lemma), kind="lemma", prop_level=False, use=[])
        for (e2, v2) in calls:
            cx.facts.append(("lemma:volume_monotone", z3.Implies(z3.And(*[z3.And(0 <= x, x <= y) for x, y in zip(ez, e2)]), v.z() <= v2)))
            cx.facts.append(("lemma:volume_monotone", z3.Implies(z3.And(*[z3.And(0 <= y, y <= x) for x, y in zip(ez, e2)]), v2 <= v.z())))
        calls.append((ez, v.z()))
        return v
    cx.repo.patch(M + "._aabb_volume", summary)


@contract("aabb_tree.insert_leaf", fn=M + ".insert_leaf", props=["C05", "C19", "C20"],
          deps=[M + "._merge_aabb", M + "._aabb_volume"], loops={M + ".insert_leaf": [0]}, tags=["no-native"],
          opts=dict(minmax_ite=True, feas_timeout_ms=400))
def _(cx):
    """on a well-formed non-empty tree of any size with room for one more node: inserting a pending leaf yields a well-formed tree
    whose leaves are the old leaves plus the new one, all leaf boxes unchanged; every subscript in bounds; the in-code cost
    assertion holds; fix_upward_tree is used through its contract"""
    f = cx.target()
    tree, cap = fresh_tree(cx)
    assume_all(cx, tree.wf(), "wf")
    i = z3.Int("li")
    cx.facts.append(("pre:all_boxes_ordered", z3.ForAll([i], z3.Implies(tree.live(i), tree.box_ok(i)))))
    leaf = SI(z3.Int("leaf"))
    F0 = tree.F
    cx.facts.append(("pre:leaf_pending", z3.And(leaf.t >= 0, leaf.t < zint(F0), tree.typ(leaf.t) == NONE, tree.box_ok(leaf.t))))
    cx.facts.append(("pre:room", zint(F0) < zint(cap)))
    cx.facts.append(("pre:slot_unused", tree.typ(zint(F0)) == NONE))
    nodes0 = tree.nodes.snapshot()
    boxes0 = tree.boxes.snapshot()
    pre = Tree(nodes0, boxes0, tree.root, F0, tree.rank)

    def inv(env):
        cur = zint(env["tree_node_index"])
        return [("cur_live", B(pre.live(cur)))]

    def progress(e0, e1):
        return B(pre.rk(zint(e1["tree_node_index"])) < pre.rk(zint(e0["tree_node_index"])))

    cx.loop_specs[(M + ".insert_leaf", 0)] = LoopSpec(inv, progress=progress, prop_level=False)

    def builder(nodes, aabbs):
        # abstract state at the call of fix_upward_tree, read off the arrays: the new parent sits in slot F0
        np_ = zint(F0)
        old_parent = z3.Select(nodes.cols[PARENT], np_)
        sibling = z3.Select(nodes.cols[LEFT], np_)
        root1 = z3.If(old_parent == NONE, np_, zint(tree.root))
        rstar = z3.If(old_parent == NONE, pre.rk(sibling) + 1, (pre.rk(sibling) + pre.rk(old_parent)) / 2)
        rank1 = z3.Store(z3.Store(tree.rank, np_, rstar), leaf.t, rstar - 1)
        return Tree(nodes, aabbs, SI.mk(root1), SI.mk(zint(F0) + 1), rank1)

    _install_fix_upward_summary(cx, builder)
    _install_volume_summary(cx)
    r_root, r_nodes, r_boxes, r_F = cx.call(f, tree.root, leaf, tree.nodes, tree.boxes, F0)
    t2 = cx.scratch.get("tree_after_fix")
    if t2 is None:
        cx.prove("fix_upward_tree_was_called", False)
        return
    cx.prove("post:F", B(zint(r_F) == zint(F0) + 1))
    cx.prove("post:root", B(zint(r_root) == zint(t2.root)))
    post = Tree(r_nodes, r_boxes, r_root, r_F, t2.rank)
    for n, c in post.wf():
        cx.prove("post_wf:" + n, B(c))
    cx.prove("post:leaf_is_leaf", B(post.typ(leaf.t) == LEAF))
    cx.prove("post:leaves_are_old_plus_new", B(z3.ForAll([i], z3.Implies(
        z3.And(i >= 0, i < zint(F0), i != leaf.t), post.typ(i) == pre.typ(i)))))
    cx.prove("post:new_node_is_branch", B(post.typ(zint(F0)) == BRANCH))
    cx.prove("post:leaf_boxes_unchanged", B(z3.ForAll([i], z3.Implies(
        z3.And(i >= 0, i < zint(F0), z3.Or(pre.typ(i) == LEAF, i == leaf.t)),
        z3.And(*[r_boxes.sel(a, b, i) == boxes0.sel(a, b, i) for a in range(3) for b in range(2)])))))
    cx.canary("end_reachable(hypotheses_consistent)", False, strict=True)
    cx.cover("end")


# ---------------------------------------------------------------------------------------------- class level: histories with no insertion
@contract("aabb_tree.AabbTree[empty].queries", fn=M + ".AabbTree.overlaps_aabb", props=["C05", "C19", "C20"],
          deps=[M + ".AabbTree.overlaps_aabb_tree", M + ".query_overlap", M + ".query_overlap_of_other_tree"])
def _(cx):
    """history 'no insertion at all': box query and tree-vs-tree query on a freshly constructed tree return 'no overlap' with empty
    index sets; no subscript outside the (empty) arrays (compiled code would read garbage / never return)"""
    K = cx.target(M + ".AabbTree")
    t1 = cx.call(K)
    q = sym_box(cx, "q") if cx.mode == "sym" else np.array([[cx.real("q_%d0" % i, lo=-1.0, hi=0.0), cx.real("q_%d1" % i, lo=0.0, hi=1.0)] for i in range(3)])
    which = cx.choice(2, "query")
    if which == 0:
        flag, idx = cx.call(t1.overlaps_aabb, q)
        cx.prove("empty_tree_box_query:no_overlap", bool(flag is False or flag == 0))
        cx.prove("empty_tree_box_query:no_indices", bool(len(idx) == 0))
    else:
        t2 = cx.call(K)
        flag, i1, i2, pairs = cx.call(t1.overlaps_aabb_tree, t2)
        cx.prove("empty_tree_tree_query:no_overlap", bool(flag is False or flag == 0))
        cx.prove("empty_tree_tree_query:no_pairs", bool(len(pairs) == 0 and len(i1) == 0 and len(i2) == 0))
    cx.cover("end")


@contract("aabb_tree.insert_leaf[first]", fn=M + ".insert_leaf", props=["C05"], tags=["no-native"])
def _(cx):
    """inserting into the empty tree (root = -1, every slot unused, slots initialised with -1 as AabbTree.insert_aabbs does):
    the leaf becomes the root and the result is a well-formed one-leaf tree"""
    f = cx.target()
    F = SI(z3.Int("t_F"))
    cap = SI(z3.Int("t_cap"))
    cx.facts.append(("dom:F", z3.And(F.t >= 1, cap.t >= F.t)))
    nodes = ZTable.fresh("t_nodes", 4, cap)
    boxes = ZBoxes.fresh("t_boxes", cap)
    rank = z3.Const("t_rank", z3.ArraySort(I, z3.RealSort()))
    leaf = SI(z3.Int("leaf"))
    i = z3.Int("ei")
    cx.facts.append(("pre:all_slots_unused", z3.ForAll([i], z3.Implies(z3.And(i >= 0, i < cap.t), z3.And(
        *[z3.Select(nodes.cols[k], i) == NONE for k in range(4)])))))
    cx.facts.append(("pre:leaf", z3.And(leaf.t >= 0, leaf.t < F.t)))
    pre_boxes = boxes.snapshot()
    cx.facts.append(("pre:leaf_box_ordered", z3.And(*[boxes.sel(a, 0, leaf.t) <= boxes.sel(a, 1, leaf.t) for a in range(3)])))
    r_root, r_nodes, r_boxes, r_F = cx.call(f, -1, leaf, nodes, boxes, F)
    post = Tree(r_nodes, r_boxes, r_root, r_F, rank)
    cx.prove("post:root_is_leaf", B(zint(r_root) == leaf.t))
    cx.prove("post:F_unchanged", B(zint(r_F) == F.t))
    for n, c in post.wf():
        cx.prove("post_wf:" + n, B(c))
    cx.prove("post:only_leaf_live", B(z3.ForAll([i], z3.Implies(z3.And(i >= 0, i < F.t, i != leaf.t), z3.Not(post.live(i))))))
    cx.canary("end_reachable(hypotheses_consistent)", False, strict=True)
    cx.cover("end")
