"""C17 proof tier: make_tetrahedral_cube and make_tetrahedral_box for symbolic sizes (every size class of the box: which half sizes
equal the minimum within the code's relative tolerance is decided path-wise)."""
import numpy as np
from d3vc.engine import contract
from d3vc import spec
from d3vc.spec import sym
from d3vc.sym import CB

MC = "distance3d.hydroelastic_contact._tetra_mesh_creation."


def _det(a, b, c):
    return (a[0] * (b[1] * c[2] - b[2] * c[1]) - a[1] * (b[0] * c[2] - b[2] * c[0]) + a[2] * (b[0] * c[1] - b[1] * c[0]))


def _check_mesh(cx, vertices, tetrahedra, potentials, half, inradius, n_boundary, total_volume):
    nv = len(vertices)
    cx.prove("shapes", bool(vertices.shape == (nv, 3) and tetrahedra.shape[1] == 4 and len(potentials) == nv))
    cx.prove("indices_valid", bool(int(np.min(tetrahedra)) >= 0 and int(np.max(tetrahedra)) < nv))
    scale = 1.0 if sym(cx) else max(1.0, float(np.max(half)))
    for i in range(nv):
        for a in range(3):
            cx.prove("vertex_inside[%d,%d]" % (i, a), cx.all([cx.le(vertices[i][a], half[a]), cx.le(-half[a], vertices[i][a])]), tol=1e-9 * scale)
        if i < n_boundary:
            cx.prove("boundary_potential_zero[%d]" % i, cx.eq(potentials[i], 0.0))
        else:
            cx.prove("medial_potential_is_inradius[%d]" % i, cx.eq(potentials[i], inradius), tol=1e-9 * scale)
    six_vol = 0.0
    for t, tet in enumerate(tetrahedra):
        p = [vertices[int(k)] for k in tet]
        d = _det([p[1][a] - p[0][a] for a in range(3)], [p[2][a] - p[0][a] for a in range(3)], [p[3][a] - p[0][a] for a in range(3)])
        ad = cx.abs(d) if sym(cx) else abs(float(d))
        if sym(cx):
            cx.prove("volume_positive[%d]" % t, cx.gt(ad, 0.0))
        else:
            # strictly positive; the margin is relative to the volume of the box (not to the cube of its largest size: a 1 : 8000 box has
            # thin but perfectly valid tetrahedra - false alarm of the thorough tier, DESIGN section 12)
            cx.prove("volume_positive[%d]" % t, CB(1e-9 * abs(float(total_volume)) - ad), tol=0.0)
        six_vol = six_vol + ad
    if sym(cx):
        cx.prove("volumes_sum_to_box_volume", cx.eq(six_vol, 6.0 * total_volume))
    else:
        cx.prove("volumes_sum_to_box_volume", CB(abs(float(six_vol) / 6.0 - float(total_volume)) / scale ** 3), tol=1e-9)


@contract("hydroelastic.make_tetrahedral_cube", fn=MC + "make_tetrahedral_cube", props=["C17"])
def _(cx):
    """every size: 12 tetrahedra of non-zero volume summing to size^3, corners potential 0, centre potential size/2, vertices in the cube"""
    f = cx.target()
    s = spec.size(cx, "size")
    v, t, pot = cx.call(f, s)
    _check_mesh(cx, v, t, pot, [0.5 * s] * 3, 0.5 * s, 8, s * s * s)
    cx.cover("end")


@contract("hydroelastic.make_tetrahedral_box", fn=MC + "make_tetrahedral_box", props=["C17"], deps=[MC + "_split_to_tetrahedra"])
def _(cx):
    """every box size in D, every size class (ties of half sizes within the code's tolerance band excluded by a gap precondition):
    tetrahedra of non-zero volume whose volumes sum to s0*s1*s2 (exact tiling), 8 corners with potential 0, medial vertices with
    potential min half size, all vertices inside the box; no uninitialised index is used"""
    f = cx.target()
    if sym(cx):
        size = np.array([spec.size(cx, "s%d" % i) for i in range(3)], dtype=object)
        # gap precondition on the code's tie test `half - min_half <= 1e-14 * max(1, min_half)`: exact tie or clearly apart
        for i in range(3):
            for j in range(i + 1, 3):
                cx.assume(cx.any([size[i] == size[j], size[i] - size[j] >= 1e-6, size[j] - size[i] >= 1e-6]), "gap:tie[%d,%d]" % (i, j))
    else:
        r = cx.rng
        base = [cx.real("s%d" % i, lo=1e-2, hi=1e2) for i in range(3)]
        mode = r.random()
        if mode < 0.25:
            base[1] = base[0]
        elif mode < 0.4:
            base[1] = base[0]; base[2] = base[0]
        elif mode < 0.5:
            base[2] = base[1]
        for i in range(3):
            cx.values["s%d" % i] = base[i]
        size = np.array(base, dtype=float)
    v, t, pot = cx.call(f, size)
    half = [0.5 * size[i] for i in range(3)]
    mn = half[0]
    for h in half[1:]:
        if h < mn:
            mn = h
    _check_mesh(cx, v, t, pot, half, mn, 8, size[0] * size[1] * size[2])
    cx.cover("end")
