"""C18: simplex solvers of the Jolt-style GJK (closest point of conv{y_1..y_k} to the origin), k = 1..3 in Gram mode.

Optimality is stated by the KKT characterisation: v is the minimum-norm point of conv{y_i} iff v is a convex
combination of the y_i and v.y_i >= v.v for every i (quantifier-free)."""
import numpy as np
from d3vc.engine import contract
from d3vc import gram, spec
from d3vc.vecops import dot, sq, lincomb
from d3vc.sym import CB

EPS = float(np.finfo(float).eps)
EPS2 = EPS * EPS


def vectors(cx, names, lattice=True, rank3=True):
    """abstract vectors in symbolic mode; float vectors (model realisation or random incl. lattice/degenerate) otherwise"""
    if cx.mode == "sym":
        G = gram.GramSpace(cx, names, rank3=rank3)
        return [G.vec(n) for n in names]
    have = all(("g_%s_%s" % (a, a)) in cx.values for a in names)
    if have:
        def gv(a, b):
            a, b = min(a, b), max(a, b)
            return cx.values.get("g_%s_%s" % (a, b), 0.0)
        ts = 1.0
        if len(names) >= 3:
            ts = cx.values.get("T_%s_%s_%s" % tuple(sorted(names[:3])), 1.0) or 1.0
        vs = gram.realise(names, gv, ts)
        return [vs[n] for n in names]
    r = cx.rng
    mode = r.random()
    out = []
    for n in names:
        if mode < 0.4:
            v = np.array([float(r.choice([-1, 0, 1])) for _ in range(3)])
        elif mode < 0.5:
            v = np.array([float(r.choice([-2, -1, 0, 1, 2])) for _ in range(3)])
        else:
            v = np.array([r.gauss(0, 1) for _ in range(3)]) * 10 ** r.uniform(-2, 2)
        out.append(v)
    if mode >= 0.5 and r.random() < 0.3 and len(out) >= 2:
        out[-1] = out[0] * r.uniform(-2, 2) + (out[1] * r.uniform(-2, 2) if len(out) > 2 else 0.0)   # dependent point
    for n, v in zip(names, out):
        for i in range(3):
            cx.values["%s_%d" % (n, i)] = float(v[i])
    return [np.ascontiguousarray(v) for v in out]


def gap(cx, q, thr, name):
    """gap precondition: the code threshold `q < thr` separates 'treated as degenerate' from 'regular'; the exact
    postcondition is claimed for q == 0 or q >= thr (the property's inputs: lattice points / well-separated reals)"""
    if cx.mode == "sym":
        cx.assume(cx.any([q == 0, q >= thr]), "gap:" + name)
    else:
        cx.assume(CB(min(abs(q), thr - q)) if not (q == 0 or q >= thr) else CB(-1.0), "gap:" + name)


def kkt(cx, v, ys, bits, tag=""):
    vv = sq(v)
    scale = 1.0
    if cx.mode != "sym":
        scale = max(1.0, max(float(sq(y)) for y in ys))
    for i, y in enumerate(ys):
        cx.prove("kkt%s[%d]" % (tag, i), cx.ge(dot(v, y), vv) if cx.mode == "sym" else CB((vv - float(dot(v, y))) / scale), tol=1e-9)


@contract("gjk_jolt.closest_point_line", fn="distance3d.gjk._gjk_jolt.closest_point_line", props=["C18", "C01"],
          deps=["distance3d.gjk._gjk_jolt.get_barycentric_coordinates_line"])
def _(cx):
    """2 points: result is the minimum-norm point of the segment (KKT), a convex combination of the returned subset"""
    f = cx.target()
    a, b = vectors(cx, ["a", "b"])
    eps2 = cx.abstract_constant("distance3d.gjk._gjk_jolt", "EPSILON_SQR")
    gap(cx, sq(b - a), eps2, "|b-a|^2")
    v, bits = cx.call(f, a, b)
    cx.prove("bits_range", bool(bits in (1, 2, 3)))
    kkt(cx, v, [a, b], bits)
    # membership in the hull of the returned subset, with the barycentric weights as witness
    if bits == 1:
        cx.prove("is_a", cx.eq(sq(v - a), 0.0), tol=1e-12)
    elif bits == 2:
        cx.prove("is_b", cx.eq(sq(v - b), 0.0), tol=1e-12)
    else:
        ab = b - a
        lam = -dot(a, ab) / sq(ab)
        cx.prove("weight_in_[0,1]", cx.all([cx.ge(lam, 0.0), cx.le(lam, 1.0)]))
        cx.prove("is_combination", cx.eq(sq(v - (a + ab * lam)), 0.0), tol=1e-12)
    cx.cover("end")


def _triangle(cx, regular):
    f = cx.target("distance3d.gjk._gjk_jolt.closest_point_triangle")
    a, b, c = vectors(cx, ["a", "b", "c"])
    from d3vc.vecops import cross
    n = cross(b - a, c - a)
    eps2 = cx.abstract_constant("distance3d.gjk._gjk_jolt", "EPSILON_SQR")
    if regular:
        if cx.mode == "sym":
            cx.assume(sq(n) >= eps2, "regular:|n|^2>=eps2")
        else:
            cx.assume(CB(eps2 * 1e6 - float(sq(n))), "regular")
    else:
        if cx.mode == "sym":
            cx.assume(sq(n) == 0, "degenerate:|n|^2=0")
        else:
            cx.assume(CB(float(sq(n))), "degenerate")
        gap(cx, sq(b - a), eps2, "|b-a|^2")
        gap(cx, sq(c - a), eps2, "|c-a|^2")
        gap(cx, sq(c - b), eps2, "|c-b|^2")
    v, bits = cx.call(f, a, b, c)
    cx.prove("bits_range", bool(isinstance(bits, (int, np.integer)) and 1 <= bits <= 7))
    kkt(cx, v, [a, b, c], bits)
    ys = [a, b, c]
    sub = [ys[i] for i in range(3) if bits & (1 << i)]
    if len(sub) == 1:
        cx.prove("is_vertex", cx.eq(sq(v - sub[0]), 0.0), tol=1e-12)
    elif len(sub) == 2:
        p, q = sub
        pq = q - p
        lam = -dot(p, pq) / sq(pq)
        cx.prove("edge_weight_in_[0,1]", cx.all([cx.ge(lam, 0.0), cx.le(lam, 1.0)]))
        cx.prove("on_edge", cx.eq(sq(v - (p + pq * lam)), 0.0), tol=1e-12)
    else:
        # face: barycentric weights of the projection of the origin (Ericson): ((b x c).n, (c x a).n, (a x b).n)/|n|^2
        nn = sq(n)
        wa, wb, wc = dot(cross(b, c), n) / nn, dot(cross(c, a), n) / nn, dot(cross(a, b), n) / nn
        for nm, w in (("a", wa), ("b", wb), ("c", wc)):
            cx.prove("face_weight_nonneg[%s]" % nm, cx.ge(w, 0.0))
        cx.prove("face_weights_sum_1", cx.eq(wa + wb + wc, 1.0))
        # v = wa a + wb b + wc c  <=>  the difference w is orthogonal to b-a, c-a and n (lemma.orthogonal_to_frame: then w = 0)
        w = v - lincomb([wa, wb, wc], [a, b, c])
        sc = 1.0 if cx.mode == "sym" else max(1.0, float(sq(a)), float(sq(b)), float(sq(c)))
        cx.prove("in_face.ab", cx.eq(dot(w, b - a) / sc, 0.0))
        cx.prove("in_face.ac", cx.eq(dot(w, c - a) / sc, 0.0))
        cx.prove("in_face.n", cx.eq(dot(w, n) / (sc * sc), 0.0))
    cx.cover("end")


@contract("gjk_jolt.closest_point_triangle/regular", fn="distance3d.gjk._gjk_jolt.closest_point_triangle", props=["C18", "C01"])
def _(cx):
    """3 points spanning a triangle (|n|^2 >= threshold): minimum-norm point of the triangle (KKT on all 3 vertices), in the hull
    of the returned subset with non-negative weights"""
    _triangle(cx, True)


@contract("gjk_jolt.closest_point_triangle/degenerate", fn="distance3d.gjk._gjk_jolt.closest_point_triangle", props=["C18", "C01"],
          deps=["distance3d.gjk._gjk_jolt.closest_point_line", "distance3d.gjk._gjk_jolt.get_barycentric_coordinates_line"],
          tags=["native-only"])
def _(cx):
    """BOUNDED (run-time contract on the real code only; the symbolic proof of the collinear case did not discharge within budget):
    3 exactly collinear / coincident points (|n|^2 = 0): minimum-norm point of their hull via the three edges"""
    _triangle(cx, False)


@contract("lemma.orthogonal_to_frame", fn="distance3d.gjk._gjk_jolt.closest_point_triangle", props=["C18"], prop_level=False, tags=["no-native"])
def _(cx):
    """geometric lemma used above: if w is orthogonal to p, q and p x q, and p x q != 0, then w = 0 (pure Gram-mode fact,
    no repository code involved): |w|^2 |n|^2 = (w.n)^2 + |w x n|^2 and w x (p x q) = p (w.q) - q (w.p)"""
    if cx.mode != "sym":
        return
    w, p, q = vectors(cx, ["w", "p", "q"])
    from d3vc.vecops import cross
    n = cross(p, q)
    cx.assume(cx.all([dot(w, p) == 0, dot(w, q) == 0, dot(w, n) == 0, sq(n) > 0]), "lemma:premises")
    cx.prove("w_is_zero", cx.eq(sq(w), 0.0))
    cx.cover("end")


@contract("gjk_jolt.closest_point_tetrahedron", fn="distance3d.gjk._gjk_jolt.closest_point_tetrahedron", props=["C18", "C01"],
          deps=["distance3d.gjk._gjk_jolt.origin_outside_of_tetrahedron_planes", "distance3d.gjk._gjk_jolt.closest_point_triangle"],
          tags=["native-only"])
def _(cx):
    """BOUNDED (run-time contract on the real code; 'best visible face' did not discharge in Gram form, design probe t6):
    4 points: result is the minimum-norm point of the tetrahedron (KKT on all 4 vertices), bit set 15 means the origin is inside"""
    f = cx.target()
    a, b, c, d = vectors(cx, ["a", "b", "c", "d"])
    v, bits = cx.call(f, a, b, c, d)
    cx.prove("bits_range", bool(1 <= int(bits) <= 15))
    ys = [a, b, c, d]
    # exact-ish oracle by KKT: v.y_i >= v.v for all i and v in the hull of the subset
    kkt(cx, v, ys, bits)
    sub = [ys[i] for i in range(4) if int(bits) & (1 << i)]
    import numpy as _np
    A = _np.array(sub).T
    if int(bits) == 15:
        lam, res, rk, sv = _np.linalg.lstsq(_np.vstack([A, _np.ones(len(sub))]), _np.append(_np.zeros(3), 1.0), rcond=None)
        sc = max(1.0, float(_np.max(_np.abs(A))))
        if rk == 4:
            cx.prove("origin_inside_weights_nonneg", CB(float(-_np.min(lam))), tol=1e-7)
    else:
        lam, res, rk, sv = _np.linalg.lstsq(_np.vstack([A, _np.ones(len(sub))]), _np.append(_np.asarray(v, dtype=float), 1.0), rcond=None)
        sc = max(1.0, float(_np.max(_np.abs(A))))
        recon = A @ lam
        cx.prove("point_in_affine_hull_of_subset", CB(float(_np.linalg.norm(recon - _np.asarray(v, dtype=float))) / sc), tol=1e-7)


# ---------------------------------------------------------------------------------------------- C01: recombination of closest points
def _recombination(n):
    @contract("gjk_jolt.calculate_closest_points[n=%d]" % n, fn="distance3d.gjk._gjk_jolt.calculate_closest_points", props=["C01"],
              deps=["distance3d.gjk._gjk_jolt.get_barycentric_coordinates_line", "distance3d.gjk._gjk_jolt.get_barycentric_coordinates_plane"])
    def _c(cx):
        """simplex rows Y[i] = P[i] - Q[i] of n points: the returned pair satisfies a - b = sum_i lambda_i Y[i] with weights summing to 1
        (so a, b are the same affine combination of the stored support points of A and B), and in the regular branches that
        combination is the projection of the origin onto the affine hull of the simplex, i.e. |a - b| is the distance the loop
        reports (clause |a-b| = d of C01)"""
        f = cx.target()
        eps2 = cx.abstract_constant("distance3d.gjk._gjk_jolt", "EPSILON_SQR")
        eps = cx.abstract_constant("distance3d.gjk._gjk_jolt", "EPSILON")
        ynames = ["y%d" % i for i in range(n)]
        pnames = ["p%d" % i for i in range(n)]
        vs = vectors(cx, ynames + pnames, rank3=False)
        Y, P = vs[:n], vs[n:]
        Q = [P[i] - Y[i] for i in range(n)]
        if cx.mode == "sym":
            pad = [Y[0]] * (4 - n)
            Yr, Pr, Qr = gram.AbsRows(Y + pad), gram.AbsRows(P + pad), gram.AbsRows(Q + pad)
        else:
            Yr = np.ascontiguousarray(np.array(list(Y) + [np.zeros(3)] * (4 - n)))
            Pr = np.ascontiguousarray(np.array(list(P) + [np.zeros(3)] * (4 - n)))
            Qr = np.ascontiguousarray(np.array(list(Q) + [np.zeros(3)] * (4 - n)))
        a, b = cx.call(f, Yr, Pr, Qr, n)
        diff = a - b
        if cx.mode == "sym":
            cx.prove("difference_is_combination_of_Y", bool(gram.has_only(diff, set(ynames))))
            lam = [gram.coefficient(diff, nm) for nm in ynames]
            cx.prove("weights_sum_to_1", cx.eq(sum(lam, 0.0), 1.0))
            for i in range(n):
                cx.prove("a_uses_same_weight[%d]" % i, cx.eq(gram.coefficient(a, pnames[i]), lam[i]))
            # regular simplex: the combination is orthogonal to every edge direction (projection of the origin onto the affine hull)
            if n == 2:
                reg = sq(Y[1] - Y[0]) >= eps2
            elif n == 3:
                from d3vc.vecops import cross
                reg = sq(cross(Y[1] - Y[0], Y[2] - Y[0])) >= eps
            else:
                reg = True
            if n >= 2 and bool(reg):
                for i in range(1, n):
                    cx.prove("orthogonal_to_edge[%d]" % i, cx.eq(dot(diff, Y[i] - Y[0]), 0.0))
        else:
            A = np.array(Y).T
            lam, *_ = np.linalg.lstsq(np.vstack([A, np.ones(n)]), np.append(diff, 1.0), rcond=None)
            sc = max(1.0, float(np.max(np.abs(A))))
            cx.prove("difference_is_combination_of_Y", CB(float(np.linalg.norm(A @ lam - diff)) / sc), tol=1e-7)
        cx.cover("end")


for _n in (1, 2, 3):
    _recombination(_n)
