"""Per-shape proof scripts for C04: local-frame witnesses for tightness and Cauchy-Schwarz steps for enclosure.
Everything here is checked: a wrong witness or hint makes an obligation fail, it cannot make a false claim pass."""
import numpy as np

from d3vc import spec
from d3vc.spec import dot, sq, sym, arr
from contracts import _shapes as sh


def row(P, k):
    T = P["T"]
    return [T[k, 0], T[k, 1], T[k, 2]]


def _sign_pick(cx, v, pos, neg):
    """pos if v >= 0 else neg  (forks in symbolic mode)"""
    if v >= 0:
        return pos
    return neg


# ---------------------------------------------------------------- cylinder
def cyl_witness(self, cx, P, k, sg):
    a = row(P, k)
    r, L = P["r"], P["L"]
    rho = cx.sqrt(1.0 - a[2] * a[2]) if sym(cx) else float(np.sqrt(max(0.0, 1.0 - a[2] * a[2])))
    z = _sign_pick(cx, sg * a[2], 0.5 * L, -0.5 * L)
    if rho == 0:
        return [r, 0.0, z]
    return [sg * r * a[0] / rho, sg * r * a[1] / rho, z]


def cyl_hints(self, cx, P, k, x, bb):
    use = sh.ShapeSpec.aabb_hints(self, cx, P, k, x, bb)
    if x is None or not sym(cx):
        return use
    a = row(P, k)
    y = spec.to_local_point(cx, P["T"], x) if "ylocal" not in cx.scratch else cx.scratch["ylocal"]
    rho = cx.sqrt(1.0 - a[2] * a[2])
    spec.cs_bound(cx, [y[0], y[1]], [a[0], a[1]], P["r"], rho, "radial+")
    spec.cs_bound(cx, [-y[0], -y[1]], [a[0], a[1]], P["r"], rho, "radial-")
    return use + ["lemma:csb"]


# ---------------------------------------------------------------- capsule
def cap_witness(self, cx, P, k, sg):
    a = row(P, k)
    r, h = P["r"], P["h"]
    z = _sign_pick(cx, sg * a[2], 0.5 * h, -0.5 * h)
    return [sg * r * a[0], sg * r * a[1], sg * r * a[2] + z]


def cap_member_of_witness(self, cx, P, p):
    h = P["h"]
    # axis parameter of the witness: the cap centre it was built from
    if sym(cx):
        t = cx.scratch["cap_t"]
    else:
        t = min(max(p[2], -0.5 * h), 0.5 * h)
    return spec.in_capsule_local(cx, p, P["r"], h, t)


def cap_witness2(self, cx, P, k, sg):
    a = row(P, k)
    r, h = P["r"], P["h"]
    z = _sign_pick(cx, sg * a[2], 0.5 * h, -0.5 * h)
    cx.scratch["cap_t"] = z
    return [sg * r * a[0], sg * r * a[1], sg * r * a[2] + z]


def cap_hints(self, cx, P, k, x, bb):
    use = sh.ShapeSpec.aabb_hints(self, cx, P, k, x, bb)
    if x is None or not sym(cx):
        return use
    a = row(P, k)
    y, t = cx.scratch["y"], cx.scratch["t"]
    w = [y[0], y[1], y[2] - t]
    spec.cs_bound(cx, w, a, P["r"], 1.0, "ball+")
    spec.cs_bound(cx, [-w[0], -w[1], -w[2]], a, P["r"], 1.0, "ball-")
    return use + ["lemma:csb"]


# ---------------------------------------------------------------- box
def box_witness(self, cx, P, k, sg):
    a = row(P, k)
    return [_sign_pick(cx, sg * a[i], 0.5 * P["size"][i], -0.5 * P["size"][i]) for i in range(3)]


# ---------------------------------------------------------------- ellipsoid
def ell_witness(self, cx, P, k, sg):
    a = row(P, k)
    rr = P["radii"]
    s = cx.sqrt(sq([rr[i] * a[i] for i in range(3)])) if sym(cx) else float(np.sqrt(sum((rr[i] * a[i]) ** 2 for i in range(3))))
    return [sg * rr[i] * rr[i] * a[i] / s for i in range(3)]


def ell_hints(self, cx, P, k, x, bb):
    use = sh.ShapeSpec.aabb_hints(self, cx, P, k, x, bb)
    return use + ["orth:T:col", "proved:pose_entry_le_1"]


# ---------------------------------------------------------------- cone
def cone_witness(self, cx, P, k, sg):
    """either the apex (0,0,h) or the rim point in direction +-(a0,a1)"""
    a = row(P, k)
    r, h = P["r"], P["h"]
    rho = cx.sqrt(1.0 - a[2] * a[2]) if sym(cx) else float(np.sqrt(max(0.0, 1.0 - a[2] * a[2])))
    if sg * a[2] * h >= r * rho:
        return [0.0, 0.0, h]
    if rho == 0:
        return [r, 0.0, 0.0]
    return [sg * r * a[0] / rho, sg * r * a[1] / rho, 0.0]


def cone_hints(self, cx, P, k, x, bb):
    use = sh.ShapeSpec.aabb_hints(self, cx, P, k, x, bb)
    if x is None or not sym(cx):
        return use
    a = row(P, k)
    y = cx.scratch["ylocal"]
    r, h = P["r"], P["h"]
    rho = cx.sqrt(1.0 - a[2] * a[2])
    # |(y0,y1)| <= r (1 - y2/h): scaled by h to stay polynomial:  h*(y0 a0 + y1 a1) <= r (h - y2) rho
    spec.cs_bound(cx, [h * y[0], h * y[1]], [a[0], a[1]], r * (h - y[2]), rho, "radial+")
    spec.cs_bound(cx, [-h * y[0], -h * y[1]], [a[0], a[1]], r * (h - y[2]), rho, "radial-")
    return use + ["lemma:csb"]


# ---------------------------------------------------------------- sphere
def sph_witness(self, cx, P, k, sg):
    p = [P["c"][0], P["c"][1], P["c"][2]]
    p[k] = p[k] + sg * P["r"]
    return p


def sph_member_of_witness(self, cx, P, p):
    return self.member(cx, P, p)


def sph_witness_world(self, cx, P, p):
    return p


def sph_hints(self, cx, P, k, x, bb):
    return ["def:", "skolem", "dom", "branch"]


# ---------------------------------------------------------------- disk
def disk_witness(self, cx, P, k, sg):
    a = row(P, k)
    r = P["r"]
    rho = cx.sqrt(1.0 - a[2] * a[2]) if sym(cx) else float(np.sqrt(max(0.0, 1.0 - a[2] * a[2])))
    if rho == 0:
        return [r, 0.0, 0.0]
    return [sg * r * a[0] / rho, sg * r * a[1] / rho, 0.0]


def disk_member_of_witness(self, cx, P, p):
    return cx.all([cx.eq(p[2], 0.0), spec._len_slack(cx, p[0] * p[0] + p[1] * p[1], P["r"] * P["r"])])


def disk_hints(self, cx, P, k, x, bb):
    use = sh.ShapeSpec.aabb_hints(self, cx, P, k, x, bb)
    if x is None or not sym(cx):
        return use
    a = row(P, k)
    ab = cx.scratch["ab"]
    rho = cx.sqrt(1.0 - a[2] * a[2])
    spec.cs_bound(cx, [ab[0], ab[1]], [a[0], a[1]], P["r"], rho, "radial+")
    spec.cs_bound(cx, [-ab[0], -ab[1]], [a[0], a[1]], P["r"], rho, "radial-")
    return use + ["lemma:csb"]


# ---------------------------------------------------------------- ellipse
def ellipse_witness(self, cx, P, k, sg):
    a = row(P, k)
    rr = P["radii"]
    if sym(cx):
        s = cx.sqrt((rr[0] * a[0]) ** 2 + (rr[1] * a[1]) ** 2)
    else:
        s = float(np.sqrt((rr[0] * a[0]) ** 2 + (rr[1] * a[1]) ** 2))
    if s == 0:
        return [rr[0], 0.0, 0.0]
    return [sg * rr[0] * rr[0] * a[0] / s, sg * rr[1] * rr[1] * a[1] / s, 0.0]


def ellipse_member_of_witness(self, cx, P, p):
    return cx.all([cx.eq(p[2], 0.0), self._in2(cx, p[0], p[1], P["radii"])])


def ellipse_hints(self, cx, P, k, x, bb):
    use = sh.ShapeSpec.aabb_hints(self, cx, P, k, x, bb)
    if x is None or not sym(cx):
        return use
    a = row(P, k)
    rr = P["radii"]
    ab = cx.scratch["ab"]
    s = cx.sqrt((rr[0] * a[0]) ** 2 + (rr[1] * a[1]) ** 2)
    # (a r1, b r0) . (r0 a0, r1 a1) = r0 r1 (a a0 + b a1) <= (r0 r1) * s
    spec.cs_bound(cx, [ab[0] * rr[1], ab[1] * rr[0]], [rr[0] * a[0], rr[1] * a[1]], rr[0] * rr[1], s, "scaled+")
    spec.cs_bound(cx, [-ab[0] * rr[1], -ab[1] * rr[0]], [rr[0] * a[0], rr[1] * a[1]], rr[0] * rr[1], s, "scaled-")
    return use + ["lemma:csb"]


def install():
    S = sh.SHAPES
    c = type(S["cylinder"])
    c.aabb_witness, c.aabb_hints = cyl_witness, cyl_hints
    c = type(S["capsule"])
    c.aabb_witness, c.aabb_hints, c.member_of_witness = cap_witness2, cap_hints, cap_member_of_witness
    c = type(S["box"])
    c.aabb_witness = box_witness
    c.aabb_hints = sh.ShapeSpec.aabb_hints
    c = type(S["ellipsoid"])
    c.aabb_witness, c.aabb_hints = ell_witness, ell_hints
    c = type(S["cone"])
    c.aabb_witness, c.aabb_hints = cone_witness, cone_hints
    c = type(S["sphere"])
    c.aabb_witness, c.member_of_witness, c.witness_world, c.aabb_hints = sph_witness, sph_member_of_witness, sph_witness_world, sph_hints
    c = type(S["disk"])
    c.aabb_witness, c.member_of_witness, c.aabb_hints = disk_witness, disk_member_of_witness, disk_hints
    c = type(S["ellipse"])
    c.aabb_witness, c.member_of_witness, c.aabb_hints = ellipse_witness, ellipse_member_of_witness, ellipse_hints


install()
