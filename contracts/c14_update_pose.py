"""C14: K(p0, params).update_pose(p) is observationally equal to K(p, params) for every class with update_pose, and
every later query meets the eager numba signatures (layout type-state) when p is a C-contiguous float64 4x4 array."""
import numpy as np
from d3vc.engine import contract
from d3vc import spec
from d3vc.spec import dot, sq, sym
from contracts._shapes import SHAPES, contiguous


def params_at(shape, cx, P, T):
    """the same shape parameters at another pose T (what the class constructor would be given there)"""
    Q = dict(P)
    Q["T"] = T
    if shape.name == "sphere":
        Q["c"] = contiguous(T[:3, 3])
    elif shape.name == "disk":
        Q["c"], Q["n"] = contiguous(T[:3, 3]), contiguous(T[:3, 2])
    elif shape.name == "ellipse":
        Q["c"], Q["axes"] = contiguous(T[:3, 3]), contiguous(T[:3, :2].T)
    return Q


def make(shape, margin=False):
    K = shape.cls.rsplit(".", 1)[1]
    name = "colliders.%s%s.update_pose" % ("Margin(" if margin else "", K + (")" if margin else ""))

    @contract(name, fn=shape.cls + ".update_pose", props=["C14", "C20"],
              deps=[shape.cls + "." + m for m in ("support_function", "aabb", "center", "first_vertex", "collider2origin")],
              opts=dict(abs_ite=True, minmax_ite=True))
    def _c(cx):
        """support point, AABB, centre, first vertex and collider2origin after update_pose(p) equal those of a collider
        constructed at p; no query raises (incl. numba 'no matching definition') for a C-contiguous 4x4 pose"""
        if shape.name == "sphere":
            T = spec.pose(cx, "T", reduce=None)
            P = dict(T=T, c=contiguous(T[:3, 3]), r=spec.size(cx, "r"))
        else:
            P = shape.params(cx, reduce=None)
            T = P["T"]
        T0 = spec.pose(cx, "T0", reduce=None)
        P0 = params_at(shape, cx, P, T0)
        moved = shape.build(cx, P0)
        fresh = shape.build(cx, P)
        if margin:
            M = cx.target("distance3d.colliders.Margin")
            m = spec.size(cx, "m", 1e-3, 1.0)
            moved, fresh = cx.call(M, moved, m), cx.call(M, fresh, m)
        pose_arg = np.ascontiguousarray(np.array(T, dtype=T.dtype))      # a fresh C-contiguous 4x4 array
        cx.call(moved.update_pose, pose_arg)
        q = cx.choice(5, "query")
        if q == 0:
            d = cx.vec("d")
            a = cx.call(moved.support_function, d)
            b = cx.call(fresh.support_function, d)
            cx.prove("support_equal", cx.eq(a, b))
        elif q == 1:
            cx.prove("aabb_equal", cx.eq(cx.call(moved.aabb), cx.call(fresh.aabb)))
        elif q == 2:
            cx.prove("center_equal", cx.eq(cx.call(moved.center), cx.call(fresh.center)))
        elif q == 3:
            cx.prove("first_vertex_equal", cx.eq(cx.call(moved.first_vertex), cx.call(fresh.first_vertex)))
        else:
            cx.prove("collider2origin_equal", cx.eq(cx.call(moved.collider2origin), cx.call(fresh.collider2origin)))
        cx.cover("end")


for _s in SHAPES.values():
    make(_s)
make(SHAPES["cylinder"], margin=True)
make(SHAPES["disk"], margin=True)
