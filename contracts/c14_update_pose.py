"""C14: K(p0, params).update_pose(p) is observationally equal to K(p, params) for every class with update_pose, and
every later query meets the eager numba signatures (layout type-state) when p is a C-contiguous float64 4x4 array."""
import numpy as np
from d3vc.engine import contract
from d3vc import spec
from d3vc.spec import dot, sq, sym
from contracts._shapes import SHAPES, contiguous


def params_at(shape, cx, P, T):
    """the same shape parameters at another pose T (what the class constructor would be given there)"""
    Q = dict(P)
    Q["T"] = T
    if shape.name == "sphere":
        Q["c"] = contiguous(T[:3, 3])
    elif shape.name == "disk":
        Q["c"], Q["n"] = contiguous(T[:3, 3]), contiguous(T[:3, 2])
    elif shape.name == "ellipse":
        Q["c"], Q["axes"] = contiguous(T[:3, 3]), contiguous(T[:3, :2].T)
    return Q


def make(shape, margin=False):
    K = shape.cls.rsplit(".", 1)[1]
    name = "colliders.%s%s.update_pose" % ("Margin(" if margin else "", K + (")" if margin else ""))

    @contract(name, fn=shape.cls + ".update_pose", props=["C14", "C20"],
              deps=[shape.cls + "." + m for m in ("support_function", "aabb", "center", "first_vertex", "collider2origin")],
              opts=dict(abs_ite=True, minmax_ite=True))
    def _c(cx):
        """support point, AABB, centre, first vertex and collider2origin after update_pose(p) equal those of a collider
        constructed at p; no query raises (incl. numba 'no matching definition') for a C-contiguous 4x4 pose"""
        if shape.name == "sphere":
            T = spec.pose(cx, "T", reduce=None)
            P = dict(T=T, c=contiguous(T[:3, 3]), r=spec.size(cx, "r"))
        else:
            P = shape.params(cx, reduce=None)
            T = P["T"]
        T0 = spec.pose(cx, "T0", reduce=None)
        if not sym(cx) and not any(k.startswith("T0_rel") for k in cx.values):
            # native sampling: the old and the new pose are independent symbols in the proof tier (so every relation between them is
            # covered there); random floats never share a translation or a rotation, so those classes are drawn on purpose
            u = cx.rng.random()
            rel = 1 if u < 0.25 else 2 if u < 0.45 else 3 if u < 0.5 else 0
            cx.values["T0_rel"] = float(rel)
            if rel in (1, 3):
                T0[:3, 3] = T[:3, 3]
            if rel in (2, 3):
                T0[:3, :3] = T[:3, :3]
            for i in range(3):
                cx.values["T0_t%d" % i] = float(T0[i, 3])
                for j in range(3):
                    cx.values["T0_R%d%d" % (i, j)] = float(T0[i, j])
        P0 = params_at(shape, cx, P, T0)
        moved = shape.build(cx, P0)
        fresh = shape.build(cx, P)
        if margin:
            M = cx.target("distance3d.colliders.Margin")
            m = spec.size(cx, "m", 1e-3, 1.0)
            moved, fresh = cx.call(M, moved, m), cx.call(M, fresh, m)
        pose_arg = np.ascontiguousarray(np.array(T, dtype=T.dtype))      # a fresh C-contiguous 4x4 array
        cx.call(moved.update_pose, pose_arg)
        q = cx.choice(6, "query")
        if q == 0:
            d = cx.vec("d")
            a = cx.call(moved.support_function, d)
            b = cx.call(fresh.support_function, d)
            cx.prove("support_equal", cx.eq(a, b))
        elif q == 1:
            cx.prove("aabb_equal", cx.eq(cx.call(moved.aabb), cx.call(fresh.aabb)))
        elif q == 2:
            cx.prove("center_equal", cx.eq(cx.call(moved.center), cx.call(fresh.center)))
        elif q == 3:
            cx.prove("first_vertex_equal", cx.eq(cx.call(moved.first_vertex), cx.call(fresh.first_vertex)))
        elif q == 4:
            cx.prove("collider2origin_equal", cx.eq(cx.call(moved.collider2origin), cx.call(fresh.collider2origin)))
        else:
            # every array / number the object stores equals that of a collider constructed at p (derived data such as the box corners
            # included); cheaper than going through the queries and independent of which of them reads which field
            from contracts.c03_mesh import _state_equal
            a, b = (moved.collider, fresh.collider) if margin else (moved, fresh)
            _state_equal(cx, a, b, K, set())
        cx.cover("end")


for _s in SHAPES.values():
    make(_s)
make(SHAPES["cylinder"], margin=True)
make(SHAPES["disk"], margin=True)
