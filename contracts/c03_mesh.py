"""C03 / C04 / C14 for the vertex-based colliders: ConvexHullVertices, MeshGraph (hill climbing with cached start vertex).

MeshGraph is verified on a fixed family of concrete convex meshes (bounded in the mesh, stated in the evidence) but for
EVERY pose, EVERY direction and EVERY cached start vertex (= every history of earlier queries: the start index is the only state
a query writes).  Triangle index order inside a face is arbitrary on purpose: MeshGraph does not require a winding."""
import itertools

import numpy as np

from d3vc.engine import contract
from d3vc import spec
from d3vc.spec import dot, sq, sym, arr
from d3vc.sym import CB


def _octahedron():
    v = np.array([[1.0, 0, 0], [-1.0, 0, 0], [0, 0.5, 0], [0, -0.5, 0], [0, 0, 0.75], [0, 0, -0.75]])
    tri = []
    for sx, sy, sz in itertools.product([0, 1], [2, 3], [4, 5]):
        tri.append(sorted([sx, sy]) + [sz])            # (lo, hi, apex): mixed winding
    return v, np.array(tri, dtype=int)


def _fan_polytope():
    vs = []
    for axis in range(3):
        for sign in (1.0, -1.0):
            e = np.zeros(3)
            e[axis] = 1.5 * sign
            vs.append(e)
    corner = {}
    for c in itertools.product((-1.0, 1.0), repeat=3):
        corner[c] = len(vs)
        vs.append(np.array(c))
    tri = []
    for axis in range(3):
        for s_idx, sign in enumerate((1.0, -1.0)):
            apex = 2 * axis + s_idx
            o = [a for a in range(3) if a != axis]
            ring = []
            for (u, w) in ((-1, -1), (1, -1), (1, 1), (-1, 1)):
                c = [0.0, 0.0, 0.0]
                c[axis] = sign
                c[o[0]], c[o[1]] = float(u), float(w)
                ring.append(corner[tuple(c)])
            for k in range(4):
                a, b = ring[k], ring[(k + 1) % 4]
                tri.append([min(a, b), max(a, b), apex])
    return np.array(vs), np.array(tri, dtype=int)


def _cloud():
    """cube corners plus an interior vertex at index 0 that no triangle references (as make_convex_mesh leaves them)"""
    vs = [np.array([0.1, -0.05, 0.02])]
    for c in itertools.product((-1.0, 1.0), repeat=3):
        vs.append(np.array(c) * np.array([1.0, 0.6, 0.8]))
    vs = np.array(vs)
    idx = {tuple(np.sign(v).astype(int)): i for i, v in enumerate(vs) if i > 0}
    tri = []
    for axis in range(3):
        for sign in (-1, 1):
            o = [a for a in range(3) if a != axis]
            q = []
            for (u, w) in ((-1, -1), (1, -1), (1, 1), (-1, 1)):
                c = [0, 0, 0]
                c[axis], c[o[0]], c[o[1]] = sign, u, w
                q.append(idx[tuple(c)])
            tri.append([q[0], q[1], q[2]])
            tri.append([q[2], q[0], q[3]])
    return vs, np.array(tri, dtype=int)


MESHES = {"octahedron": _octahedron(), "fan14": _fan_polytope(), "cloud9": _cloud()}
SLACK_FACTOR = 16.0    # result is within SLACK_FACTOR * PROJECTION_LENGTH_EPSILON of the maximum (generous; checked, not assumed)


def _mesh(cx, name):
    v, t = MESHES[name]
    return np.ascontiguousarray(v.astype(float)), np.ascontiguousarray(t.copy())


def _world(cx, T, v):
    return spec.to_world_point(cx, T, [float(v[0]), float(v[1]), float(v[2])])


def _referenced(name):
    return sorted(set(int(i) for i in MESHES[name][1].ravel()))


def make_mesh_contracts(name):
    nverts = len(MESHES[name][0])

    @contract("colliders.MeshGraph[%s].support_function" % name, fn="distance3d.colliders.MeshGraph.support_function", props=["C03"],
              deps=["distance3d.mesh.hill_climb_mesh_extreme", "distance3d.mesh.MeshHillClimbingSupportFunction.__call__",
                    "distance3d.mesh.MeshHillClimbingSupportFunction.__init__"],
              tags=(["thorough-only"] if name == "fan14" else []))
    def _support(cx):
        """for every pose, every direction d != 0 and every cached start vertex (every query history): the result is a mesh vertex
        (a point of the set) and no vertex projects further on d by more than 16 * PROJECTION_LENGTH_EPSILON; terminates"""
        V, tri = _mesh(cx, name)
        T = spec.pose(cx, "T")
        K = cx.target("distance3d.colliders.MeshGraph")
        obj = cx.call(K, T, V, tri)
        eps = cx.abstract_constant("distance3d.mesh", "PROJECTION_LENGTH_EPSILON", positive=True, upper=1e-9)
        # history: the cached start index is the only state written by a query; it is always a vertex referenced by a triangle
        refs = _referenced(name)
        start = refs[cx.choice(len(refs), "history:first_idx")]
        if cx.mode == "sym":
            obj._support_function.first_idx = start
        else:
            # natively: reach some cached start vertex by a real earlier query
            d0 = np.array([cx.rng.gauss(0, 1) for _ in range(3)])
            obj.support_function(np.ascontiguousarray(d0))
        d, delta = spec.world_dir(cx, "d", T)
        res = cx.call(obj.support_function, d)
        idx = obj._support_function.first_idx
        cx.prove("result_is_cached_vertex", cx.eq(res, _world(cx, T, V[int(idx)])))
        for k in range(nverts):
            if cx.mode == "sym":
                cx.prove("dominates_vertex[%d]" % k, dot(V[k], delta) <= dot(V[int(idx)], delta) + SLACK_FACTOR * eps)
            else:
                cx.prove("dominates_vertex[%d]" % k, CB(float(dot(V[k], delta) - dot(V[int(idx)], delta)) - SLACK_FACTOR * eps), tol=1e-9 * max(1.0, float(np.linalg.norm(delta))))
        cx.cover("end")

    @contract("colliders.MeshGraph[%s].first_vertex+center+aabb" % name, fn="distance3d.colliders.MeshGraph.aabb", props=["C03", "C04", "C08", "C02"],
              deps=["distance3d.colliders.MeshGraph.first_vertex", "distance3d.colliders.MeshGraph.center"],
              opts=dict(minmax_ite=True))
    def _fv(cx):
        """first_vertex is a vertex, center is the centroid of the vertices (a convex combination); aabb encloses every vertex
        per axis and each bound is attained by a vertex"""
        V, tri = _mesh(cx, name)
        T = spec.pose(cx, "T", reduce=None)
        K = cx.target("distance3d.colliders.MeshGraph")
        obj = cx.call(K, T, V, tri)
        fv = cx.call(obj.first_vertex)
        cx.prove("first_vertex_is_vertex0", cx.eq(fv, _world(cx, T, V[0])))
        ce = cx.call(obj.center)
        cx.prove("center_is_centroid", cx.eq(ce, _world(cx, T, np.mean(V, axis=0))), tol=1e-9)
        bb = cx.call(obj.aabb)
        k = cx.choice(3, "axis")
        W = [_world(cx, T, V[i]) for i in range(nverts)]
        for i in range(nverts):
            cx.prove("encloses_vertex[%d,axis%d]" % (i, k), cx.all([cx.le(bb[k, 0], W[i][k]), cx.le(W[i][k], bb[k, 1])]))
        cx.prove("hi_attained[%d]" % k, cx.any([cx.eq(bb[k, 1], W[i][k]) for i in range(nverts)]))
        cx.prove("lo_attained[%d]" % k, cx.any([cx.eq(bb[k, 0], W[i][k]) for i in range(nverts)]))
        cx.cover("end")

    @contract("colliders.MeshGraph[%s].update_pose" % name, fn="distance3d.colliders.MeshGraph.update_pose", props=["C14", "C04", "C03"],
              deps=["distance3d.mesh.MeshHillClimbingSupportFunction.update_pose", "distance3d.colliders.MeshGraph.aabb",
                    "distance3d.colliders.MeshGraph.support_function"], opts=dict(minmax_ite=True))
    def _upd(cx):
        """(optional earlier query) ; update_pose(T): the complete object state equals that of a MeshGraph constructed at T - every
        attribute, recursively, so a stale cache of any kind is a failure - except the cached start vertex, which must be a vertex
        referenced by a triangle (the precondition under which the support contract above holds for every history).  One query of
        each kind afterwards agrees with the fresh object and does not raise."""
        V, tri = _mesh(cx, name)
        T0 = spec.pose(cx, "T0", reduce=None)
        T = spec.pose(cx, "T")
        K = cx.target("distance3d.colliders.MeshGraph")
        moved = cx.call(K, T0, V, tri)
        qb = cx.choice(3, "query_before")
        if qb == 1:
            cx.call(moved.aabb)
        elif qb == 2:
            if sym(cx):
                refs = _referenced(name)
                moved._support_function.first_idx = refs[cx.choice(len(refs), "history:first_idx")]
            else:
                d0 = np.array([cx.rng.gauss(0, 1) for _ in range(3)])
                cx.call(moved.support_function, np.ascontiguousarray(d0))
        pose_arg = np.ascontiguousarray(np.array(T, dtype=T.dtype))
        cx.call(moved.update_pose, pose_arg)
        fresh = cx.call(K, np.ascontiguousarray(np.array(T, dtype=T.dtype)), V, tri)
        refs = set(_referenced(name))
        _state_equal(cx, moved, fresh, "MeshGraph", refs)
        q = cx.choice(4, "query_after")
        if q == 0:
            # concrete directions in the mesh frame (general directions: support contract above, given the state invariant)
            for dl in ([1.0, 0.0, 0.0], [0.0, -1.0, 0.0], [0.3, 0.2, 1.0], [-1.0, -1.0, -1.0]):
                d = spec.to_world_dir(cx, T, dl)
                a = cx.call(moved.support_function, d)
                ia = int(moved._support_function.first_idx)
                best = max(float(np.dot(V[k], dl)) for k in range(nverts))
                cx.prove("support_after_move_is_extreme", bool(float(np.dot(V[ia], dl)) >= best - 1e-9))
        elif q == 1:
            cx.prove("aabb_equal", cx.eq(cx.call(moved.aabb), cx.call(fresh.aabb)), tol=1e-9)
        elif q == 2:
            cx.prove("center_equal", cx.eq(cx.call(moved.center), cx.call(fresh.center)), tol=1e-9)
        else:
            cx.prove("first_vertex_equal", cx.eq(cx.call(moved.first_vertex), cx.call(fresh.first_vertex)), tol=1e-9)
        cx.cover("end")


def _state_equal(cx, a, b, path, refs):
    """recursive equality of two objects' attribute dictionaries (arrays element-wise, numbers, dicts of arrays, nested objects)"""
    ka, kb = set(vars(a)), set(vars(b))
    cx.prove("state:%s:same_attributes" % path, bool(ka == kb), detail="%s vs %s" % (sorted(ka - kb), sorted(kb - ka)))
    for k in sorted(ka & kb):
        va, vb = getattr(a, k), getattr(b, k)
        nm = "state:%s.%s" % (path, k)
        if k == "first_idx":
            cx.prove(nm + ":referenced_vertex", bool(int(va) in refs))
        elif va is None or vb is None:
            cx.prove(nm, bool(va is None and vb is None))
        elif isinstance(va, np.ndarray) or isinstance(vb, np.ndarray):
            ok_shape = isinstance(va, np.ndarray) and isinstance(vb, np.ndarray) and va.shape == vb.shape
            cx.prove(nm + ":shape", bool(ok_shape))
            if ok_shape:
                cx.prove(nm, cx.eq(va, vb), tol=1e-12)
        elif isinstance(va, dict) or (hasattr(va, "keys") and hasattr(va, "items")):
            va, vb = dict(va), dict(vb)        # numba typed dicts natively
            same = set(va) == set(vb) and all(sorted(np.asarray(va[i]).tolist()) == sorted(np.asarray(vb[i]).tolist()) for i in va)
            cx.prove(nm, bool(same))
        elif hasattr(va, "__dict__") and not isinstance(va, (type, __import__("types").FunctionType, __import__("types").MethodType)):
            _state_equal(cx, va, vb, path + "." + k, refs)
        elif isinstance(va, (int, float, np.integer, np.floating, bool)):
            cx.prove(nm, bool(va == vb))
        else:
            cx.prove(nm, bool(va is vb or va == vb))


for _n in MESHES:
    make_mesh_contracts(_n)


# ---------------------------------------------------------------------------------------------- ConvexHullVertices
def _hull_contract(n):
    @contract("colliders.ConvexHullVertices[n=%d]" % n, fn="distance3d.colliders.ConvexHullVertices.support_function", props=["C03", "C04"],
              deps=["distance3d.colliders.ConvexHullVertices.aabb", "distance3d.colliders.ConvexHullVertices.center",
                    "distance3d.colliders.ConvexHullVertices.first_vertex"], opts=dict(minmax_ite=True))
    def _c(cx):
        """n symbolic vertices: support_function returns a vertex that dominates every vertex along d; center is the centroid;
        first_vertex is a vertex; aabb encloses every vertex and each bound is attained by a vertex"""
        if sym(cx):
            V = np.array([cx.vec("v%d" % i) for i in range(n)], dtype=object)
        else:
            V = np.array([[cx.real("v%d_%d" % (i, j), lo=-3.0, hi=3.0) for j in range(3)] for i in range(n)], dtype=float)
        V = np.ascontiguousarray(V)
        K = cx.target("distance3d.colliders.ConvexHullVertices")
        obj = cx.call(K, V)
        q = cx.choice(3, "query")
        if q == 0:
            d = cx.vec("d")
            res = cx.call(obj.support_function, d)
            cx.prove("result_is_a_vertex", cx.any([cx.eq(res, V[i]) for i in range(n)]))
            for i in range(n):
                cx.prove("dominates_vertex[%d]" % i, cx.le(dot(V[i], d), dot(res, d)))
        elif q == 1:
            ce = cx.call(obj.center)
            cx.prove("center_is_centroid", cx.eq(ce, sum(V[i] for i in range(n)) * (1.0 / n)), tol=1e-9)
            cx.prove("first_vertex_is_vertex0", cx.eq(cx.call(obj.first_vertex), V[0]))
        else:
            bb = cx.call(obj.aabb)
            k = cx.choice(3, "axis")
            for i in range(n):
                cx.prove("encloses_vertex[%d,axis%d]" % (i, k), cx.all([cx.le(bb[k, 0], V[i][k]), cx.le(V[i][k], bb[k, 1])]))
            cx.prove("hi_attained[%d]" % k, cx.any([cx.eq(bb[k, 1], V[i][k]) for i in range(n)]))
            cx.prove("lo_attained[%d]" % k, cx.any([cx.eq(bb[k, 0], V[i][k]) for i in range(n)]))
        cx.cover("end")


_hull_contract(4)
_hull_contract(8)
