"""C12 (1): pose algebra of distance3d.utils - inverses, consistency of the batch and single-vector versions,
adjoint block structure.  With R kept in normal form modulo the ideal of SO(3) these are syntactic identities."""
import numpy as np
from d3vc.engine import contract
from d3vc import spec
from d3vc.spec import dot, sq, sym, cross


@contract("utils.invert_transform", fn="distance3d.utils.invert_transform", props=["C12", "C13"])
def _(cx):
    """invert_transform(T) . T = I = T . invert_transform(T) for every rigid transform; bottom row (0,0,0,1); no uninitialised entry"""
    f = cx.target()
    T = spec.pose(cx, "T")
    Ti = cx.call(f, T)
    I = np.eye(4)
    cx.prove("left_inverse", cx.eq(np.dot(Ti, T), I))
    cx.prove("right_inverse", cx.eq(np.dot(T, Ti), I))
    cx.prove("bottom_row", cx.eq(Ti[3], np.array([0.0, 0.0, 0.0, 1.0])))
    cx.cover("end")


@contract("utils.transform_point+inverse", fn="distance3d.utils.inverse_transform_point", props=["C12"],
          deps=["distance3d.utils.transform_point"])
def _(cx):
    """inverse_transform_point(T, transform_point(T, p)) = p and transform_point(T, inverse_transform_point(T, q)) = q;
    transform_point preserves distances"""
    tp = cx.target("distance3d.utils.transform_point")
    itp = cx.target("distance3d.utils.inverse_transform_point")
    T = spec.pose(cx, "T")
    p = cx.vec("p")
    q = cx.vec("q")
    cx.prove("inverse_after_forward", cx.eq(cx.call(itp, T, cx.call(tp, T, p)), p))
    cx.prove("forward_after_inverse", cx.eq(cx.call(tp, T, cx.call(itp, T, q)), q))
    a, b = cx.call(tp, T, p), cx.call(tp, T, q)
    cx.prove("isometry", cx.eq(sq(a - b), sq(p - q)), tol=1e-6)
    cx.cover("end")


@contract("utils.transform_points/directions", fn="distance3d.utils.transform_points", props=["C12"],
          deps=["distance3d.utils.transform_directions", "distance3d.utils.transform_point"])
def _(cx):
    """row i of transform_points(T, P) equals transform_point(T, P[i]); transform_directions is the rotation part only"""
    tps = cx.target("distance3d.utils.transform_points")
    tds = cx.target("distance3d.utils.transform_directions")
    tp = cx.target("distance3d.utils.transform_point")
    T = spec.pose(cx, "T")
    P = np.array([cx.vec("p0"), cx.vec("p1")], dtype=object if sym(cx) else float)
    out = cx.call(tps, T, P)
    for i in range(2):
        cx.prove("rowwise[%d]" % i, cx.eq(out[i], cx.call(tp, T, np.ascontiguousarray(P[i]))))
    od = cx.call(tds, T, P)
    for i in range(2):
        cx.prove("direction[%d]" % i, cx.eq(od[i], spec.to_world_dir(cx, T, P[i])))
        cx.prove("direction_length[%d]" % i, cx.eq(sq(od[i]), sq(P[i])), tol=1e-6)
    cx.cover("end")


@contract("utils.adjoint_from_transform", fn="distance3d.utils.adjoint_from_transform", props=["C12", "C16"],
          deps=["distance3d.utils.cross_product_matrix"])
def _(cx):
    """Ad(T) = [[R, 0], [[t]x R, R]]: acting on a stacked (w, v) it gives (R w, t x (R w) + R v)"""
    f = cx.target()
    T = spec.pose(cx, "T")
    A = cx.call(f, T)
    w, v = cx.vec("w"), cx.vec("v")
    wv = np.concatenate([w, v])
    out = np.dot(A, wv)
    Rw = spec.to_world_dir(cx, T, w)
    Rv = spec.to_world_dir(cx, T, v)
    t = [T[i, 3] for i in range(3)]
    txRw = cross(t, Rw)
    cx.prove("top", cx.eq(out[:3], Rw))
    cx.prove("bottom", cx.eq(out[3:], spec.arr(cx, [txRw[i] + Rv[i] for i in range(3)])), tol=1e-6)
    cx.cover("end")


@contract("utils.scalar_triple_product", fn="distance3d.utils.scalar_triple_product", props=["C12"], prop_level=False)
def _(cx):
    """a . (b x c), the determinant of [a b c]; antisymmetric under exchange of two arguments"""
    f = cx.target()
    a, b, c = cx.vec("a"), cx.vec("b"), cx.vec("c")
    r = cx.call(f, a, b, c)
    det = a[0] * (b[1] * c[2] - b[2] * c[1]) - a[1] * (b[0] * c[2] - b[2] * c[0]) + a[2] * (b[0] * c[1] - b[1] * c[0])
    cx.prove("is_determinant", cx.eq(r, det), tol=1e-6)
    cx.prove("antisymmetric", cx.eq(cx.call(f, b, a, c), -r), tol=1e-6)
    cx.cover("end")
