"""C04: aabb() of every closed-form collider class encloses the shape and is tight on every axis (through the
public methods, which call the free functions of distance3d.containment)."""
import numpy as np
from d3vc.engine import contract
from d3vc import spec
from d3vc.spec import dot, sq
from contracts._shapes import SHAPES
import contracts._aabb_proofs  # noqa: F401  (installs witnesses / hints on the shape specs)

FREE = {"cylinder": "cylinder_aabb", "capsule": "capsule_aabb", "ellipsoid": "ellipsoid_aabb", "box": "box_aabb", "cone": "cone_aabb",
        "sphere": "sphere_aabb", "disk": "disk_aabb", "ellipse": "ellipse_aabb"}


def make(shape):
    K = shape.cls.rsplit(".", 1)[1]
    deps = ["distance3d.containment." + FREE[shape.name], "distance3d.containment.axis_aligned_bounding_box"]

    @contract("colliders.%s.aabb/enclosure" % K, fn=shape.cls + ".aabb", props=["C04"], deps=deps, opts=dict(abs_ite=True, minmax_ite=True))
    def _encl(cx):
        """every point of the shape lies within the returned bounds, per axis; bounds are ordered"""
        P = shape.params(cx, reduce=None)      # world components of the pose are read: keep R un-normalised
        obj = shape.build(cx, P)
        bb = cx.call(obj.aabb)
        cx.prove("shape(3,2)", bool(isinstance(bb, np.ndarray) and bb.shape == (3, 2)))
        x = shape.any_point(cx, P, "y")
        k = cx.choice(3, "axis")
        use = shape.aabb_hints(cx, P, k, x, bb)
        cx.prove("enclosed_lo[%d]" % k, cx.le(bb[k, 0], x[k]), use=use)
        cx.prove("enclosed_hi[%d]" % k, cx.le(x[k], bb[k, 1]), use=use)
        cx.canary("strict[%d]" % k, cx.lt(x[k], bb[k, 1]))
        cx.cover("end")

    @contract("colliders.%s.aabb/tight" % K, fn=shape.cls + ".aabb", props=["C04"], deps=deps, opts=dict(abs_ite=True, minmax_ite=True))
    def _tight(cx):
        """each of the six bounds is attained by a point of the shape (witness given in the shape's local frame by the
        contract; its membership and the equality with the returned bound are the obligations)"""
        P = shape.params(cx, reduce=None)
        obj = shape.build(cx, P)
        bb = cx.call(obj.aabb)
        k = cx.choice(3, "axis")
        sgn = cx.choice(2, "side")
        p = shape.aabb_witness(cx, P, k, 1.0 if sgn == 1 else -1.0)
        use = shape.aabb_hints(cx, P, k, None, bb)
        cx.prove("witness_member", shape.member_of_witness(cx, P, p), use=use)
        xw = shape.witness_world(cx, P, p)
        cx.prove("attained[%d,%s]" % (k, "hi" if sgn == 1 else "lo"), cx.eq(xw[k], bb[k, sgn]), use=use)
        cx.cover("end")


for _s in SHAPES.values():
    make(_s)
