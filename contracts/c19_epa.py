"""C19 / C07: the face-removal loop of EPA (`LooseEdges.find_triangles_facing_point_and_store_loose_edges`).

The polytope is an array of faces with swap-remove deletion.  EPA's capacity bound (C19: the capacity assertion may only fire
for smooth shapes) and its result (C07) rest on the polytope staying a closed convex surface, i.e. after the removal loop
NO face that sees the new support point is left, and every face that does not see it is still there exactly once.

Proof tier (any number of faces N, any capacity): faces are abstracted to identities 0..N-1 stored in a symbolic-length table
(the real `Polytope.remove_face` runs on it: row copy + decrement); `triangle_faces_point` is summarised as an uninterpreted
predicate facing(identity) (its body reads only row i, the point and epsilon) and `add_removed_triangles_edges_to_list` as a
call that does not write the polytope - both summaries are exercised for real in the run-time tier below, where the whole
function runs natively on random convex polytopes."""
import numpy as np
import z3
from d3vc.engine import contract
from d3vc.sym import B, CB
from d3vc.spec import dot, sq
from d3vc.zarr import SI, ZTable, zint, _fresh
from d3vc.loops import LoopSpec

M = "distance3d.epa"
FN = M + ".LooseEdges.find_triangles_facing_point_and_store_loose_edges"


def _hull_polytope(rng, Polytope):
    """real Polytope filled with the faces of a random convex hull around the origin (outward unit normals, CCW)"""
    from scipy.spatial import ConvexHull
    g = np.random.default_rng(rng.getrandbits(32))
    mode = g.random()
    n = int(g.integers(4, 14))
    if mode < 0.3:
        pts = np.sign(g.uniform(-1, 1, size=(8, 3))) * g.uniform(0.2, 2, size=3)
        pts = np.unique(pts, axis=0)
    else:
        pts = g.normal(size=(n, 3)) * 10 ** g.uniform(-1, 1)
    try:
        hull = ConvexHull(pts)
    except Exception:
        return None
    c = pts[hull.vertices].mean(axis=0)
    pts = pts - c
    poly = Polytope(np.ascontiguousarray(pts[:4]), 64, 1e-8)
    k = 0
    for simp, eq in zip(hull.simplices, hull.equations):
        tri = pts[simp]
        nrm = np.cross(tri[1] - tri[0], tri[2] - tri[0])
        if nrm @ eq[:3] < 0:
            tri = tri[[0, 2, 1]]
        poly.faces[k, :3] = tri
        poly.compute_normal(k)
        k += 1
        if k >= 60:
            break
    poly.n_faces = k
    return g, pts, poly


@contract("epa.LooseEdges.find_triangles_facing_point_and_store_loose_edges", fn=FN, props=["C19", "C07"],
          deps=[M + ".Polytope.remove_face"], loops={FN: [0]})
def _(cx):
    """any N faces, capacity >= N: subscripts in bounds; on exit no remaining face sees the point, the remaining faces are exactly
    the original faces that do not see it (each once), and the loop terminates (variant n_faces - i)"""
    f = cx.target()
    Polytope = cx.target(M + ".Polytope")
    LooseEdges = cx.target(M + ".LooseEdges")
    if cx.mode != "sym":
        made = _hull_polytope(cx.rng, Polytope)
        cx.assume(CB(-1.0 if made is not None else 1.0), "pre:hull")
        g, pts, poly = made
        d = g.normal(size=3)
        new_point = d / np.linalg.norm(d) * float(np.abs(pts).max()) * 10 ** g.uniform(0, 1) * 1.5
        for j in range(3):
            cx.values["p_%d" % j] = float(new_point[j])
        before = poly.faces[:poly.n_faces].copy()
        sees = [float(before[i, 3] @ (new_point - before[i, 0])) for i in range(len(before))]
        cx.assume(CB(-1.0 if all(abs(s - 1e-8) > 1e-9 for s in sees) else 1.0), "pre:no_face_on_threshold")
        loose = LooseEdges(32, 1e-8)
        cx.call(f, loose, poly, new_point)
        after = poly.faces[:poly.n_faces]
        left = [float(after[i, 3] @ (new_point - after[i, 0])) for i in range(len(after))]
        cx.prove("no_remaining_face_sees_point", CB(max([0.0] + [l - 1e-8 for l in left])), tol=0.0)
        keep = [before[i] for i in range(len(before)) if sees[i] <= 1e-8]
        cx.prove("remaining_count", bool(len(keep) == len(after)))
        miss = sum(1 for kf in keep if not any(np.array_equal(kf, a) for a in after))
        cx.prove("non_facing_faces_kept", bool(miss == 0))
        # loose edges = boundary of the removed region: a closed loop (every vertex once as start and once as end)
        le = loose.loose_edges[:loose.n_loose_edges]
        if any(s > 1e-8 for s in sees) and loose.n_loose_edges < 32:
            starts = sorted(map(tuple, np.round(le[:, 0], 12)))
            ends = sorted(map(tuple, np.round(le[:, 1], 12)))
            cx.prove("loose_edges_form_closed_loops", bool(starts == ends and len(set(starts)) == len(starts) and len(starts) >= 3))
        return
    # ---------------- symbolic: N faces with identities 0..N-1
    N = SI(_fresh("N", z3.IntSort()))
    cap = SI(_fresh("cap", z3.IntSort()))
    cx.facts.append(("pre:sizes", z3.And(zint(N) >= 0, zint(N) <= zint(cap))))
    tbl = ZTable.fresh("faces", 1, cap)
    j = z3.Int("pre_j")
    cx.facts.append(("pre:identities", z3.ForAll([j], z3.Implies(z3.And(j >= 0, j < zint(N)), z3.Select(tbl.cols[0], j) == j))))
    facing = z3.Function("facing", z3.IntSort(), z3.BoolSort())
    poly = object.__new__(Polytope)
    poly.max_faces, poly.epsilon, poly.faces, poly.n_faces = cap, 1e-8, tbl, N
    loose = object.__new__(LooseEdges)
    loose.max_loose_edges, loose.epsilon, loose.n_loose_edges, loose.loose_edges = 32, 1e-8, 0, None

    def faces_point(i, p):
        cx.prove("requires[triangle_faces_point]:index_is_a_live_face", B(z3.And(zint(i) >= 0, zint(i) < zint(poly.n_faces))), kind="safety")
        return B(facing(zint(poly.faces[i, 0])))

    def add_edges(faces, i):
        cx.prove("requires[add_removed_triangles_edges_to_list]:index_is_a_live_face",
                 B(z3.And(zint(i) >= 0, zint(i) < zint(poly.n_faces))), kind="safety")
    poly.triangle_faces_point = faces_point
    loose.add_removed_triangles_edges_to_list = add_edges

    def havoc_state(env):
        poly.faces = ZTable.fresh("h_faces", 1, cap)
        poly.n_faces = SI(_fresh("h_n", z3.IntSort()))

    def inv(env):
        i, n, T = zint(env["i"]), zint(poly.n_faces), poly.faces.cols[0]
        k, l, q = z3.Int("inv_k"), z3.Int("inv_l"), z3.Int("inv_q")
        return [("bounds", B(z3.And(0 <= i, i <= n, n <= zint(N)))),
                ("visited_do_not_face", B(z3.ForAll([k], z3.Implies(z3.And(k >= 0, k < i), z3.Not(facing(z3.Select(T, k))))))),
                ("contents_are_original_faces", B(z3.ForAll([k], z3.Implies(z3.And(k >= 0, k < n), z3.And(z3.Select(T, k) >= 0, z3.Select(T, k) < zint(N)))))),
                ("no_duplicates", B(z3.ForAll([k, l], z3.Implies(z3.And(k >= 0, k < l, l < n), z3.Select(T, k) != z3.Select(T, l))))),
                ("non_facing_faces_kept", B(z3.ForAll([q], z3.Implies(z3.And(q >= 0, q < zint(N), z3.Not(facing(q))),
                                                                     z3.Exists([k], z3.And(k >= 0, k < n, z3.Select(T, k) == q))))))]

    cx.loop_specs[(FN, 0)] = LoopSpec(inv, variant=lambda env: SI(zint(poly.n_faces) - zint(env["i"])), havoc_state=havoc_state, prop_level=True)
    cx.call(f, loose, poly, (0.0, 0.0, 0.0))
    n, T = zint(poly.n_faces), poly.faces.cols[0]
    k, l, q = z3.Int("post_k"), z3.Int("post_l"), z3.Int("post_q")
    cx.prove("no_remaining_face_sees_point", B(z3.ForAll([k], z3.Implies(z3.And(k >= 0, k < n), z3.Not(facing(z3.Select(T, k)))))))
    cx.prove("non_facing_faces_kept", B(z3.ForAll([q], z3.Implies(z3.And(q >= 0, q < zint(N), z3.Not(facing(q))),
                                                                   z3.Exists([k], z3.And(k >= 0, k < n, z3.Select(T, k) == q))))))
    cx.prove("kept_faces_distinct", B(z3.ForAll([k, l], z3.Implies(z3.And(k >= 0, k < l, l < n), z3.Select(T, k) != z3.Select(T, l)))))
    cx.prove("face_count_within_original", B(z3.And(n >= 0, n <= zint(N))))
    cx.canary("end_reachable(hypotheses_consistent)", False, strict=True)
    cx.cover("end")


@contract("epa.Polytope.fix_ccw_normal_direction", fn=M + ".Polytope.fix_ccw_normal_direction", props=["C07", "C19"])
def _(cx):
    """any face (three vertices and a stored normal), default bias: a face whose normal already points away from the origin (v0.n >= 0)
    is left untouched; a face whose normal points towards the origin by more than the bias (v0.n < -bias) gets v0 and v1 swapped and the
    normal negated; nothing else of the polytope is written.  (In between, -bias <= v0.n < 0, either outcome is accepted: the code's
    tolerance for an origin lying on the face.)"""
    Polytope = cx.target(M + ".Polytope")
    bias = 1e-6
    if cx.mode == "sym":
        rows = [cx.vec(n) for n in ("v0", "v1", "v2", "nrm")]
        other = [cx.vec(n) for n in ("o0", "o1", "o2", "o3")]
        faces = np.array([rows, other], dtype=object)
    else:
        g = np.random.default_rng(cx.rng.getrandbits(32))
        faces = g.normal(size=(2, 4, 3)) * 10 ** g.uniform(-3, 1)
        if g.random() < 0.5:      # normal almost orthogonal to v0: the interesting band around 0
            faces[0, 3] -= faces[0, 0] * (faces[0, 3] @ faces[0, 0]) / (faces[0, 0] @ faces[0, 0])
            faces[0, 3] += faces[0, 0] / (faces[0, 0] @ faces[0, 0]) * g.choice([-3e-6, -1e-6, -5e-7, 0.0, 5e-7, 1e-6, 3e-6])
        for a in range(4):
            for b in range(3):
                cx.values["f%d_%d" % (a, b)] = float(faces[0, a, b])
    poly = object.__new__(Polytope)
    poly.max_faces, poly.epsilon, poly.faces, poly.n_faces = 2, 1e-8, faces, 2
    before = faces.copy()
    dotp = dot(before[0, 0], before[0, 3])
    if cx.mode != "sym":
        # the two decisions of the contract (dot >= 0, dot < -bias) are evaluated here with a different summation order than np.dot:
        # inputs within rounding distance of either threshold are not claimed (false alarm of the thorough tier, DESIGN section 12)
        cx.assume(CB(-1.0) if (abs(float(dotp) + bias) > 1e-12 and abs(float(dotp)) > 1e-15) else CB(1.0), "gap:rounding_at_threshold")
    cx.call(poly.fix_ccw_normal_direction, 0)
    after = poly.faces
    same = lambda a, b: cx.all([cx.eq(a[i], b[i]) for i in range(3)]) if cx.mode == "sym" else CB(float(np.max(np.abs(np.asarray(a, dtype=float) - np.asarray(b, dtype=float)))))
    neg = lambda a, b: cx.all([cx.eq(a[i], -b[i]) for i in range(3)]) if cx.mode == "sym" else CB(float(np.max(np.abs(np.asarray(a, dtype=float) + np.asarray(b, dtype=float)))))
    for r in range(4):
        cx.prove("other_faces_untouched[%d]" % r, same(after[1, r], before[1, r]), tol=0.0)
    cx.prove("third_vertex_untouched", same(after[0, 2], before[0, 2]), tol=0.0)
    if cx.mode == "sym":
        unchanged = cx.all([same(after[0, r], before[0, r]) for r in range(4)])
        flipped = cx.all([same(after[0, 0], before[0, 1]), same(after[0, 1], before[0, 0]), neg(after[0, 3], before[0, 3])])
        cx.prove("outward_face_is_kept", cx.any([cx.lt(dotp, 0.0), unchanged]))
        cx.prove("inward_face_is_flipped", cx.any([cx.ge(dotp, -bias), flipped]))
        cx.prove("kept_or_flipped", cx.any([unchanged, flipped]))
    else:
        un = max(float(np.max(np.abs(after[0, r] - before[0, r]))) for r in range(4))
        fl = max(float(np.max(np.abs(after[0, 0] - before[0, 1]))), float(np.max(np.abs(after[0, 1] - before[0, 0]))), float(np.max(np.abs(after[0, 3] + before[0, 3]))))
        if float(dotp) >= 0.0:
            cx.prove("outward_face_is_kept", CB(un), tol=0.0)
        if float(dotp) < -bias:
            cx.prove("inward_face_is_flipped", CB(fl), tol=0.0)
        cx.prove("kept_or_flipped", CB(min(un, fl)), tol=0.0)
    cx.cover("end")


@contract("epa.LooseEdges.add_removed_triangles_edges_to_list", fn=M + ".LooseEdges.add_removed_triangles_edges_to_list", props=["C07", "C19"],
          deps=[M + ".LooseEdges.edge_already_in_list", M + ".LooseEdges.add_edge_to_list", M + ".LooseEdges.overwrite_edge_with_last_edge",
                M + ".Polytope.get_edge"])
def _(cx):
    """the callee summary used by the removal-loop contract, checked against the body: for a list of 0 or 1 stored edges (arbitrary
    coordinates) and an arbitrary non-degenerate face, the call does not write the polytope (faces, n_faces); the number of stored edges stays within
    [0, capacity] and changes by at most 3; with an empty list the three edges of the face are stored in order.  Exact claims are made
    outside the epsilon band of the edge comparison (end points identical or at least epsilon apart in some coordinate)."""
    Polytope = cx.target(M + ".Polytope")
    LooseEdges = cx.target(M + ".LooseEdges")
    n0 = cx.choice(2, "stored_edges")
    eps = 1e-8
    if cx.mode == "sym":
        face = np.array([[cx.vec("a"), cx.vec("b"), cx.vec("c"), cx.vec("nrm")], [cx.vec(n) for n in ("o0", "o1", "o2", "o3")]], dtype=object)
        edges = np.array([[cx.vec("e%d_0" % k), cx.vec("e%d_1" % k)] for k in range(4)], dtype=object)
    else:
        g = np.random.default_rng(cx.rng.getrandbits(32))
        face = g.normal(size=(2, 4, 3))
        edges = g.normal(size=(4, 2, 3))
        for k in range(n0):          # often the reverse of one of the face's edges (the interesting case)
            if g.random() < 0.6:
                j = int(g.integers(3))
                edges[k, 0], edges[k, 1] = face[0, (j + 1) % 3], face[0, j]
    for j in range(3):              # non-degenerate face: vertices pairwise apart (otherwise a face cancels its own edges)
        d2 = sq([face[0, j][i] - face[0, (j + 1) % 3][i] for i in range(3)])
        if cx.mode == "sym":
            cx.assume(d2 >= 1e-12, "pre:face_vertices_distinct[%d]" % j)
        else:
            cx.assume(CB(1e-12 - float(d2)), "pre:face_vertices_distinct[%d]" % j)
    # gap: every stored end point is identical to the face vertex it is compared with, or clearly apart
    for k in range(n0):
        for j in range(3):
            for (p, q) in ((edges[k, 1], face[0, j]), (edges[k, 0], face[0, (j + 1) % 3])):
                d2 = sq([p[i] - q[i] for i in range(3)])
                if cx.mode == "sym":
                    cx.assume(cx.any([d2 == 0, d2 >= 1e-12]), "gap:edge_compare[%d,%d]" % (k, j))
                else:
                    cx.assume(CB(-1.0) if (float(d2) == 0.0 or float(d2) >= 1e-12) else CB(1.0), "gap:edge_compare[%d,%d]" % (k, j))
    poly = object.__new__(Polytope)
    poly.max_faces, poly.epsilon, poly.faces, poly.n_faces = 2, eps, face, 2
    loose = object.__new__(LooseEdges)
    loose.max_loose_edges, loose.epsilon, loose.loose_edges, loose.n_loose_edges = 4, eps, edges, n0
    before_faces = face.copy()
    cx.call(loose.add_removed_triangles_edges_to_list, poly, 0)
    same = (lambda a, b: cx.all([cx.eq(a[i], b[i]) for i in range(3)])) if cx.mode == "sym" else \
        (lambda a, b: CB(float(np.max(np.abs(np.asarray(a, dtype=float) - np.asarray(b, dtype=float))))))
    for f_ in range(2):
        for r in range(4):
            cx.prove("polytope_not_written[%d,%d]" % (f_, r), same(poly.faces[f_, r], before_faces[f_, r]), tol=0.0)
    cx.prove("face_count_not_written", bool(poly.n_faces == 2))
    n1 = loose.n_loose_edges
    cx.prove("edge_count_in_range", bool(0 <= int(n1) <= 4 and abs(int(n1) - n0) <= 3))
    if n0 == 0:
        cx.prove("empty_list_gets_three_edges", bool(int(n1) == 3))
        for j in range(3):
            cx.prove("edge_stored[%d]" % j, cx.all([same(loose.loose_edges[j, 0], before_faces[0, j]), same(loose.loose_edges[j, 1], before_faces[0, (j + 1) % 3])])
                     if cx.mode == "sym" else CB(max(float(np.max(np.abs(loose.loose_edges[j, 0] - before_faces[0, j]))), float(np.max(np.abs(loose.loose_edges[j, 1] - before_faces[0, (j + 1) % 3]))))), tol=0.0)
    cx.cover("end")
