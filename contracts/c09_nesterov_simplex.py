"""C09 / C02: the simplex projectors shared by every Nesterov-accelerated GJK flavour (generic and jitted 'primitives' twin).

BOUNDED tier only (run-time contracts on the real jitted functions, label native-only): the tetrahedron projector is a
40-leaf Voronoi case analysis over Gram entries and triple products; its Gram-mode proof was not attempted.  The contract
is the loop invariant of the GJK iteration, stated function by function.  For the line and the triangle the one-step
invariant below is enough; the tetrahedron case analysis is only correct on states the loop can actually reach, so its
precondition carries ghost history: a convex point set M, every row a support point of M, the rows kept by the previous
projector calls (`simplex_projection_chain`: the real projectors are iterated on M, with the exact search direction -ray or
an arbitrarily perturbed one as Nesterov acceleration produces, and every call is checked):

  Inv(rows, k, r)   :=  r is the minimum-norm point of conv(rows[:k]) with all k weights strictly positive, and for
                        k = 3 the rows are ordered so that ((r1 - r2) x (r0 - r2)) . r2 <= 0
  requires            Inv(simplex[:k-1]) for the rows kept by the previous step and a strict-progress new last row a:
                        a . r < r . r        (otherwise the main loop has already returned)
  ensures             ray is the minimum-norm point of conv(all k rows); the kept rows simplex[:n] are input rows whose hull
                        contains that point; the orientation clause holds again for n = 3; inside=True only if the origin is
                        in the hull.

The minimum-norm oracle is a brute-force enumeration of the 2^k - 1 faces (normal equations per face, non-negative weights),
independent of the repository."""
import itertools
import numpy as np
from d3vc.engine import contract
from d3vc.sym import CB

GENERIC = "distance3d.gjk._gjk_nesterov_accelerated"
PRIMS = "distance3d.gjk._gjk_nesterov_accelerated_primitives"


def minnorm(P):
    best = None
    n = len(P)
    for k in range(1, n + 1):
        for S in itertools.combinations(range(n), k):
            A = P[list(S)]
            K = np.block([[A @ A.T, np.ones((k, 1))], [np.ones((1, k)), np.zeros((1, 1))]])
            lam = np.linalg.lstsq(K, np.append(np.zeros(k), 1.0), rcond=None)[0][:k]
            if np.min(lam) < -1e-12:
                continue
            v = A.T @ lam
            d = float(v @ v)
            if best is None or d < best[0] - 1e-15:
                best = (d, v, S, lam)
    return best


def orientation(P):
    return float(np.cross(P[1] - P[2], P[0] - P[2]) @ P[2])


def _points(cx, k):
    names = ["y%d" % i for i in range(k)]
    if all(("%s_0" % n) in cx.values for n in names):
        return np.array([[cx.values["%s_%d" % (n, i)] for i in range(3)] for n in names])
    r = cx.rng
    mode = r.random()
    if mode < 0.2:
        P = np.array([[float(r.choice([-2, -1, 0, 1, 2])) for _ in range(3)] for _ in range(k)])
    elif mode < 0.45:
        s = 10 ** r.uniform(-1, 1)
        P = np.array([[r.gauss(0, 1) * s for _ in range(3)] for _ in range(k)])
        if r.random() < 0.5:
            P += np.array([r.gauss(0, 2) for _ in range(3)])
    else:
        # constructive: kept simplex near / far from the origin, new row = (multiple of the previous ray) + offset on several scales;
        # reaches the leaves of the tetrahedron case analysis that uniform sampling practically never enters
        P = np.array([[r.gauss(0, 1) for _ in range(3)] for _ in range(k)])
        P[:k - 1] += np.array([r.gauss(0, 1) for _ in range(3)]) * 10 ** r.uniform(-1.5, 0.5)
        ray = minnorm(P[:k - 1])[1]
        P[k - 1] = ray * r.uniform(-1.5, 1.0) + np.array([r.gauss(0, 1) for _ in range(3)]) * 10 ** r.uniform(-2, 0.7) * float(np.linalg.norm(ray))
    if k == 4 and orientation(P[:3]) > 0:
        P[[0, 1]] = P[[1, 0]]
    for n, v in zip(names, P):
        for i in range(3):
            cx.values["%s_%d" % (n, i)] = float(v[i])
    return P


def _projector(modname, short, fname, k):
    @contract("gjk_nesterov[%s].%s" % (short, fname), fn="%s.%s" % (modname, fname), props=["C09", "C02"],
              tags=["native-only"], opts=dict(fuzz_mult=40))
    def _c(cx):
        if cx.mode == "sym":
            return
        f = cx.target()
        P = _points(cx, k)
        sc = max(1.0, float(np.abs(P).max()))
        old = minnorm(P[:k - 1])
        r = old[1]
        # requires: Inv on the kept rows, strict progress of the new row
        cx.assume(CB(-1.0 if (len(old[2]) == k - 1 and float(np.min(old[3])) >= 1e-6) else 1.0), "pre:previous_simplex_minimal")
        rr = float(r @ r)
        cx.assume(CB(-1.0 if (rr > 1e-12 and float(P[k - 1] @ r) < rr * (1 - 1e-6)) else 1.0), "pre:strict_progress")
        _check_call(cx, f, P, "")
    return _c


def _check_call(cx, f, P, prefix):
    """one projector call on the rows P (last row = new support point): all postconditions; returns (ray, kept rows, inside)"""
    k = len(P)
    sc = max(1.0, float(np.abs(P).max()))
    simplex = np.ascontiguousarray(P.copy())
    ray, n, inside = cx.call(f, simplex)
    true = minnorm(P)
    n = int(n)
    cx.prove(prefix + "simplex_len_range", bool(1 <= n <= k))
    cx.prove(prefix + "ray_is_minimum_norm_point", CB(float(np.linalg.norm(np.asarray(ray, dtype=float) - true[1])) / sc), tol=1e-7)
    if bool(inside):
        cx.prove(prefix + "inside_only_if_origin_in_hull", CB(float(np.sqrt(true[0])) / sc), tol=1e-7)
    kept = simplex[:n]
    member = max(min(float(np.abs(row - q).max()) for q in P) for row in kept)
    cx.prove(prefix + "kept_rows_are_input_rows", CB(member), tol=0.0)
    cx.prove(prefix + "kept_hull_contains_minimum", CB(float(np.linalg.norm(minnorm(kept)[1] - true[1])) / sc), tol=1e-7)
    if n == 3 and not bool(inside):
        cx.prove(prefix + "kept_triangle_orientation", CB(orientation(kept) / sc ** 3), tol=1e-9)
    return np.asarray(ray, dtype=float), kept, bool(inside)


def _cloud(r):
    """ghost convex set M (its vertices): lattice, ellipsoid surface, anisotropic Gaussian, box corners; placed around / near / far from 0"""
    g = np.random.default_rng(r.getrandbits(32))
    m = g.random()
    n = int(g.integers(4, 40))
    if m < 0.25:
        M = g.integers(-2, 3, size=(n, 3)).astype(float) + g.integers(-2, 3, size=3)
    elif m < 0.5:
        M = g.normal(size=(n, 3))
        M /= np.linalg.norm(M, axis=1)[:, None]
        M *= 10 ** g.uniform(-1, 0.5, size=3)
    elif m < 0.75:
        M = g.normal(size=(n, 3)) * 10 ** g.uniform(-1.5, 0.5, size=3)
    else:
        M = np.sign(g.uniform(-1, 1, size=(n, 3))) * 10 ** g.uniform(-1, 0.5, size=3)
    if m >= 0.25 and g.random() < 0.8:
        c = g.normal(size=3)
        M = M + c / np.linalg.norm(c) * 10 ** g.uniform(-1.5, 1)
    return g, M


def _chain(modname, short):
    names = {2: "project_line_origin", 3: "project_triangle_origin", 4: "project_tetra_to_origin"}

    @contract("gjk_nesterov[%s].simplex_projection_chain" % short, fn="%s.project_tetra_to_origin" % modname, props=["C09", "C02"],
              deps=["%s.%s" % (modname, n) for n in names.values()], tags=["native-only"], opts=dict(fuzz_mult=100, fuzz_batches=16))
    def _c(cx):
        if cx.mode == "sym":
            return
        F = {k: cx.target("%s.%s" % (modname, n)) for k, n in names.items()}
        if "replay_k" in cx.values:                      # replay of a recorded failing call
            k = int(cx.values["replay_k"])
            P = np.array([[cx.values["row%d_%d" % (i, j)] for j in range(3)] for i in range(k)])
            _check_call(cx, F[k], P, names[k] + ":")
            return
        g, M = _cloud(cx.rng)
        accel = g.random() < 0.5
        n = 1
        kept = M[int(g.integers(len(M)))][None, :].copy()
        ray = kept[0].copy()
        for step in range(30):
            rr = float(ray @ ray)
            if rr < 1e-20 or n == 4:
                break
            w = -ray
            if accel:
                w = w + g.normal(size=3) * np.sqrt(rr) * 10 ** g.uniform(-2, 0.3)
            a = M[int(np.argmax(M @ w))]
            if not float(a @ ray) < rr * (1 - 1e-6):
                a = M[int(np.argmax(M @ (-ray)))]
                if not float(a @ ray) < rr * (1 - 1e-6):
                    break                                  # the main loop returns here (no progress possible)
            P = np.vstack([kept, a])
            cx.values["replay_k"] = float(n + 1)
            for i in range(n + 1):
                for j in range(3):
                    cx.values["row%d_%d" % (i, j)] = float(P[i, j])
            before = len(cx.concrete_report)
            ray, kept, inside = _check_call(cx, F[n + 1], P, names[n + 1] + ":")
            if inside or any(t is not None and v > t for (_, v, t) in cx.concrete_report[before:]):
                break                                      # keep the failing call's rows in cx.values for the replay file
            n = len(kept)
        else:
            pass
        if not any(t is not None and v > t for (_, v, t) in cx.concrete_report):
            cx.values.pop("replay_k", None)
    return _c


for _mod, _short in ((GENERIC, "generic"), (PRIMS, "primitives")):
    _projector(_mod, _short, "project_line_origin", 2)
    _projector(_mod, _short, "project_triangle_origin", 3)
    _chain(_mod, _short)
