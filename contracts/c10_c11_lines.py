"""C10 / C11 proof tier for the point / line / segment / plane family of distance3d.distance, in Gram mode (abstract
vectors: frame independent by construction, which is also the C12 rigid-motion clause for these functions).

C10 clauses: d >= 0 (a norm / abs), the returned points lie on their primitives (witness parameters are recovered from the
result), |p1 - p2|^2 = d^2.  C11 clause: first-order optimality (KKT / orthogonality), which characterises the global
minimum for these convex pairs.  Code thresholds (`epsilon` arguments) are symbolic positive numbers; exact claims are
made outside the epsilon band (gap precondition), as the property prescribes."""
import numpy as np

from d3vc.engine import contract
from d3vc import gram
from d3vc.vecops import dot, sq, cross
from d3vc.sym import CB
from contracts.c18_simplex import vectors, gap

D = "distance3d.distance._line."
P = "distance3d.distance._plane."


def unit(cx, v, name):
    if cx.mode == "sym":
        cx.assume(sq(v) == 1.0, "unit:" + name)
        return v
    n = float(np.sqrt(sq(v)))
    if n == 0:
        cx.assume(CB(1.0), "unit:" + name)
        return v
    return np.ascontiguousarray(v / n)


def nonzero(cx, v, name, lo=0.04):
    """primitive domain P: feature sizes >= 0.2, i.e. squared lengths >= 0.04"""
    if cx.mode == "sym":
        cx.assume(sq(v) >= lo, "nondegenerate:" + name)
    else:
        cx.assume(CB(lo - float(sq(v))), "nondegenerate:" + name)


def dist_consistent(cx, d, p1, p2, scale=1.0):
    cx.prove("d_nonneg", cx.ge(d, 0.0))
    if cx.mode == "sym":
        cx.prove("d_consistent", cx.eq(d * d, sq(p1 - p2)))
    else:
        cx.prove("d_consistent", CB(abs(float(d) - float(np.linalg.norm(p1 - p2)))), tol=1e-6 * scale)


def L_of(cx, *vs):
    if cx.mode == "sym":
        return 1.0
    return max(1.0, max(float(np.sqrt(sq(v))) for v in vs))


def on_segment(cx, c, s, e, name, scale):
    """c = s + t (e - s) with 0 <= t <= 1: c - s is parallel to e - s and its projection parameter is within [0, 1]"""
    dd = e - s
    w = c - s
    if cx.mode == "sym":
        cx.prove(name + ":collinear", cx.eq(sq(cross(w, dd)), 0.0))
        cx.prove(name + ":within", cx.all([cx.ge(dot(w, dd), 0.0), cx.le(dot(w, dd), sq(dd))]))
    else:
        t = float(dot(w, dd)) / float(sq(dd))
        cx.prove(name + ":collinear", CB(float(np.linalg.norm(w - t * dd))), tol=1e-9 * scale)
        cx.prove(name + ":within", CB(max(-t, t - 1.0) * float(np.sqrt(sq(dd)))), tol=1e-9 * scale)


def on_line(cx, c, lp, u, name, scale):
    w = c - lp
    if cx.mode == "sym":
        cx.prove(name + ":collinear", cx.eq(sq(cross(w, u)), 0.0))
    else:
        t = float(dot(w, u)) / float(sq(u))
        cx.prove(name + ":collinear", CB(float(np.linalg.norm(w - t * u))), tol=1e-9 * scale)


def le0(cx, x, name, scale, tol=1e-6):
    """x <= 0 (first-order optimality clause); concrete slack normalised by the scene scale"""
    if cx.mode == "sym":
        cx.prove(name, cx.le(x, 0.0))
    else:
        cx.prove(name, CB(float(x) / scale), tol=tol * scale)


def eq0(cx, x, name, scale, tol=1e-6):
    if cx.mode == "sym":
        cx.prove(name, cx.eq(x, 0.0))
    else:
        cx.prove(name, CB(abs(float(x)) / scale), tol=tol * scale)


@contract("distance.point_to_line", fn=D + "_point_to_line", props=["C10", "C11", "C12", "C20"])
def _(cx):
    """unit direction: closest point lies on the line, the connecting vector is orthogonal to the line (global optimum), d = |p - c|"""
    f = cx.target()
    p, lp, u = vectors(cx, ["p", "l", "u"])
    u = unit(cx, u, "u")
    d, c, t = cx.call(f, p, lp, u)
    sc = L_of(cx, p, lp)
    on_line(cx, c, lp, u, "c_on_line", sc)
    dist_consistent(cx, d, p, c, sc)
    eq0(cx, dot(p - c, u), "optimal:orthogonal", sc)
    cx.cover("end")


@contract("distance.point_to_line_segment", fn=D + "point_to_line_segment", props=["C10", "C11", "C12", "C20"])
def _(cx):
    """closest point lies on the segment; KKT: (p - c).(x - c) <= 0 for both end points x (global optimum); d = |p - c|"""
    f = cx.target()
    p, s, e = vectors(cx, ["p", "s", "e"])
    nonzero(cx, e - s, "segment")
    d, c = cx.call(f, p, s, e)
    sc = L_of(cx, p, s, e)
    on_segment(cx, c, s, e, "c_on_segment", sc)
    dist_consistent(cx, d, p, c, sc)
    le0(cx, dot(p - c, s - c), "optimal:start", sc)
    le0(cx, dot(p - c, e - c), "optimal:end", sc)
    cx.cover("end")


@contract("distance.point_to_plane", fn=P + "_point_to_plane", props=["C10", "C11", "C12", "C20"])
def _(cx):
    """unit normal: closest point lies in the plane, the connecting vector is parallel to the normal, d = |p - c| (unsigned)"""
    f = cx.target()
    p, q, n = vectors(cx, ["p", "q", "n"])
    n = unit(cx, n, "n")
    d, c = cx.call(f, p, q, n, False)
    sc = L_of(cx, p, q)
    eq0(cx, dot(c - q, n), "c_in_plane", sc, tol=1e-9)
    dist_consistent(cx, d, p, c, sc)
    if cx.mode == "sym":
        cx.prove("optimal:parallel_to_normal", cx.eq(sq(cross(p - c, n)), 0.0))
    else:
        cx.prove("optimal:parallel_to_normal", CB(float(np.linalg.norm(np.cross(p - c, n)))), tol=1e-6 * sc)
    cx.cover("end")


@contract("distance.line_to_line", fn=D + "_line_to_line", props=["C10", "C11", "C12", "C20"])
def _(cx):
    """unit directions; outside the epsilon band (|det| >= epsilon or exactly parallel): points on their lines, connecting vector
    orthogonal to both directions (global optimum), d^2 = |p1 - p2|^2 (the code computes d from a different expression)"""
    f = cx.target()
    p1, u1, p2, u2 = vectors(cx, ["p", "u", "q", "w"])
    u1, u2 = unit(cx, u1, "u"), unit(cx, u2, "w")
    if cx.mode == "sym":
        eps = cx.real("epsilon")
        cx.assume((eps > 0) & (eps <= 1e-3), "dom:epsilon")
    else:
        eps = 1e-6
    a12 = -dot(u1, u2)
    det = 1.0 - a12 * a12
    gap(cx, det, eps, "det")
    band(cx, det, "lines nearly parallel")
    d, c1, c2, t1, t2 = cx.call(f, p1, u1, p2, u2, eps)
    sc = L_of(cx, p1, p2)
    on_line(cx, c1, p1, u1, "p1_on_line1", sc)
    on_line(cx, c2, p2, u2, "p2_on_line2", sc)
    dist_consistent(cx, d, c1, c2, sc)
    eq0(cx, dot(c1 - c2, u1), "optimal:orthogonal_to_line1", sc)
    eq0(cx, dot(c1 - c2, u2), "optimal:orthogonal_to_line2", sc)
    cx.cover("end")


@contract("distance.line_segment_to_line_segment", fn=D + "_line_segment_to_line_segment", props=["C10", "C11", "C12", "C20"])
def _(cx):
    """two non-degenerate segments: points on their segments, d = |c1 - c2|, KKT on both segments:
    (c1 - c2).(x - c1) >= 0 for the end points x of segment 1 and (c1 - c2).(y - c2) <= 0 for those of segment 2"""
    f = cx.target()
    # inputs re-parameterised by a bijection: s2 = o, s1 = o + r, e1 = s1 + d1, e2 = s2 + d2 (the code only uses differences, so the
    # atoms of o cancel); the "four vectors of R^3 are dependent" fact is not used: the KKT argument is dimension free
    o, r, d1, d2 = vectors(cx, ["o", "r", "v", "w"], rank3=False)
    s2, s1 = o, o + r
    e1, e2 = s1 + d1, s2 + d2
    nonzero(cx, e1 - s1, "segment1")
    nonzero(cx, e2 - s2, "segment2")
    if cx.mode == "sym":
        eps = cx.real("epsilon")
        cx.assume((eps > 0) & (eps <= 1e-3), "dom:epsilon")
    else:
        eps = 1e-6
    if cx.mode != "sym":
        a_, e_, b_ = float(sq(e1 - s1)), float(sq(e2 - s2)), float(dot(e1 - s1, e2 - s2))
        band(cx, (a_ * e_ - b_ * b_) / (a_ * e_), "segments nearly parallel")
    d, c1, c2 = cx.call(f, s1, e1, s2, e2, eps)
    sc = L_of(cx, s1, e1, s2, e2)
    on_segment(cx, c1, s1, e1, "p1_on_segment1", sc)
    on_segment(cx, c2, s2, e2, "p2_on_segment2", sc)
    dist_consistent(cx, d, c1, c2, sc)
    n = c1 - c2
    le0(cx, -dot(n, s1 - c1), "optimal:seg1_start", sc)
    le0(cx, -dot(n, e1 - c1), "optimal:seg1_end", sc)
    le0(cx, dot(n, s2 - c2), "optimal:seg2_start", sc)
    le0(cx, dot(n, e2 - c2), "optimal:seg2_end", sc)
    cx.cover("end")


@contract("distance.line_to_line_segment", fn=D + "_line_to_line_segment", props=["C10", "C11", "C12", "C20"])
def _(cx):
    """non-degenerate line direction and segment: points on line / segment, d = |c1 - c2|, connecting vector orthogonal to the line
    and KKT on the segment"""
    f = cx.target()
    o, u, r, dd = vectors(cx, ["o", "u", "r", "w"], rank3=False)
    lp, s = o, o + r
    e = s + dd
    nonzero(cx, u, "direction")
    nonzero(cx, e - s, "segment")
    if cx.mode == "sym":
        eps = cx.real("epsilon")
        cx.assume((eps > 0) & (eps <= 1e-3), "dom:epsilon")
    else:
        eps = 1e-6
    if cx.mode != "sym":
        a_, e_, b_ = float(sq(e - s)), float(sq(u)), float(dot(e - s, u))
        band(cx, (a_ * e_ - b_ * b_) / (a_ * e_), "line and segment nearly parallel")
    d, c1, c2, t, sp = cx.call(f, lp, u, s, e, eps)
    sc = L_of(cx, lp, s, e)
    on_line(cx, c1, lp, u, "p1_on_line", sc)
    on_segment(cx, c2, s, e, "p2_on_segment", sc)
    dist_consistent(cx, d, c1, c2, sc)
    n = c1 - c2
    eq0(cx, dot(n, u), "optimal:orthogonal_to_line", sc)
    le0(cx, dot(n, s - c2), "optimal:seg_start", sc)
    le0(cx, dot(n, e - c2), "optimal:seg_end", sc)
    cx.cover("end")


@contract("distance.point_to_triangle", fn="distance3d.distance._triangle.point_to_triangle", props=["C10", "C11", "C12", "C20"])
def _(cx):
    """triangle of non-zero area: the closest point is a convex combination of the vertices (weights read off the result),
    d = |p - c|, KKT: (p - c).(x - c) <= 0 for the three vertices x (global optimum over the triangle)"""
    f = cx.target()
    o, u, w, r = vectors(cx, ["o", "u", "w", "r"], rank3=False)     # a = o, b = o + u, c = o + w, p = o + r (bijection)
    a, b, c, p = o, o + u, o + w, o + r
    n = cross(u, w)
    if cx.mode == "sym":
        cx.assume(sq(n) > 0, "nondegenerate:triangle")
        tri = gram.AbsRows([a, b, c])
    else:
        cx.assume(CB(1e-6 - float(sq(n))), "nondegenerate:triangle")
        tri = np.ascontiguousarray(np.array([a, b, c]))
    d, q = cx.call(f, p, tri)
    sc = L_of(cx, a, b, c, p)
    if cx.mode == "sym":
        cx.prove("q_in_plane_of_triangle", bool(gram.has_only(q, {"o", "u", "w"})))
        lb, lc = gram.coefficient(q, "u"), gram.coefficient(q, "w")
        cx.prove("q_affine", cx.eq(gram.coefficient(q, "o"), 1.0))
        cx.prove("q_weights_in_triangle", cx.all([cx.ge(lb, 0.0), cx.ge(lc, 0.0), cx.le(lb + lc, 1.0)]))
    else:
        A = np.array([b - a, c - a]).T
        lam, *_ = np.linalg.lstsq(A, q - a, rcond=None)
        cx.prove("q_in_plane_of_triangle", CB(float(np.linalg.norm(A @ lam - (q - a)))), tol=1e-9 * sc)
        cx.prove("q_weights_in_triangle", CB(float(max(-lam[0], -lam[1], lam[0] + lam[1] - 1.0)) * sc), tol=1e-9 * sc)
    dist_consistent(cx, d, p, q, sc)
    for nm, x in (("a", a), ("b", b), ("c", c)):
        le0(cx, dot(p - q, x - q), "optimal:" + nm, sc)
    cx.cover("end")


def band(cx, sin2_or_cos2, name):
    """concrete executions only: the property excludes placements whose direction cosine falls strictly inside (0, 1e-2) of a
    parallel / perpendicular decision (thin epsilon band, float conditioning); squared value in (0, 1e-4) -> sample discarded"""
    if cx.mode != "sym":
        v = float(sin2_or_cos2)
        cx.assume(CB(-1.0) if (v <= 1e-30 or v >= 1e-4) else CB(1.0), "band:" + name)


def _eps(cx):
    if cx.mode == "sym":
        eps = cx.real("epsilon")
        cx.assume((eps > 0) & (eps <= 1e-3), "dom:epsilon")
        return eps
    return 1e-6


@contract("distance.line_to_plane", fn=P + "line_to_plane", props=["C10", "C11", "C12", "C20"], deps=[P + "_line_to_plane", P + "_point_to_plane"])
def _(cx):
    """unit direction and normal, outside the epsilon band ((u.n)^2 >= epsilon or exactly parallel): intersecting -> common point
    with d = 0; parallel -> d = |(l - q).n|, plane point in the plane, connecting vector parallel to the normal"""
    f = cx.target()
    o, u, r, n = vectors(cx, ["o", "u", "r", "n"], rank3=False)       # plane point q = o, line point l = o + r
    q, lp = o, o + r
    u, n = unit(cx, u, "u"), unit(cx, n, "n")
    eps = _eps(cx)
    un = dot(u, n)
    gap(cx, un * un, eps, "(u.n)^2")
    band(cx, un * un, "line nearly parallel to plane")
    d, p1, p2 = cx.call(f, lp, u, q, n, eps)
    sc = L_of(cx, lp, q)
    on_line(cx, p1, lp, u, "p1_on_line", sc)
    eq0(cx, dot(p2 - q, n), "p2_in_plane", sc, tol=1e-9)
    dist_consistent(cx, d, p1, p2, sc)
    if cx.mode == "sym":
        cx.prove("optimal:parallel_to_normal", cx.eq(sq(cross(p1 - p2, n)), 0.0))
        # when the line is not parallel to the plane the distance must be 0; when it is, every line point is equally far
        cx.prove("optimal:zero_if_crossing", cx.any([cx.eq(un, 0.0), cx.eq(d, 0.0)]))
    else:
        cx.prove("optimal:parallel_to_normal", CB(float(np.linalg.norm(np.cross(p1 - p2, n)))), tol=1e-6 * sc)
        cx.prove("optimal:zero_if_crossing", CB(min(abs(float(un)), abs(float(d)))), tol=1e-6 * sc)
    cx.cover("end")


@contract("distance.line_segment_to_plane", fn=P + "_line_segment_to_plane", props=["C10", "C11", "C12", "C20"],
          deps=[P + "_line_to_plane", P + "_point_to_plane", "distance3d.geometry.convert_segment_to_line"])
def _(cx):
    """non-degenerate segment, unit normal, outside the epsilon band: segment point on the segment, plane point in the plane,
    d = |p1 - p2|, connecting vector parallel to the normal and KKT on the segment (global optimum of a convex pair)"""
    f = cx.target()
    o, r, dd, n = vectors(cx, ["o", "r", "w", "n"], rank3=False)      # plane point q = o, segment start s = o + r, end e = s + dd
    q, s = o, o + r
    e = s + dd
    nonzero(cx, dd, "segment")
    n = unit(cx, n, "n")
    eps = _eps(cx)
    # the code normalises the direction: (dir.n)^2 = (dd.n)^2 / |dd|^2
    dn = dot(dd, n)
    if cx.mode == "sym":
        cx.assume(cx.any([dn == 0, dn * dn >= eps * sq(dd)]), "gap:(dir.n)^2")
    else:
        if float(sq(dd)) == 0.0:
            cx.assume(CB(1.0), "gap:(dir.n)^2")
            raise __import__("d3vc.sym", fromlist=["PathEnd"]).PathEnd("degenerate sample")
        val = float(dn * dn) / float(sq(dd))
        cx.assume(CB(-1.0) if (val == 0.0 or val >= eps) else CB(1.0), "gap:(dir.n)^2")
    if cx.mode != "sym":
        band(cx, float(dn * dn) / float(sq(dd)), "segment nearly parallel to plane")
    d, p1, p2 = cx.call(f, s, e, q, n, eps)
    sc = L_of(cx, s, e, q)
    on_segment(cx, p1, s, e, "p1_on_segment", sc)
    eq0(cx, dot(p2 - q, n), "p2_in_plane", sc, tol=1e-9)
    dist_consistent(cx, d, p1, p2, sc)
    nvec = p1 - p2
    if cx.mode == "sym":
        cx.prove("optimal:parallel_to_normal", cx.eq(sq(cross(nvec, n)), 0.0))
    else:
        cx.prove("optimal:parallel_to_normal", CB(float(np.linalg.norm(np.cross(nvec, n)))), tol=1e-6 * sc)
    le0(cx, -dot(nvec, s - p1), "optimal:seg_start", sc)
    le0(cx, -dot(nvec, e - p1), "optimal:seg_end", sc)
    cx.cover("end")


@contract("distance.plane_to_plane", fn=P + "plane_to_plane", props=["C10", "C11", "C12", "C20"],
          deps=[P + "plane_intersects_plane", "distance3d.geometry.line_from_pluecker", "distance3d.geometry.hesse_normal_form", P + "_point_to_plane"])
def _(cx):
    """unit normals, outside the epsilon band (|n1 x n2| > epsilon or exactly 0): each returned point lies in its plane, d = |p1 - p2|,
    d = 0 when the planes cross, connecting vector parallel to the common normal when they are parallel"""
    f = cx.target()
    p1, n1, p2, n2 = vectors(cx, ["a", "m", "b", "n"], rank3=False)
    n1, n2 = unit(cx, n1, "n1"), unit(cx, n2, "n2")
    eps = _eps(cx)
    c = cross(n1, n2)
    s2 = sq(c)
    if cx.mode == "sym":
        cx.assume(cx.any([s2 == 0, s2 > eps * eps]), "gap:|n1 x n2|")
    else:
        cx.assume(CB(-1.0) if (float(s2) <= 1e-30 or float(s2) > eps * eps) else CB(1.0), "gap:|n1 x n2|")
    band(cx, s2, "planes nearly parallel")
    d, c1, c2 = cx.call(f, p1, n1, p2, n2, eps)
    sc = L_of(cx, p1, p2)
    eq0(cx, dot(c1 - p1, n1), "c1_in_plane1", sc, tol=1e-9)
    eq0(cx, dot(c2 - p2, n2), "c2_in_plane2", sc, tol=1e-9)
    dist_consistent(cx, d, c1, c2, sc)
    if cx.mode == "sym":
        cx.prove("optimal:zero_if_crossing", cx.any([cx.eq(s2, 0.0), cx.eq(d, 0.0)]))
        cx.prove("optimal:parallel_to_normal", cx.eq(sq(cross(c1 - c2, n2)), 0.0))
    else:
        cx.prove("optimal:zero_if_crossing", CB(min(float(np.sqrt(s2)), abs(float(d)))), tol=1e-6 * sc)
        cx.prove("optimal:parallel_to_normal", CB(float(np.linalg.norm(np.cross(c1 - c2, n2)))), tol=1e-6 * sc)
    cx.cover("end")
