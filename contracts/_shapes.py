"""Shape specs shared by the C03 / C04 / C13 / C14 contracts: for every collider class how to build it from
symbolic parameters, the membership predicate of its point set (from the class docstrings), and a Skolem
point generator ("an arbitrary point of the shape")."""
import math

import numpy as np

from d3vc import spec
from d3vc.spec import dot, sq, sym, arr
from d3vc.sym import CB


def contiguous(a):
    return np.ascontiguousarray(a)


def summarise_plane_basis(cx, F):
    """callee contract of utils.plane_basis_from_normal (proved in contracts/c03_utils.py: for a unit normal n it
    returns x, y with (x, y, n) orthonormal and right-handed, i.e. [x y n] is a rotation whose third column is n).
    The caller is verified against this contract, not the body: the call returns the first two columns of the
    universally quantified rotation F after checking that the argument IS F's third column."""
    if cx.mode != "sym":
        return

    def summary(plane_normal):
        ok = isinstance(plane_normal, np.ndarray) and plane_normal.shape == (3,) and plane_normal.flags.c_contiguous
        cx.prove("callee_pre:plane_basis_from_normal:layout", bool(ok), kind="callee_pre", prop_level=False)
        cx.prove("callee_pre:plane_basis_from_normal:arg_is_frame_normal",
                 cx.all([plane_normal[i] == F[i, 2] for i in range(3)]), kind="callee_pre", prop_level=False)
        return np.ascontiguousarray(F[:3, 0]), np.ascontiguousarray(F[:3, 1])
    cx.repo.patch("distance3d.utils.plane_basis_from_normal", summary)


class ShapeSpec:
    name = "?"
    cls = None            # qualified name of the collider class
    has_pose = True
    LO, HI = 1e-2, 1e2    # declared size domain D

    def params(self, cx, pre="", lo=None):
        raise NotImplementedError

    def ctor_args(self, cx, P):
        raise NotImplementedError

    def member(self, cx, P, x, tag=""):
        """x (world point) belongs to the shape; may introduce witnesses"""
        raise NotImplementedError

    def any_point(self, cx, P, name):
        """Skolem: a world point assumed to be in the shape"""
        raise NotImplementedError

    def not_member(self, cx, P, x, name="q"):
        """x is NOT in the shape (for existentially defined shapes the quantified parameter is Skolemised here)"""
        return cx.neg(self.member(cx, P, x))

    def direction(self, cx, P, name="d"):
        """a non-zero world direction (parameterised in the shape's frame where there is one)"""
        if self.has_pose:
            dw, delta = spec.world_dir(cx, name, P["T"])
            cx.scratch["delta"] = delta
            return dw
        d = cx.vec(name)
        if sym(cx):
            cx.assume(sq(d) > 0, "nonzero:" + name)
        else:
            cx.assume(CB(-sq(d) + 1e-300), "nonzero:" + name)
        return d

    def scale(self, P):
        return 1.0

    def hints(self, cx, P, d, x, res):
        """shape-specific proof steps (each is its own obligation) inserted before the extremality obligation"""
        return None

    def member_of_witness(self, cx, P, p):
        """membership of a witness given in the local frame (pose shapes) or in the world (sphere)"""
        return self.member_local(cx, P, p)

    def witness_world(self, cx, P, p):
        return spec.to_world_point(cx, P["T"], p)

    def aabb_hints(self, cx, P, k, x, bb):
        """proof steps for the per-axis enclosure obligation; returns the list of fact-name prefixes to use"""
        return ["orth:T:row%d%d" % (k, k), "def:", "skolem", "dom", "branch", "lemma", "proved:pose_entry_le_1:T[%d" % k, "proved:csb",
                "proved:w"]

    def build(self, cx, P):
        K = cx.target(self.cls)
        return cx.call(K, *self.ctor_args(cx, P))


def _hint(cx, lo, hi):
    return dict(lo=lo, hi=hi) if not sym(cx) else {}


class CylinderSpec(ShapeSpec):
    name, cls = "cylinder", "distance3d.colliders.Cylinder"

    def params(self, cx, pre="", lo=None, reduce="cols"):
        lo = lo or self.LO
        return dict(T=spec.pose(cx, pre + "T", reduce=reduce), r=spec.size(cx, pre + "r", lo, self.HI),
                    L=spec.size(cx, pre + "L", lo, self.HI))

    def ctor_args(self, cx, P):
        return (P["T"], P["r"], P["L"])

    def member_local(self, cx, P, y):
        return spec.in_cylinder_local(cx, y, P["r"], P["L"])

    def member(self, cx, P, x, tag=""):
        return self.member_local(cx, P, spec.to_local_point(cx, P["T"], x))

    def any_local(self, cx, P, name):
        if sym(cx):
            y = cx.vec(name)
        else:
            r, L = P["r"], P["L"]
            y = arr(cx, [cx.real(name + "_0", lo=-r, hi=r), cx.real(name + "_1", lo=-r, hi=r), cx.real(name + "_2", lo=-L / 2, hi=L / 2)])
        cx.assume(self.member_local(cx, P, y), "skolem:%s in shape" % name)
        return y

    def any_point(self, cx, P, name):
        y = self.any_local(cx, P, name)
        cx.scratch["ylocal"] = y
        return spec.to_world_point(cx, P["T"], y)


class CapsuleSpec(CylinderSpec):
    name, cls = "capsule", "distance3d.colliders.Capsule"

    def params(self, cx, pre="", lo=None, reduce="cols"):
        lo = lo or self.LO
        return dict(T=spec.pose(cx, pre + "T", reduce=reduce), r=spec.size(cx, pre + "r", lo, self.HI),
                    h=spec.size(cx, pre + "h", lo, self.HI))

    def ctor_args(self, cx, P):
        return (P["T"], P["r"], P["h"])

    def member(self, cx, P, x, tag=""):
        y = spec.to_local_point(cx, P["T"], x)
        # witness: the axis point closest to y, t = clamp(y2, -h/2, h/2)
        h = P["h"]
        if sym(cx):
            if y[2] > 0.5 * h:
                t = 0.5 * h
            elif y[2] < -0.5 * h:
                t = -0.5 * h
            else:
                t = y[2]
        else:
            t = min(max(y[2], -0.5 * h), 0.5 * h)
        return spec.in_capsule_local(cx, y, P["r"], h, t)

    def not_member(self, cx, P, x, name="q"):
        # for EVERY axis parameter t in [-h/2, h/2] the point is farther than r from (0,0,t)
        y = spec.to_local_point(cx, P["T"], x)
        h = P["h"]
        if sym(cx):
            t = cx.real(name + "_t")
            cx.assume((t <= 0.5 * h) & (t >= -0.5 * h), "skolem:%s_t on axis" % name)
            return y[0] * y[0] + y[1] * y[1] + (y[2] - t) * (y[2] - t) > P["r"] * P["r"]
        return cx.neg(self.member(cx, P, x))

    def any_local(self, cx, P, name):
        r, h = P["r"], P["h"]
        if sym(cx):
            y = cx.vec(name)
            t = cx.real(name + "_t")
        else:
            y = arr(cx, [cx.real(name + "_0", lo=-r, hi=r), cx.real(name + "_1", lo=-r, hi=r),
                         cx.real(name + "_2", lo=-h / 2 - r, hi=h / 2 + r)])
            if name + "_t" not in cx.values:
                cx.values[name + "_t"] = min(max(y[2], -0.5 * h), 0.5 * h)
            t = cx.real(name + "_t")
        cx.assume(spec.in_capsule_local(cx, y, r, h, t), "skolem:%s in shape" % name)
        cx.scratch["y"], cx.scratch["t"] = y, t
        return y

    def hints(self, cx, P, d, x, res):
        if not sym(cx):
            return
        y, t, delta = cx.scratch["y"], cx.scratch["t"], cx.scratch["delta"]
        w = [y[0], y[1], y[2] - t]
        s = cx.sqrt(sq(delta))
        spec.cs_bound(cx, w, delta, P["r"], s, "w.delta")
        return ["lemma:csb", "def:", "skolem", "dom", "branch", "nonzero"]


class EllipsoidSpec(CylinderSpec):
    name, cls = "ellipsoid", "distance3d.colliders.Ellipsoid"

    def params(self, cx, pre="", lo=None, reduce="cols"):
        lo = lo or self.LO
        radii = arr(cx, [spec.size(cx, pre + "radii_%d" % i, lo, self.HI) for i in range(3)])
        return dict(T=spec.pose(cx, pre + "T", reduce=reduce), radii=radii)

    def ctor_args(self, cx, P):
        return (P["T"], P["radii"])

    def member_local(self, cx, P, y):
        return spec.in_ellipsoid_local(cx, y, P["radii"])

    def any_local(self, cx, P, name):
        if sym(cx):
            y = cx.vec(name)
        else:
            y = arr(cx, [cx.real(name + "_%d" % i, lo=-P["radii"][i] * 0.8, hi=P["radii"][i] * 0.8) for i in range(3)])
        cx.assume(self.member_local(cx, P, y), "skolem:%s in shape" % name)
        return y


class BoxSpec(CylinderSpec):
    name, cls = "box", "distance3d.colliders.Box"

    def params(self, cx, pre="", lo=None, reduce="cols"):
        lo = lo or self.LO
        size = arr(cx, [spec.size(cx, pre + "size_%d" % i, lo, self.HI) for i in range(3)])
        return dict(T=spec.pose(cx, pre + "T", reduce=reduce), size=size)

    def ctor_args(self, cx, P):
        return (P["T"], P["size"])

    def member_local(self, cx, P, y):
        return spec.in_box_local(cx, y, [0.5 * s for s in P["size"]])

    def any_local(self, cx, P, name):
        if sym(cx):
            y = cx.vec(name)
        else:
            y = arr(cx, [cx.real(name + "_%d" % i, lo=-P["size"][i] / 2, hi=P["size"][i] / 2) for i in range(3)])
        cx.assume(self.member_local(cx, P, y), "skolem:%s in shape" % name)
        return y


class ConeSpec(CylinderSpec):
    name, cls = "cone", "distance3d.colliders.Cone"

    def params(self, cx, pre="", lo=None, reduce="cols"):
        lo = lo or self.LO
        return dict(T=spec.pose(cx, pre + "T", reduce=reduce), r=spec.size(cx, pre + "r", lo, self.HI),
                    h=spec.size(cx, pre + "h", lo, self.HI))

    def ctor_args(self, cx, P):
        return (P["T"], P["r"], P["h"])

    def member_local(self, cx, P, y):
        return spec.in_cone_local(cx, y, P["r"], P["h"])

    def any_local(self, cx, P, name):
        if sym(cx):
            y = cx.vec(name)
        else:
            r, h = P["r"], P["h"]
            y = arr(cx, [cx.real(name + "_0", lo=-r / 2, hi=r / 2), cx.real(name + "_1", lo=-r / 2, hi=r / 2), cx.real(name + "_2", lo=0.0, hi=h)])
        cx.assume(self.member_local(cx, P, y), "skolem:%s in shape" % name)
        return y


class SphereSpec(ShapeSpec):
    name, cls, has_pose = "sphere", "distance3d.colliders.Sphere", False

    def params(self, cx, pre="", lo=None, reduce=None):
        lo = lo or self.LO
        c = cx.vec(pre + "c") if sym(cx) else arr(cx, [cx.real(pre + "c_%d" % i, lo=-10.0, hi=10.0) for i in range(3)])
        return dict(c=c, r=spec.size(cx, pre + "r", lo, self.HI))

    def ctor_args(self, cx, P):
        return (P["c"], P["r"])

    def member(self, cx, P, x, tag=""):
        return spec.in_ball(cx, x, P["c"], P["r"])

    def any_point(self, cx, P, name):
        if sym(cx):
            x = cx.vec(name)
        else:
            r = P["r"]
            x = arr(cx, [cx.real(name + "_%d" % i, lo=P["c"][i] - r * 0.7, hi=P["c"][i] + r * 0.7) for i in range(3)])
        cx.assume(self.member(cx, P, x), "skolem:%s in shape" % name)
        return x

    def hints(self, cx, P, d, x, res):
        if not sym(cx):
            return
        w = [x[i] - P["c"][i] for i in range(3)]
        s = cx.sqrt(sq(d))
        spec.cs_bound(cx, w, d, P["r"], s, "w.d")
        return ["lemma:csb", "def:", "skolem", "dom", "branch", "nonzero"]


class DiskSpec(ShapeSpec):
    """disk: centre c, radius r, unit normal n.  The frame (e0, e1, n) is a pose T whose third column is the
    normal - every unit vector is the third column of some rotation, so this parameterisation loses nothing."""
    name, cls, has_pose = "disk", "distance3d.colliders.Disk", True

    def params(self, cx, pre="", lo=None, reduce="cols"):
        lo = lo or self.LO
        T = spec.pose(cx, pre + "T", reduce=reduce)
        return dict(T=T, c=contiguous(T[:3, 3]), n=contiguous(T[:3, 2]), r=spec.size(cx, pre + "r", lo, self.HI))

    def ctor_args(self, cx, P):
        return (P["c"], P["r"], P["n"])

    def build(self, cx, P):
        summarise_plane_basis(cx, P["T"])
        return ShapeSpec.build(self, cx, P)

    def member(self, cx, P, x, tag=""):
        y = spec.to_local_point(cx, P["T"], x)
        return cx.all([cx.eq(y[2], 0.0), spec._len_slack(cx, y[0] * y[0] + y[1] * y[1], P["r"] * P["r"])])

    def any_point(self, cx, P, name):
        r = P["r"]
        if sym(cx):
            a, b = cx.real(name + "_0"), cx.real(name + "_1")
        else:
            a, b = cx.real(name + "_0", lo=-r * 0.7, hi=r * 0.7), cx.real(name + "_1", lo=-r * 0.7, hi=r * 0.7)
        cx.assume(spec._len_slack(cx, a * a + b * b, r * r), "skolem:%s in shape" % name)
        cx.scratch["ab"] = (a, b)
        return spec.to_world_point(cx, P["T"], [a, b, 0.0])


class EllipseSpec(ShapeSpec):
    name, cls, has_pose = "ellipse", "distance3d.colliders.Ellipse", True

    def params(self, cx, pre="", lo=None, reduce="cols"):
        lo = lo or self.LO
        T = spec.pose(cx, pre + "T", reduce=reduce)
        radii = arr(cx, [spec.size(cx, pre + "radii_%d" % i, lo, self.HI) for i in range(2)])
        return dict(T=T, c=contiguous(T[:3, 3]), axes=contiguous(T[:3, :2].T), radii=radii)

    def ctor_args(self, cx, P):
        return (P["c"], P["axes"], P["radii"])

    def _in2(self, cx, a, b, radii):
        if sym(cx):
            return a * a * radii[1] * radii[1] + b * b * radii[0] * radii[0] <= radii[0] * radii[0] * radii[1] * radii[1]
        s = math.sqrt((a / radii[0]) ** 2 + (b / radii[1]) ** 2)
        return CB((s - 1.0) * float(min(radii)))

    def member(self, cx, P, x, tag=""):
        y = spec.to_local_point(cx, P["T"], x)
        return cx.all([cx.eq(y[2], 0.0), self._in2(cx, y[0], y[1], P["radii"])])

    def any_point(self, cx, P, name):
        radii = P["radii"]
        if sym(cx):
            a, b = cx.real(name + "_0"), cx.real(name + "_1")
        else:
            a, b = cx.real(name + "_0", lo=-radii[0] * 0.7, hi=radii[0] * 0.7), cx.real(name + "_1", lo=-radii[1] * 0.7, hi=radii[1] * 0.7)
        cx.assume(self._in2(cx, a, b, radii), "skolem:%s in shape" % name)
        cx.scratch["ab"] = (a, b)
        return spec.to_world_point(cx, P["T"], [a, b, 0.0])


SHAPES = {s.name: s for s in (CylinderSpec(), CapsuleSpec(), EllipsoidSpec(), BoxSpec(), ConeSpec(), SphereSpec(), DiskSpec(),
                              EllipseSpec())}
