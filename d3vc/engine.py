"""Contract registry, path exploration, obligation generation, replay."""
import hashlib
import json
import math
import os
import random
import time
import traceback
import zlib

import numpy as np
import z3

from . import solve
from .loader import Repo, native
from .poly import Poly
from .sym import Ctx, VarTable, PathEnd, Unsupported, ContractError, S, B, CB, cb, is_num

CONTRACTS = {}


class Contract:
    def __init__(self, name, fn, props, harness, prop_level=True, opts=None, doc="", deps=(), bounded_n=0, tags=(), loops=None):
        self.loops = loops or {}
        self.name, self.fn, self.props, self.harness = name, fn, list(props), harness
        self.prop_level = prop_level
        self.opts = opts or {}
        self.doc = doc
        self.deps = list(deps)        # further repo functions executed by the harness (for hashing / evidence)
        self.bounded_n = bounded_n
        self.tags = set(tags)


def contract(name, fn, props, prop_level=True, opts=None, deps=(), tags=(), loops=None):
    def deco(h):
        if name in CONTRACTS:
            raise ContractError("duplicate contract " + name)
        CONTRACTS[name] = Contract(name, fn, props, h, prop_level, opts, (h.__doc__ or "").strip(), deps, tags=tags, loops=loops)
        return h
    return deco


class XCtx(Ctx):
    """Ctx + access to the repository and call wrapper"""

    def __init__(self, contract_obj, repo, *a, rng=None, **k):
        Ctx.__init__(self, *a, **k)
        self.contract = contract_obj
        self.repo = repo
        self.rng = rng
        self.called = []

    def target(self, qualname=None):
        q = qualname or self.contract.fn
        if self.mode == "concrete":
            return native(q)
        return self.repo.get(q)

    def abstract_constant(self, modname, const, name=None, positive=True, upper=None):
        """replace a module-level numeric threshold by a symbolic constant (assumed > 0): what is proved then holds for
        every positive value of the threshold, in particular for the value in the source (checked to be positive)."""
        if self.mode != "sym":
            return native(modname + "." + const)
        mod = self.repo.module(modname)
        orig = self.repo.__dict__.setdefault("_orig_consts", {})
        if (modname, const) not in orig:
            orig[(modname, const)] = getattr(mod, const)
        cur = orig[(modname, const)]
        if positive and not (cur > 0):
            raise ContractError("%s.%s = %r is not positive" % (modname, const, cur))
        s = self.real(name or ("const_" + const))
        if positive:
            self.assume(s > 0, "const:%s>0" % const)
        if upper is not None:
            if not (cur <= upper):
                raise ContractError("%s.%s = %r exceeds %r" % (modname, const, cur, upper))
            self.assume(s <= upper, "const:%s<=%g" % (const, upper))
        setattr(mod, const, s)
        return s

    def call(self, f, *args, **kw):
        try:
            return f(*args, **kw)
        except (PathEnd, Unsupported, ContractError):
            raise
        except Exception as e:
            if self.mode == "concrete":
                self.concrete_report.append(("no_exception[%s]" % type(e).__name__, math.inf, 0.0))
                self.notes.append("exception: %s: %s" % (type(e).__name__, e))
                raise PathEnd("exception")
            tb = traceback.extract_tb(e.__traceback__)
            where = ""
            for fr in reversed(tb):
                if fr.filename.startswith(self.repo.root):
                    where = " at %s:%d" % (os.path.relpath(fr.filename, self.repo.root), fr.lineno)
                    break
            msg = str(e).split("\n")[0][:160]
            self.prove("no_exception[%s%s]" % (type(e).__name__, where), False, kind="exception",
                       detail="%s: %s" % (type(e).__name__, msg))
            raise PathEnd("exception")

    # concrete / random mode input
    def real(self, name, lo=None, hi=None, pos=False, nonneg=False):
        if self.mode == "concrete" and name not in self.values:
            self.values[name] = self._draw(lo, hi, pos, nonneg)
        return Ctx.real(self, name, lo=lo, hi=hi, pos=pos, nonneg=nonneg)

    def _draw(self, lo, hi, pos, nonneg):
        r = self.rng
        u = r.random()
        if pos or (lo is not None and lo > 0):
            a = lo if lo is not None and lo > 0 else 1e-2
            b = hi if hi is not None else 1e2
            if u < 0.15:
                return r.choice([a, b, 1.0, 0.5, 2.0]) if a <= 1.0 <= b else a
            return math.exp(r.uniform(math.log(a), math.log(b)))
        a = lo if lo is not None else -3.0
        b = hi if hi is not None else 3.0
        if nonneg:
            a = max(a, 0.0)
        if u < 0.25:
            c = [x for x in (0.0, 1.0, -1.0, 0.5, -0.5, a, b) if a <= x <= b]
            return r.choice(c)
        return r.uniform(a, b)


def _prepare(c, repo):
    Ctx.cur = None


def explore(c, repo, max_paths=4000, time_limit=600):
    """enumerate all paths of contract c symbolically; returns dict(status, obligations, paths, note)"""
    vt = VarTable()
    work = [[]]
    obls = []
    paths = 0
    t0 = time.time()
    status = "ok"
    note = ""
    while work:
        prefix = work.pop()
        cx = XCtx(c, repo, vt, prefix, mode="sym", opts=c.opts)
        Ctx.cur = cx
        Poly.rules = cx.rules
        try:
            c.harness(cx)
        except PathEnd:
            pass
        except Unsupported as e:
            status = "unsupported"
            note = "%s" % e
            break
        except RecursionError as e:
            status = "unsupported"
            note = "recursion: %s" % e
            break
        finally:
            Ctx.cur = None
            Poly.rules = None
        paths += 1
        work.extend(cx.alternatives)
        obls.extend(cx.obligations)
        if paths > max_paths or time.time() - t0 > time_limit:
            status = "unsupported"
            note = "path budget exceeded (%d paths, %.0fs)" % (paths, time.time() - t0)
            break
    return dict(status=status, obligations=obls, paths=paths, note=note, vt=vt)


def serialise(c, res):
    """turn z3 obligations into picklable records with SMT2 text; de-duplicate identical queries"""
    recs = []
    seen = {}
    for k, o in enumerate(res["obligations"]):
        hyps = [h for _, h in o.hyps]
        goal = o.goal
        rec = dict(contract=c.name, fn=c.fn, name=o.name, kind=o.kind, prop_level=o.prop_level and c.prop_level,
                   props=c.props, meta={k2: v for k2, v in o.meta.items() if k2 in ("decisions", "tol", "detail", "canary", "plan")},
                   index=k)
        if z3.is_true(goal):
            rec["trivial"] = "unsat"
            rec["smt2"] = {}
            rec["key"] = "trivial"
            recs.append(rec)
            continue
        if o.kind not in ("canary", "cover") and not o.meta.get("use") and "plan" not in o.meta:
            # most obligations are easy: try them in-process on the 'core' hypotheses before paying for serialisation
            t_in = time.time()
            try:
                sv = z3.Solver()
                sv.set("timeout", 400)
                sv.add(solve.core_hyps(o.hyps, goal))
                sv.add(z3.Not(goal))
                if sv.check() == z3.unsat:
                    rec["inline"] = dict(status="unsat", backend="z3", variant="core(inline)", seconds=round(time.time() - t_in, 3),
                                         attempts=[], model=None)
                    rec["smt2"] = {}
                    rec["key"] = "inline:%s:%d" % (c.name, k)
                    recs.append(rec)
                    continue
            except Exception:
                pass
        full = solve.to_smt2(hyps, goal)
        key = hashlib.sha256(full.encode()).hexdigest()
        rec["key"] = key
        if key in seen:
            rec["dup_of"] = seen[key]
            rec["smt2"] = {}
            recs.append(rec)
            continue
        seen[key] = len(recs)
        pruned = [h for _, h in solve.prune_defs(o.hyps, goal)]
        coi = solve.cone_of_influence(pruned, goal)
        smt = {"full": full}
        if len(coi) < len(hyps):
            smt["coi"] = solve.to_smt2(coi, goal)
        else:
            smt["coi_same"] = True
        try:
            lh, lg = solve.linear_abstraction(coi, goal)
            smt["lin"] = solve.to_smt2(lh, lg)
        except Exception:
            pass
        core = solve.core_hyps(o.hyps, goal)
        if len(core) < len(coi):
            smt["core"] = solve.to_smt2(core, goal)
        near = solve.near_hyps(hyps, goal)
        if len(near) < len(coi):
            smt["near"] = solve.to_smt2(near, goal)
        if o.meta.get("clear_goal") is not None:
            cg = o.meta["clear_goal"]
            base = [h for _, h in solve.prune_defs(o.hyps, cg)]
            base = solve.cone_of_influence(base, cg)
            smt["clear"] = solve.to_smt2(base, cg)
            cc = solve.core_hyps(o.hyps, cg)
            if len(cc) < len(base):
                smt["clearcore"] = solve.to_smt2(cc, cg)
            try:
                lh, lg = solve.linear_abstraction(base, cg)
                smt["clearlin"] = solve.to_smt2(lh, lg)
            except Exception:
                pass
        use = o.meta.get("use")
        if use is not None:
            sel = [h for n, h in o.hyps if any(n == u or n.startswith(u) for u in use)]
            smt["use"] = solve.to_smt2(sel, goal)
            if o.meta.get("clear_goal") is not None:
                smt["clear"] = solve.to_smt2(sel, o.meta["clear_goal"])
        rec["smt2"] = smt
        if "plan" in o.meta:
            rec["plan"] = o.meta["plan"]
        recs.append(rec)
    return recs


# --------------------------------------------------------------------------------------------------
# concrete execution of a contract on the REAL (natively imported, JIT as installed) function
# --------------------------------------------------------------------------------------------------
def run_concrete(c, values, seed=0):
    rng = random.Random(seed)
    cx = XCtx(c, None, VarTable(), (), mode="concrete", values=dict(values), rng=rng, opts=c.opts)
    Ctx.cur = cx
    try:
        c.harness(cx)
        ended = "completed"
    except PathEnd as e:
        ended = "path-end: %s" % e
    finally:
        Ctx.cur = None
    return dict(report=cx.concrete_report, values=cx.values, notes=cx.notes, ended=ended)


def judge_concrete(out, only=None, pre_tol=1e-9):
    """-> (pre_ok, failures) ; failures = list of (name, viol, tol)"""
    pre_ok = True
    fails = []
    for name, viol, tol in out["report"]:
        if tol is None:
            if viol > pre_tol:
                pre_ok = False
                break
            continue
        if viol > tol and (only is None or name == only or name.split("[")[0] == only.split("[")[0]):
            fails.append((name, viol, tol))
    return pre_ok, fails


def model_values(model):
    vals = {}
    for k, v in (model or {}).items():
        if isinstance(v, list):
            vals[k] = int(v[0]) / int(v[1])
        elif isinstance(v, (int, float)):
            vals[k] = float(v)
    return vals
