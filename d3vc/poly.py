"""Sparse multivariate polynomials over Q with an optional rewriting system.

A polynomial is a dict  monomial -> Fraction, a monomial is a sorted tuple of (var_id, exponent).
Variables are interned in a VarTable (id -> name).  Rewrite rules  (v1*v2 -> poly)  implement reduction
modulo relations such as the column-orthonormality of a rotation matrix; every rule replaces a product by
an expression that is equal to it under the stated hypotheses, so reduction is sound (not necessarily
canonical).
"""
from fractions import Fraction

ONE = ()


def _mono_mul(m1, m2):
    if not m1:
        return m2
    if not m2:
        return m1
    out = []
    i = j = 0
    while i < len(m1) and j < len(m2):
        a, b = m1[i], m2[j]
        if a[0] == b[0]:
            out.append((a[0], a[1] + b[1]))
            i += 1
            j += 1
        elif a[0] < b[0]:
            out.append(a)
            i += 1
        else:
            out.append(b)
            j += 1
    out.extend(m1[i:])
    out.extend(m2[j:])
    return tuple(out)


class Poly:
    __slots__ = ("d", "_key")
    rules = None  # set by context: dict (v1, v2) with v1<=v2 -> Poly

    def __init__(self, d=None):
        self.d = d if d is not None else {}
        self._key = None

    @staticmethod
    def const(c):
        c = Fraction(c)
        return Poly({ONE: c} if c != 0 else {})

    @staticmethod
    def var(i):
        return Poly({((i, 1),): Fraction(1)})

    def is_const(self):
        return not self.d or (len(self.d) == 1 and ONE in self.d)

    def const_value(self):
        return self.d.get(ONE, Fraction(0))

    def key(self):
        if self._key is None:
            self._key = tuple(sorted(self.d.items()))
        return self._key

    def __add__(self, o):
        d = dict(self.d)
        for m, c in o.d.items():
            v = d.get(m, 0) + c
            if v == 0:
                d.pop(m, None)
            else:
                d[m] = v
        return Poly(d)

    def __neg__(self):
        return Poly({m: -c for m, c in self.d.items()})

    def __sub__(self, o):
        d = dict(self.d)
        for m, c in o.d.items():
            v = d.get(m, 0) - c
            if v == 0:
                d.pop(m, None)
            else:
                d[m] = v
        return Poly(d)

    def scale(self, c):
        c = Fraction(c)
        if c == 0:
            return Poly()
        return Poly({m: v * c for m, v in self.d.items()})

    def __mul__(self, o):
        d = {}
        for m1, c1 in self.d.items():
            for m2, c2 in o.d.items():
                m = _mono_mul(m1, m2)
                v = d.get(m, 0) + c1 * c2
                if v == 0:
                    d.pop(m, None)
                else:
                    d[m] = v
        p = Poly(d)
        if Poly.rules:
            p = p.reduce()
        return p

    def reduce(self):
        rules = Poly.rules
        if not rules:
            return self
        changed = True
        p = self
        guard = 0
        while changed:
            changed = False
            guard += 1
            if guard > 200:
                raise RuntimeError("poly reduction does not terminate")
            out = Poly()
            for m, c in p.d.items():
                hit = _find_rule(m, rules)
                if hit is None:
                    v = out.d.get(m, 0) + c
                    if v == 0:
                        out.d.pop(m, None)
                    else:
                        out.d[m] = v
                else:
                    rest, repl = hit
                    changed = True
                    term = _raw_mul(Poly({rest: c}), repl)
                    out = out + term
            p = out
        return p

    def variables(self):
        s = set()
        for m in self.d:
            for v, _ in m:
                s.add(v)
        return s

    def degree(self):
        return max((sum(e for _, e in m) for m in self.d), default=0)

    def __repr__(self):
        return "Poly(%r)" % (self.d,)


def _raw_mul(a, b):
    d = {}
    for m1, c1 in a.d.items():
        for m2, c2 in b.d.items():
            m = _mono_mul(m1, m2)
            v = d.get(m, 0) + c1 * c2
            if v == 0:
                d.pop(m, None)
            else:
                d[m] = v
    return Poly(d)


def _find_rule(m, rules):
    """find a rule (v1,v2) whose product divides monomial m; return (rest monomial, replacement poly)"""
    n = len(m)
    for i in range(n):
        vi, ei = m[i]
        if ei >= 2 and (vi, vi) in rules:
            rest = list(m)
            if ei == 2:
                del rest[i]
            else:
                rest[i] = (vi, ei - 2)
            return tuple(rest), rules[(vi, vi)]
        for j in range(i + 1, n):
            vj, ej = m[j]
            if (vi, vj) in rules:
                rest = list(m)
                # remove one power of each
                if ej == 1:
                    del rest[j]
                else:
                    rest[j] = (vj, ej - 1)
                if ei == 1:
                    del rest[i]
                else:
                    rest[i] = (vi, ei - 1)
                return tuple(rest), rules[(vi, vj)]
    return None
