"""debug helper: python -m d3vc.dump <contract> <obligation-substring> [variant] -> prints SMT2 of first match per path"""
import sys, os
sys.path.insert(0, os.path.dirname(os.path.dirname(os.path.abspath(__file__))))
from d3vc import cli, engine
from d3vc.loader import Repo
cs = cli.load_contracts()
c = cs[sys.argv[1]]
res = engine.explore(c, Repo(loop_contracts=c.loops, stubs=cli._stubs()))
print(";; status", res["status"], res["note"], "paths", res["paths"], file=sys.stderr)
recs = engine.serialise(c, res)
variant = sys.argv[3] if len(sys.argv) > 3 else "use"
n = 0
for r in recs:
    if sys.argv[2] in r["name"] and r.get("smt2"):
        t = r["smt2"].get(variant) or r["smt2"].get("coi") or r["smt2"]["full"]
        path = os.path.join(os.environ.get("D3VC_WORK", "/verif/.work"), "dump_%d.smt2" % n)
        open(path, "w").write(t)
        print(";;", r["name"], r["meta"].get("decisions"), "->", path, len(t), file=sys.stderr)
        n += 1
