"""Per-property orchestration: explore contracts, discharge obligations, replay counter-models, run the bounded
stand-ins, write evidence, print verdict lines."""
import fnmatch
import hashlib
import importlib
import json
import multiprocessing as mp
import os
import sys
import time
import traceback

from . import engine, solve
from . import cli as _cli

VERIF = _cli.VERIF

# level registered in MANIFEST per property (proof only where the core statement rests on discharged obligations)
LEVELS = {}


def _ledger():
    p = os.path.join(VERIF, "baseline", "ledger.json")
    if os.path.exists(p):
        with open(p) as f:
            return json.load(f)
    return {}


def _write_replay(pid, cname, oname, payload):
    d = os.path.join(VERIF, "replay", pid)
    os.makedirs(d, exist_ok=True)
    safe = "".join(ch if ch.isalnum() or ch in "._-" else "_" for ch in (cname + "__" + oname))[:150]
    path = os.path.join(d, safe + ".json")
    if isinstance(payload, dict):
        payload.setdefault("property", pid)
    with open(path, "w") as f:
        json.dump(payload, f, indent=1, default=str)
    return path


def run_property(pid, args, contracts, seed):
    t_start = time.time()
    tier = args.tier
    sel = [c for c in contracts.values() if pid in c.props and not ("thorough-only" in c.tags and tier != "thorough")]
    if args.contract:
        sel = [c for c in sel if fnmatch.fnmatch(c.name, args.contract)]
    kf = _cli.load_known_findings()
    ledger = _ledger()
    lines = []
    exit_code = 0
    violations = []
    known_printed = []
    undecided = []
    crashes = []

    ctx = mp.get_context("fork")
    jobs = args.jobs

    # ---- stage A: symbolic exploration (one task per contract)
    exp = []
    sym_sel = [c for c in sel if "native-only" not in c.tags]
    if sym_sel:
        with ctx.Pool(min(jobs, len(sym_sel))) as pool:
            exp = pool.map(_cli._explore_worker, [c.name for c in sym_sel], chunksize=1)
    recs = []
    unavailable = []
    if args.verbose:
        print("  explored %d contracts, %d paths, %d obligation records in %.1fs" % (
            len(exp), sum(e["paths"] for e in exp), sum(len(e["recs"]) for e in exp), time.time() - t_start), file=sys.stderr, flush=True)
    for e in exp:
        if e["status"] == "crash":
            crashes.append("%s: %s" % (e["contract"], e["note"][-1500:]))
        elif e["status"] != "ok":
            unavailable.append(dict(contract=e["contract"], reason=e["note"]))
        recs.extend(e["recs"])

    # ---- stage B: discharge
    uniq = [r for r in recs if "dup_of" not in r and r.get("trivial") is None and r.get("inline") is None]
    strategies = ledger.get("strategies", {})
    for r in uniq:
        h = strategies.get(r["key"])
        if h:
            r["hint"] = h
    scale = 1.0 if tier == "quick" else 3.0
    results = {}
    t_solve0 = time.time()
    if uniq:
        with ctx.Pool(min(jobs, len(uniq))) as pool:
            for key, o in pool.imap_unordered(_solve_keyed, [(r, seed, scale) for r in uniq], chunksize=1):
                results[key] = o
                if args.verbose and (o["status"] != "unsat" or o.get("seconds", 0) > 5):
                    rr = next(x for x in uniq if x["key"] == key)
                    if rr["kind"] not in ("canary", "cover"):
                        print("  .. %-46s %-30s %-8s %-6s %6.1fs" % (rr["contract"][:46], rr["name"][:30], o["status"], o.get("backend"),
                                                                  o.get("seconds", 0)), file=sys.stderr, flush=True)
    solver_wall = time.time() - t_solve0
    for r in recs:
        if r.get("trivial") is not None:
            r["result"] = dict(status=r["trivial"], backend="syntactic", variant="-", seconds=0.0, attempts=[], model=None)
        elif r.get("inline") is not None:
            r["result"] = r["inline"]
        else:
            r["result"] = results[r["key"]]

    # ---- verdicts
    n_obl = 0
    n_known_obl = 0
    n_dis = 0
    canaries = dict(total=0, refuted=0, not_proved=0)
    covers = dict(total=0, sat=0, unknown=0)
    by_backend = {}
    solver_cpu = 0.0
    samples = []
    exp_by_name = {e["contract"]: e for e in exp}
    path_cover = {}
    cover_ok = set()
    cover_have = set()
    cover_unsat = {}
    cover_count = {}
    for r in recs:
        if r["kind"] == "cover":
            cover_have.add(r["contract"])
            cover_count[r["contract"]] = cover_count.get(r["contract"], 0) + 1
            pk = (r["contract"], tuple(r["meta"].get("decisions") or ()))
            if path_cover.get(pk) != "sat":
                path_cover[pk] = r["result"]["status"]
    for r in recs:
        res = r["result"]
        st = res["status"]
        if "dup_of" not in r and (args.verbose > 1 or (args.verbose and (
                (r["kind"] in ("canary", "cover") and st == "unsat") or (r["kind"] not in ("canary", "cover") and st != "unsat")
                or res.get("seconds", 0) > 5))):
            print("  %-50s %-28s %-7s %-9s %-5s %6.2fs %s" % (r["contract"][:50], r["name"][:28], r["kind"], st, res.get("backend"),
                  res.get("seconds", 0.0), "dup" if "dup_of" in r else ""))
        solver_cpu += res.get("seconds", 0.0) if "dup_of" not in r else 0.0
        if r["kind"] == "canary":
            canaries["total"] += 1
            if st == "unsat":
                # meaningful only on a path whose hypotheses are satisfiable (an undetected infeasible path proves anything)
                pk = (r["contract"], tuple(r["meta"].get("decisions") or ()))
                if path_cover.get(pk) == "sat" or r["meta"].get("canary") == "strict":
                    crashes.append("canary proved (vacuous hypotheses or unsound engine): %s / %s" % (r["contract"], r["name"]))
                else:
                    canaries["not_proved"] += 0
                    canaries.setdefault("on_infeasible_path", 0)
                    canaries["on_infeasible_path"] += 1
            elif st == "sat":
                canaries["refuted"] += 1
            else:
                canaries["not_proved"] += 1
            continue
        if r["kind"] == "cover":
            covers["total"] += 1
            # cover obligations have goal False: 'sat' means the hypotheses are satisfiable (path reachable)
            if st == "unsat":
                covers.setdefault("infeasible_paths", 0)
                covers["infeasible_paths"] += 1
                cover_unsat.setdefault(r["contract"], 0)
                cover_unsat[r["contract"]] += 1
            elif st == "sat":
                covers["sat"] += 1
                cover_ok.add(r["contract"])
            else:
                covers["unknown"] += 1
            continue
        if "dup_of" in r and st == "unsat":
            continue          # identical query already counted (same SMT text on another path)
        n_obl += 1
        if st == "unsat":
            n_dis += 1
            by_backend[res["backend"]] = by_backend.get(res["backend"], 0) + 1
            if len(samples) < 12 and res["backend"] != "syntactic":
                samples.append(dict(contract=r["contract"], obligation=r["name"], kind=r["kind"], backend=res["backend"],
                                    variant=res["variant"], seconds=res["seconds"]))
            continue
        # ---- failed or undecided obligation
        e = exp_by_name[r["contract"]]
        changed = _code_changed(ledger, e)
        fe = _cli.finding_for(kf, pid, r["contract"], r["name"])
        if st == "sat":
            vals = engine.model_values(res.get("model"))
            rp = _cli.run_concrete_subprocess(r["contract"], vals, seed)
            confirmed, detail = _judge_replay(rp, r["name"])
            payload = dict(property=pid, contract=r["contract"], function=r["fn"], obligation=r["name"], kind=r["kind"],
                           solver=res, values=vals, seed=seed, native_replay=rp, confirmed=confirmed, detail=detail,
                           decisions=r["meta"].get("decisions"))
            if not confirmed:
                # perturb: random search near the model / over the domain with the same contract on the real code
                alt = _search_native(r["contract"], r["name"], seed, 400)
                if alt is not None:
                    payload["values"] = alt["values"]
                    payload["native_replay"] = alt
                    payload["confirmed"] = confirmed = True
                    payload["detail"] = "model not reproduced in floats; random search over the contract domain found a failing input"
            path = _write_replay(pid, r["contract"], r["name"], payload)
            if not r["prop_level"] and not changed and not confirmed:
                # auxiliary obligation refuted on UNCHANGED code without a native witness: the proof must be restructured
                undecided.append(dict(contract=r["contract"], obligation=r["name"], status="auxiliary-failed", replay=path))
                continue
            if fe is not None:
                known_printed.append("KNOWN-FINDING: property=%s %s [%s / %s]" % (pid, fe["what"], r["contract"], r["name"]))
                n_obl -= 1
                n_known_obl += 1
                continue
            violations.append("VIOLATION property=%s replay=%s%s" % (pid, path, "" if confirmed else " no-failing-input-found"))
        else:
            if fe is not None:
                known_printed.append("KNOWN-FINDING: property=%s %s [%s / %s]" % (pid, fe["what"], r["contract"], r["name"]))
                n_obl -= 1
                n_known_obl += 1
                continue
            if changed:
                alt = _search_native(r["contract"], r["name"], seed, 400)
                payload = dict(property=pid, contract=r["contract"], function=r["fn"], obligation=r["name"], kind=r["kind"],
                               solver=res, note="obligation is in the ledger as discharged for the unchanged source; the source "
                               "changed (%s) and the obligation is no longer discharged" % changed,
                               values=(alt or {}).get("values"), native_replay=alt, confirmed=alt is not None)
                path = _write_replay(pid, r["contract"], r["name"], payload)
                violations.append("VIOLATION property=%s replay=%s%s" % (pid, path, "" if alt is not None else " no-failing-input-found"))
            else:
                undecided.append(dict(contract=r["contract"], obligation=r["name"], status="unknown", attempts=res.get("attempts")))

    for cn in sorted(cover_have - cover_ok):
        # vacuous only when EVERY path's hypotheses are refuted; 'unknown' (e.g. quantified invariants) is reported, not fatal
        if cover_unsat.get(cn, 0) >= cover_count.get(cn, 0):
            crashes.append("vacuous: every path of %s has unsatisfiable hypotheses (cover)" % cn)

    # extraction failures: the proof tier is unavailable for that function on this tree
    for u in unavailable:
        e = exp_by_name[u["contract"]]
        changed = _code_changed(ledger, e)
        c = contracts[u["contract"]]
        if changed and c.prop_level:
            alt = _search_native(u["contract"], None, seed, 600)
            if alt is not None:
                path = _write_replay(pid, u["contract"], "extraction", dict(property=pid, contract=u["contract"], obligation="*",
                                     values=alt["values"], native_replay=alt, confirmed=True, note=u["reason"]))
                violations.append("VIOLATION property=%s replay=%s" % (pid, path))
            else:
                undecided.append(dict(contract=u["contract"], status="proof_unavailable", reason=u["reason"]))
        else:
            undecided.append(dict(contract=u["contract"], status="proof_unavailable", reason=u["reason"]))

    # ---- bounded stand-in 1: every contract is also executed concretely on the REAL jitted code over random inputs
    bounded = dict(enabled=not args.no_bounded, runs=0, skipped=0, contracts=0, failures=0, samples=[])
    if not args.no_bounded and sel:
        n = int(os.environ.get("D3VC_FUZZ_N", "150" if tier == "quick" else "3000"))
        tasks = []
        per = max(1, n // 4)
        for c in sel:
            if "no-native" in c.tags:
                continue
            nb = int((c.opts or {}).get("fuzz_batches", 4))
            for k in range(nb):
                tasks.append((c.name, seed * 7 + k + 1, max(1, per * 4 // nb)))
        with ctx.Pool(min(jobs, max(1, len(tasks)))) as pool:
            try:
                bres = pool.map_async(_cli._bounded_batch, tasks, chunksize=1).get(timeout=1500)
            except mp.TimeoutError:
                bres = []
                crashes.append("bounded tier: native execution did not return within 1500 s")
        seen_c = set()
        for b in bres:
            bounded["runs"] += b["used"]
            bounded["skipped"] += b["skipped"]
            seen_c.add(b["contract"])
            if b["errors"]:
                crashes.append("bounded tier crashed in %s: %s" % (b["contract"], b["errors"][0]))
            if b["sample"] and len(bounded["samples"]) < 5:
                bounded["samples"].append(dict(contract=b["contract"], input=b["sample"]))
            for f in b["fails"]:
                c = contracts[b["contract"]]
                for (oname, viol, tol) in f["failures"][:1]:
                    fe = _cli.finding_for(kf, pid, b["contract"], oname)
                    if fe is not None:
                        msg = "KNOWN-FINDING: property=%s %s [%s / %s]" % (pid, fe["what"], b["contract"], oname)
                        if msg not in known_printed:
                            known_printed.append(msg)
                        continue
                    if not c.prop_level:
                        continue
                    bounded["failures"] += 1
                    path = _write_replay(pid, b["contract"], oname + "__native", dict(
                        property=pid, contract=b["contract"], function=c.fn, obligation=oname, values=f["values"], seed=f["seed"],
                        violation=viol, tolerance=tol, notes=f["notes"], confirmed=True,
                        note="found by executing the contract on the real (JIT) code"))
                    line = "VIOLATION property=%s replay=%s" % (pid, path)
                    if not any(oname in v and b["contract"] in v for v in violations):
                        violations.append(line)
        bounded["contracts"] = len(seen_c)

    # ---- bounded stand-in 2: property-specific harness (bounded/<pid>.py), optional
    extra = None
    bpath = os.path.join(VERIF, "bounded", pid.lower() + ".py")
    if os.path.exists(bpath) and not args.no_bounded and not args.contract:
        try:
            cmd = [sys.executable, bpath, "--tier", tier, "--seed", str(seed)]
            import subprocess
            p = subprocess.run(cmd, capture_output=True, text=True, cwd=VERIF, timeout=3000)
            last = [l for l in p.stdout.splitlines() if l.startswith("{")]
            extra = json.loads(last[-1]) if last else dict(error="no json from bounded harness", stderr=p.stderr[-2000:])
            if "error" in extra:
                crashes.append("bounded/%s.py: %s" % (pid.lower(), extra))
            seen_kf = set()
            for f in extra.get("failures", []):
                fe = _cli.finding_for(kf, pid, f.get("contract", "bounded"), f.get("obligation", "?"))
                if fe is not None:
                    key = (fe.get("contract"), fe.get("obligation"))
                    if key not in seen_kf:       # one line per listed finding (the first matching instance is named)
                        seen_kf.add(key)
                        known_printed.append("KNOWN-FINDING: property=%s %s [bounded: %s / %s]" % (pid, fe["what"], f.get("contract"), f.get("obligation")))
                    continue
                f = dict(f)
                f.setdefault("confirmed", True)
                f["note"] = "found by the bounded stand-in bounded/%s.py on the real (JIT) code" % pid.lower()
                path = _write_replay(pid, f.get("contract", "bounded"), f.get("obligation", "case"), f)
                violations.append("VIOLATION property=%s replay=%s" % (pid, path))
        except Exception:
            crashes.append("bounded harness crashed: " + traceback.format_exc()[-1500:])

    # ---- obligation-count guard (vacuity: a run that generates fewer obligations than the ledger is broken)
    led = ledger.get("properties", {}).get(pid + ":" + tier)
    if led and not args.contract and n_obl < led.get("min_obligations", 0) and not violations:
        # fewer obligations can legitimately happen when a path disappears; only a drop to < 60 % is treated as breakage
        if n_obl < 0.6 * led["min_obligations"]:
            crashes.append("only %d obligations generated, ledger has %d" % (n_obl, led["min_obligations"]))

    # one line per (contract, obligation): prefer a line with a reproduced input
    dedup = {}
    for v in violations:
        key = v.split("replay=")[1].split(" ")[0]
        if key not in dedup or (dedup[key].endswith("no-failing-input-found") and not v.endswith("no-failing-input-found")):
            dedup[key] = v
    violations = list(dedup.values())
    wall = time.time() - t_start
    for l in known_printed:
        print(l)
    for v in violations:
        print(v)
    if violations:
        exit_code = 1
    elif crashes:
        exit_code = 3
    elif undecided:
        exit_code = 2
    if args.verbose or exit_code in (2, 3):
        for u in undecided:
            print("UNDECIDED", json.dumps(u, default=str)[:600])
        for c in crashes:
            print("CRASH", c)
    print("%s tier=%s contracts=%d paths=%d obligations=%d discharged=%d canaries=%d/%d refuted covers=%d/%d native_runs=%d "
          "violations=%d known=%d undecided=%d wall=%.1fs" % (
              pid, tier, len(sel), sum(e["paths"] for e in exp), n_obl, n_dis, canaries["refuted"], canaries["total"],
              covers["sat"], covers["total"], bounded["runs"], len(violations), len(known_printed), len(undecided), wall))

    if os.environ.get("D3VC_WRITE_LEDGER") and not args.contract and exit_code == 0:
        _update_ledger(pid + ":" + tier, exp, recs, n_obl)
    if not args.no_evidence and not args.contract:
        write_evidence.n_known_obl = n_known_obl
        write_evidence(pid, tier, seed, sel, exp, recs, n_obl, n_dis, by_backend, solver_cpu, solver_wall, canaries, covers,
                       bounded, extra, violations, known_printed, undecided, unavailable, samples, wall)
    return exit_code


def _update_ledger(pid, exp, recs, n_obl):
    """baseline/ledger.json: per contract the hashes of the functions / modules the obligations were generated from and the
    names of the obligations discharged on the unchanged tree; per property the obligation count (vacuity guard)"""
    p = os.path.join(VERIF, "baseline", "ledger.json")
    led = _ledger()
    led.setdefault("contracts", {})
    led.setdefault("properties", {})
    for e in exp:
        if e["status"] != "ok":
            continue
        names = sorted({r["name"] for r in e["recs"] if r.get("result", {}).get("status") == "unsat" and r["kind"] not in ("canary", "cover")})
        led["contracts"][e["contract"]] = dict(functions={q: i.get("hash") for q, i in e["functions"].items()}, modules=e["modules"],
                                               discharged=names, paths=e["paths"])
    led["properties"][pid] = dict(min_obligations=n_obl)
    # remember which (variant, back end) discharged each slow obligation: nlsat is order/strategy sensitive, the recorded
    # strategy is tried first so that verdicts on the unchanged tree do not depend on luck
    st = led.setdefault("strategies", {})
    for r in recs:
        res = r.get("result") or {}
        if res.get("status") == "unsat" and res.get("seconds", 0) > 2.0 and res.get("backend") not in (None, "syntactic") and "dup_of" not in r:
            st[r["key"]] = [res["variant"], res["backend"]]
    os.makedirs(os.path.dirname(p), exist_ok=True)
    with open(p, "w") as f:
        json.dump(led, f, indent=1, sort_keys=True)


def _solve_keyed(a):
    return a[0]["key"], _cli._solve_worker(a)


def _code_changed(ledger, e):
    led = ledger.get("contracts", {}).get(e["contract"])
    if not led:
        return None
    diffs = []
    for q, info in e.get("functions", {}).items():
        old = led.get("functions", {}).get(q)
        if old and old != info.get("hash"):
            diffs.append(q)
    for m, h in e.get("modules", {}).items():
        old = led.get("modules", {}).get(m)
        if old and old != h:
            diffs.append(m)
    return ", ".join(sorted(set(diffs))) or None


def _judge_replay(rp, oname):
    if not rp.get("ok"):
        if rp.get("hang"):
            return True, rp.get("err")
        return False, rp.get("err", "")[:500]
    pre_ok, fails = engine.judge_concrete(rp["out"], only=oname)
    if fails:
        return True, "native: %s violated by %.3g (tol %.1g); precondition %s" % (
            fails[0][0], fails[0][1], fails[0][2], "met" if pre_ok else "not met to 1e-9 after rounding the model")
    return False, "model not reproduced natively (precondition ok=%s)" % pre_ok


def _search_native(cname, oname, seed, n):
    c = engine.CONTRACTS[cname]
    if "no-native" in c.tags:
        return None
    try:
        b = _cli._bounded_batch((cname, seed + 12345, n))
    except Exception:
        return None
    for f in b["fails"]:
        if oname is None or any(x[0].split("[")[0] == oname.split("[")[0] for x in f["failures"]):
            return dict(ok=True, values=f["values"], failures=f["failures"], notes=f["notes"], seed=f["seed"])
    return None


def write_evidence(pid, tier, seed, sel, exp, recs, n_obl, n_dis, by_backend, solver_cpu, solver_wall, canaries, covers,
                   bounded, extra, violations, known_printed, undecided, unavailable, samples, wall):
    from .levels import LEVEL, EXPLANATION, EXTRA_ASSUMPTIONS
    level = LEVEL.get(pid, "other")
    fns = {}
    for e in exp:
        for q, info in e.get("functions", {}).items():
            fns[q] = info
    gaps = sorted({r["name"] for r in recs if r["name"].startswith("gap:")})
    cov = dict(
        obligations=n_obl, discharged=n_dis,
        checker_cmd="./check %s --tier %s" % (pid, tier),
        trusted_base=["d3vc (own VC generator: /verif/d3vc)", "z3 5.1.0 (API)", "z3 4.8.12 (CLI)", "cvc5 1.0.3 (CLI)",
                      "numpy object-array semantics as array model", "spec library d3vc/spec.py"],
        explanation=EXPLANATION.get(pid, ""),
        contracts=[dict(name=c.name, function=c.fn, doc=c.doc, property_level=c.prop_level) for c in sel],
        functions_under_contract=fns,
        paths=sum(e["paths"] for e in exp),
        discharged_by_backend=by_backend,
        solver_cpu_s=round(solver_cpu, 2), solver_wall_s=round(solver_wall, 2),
        canaries=canaries, covers=covers,
        proof_unavailable=unavailable,
        undecided=undecided[:40],
        known_findings_printed=known_printed,
        bounded=dict(label="BOUNDED stand-in (never counted as proved): every contract executed on the real, natively imported "
                           "(JIT as installed) functions over random inputs of the declared domain incl. axis-aligned poses and "
                           "0/±1 coordinates", **bounded),
        samples=samples or [dict(note="no solver-discharged obligation in this run")],
        evaluations=max(1, n_obl + bounded.get("runs", 0) + (extra or {}).get("evaluations", 0)),
        distinct_nontrivial=max(0, len({r["key"] for r in recs if r.get("trivial") is None}) + (extra or {}).get("distinct_nontrivial", 0)),
        rule="obligations are distinct when their SMT-LIB text differs; syntactically true goals are not counted as non-trivial; "
             "bounded cases are distinct random inputs that satisfy the contract's precondition",
    )
    cov["obligations_failing_as_listed_known_findings"] = getattr(write_evidence, "n_known_obl", 0)
    if pid == "C05":
        cov["lean_rules_checked_at_setup"] = os.path.exists(os.path.join(VERIF, ".work", "lean_ok"))
    if extra is not None:
        cov["bounded_property_harness"] = extra
    ev = dict(property_id=pid, tier=tier if tier in ("quick", "thorough") else "quick", seed=seed, level=level, coverage=cov,
              assumptions=_cli.ASSUMPTIONS_COMMON + EXTRA_ASSUMPTIONS.get(pid, []),
              wall_s=round(wall, 2), violations=len(violations))
    os.makedirs(os.path.join(VERIF, "evidence"), exist_ok=True)
    with open(os.path.join(VERIF, "evidence", pid + ".json"), "w") as f:
        json.dump(ev, f, indent=1, default=str)
