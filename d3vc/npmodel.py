"""Models of numpy / math / numba used while the real source is executed on symbolic values.

Arrays are REAL numpy arrays of dtype object holding S values / python floats, so indexing, slicing, views,
aliasing, transposition, strides and contiguity flags are numpy's own (this matters: several defects of the
code base are aliasing or layout defects).  Only the numeric kernels are modelled here.
"""
import math as _math
import numpy as _np

from .sym import S, B, Ctx, Unsupported, UNINIT, Uninit, is_num


class LayoutError(TypeError):
    """call of an eagerly typed numba function with a value that has no matching definition"""


def _is_sym_array(a):
    return isinstance(a, _np.ndarray) and a.dtype == object


def _obj(a):
    """float data -> object array (so that symbolic values can be stored later); ints/bools unchanged"""
    if isinstance(a, _np.ndarray) and a.dtype.kind == "f":
        return a.astype(object)
    return a


def _elementwise(f, *arrs):
    bs = _np.broadcast(*arrs)
    out = _np.empty(bs.shape, dtype=object)
    out.ravel()[:] = [f(*xs) for xs in bs]
    # broadcast of only scalars gives shape ()
    if out.shape == ():
        return out.item()
    return out


class _Linalg:
    LinAlgError = _np.linalg.LinAlgError

    @staticmethod
    def norm(x, axis=None):
        cx = Ctx.cur
        from . import gram
        if gram.is_abs(x):
            return gram.norm(x)
        if not isinstance(x, _np.ndarray):
            x = _np.asarray(x, dtype=object)
        if x.dtype != object:
            return _np.linalg.norm(x, axis=axis)
        if axis is None:
            tot = 0.0
            for e in x.ravel():
                tot = tot + e * e
            return cx.sqrt(tot)
        if x.ndim == 2:
            sq = x * x
            tot = sq.sum(axis=axis)
            return _elementwise(cx.sqrt, tot)
        raise Unsupported("norm with axis on ndim %d" % x.ndim)

    @staticmethod
    def pinv(a):
        if isinstance(a, _np.ndarray) and a.dtype != object:
            return _np.linalg.pinv(a)
        raise Unsupported("np.linalg.pinv on symbolic data")

    @staticmethod
    def solve(a, b):
        if isinstance(a, _np.ndarray) and a.dtype != object and isinstance(b, _np.ndarray) and b.dtype != object:
            return _np.linalg.solve(a, b)
        raise Unsupported("np.linalg.solve on symbolic data")

    @staticmethod
    def det(a):
        if a.dtype != object:
            return _np.linalg.det(a)
        if a.shape == (3, 3):
            return (a[0, 0] * (a[1, 1] * a[2, 2] - a[1, 2] * a[2, 1]) - a[0, 1] * (a[1, 0] * a[2, 2] - a[1, 2] * a[2, 0])
                    + a[0, 2] * (a[1, 0] * a[2, 1] - a[1, 1] * a[2, 0]))
        raise Unsupported("det")


def _shape(shape):
    return shape


class NPModel:
    """stand-in for the numpy module inside repo code"""
    linalg = _Linalg()
    newaxis = None
    pi = _np.pi
    inf = _np.inf
    nan = _np.nan
    float64 = _np.float64
    int64 = _np.int64
    ndarray = _np.ndarray
    random = _np.random

    _passthrough = {"finfo", "dtype", "arange", "linspace", "ascontiguousarray", "column_stack", "vstack",
                    "hstack", "dstack", "row_stack", "asarray", "append", "unique", "argsort", "where", "sum", "mean",
                    "all", "any", "logical_not", "fromiter", "fromstring", "transpose", "concatenate",
                    "atleast_2d", "isscalar", "int32", "bool_", "float32", "uint8", "cumsum", "prod", "isfinite", "isnan",
                    "outer", "allclose", "stack", "roll", "repeat", "tile", "searchsorted", "nonzero", "count_nonzero",
                    "array_equal", "empty_like", "zeros_like", "ones_like", "triu_indices", "meshgrid", "floor", "ceil",
                    "exp", "log", "deg2rad", "rad2deg", "round", "sort", "flip", "diag", "trace", "isclose", "squeeze",
                    "expand_dims", "take", "ravel", "reshape", "intp", "int_", "uint64", "bool", "integer", "floating",
                    "number", "generic", "errstate", "set_printoptions", "testing", "ix_", "einsum", "identity", "tril_indices"}

    def __getattr__(self, name):
        if name in NPModel._passthrough and hasattr(_np, name):
            return getattr(_np, name)
        if name == "row_stack":   # removed from numpy 2.x; the real code fails here too (AttributeError)
            raise AttributeError("module 'numpy' has no attribute 'row_stack'")
        raise Unsupported("numpy.%s is not modelled" % name)

    # -- products (Gram mode: abstract vectors)
    @staticmethod
    def dot(a, b):
        from . import gram
        if gram.is_abs(a) or gram.is_abs(b):
            return gram.dot(a, b)
        return _np.dot(a, b)

    @staticmethod
    def cross(a, b):
        from . import gram
        if gram.is_abs(a) or gram.is_abs(b):
            return gram.cross(a, b)
        return _np.cross(a, b)

    @staticmethod
    def copy(a):
        from . import gram
        if gram.is_abs(a):
            return a.copy()
        return _np.copy(a)

    # -- creation
    @staticmethod
    def array(x, dtype=None, **kw):
        from . import zarr as _z
        if isinstance(x, _z.ZList):
            return x
        try:
            a = _np.array(x, **kw)
        except (ValueError, TypeError):
            a = _np.array(x, dtype=object)
        if a.dtype == object:
            return a
        if dtype is not None:
            dt = _np.dtype(dtype)
            if dt.kind in "iub":
                return a.astype(dt)
            return a.astype(object) if Ctx.cur is not None and Ctx.cur.mode == "sym" else a.astype(dt)
        if Ctx.cur is not None and Ctx.cur.mode == "sym":
            return _obj(a)
        return a

    @staticmethod
    def _filled(shape, value, dtype):
        if dtype is not None and _np.dtype(dtype).kind in "iub":
            if isinstance(value, Uninit):
                value = 0
            return _np.full(shape, value, dtype=dtype)
        a = _np.empty(shape, dtype=object)
        a.fill(value)
        if a.shape == ():
            pass
        return a

    @staticmethod
    def empty(shape, dtype=None):
        return NPModel._filled(shape, UNINIT, dtype)

    @staticmethod
    def zeros(shape, dtype=None):
        return NPModel._filled(shape, 0.0 if dtype is None or _np.dtype(dtype).kind == "f" else 0, dtype)

    @staticmethod
    def ones(shape, dtype=None):
        return NPModel._filled(shape, 1.0 if dtype is None or _np.dtype(dtype).kind == "f" else 1, dtype)

    @staticmethod
    def full(shape, value, dtype=None):
        return NPModel._filled(shape, value, dtype)

    @staticmethod
    def eye(n, dtype=None):
        a = NPModel.zeros((n, n))
        for i in range(n):
            a[i, i] = 1.0
        return a

    # -- elementwise numeric kernels
    @staticmethod
    def sqrt(x):
        cx = Ctx.cur
        if isinstance(x, _np.ndarray):
            if x.dtype != object:
                return _np.sqrt(x)
            return _elementwise(cx.sqrt, x)
        return cx.sqrt(x)

    @staticmethod
    def abs(x):
        cx = Ctx.cur
        if isinstance(x, _np.ndarray):
            if x.dtype != object:
                return _np.abs(x)
            return _elementwise(cx.abs, x)
        return cx.abs(x)

    absolute = abs
    fabs = abs

    @staticmethod
    def sign(x):
        def sg(v):
            if v > 0:
                return 1.0
            if v < 0:
                return -1.0
            return 0.0
        if isinstance(x, _np.ndarray):
            if x.dtype != object:
                return _np.sign(x)
            return _elementwise(sg, x)
        return sg(x)

    @staticmethod
    def minimum(a, b):
        if not _is_sym_array(a) and not _is_sym_array(b) and not isinstance(a, S) and not isinstance(b, S):
            return _np.minimum(a, b)
        if Ctx.cur.opts.get("minmax_ite"):
            return _elementwise(lambda u, v: Ctx.cur.extremum([u, v], "min"), a, b)
        return _elementwise(lambda u, v: u if u <= v else v, a, b)

    @staticmethod
    def maximum(a, b):
        if not _is_sym_array(a) and not _is_sym_array(b) and not isinstance(a, S) and not isinstance(b, S):
            return _np.maximum(a, b)
        if Ctx.cur.opts.get("minmax_ite"):
            return _elementwise(lambda u, v: Ctx.cur.extremum([u, v], "max"), a, b)
        return _elementwise(lambda u, v: u if u >= v else v, a, b)

    @staticmethod
    def clip(x, lo, hi):
        def c(v, l, h):
            if v < l:
                return l
            if v > h:
                return h
            return v
        if not _is_sym_array(x) and not isinstance(x, S) and not isinstance(lo, S) and not isinstance(hi, S) \
                and not _is_sym_array(lo) and not _is_sym_array(hi):
            return _np.clip(x, lo, hi)
        return _elementwise(c, x, lo, hi)

    @staticmethod
    def _reduce(a, axis, better, kind=None):
        a = _np.asarray(a, dtype=object) if not isinstance(a, _np.ndarray) else a
        if a.dtype != object:
            raise AssertionError
        if kind and Ctx.cur.opts.get("minmax_ite"):
            if axis is None:
                return Ctx.cur.extremum(list(a.ravel()), kind)
            moved = _np.moveaxis(a, axis, 0)
            out = _np.empty(moved.shape[1:], dtype=object)
            for idx in _np.ndindex(*moved.shape[1:]):
                out[idx] = Ctx.cur.extremum([moved[(k,) + idx] for k in range(moved.shape[0])], kind)
            return out
        if axis is None:
            it = list(a.ravel())
            best = it[0]
            for v in it[1:]:
                if better(v, best):
                    best = v
            return best
        moved = _np.moveaxis(a, axis, 0)
        out = _np.empty(moved.shape[1:], dtype=object)
        for idx in _np.ndindex(*moved.shape[1:]):
            col = [moved[(k,) + idx] for k in range(moved.shape[0])]
            best = col[0]
            for v in col[1:]:
                if better(v, best):
                    best = v
            out[idx] = best
        return out

    @staticmethod
    def min(a, axis=None):
        if isinstance(a, _np.ndarray) and a.dtype != object:
            return _np.min(a, axis=axis)
        return NPModel._reduce(a, axis, lambda v, b: v < b, "min")

    @staticmethod
    def max(a, axis=None):
        if isinstance(a, _np.ndarray) and a.dtype != object:
            return _np.max(a, axis=axis)
        return NPModel._reduce(a, axis, lambda v, b: v > b, "max")

    amin = min
    amax = max

    @staticmethod
    def argmin(a, axis=None):
        if isinstance(a, _np.ndarray) and a.dtype != object:
            return _np.argmin(a, axis=axis)
        if axis is not None:
            raise Unsupported("argmin with axis")
        it = list(_np.asarray(a, dtype=object).ravel())
        bi = 0
        for i in range(1, len(it)):
            if it[i] < it[bi]:
                bi = i
        return bi

    @staticmethod
    def argmax(a, axis=None):
        if isinstance(a, _np.ndarray) and a.dtype != object:
            return _np.argmax(a, axis=axis)
        if axis is not None:
            raise Unsupported("argmax with axis")
        it = list(_np.asarray(a, dtype=object).ravel())
        bi = 0
        for i in range(1, len(it)):
            if it[i] > it[bi]:
                bi = i
        return bi

    @staticmethod
    def _trig(name):
        def f(x):
            if isinstance(x, S) or _is_sym_array(x):
                if _is_sym_array(x) and all(is_num(v) for v in x.ravel()):
                    return _obj(getattr(_np, name)(x.astype(float)))
                raise Unsupported("numpy.%s of a symbolic value" % name)
            return getattr(_np, name)(x)
        return f


for _n in ("cos", "sin", "arccos", "arcsin", "tan", "arctan"):
    setattr(NPModel, _n, staticmethod(NPModel._trig(_n)))


def _arctan2(y, x):
    if isinstance(x, S) or isinstance(y, S) or _is_sym_array(x) or _is_sym_array(y):
        raise Unsupported("numpy.arctan2 of a symbolic value")
    return _np.arctan2(y, x)


NPModel.arctan2 = staticmethod(_arctan2)


class MathModel:
    pi = _math.pi
    inf = _math.inf
    e = _math.e
    nan = _math.nan

    @staticmethod
    def sqrt(x):
        return Ctx.cur.sqrt(x)

    @staticmethod
    def fabs(x):
        return Ctx.cur.abs(x)

    def __getattr__(self, name):
        f = getattr(_math, name)

        def g(*a):
            if any(isinstance(v, S) for v in a):
                raise Unsupported("math.%s of a symbolic value" % name)
            return f(*a)
        return g


# --------------------------------------------------------------------------------------------------
# numba stand-in: decorators become identity, eager signatures are kept and checked at every call
# --------------------------------------------------------------------------------------------------
class Ty:
    def __init__(self, name, ndim=0, layout=None):
        self.name, self.ndim, self.layout = name, ndim, layout

    def __getitem__(self, idx):
        if not isinstance(idx, tuple):
            idx = (idx,)
        layout = "A"
        last = idx[-1]
        if isinstance(last, slice) and last.step == 1:
            layout = "C"
        first = idx[0]
        if len(idx) > 1 and isinstance(first, slice) and first.step == 1:
            layout = "F"
        return Ty(self.name, len(idx), layout)

    def __call__(self, *args):
        return Sig(self, args)

    def __repr__(self):
        if self.ndim == 0:
            return self.name
        return "%s[%dd,%s]" % (self.name, self.ndim, self.layout)


class TupleTy(Ty):
    def __init__(self, elems):
        Ty.__init__(self, "Tuple")
        self.elems = elems


class Sig:
    def __init__(self, ret, args):
        self.ret, self.args = ret, args


class _Types:
    @staticmethod
    def Tuple(elems):
        return TupleTy(elems)

    @staticmethod
    def UniTuple(t, n):
        return TupleTy((t,) * n)

    @staticmethod
    def DictType(k, v):
        return Ty("Dict")

    @staticmethod
    def ListType(t):
        return Ty("List")

    def __getattr__(self, name):
        return Ty(name)


class _TypedDict(dict):
    @staticmethod
    def empty(key_type=None, value_type=None):
        return dict()


class _TypedList(list):
    @staticmethod
    def empty_list(t=None):
        return list()


class _Typed:
    Dict = _TypedDict
    List = _TypedList


def check_signature(fn_name, sig, args):
    """layout/rank/dtype type-state: the call must have a matching compiled definition"""
    for k, (t, a) in enumerate(zip(sig.args, args)):
        if not isinstance(t, Ty) or isinstance(t, TupleTy) or t.name in ("optional", "Dict", "List"):
            continue
        if t.ndim == 0:
            if isinstance(a, _np.ndarray) and a.ndim > 0:
                raise LayoutError("%s: argument %d is an array, signature wants scalar %s" % (fn_name, k, t))
            continue
        from . import gram as _gram
        if isinstance(a, _gram.AbsRows):
            if t.ndim != 2:
                raise LayoutError("%s: argument %d is an (n,3) array, signature wants %s" % (fn_name, k, t))
            continue
        if _gram.is_abs(a):
            if t.ndim != 1:
                raise LayoutError("%s: argument %d is a 3-vector, signature wants %s" % (fn_name, k, t))
            continue        # an abstract (Gram-mode) 3-vector stands for a C-contiguous float64 array of shape (3,)
        if not isinstance(a, _np.ndarray):
            raise LayoutError("%s: argument %d is %s, signature wants %s" % (fn_name, k, type(a).__name__, t))
        if a.ndim != t.ndim:
            raise LayoutError("%s: argument %d has ndim %d, signature wants %s" % (fn_name, k, a.ndim, t))
        if t.layout == "C" and not a.flags.c_contiguous:
            raise LayoutError("%s: argument %d is array(float64, %dd, A) (non-contiguous view), signature wants %s"
                              % (fn_name, k, a.ndim, t))
        if t.layout == "F" and not a.flags.f_contiguous:
            raise LayoutError("%s: argument %d is not F-contiguous, signature wants %s" % (fn_name, k, t))
        if t.name.startswith("float") and a.dtype.kind in "iub":
            raise LayoutError("%s: argument %d has dtype %s, signature wants %s" % (fn_name, k, a.dtype, t))
        if t.name.startswith("int") and a.dtype.kind == "f":
            raise LayoutError("%s: argument %d has dtype %s, signature wants %s" % (fn_name, k, a.dtype, t))


class NumbaModel:
    types = _Types()
    typed = _Typed()
    float64 = Ty("float64")
    float32 = Ty("float32")
    int64 = Ty("int64")
    int32 = Ty("int32")
    uint8 = Ty("uint8")
    bool_ = Ty("bool")
    boolean = Ty("bool")
    void = Ty("void")

    @staticmethod
    def optional(t):
        return Ty("optional")

    @staticmethod
    def njit(*args, **kw):
        import functools
        if len(args) == 1 and callable(args[0]) and not isinstance(args[0], (Sig, Ty)):
            f = args[0]
            f.__d3vc_jit__ = True
            return f
        sig = args[0] if args and isinstance(args[0], Sig) else None

        def deco(f):
            if sig is None:
                f.__d3vc_jit__ = True
                return f

            @functools.wraps(f)
            def wrapper(*a, **k):
                if not k:
                    check_signature(f.__qualname__, sig, a)
                return f(*a, **k)
            wrapper.__d3vc_jit__ = True
            wrapper.__d3vc_sig__ = sig
            wrapper.__wrapped__ = f
            return wrapper
        return deco

    jit = njit

    @staticmethod
    def prange(*a):
        return range(*a)
