"""Symbolic scalar values (S), symbolic booleans (B), the per-path context (Ctx) and path exploration.

The real source of the function under verification is executed by CPython itself with S values flowing through
it ("proxy" symbolic execution): evaluation order, short-circuiting, tuple unpacking, aliasing of numpy views
are CPython's/numpy's own.  `if` on a symbolic condition consults the decision oracle of the current context;
all paths are enumerated by re-execution with a decision prefix.
"""
import math
import itertools
from fractions import Fraction

import numpy as np
import z3

from .poly import Poly


class Unsupported(Exception):
    """construct outside the accepted subset: extraction failure, never a verdict"""


class PathEnd(Exception):
    """path was cut deliberately (assume False, loop back edge, ...)"""


class UninitRead(Exception):
    pass


class ContractError(Exception):
    pass


# --------------------------------------------------------------------------------------------------
# variable table (shared by all paths of one contract so that names -> z3 consts are stable)
# --------------------------------------------------------------------------------------------------
class VarTable:
    def __init__(self):
        self.names = []
        self.ids = {}
        self.z3 = []
        self.kind = []   # 'input' | 'aux'

    def get(self, name, kind="aux"):
        i = self.ids.get(name)
        if i is None:
            i = len(self.names)
            self.ids[name] = i
            self.names.append(name)
            self.z3.append(z3.Real(name))
            self.kind.append(kind)
        return i


def _frac(x):
    if isinstance(x, Fraction):
        return x
    if isinstance(x, bool):
        return Fraction(int(x))
    if isinstance(x, (int, np.integer)):
        return Fraction(int(x))
    if isinstance(x, (float, np.floating)):
        x = float(x)
        if math.isinf(x) or math.isnan(x):
            raise Unsupported("non-finite constant %r in symbolic arithmetic" % x)
        return Fraction(x)
    raise TypeError(type(x))


def is_num(x):
    return isinstance(x, (int, float, Fraction, np.integer, np.floating)) and not isinstance(x, bool) or isinstance(x, (bool, np.bool_))


class S:
    """symbolic real scalar in polynomial normal form"""
    __slots__ = ("p", "_z", "nn")

    def __init__(self, p, nn=False):
        self.p = p
        self._z = None
        self.nn = nn      # known non-negative BY CONSTRUCTION (square, sum/product of such, sqrt/abs atom)

    # -- construction helpers
    @staticmethod
    def lift(x):
        if isinstance(x, S):
            return x
        if is_num(x):
            return S(Poly.const(_frac(x)), nn=(x >= 0))
        if isinstance(x, np.ndarray) and x.ndim == 0:
            return S.lift(x.item())
        raise TypeError("cannot lift %r" % type(x))

    def z(self):
        if self._z is None:
            self._z = poly_to_z3(self.p)
        return self._z

    def simplify(self):
        """return a python number if constant, else self"""
        if self.p.is_const():
            c = self.p.const_value()
            return float(c) if c.denominator != 1 else float(c.numerator)
        return self

    # -- arithmetic
    def _bin(self, o, f):
        if isinstance(o, np.ndarray):
            return NotImplemented
        if isinstance(o, Uninit):
            o._raise()
        try:
            o = S.lift(o)
        except TypeError:
            return NotImplemented
        return _mk(f(self.p, o.p))

    def __add__(self, o):
        r = self._bin(o, lambda a, b: a + b)
        if isinstance(r, S) and self.nn and _nn(o):
            r.nn = True
        return r

    __radd__ = __add__

    def __sub__(self, o):
        return self._bin(o, lambda a, b: a - b)

    def __rsub__(self, o):
        return self._bin(o, lambda a, b: b - a)

    def __mul__(self, o):
        r = self._bin(o, lambda a, b: a * b)
        if isinstance(r, S) and ((self.nn and _nn(o)) or o is self or (isinstance(o, S) and o.p.key() == self.p.key())):
            r.nn = True
        return r

    __rmul__ = __mul__

    def __neg__(self):
        return _mk(-self.p)

    def __pos__(self):
        return self

    def __truediv__(self, o):
        if isinstance(o, np.ndarray):
            return NotImplemented
        return Ctx.cur.div(self, o)

    def __rtruediv__(self, o):
        if isinstance(o, np.ndarray):
            return NotImplemented
        return Ctx.cur.div(o, self)

    def __pow__(self, e):
        if isinstance(e, (int, np.integer)) or (isinstance(e, float) and e == int(e)):
            e = int(e)
            if e >= 0:
                r = S(Poly.const(1))
                for _ in range(e):
                    r = r * self
                return r if isinstance(r, S) else S.lift(r)
            return Ctx.cur.div(1.0, self ** (-e))
        if e == 0.5:
            return Ctx.cur.sqrt(self)
        raise Unsupported("power with exponent %r" % (e,))

    def __abs__(self):
        return Ctx.cur.abs(self)

    def sqrt(self):
        return Ctx.cur.sqrt(self)

    # -- comparisons
    def _cmp(self, o, op):
        if isinstance(o, np.ndarray):
            return NotImplemented
        if isinstance(o, Uninit):
            o._raise()
        if isinstance(o, (float, np.floating)) and math.isinf(float(o)):
            pos = float(o) > 0
            return {"<": pos, "<=": pos, ">": not pos, ">=": not pos, "==": False, "!=": True}[op]
        try:
            o = S.lift(o)
        except TypeError:
            return NotImplemented
        d = self.p - o.p
        if d.is_const():
            c = d.const_value()
            return {"<": c < 0, "<=": c <= 0, ">": c > 0, ">=": c >= 0, "==": c == 0, "!=": c != 0}[op]
        return B.cmp(d, op)

    def __lt__(self, o):
        return self._cmp(o, "<")

    def __le__(self, o):
        return self._cmp(o, "<=")

    def __gt__(self, o):
        return self._cmp(o, ">")

    def __ge__(self, o):
        return self._cmp(o, ">=")

    def __eq__(self, o):
        return self._cmp(o, "==")

    def __ne__(self, o):
        return self._cmp(o, "!=")

    __hash__ = None

    def __bool__(self):
        r = (self != 0)
        return bool(r)

    def __float__(self):
        if self.p.is_const():
            return float(self.p.const_value())
        raise Unsupported("float() of a symbolic value")

    def __int__(self):
        raise Unsupported("int() of a symbolic value")

    def __index__(self):
        raise Unsupported("symbolic value used as an index")

    def __repr__(self):
        try:
            return "S(%s)" % (z3.simplify(self.z()),)
        except Exception:
            return "S(?)"


def _nn(o):
    if isinstance(o, S):
        return o.nn
    if is_num(o):
        return o >= 0
    return False


def _mk(p):
    if p.is_const():
        c = p.const_value()
        # keep exact rationals as S when not representable: python float of a Fraction is exact only for dyadics
        if c.denominator & (c.denominator - 1) == 0 and abs(c.numerator) < 2 ** 53:
            return float(c)
        return S(p)
    return S(p)


def poly_to_z3(p):
    vt = Ctx.cur.vt
    terms = []
    for m, c in sorted(p.d.items()):
        fs = []
        for v, e in m:
            zv = vt.z3[v]
            for _ in range(e):
                fs.append(zv)
        cz = z3.Q(c.numerator, c.denominator)
        if not fs:
            terms.append(cz)
        else:
            prod = fs[0]
            for f in fs[1:]:
                prod = prod * f
            terms.append(prod if c == 1 else cz * prod)
    if not terms:
        return z3.RealVal(0)
    r = terms[0]
    for t in terms[1:]:
        r = r + t
    return r


class Uninit:
    """element of np.empty(...) that has not been written"""
    __slots__ = ()

    def _raise(self, *a, **k):
        raise UninitRead("read of an uninitialised array element")

    __add__ = __radd__ = __sub__ = __rsub__ = __mul__ = __rmul__ = __truediv__ = __rtruediv__ = _raise
    __neg__ = __abs__ = __lt__ = __le__ = __gt__ = __ge__ = __bool__ = __float__ = _raise
    __eq__ = __ne__ = _raise
    __hash__ = None

    def __repr__(self):
        return "UNINIT"


UNINIT = Uninit()


class B:
    """symbolic boolean"""
    __slots__ = ("t", "atom")

    def __init__(self, t, atom=None):
        self.t = t
        self.atom = atom          # (Poly, op) when the boolean is a single polynomial comparison  p op 0

    @staticmethod
    def cmp(d, op):
        # d is a non-constant Poly; normalise sign so that p<0 and -p>0 give the same atom
        z = poly_to_z3(d)
        zero = z3.RealVal(0)
        t = {"<": z < zero, "<=": z <= zero, ">": z > zero, ">=": z >= zero, "==": z == zero, "!=": z != zero}[op]
        return B(t, (d, op))

    def __bool__(self):
        return Ctx.cur.decide(self)

    def __and__(self, o):
        if isinstance(o, (bool, np.bool_)):
            return self if o else False
        return B(z3.And(self.t, o.t))

    __rand__ = __and__

    def __or__(self, o):
        if isinstance(o, (bool, np.bool_)):
            return True if o else self
        return B(z3.Or(self.t, o.t))

    __ror__ = __or__

    def __invert__(self):
        return B(z3.Not(self.t))

    def __eq__(self, o):
        if isinstance(o, (bool, np.bool_)):
            return self if o else ~self
        return B(self.t == o.t)

    def __ne__(self, o):
        if isinstance(o, (bool, np.bool_)):
            return ~self if o else self
        return B(self.t != o.t)

    __hash__ = None

    def __repr__(self):
        return "B(%s)" % self.t


def bz(x):
    """z3 term of a B / python bool"""
    if isinstance(x, B):
        return x.t
    if isinstance(x, (bool, np.bool_)):
        return z3.BoolVal(bool(x))
    if isinstance(x, CB):
        raise ContractError("concrete boolean in symbolic context")
    raise TypeError("not a boolean: %r" % (x,))


class CB:
    """concrete 'boolean with slack' used when a contract is evaluated on floats: holds iff viol <= tol"""
    __slots__ = ("viol",)

    def __init__(self, viol):
        self.viol = float(viol)

    def __and__(self, o):
        return CB(max(self.viol, cb(o).viol))

    __rand__ = __and__

    def __or__(self, o):
        return CB(min(self.viol, cb(o).viol))

    __ror__ = __or__

    def __invert__(self):
        return CB(-self.viol)

    def holds(self, tol=0.0):
        return self.viol <= tol

    def __bool__(self):
        return self.viol <= 0.0

    def __repr__(self):
        return "CB(viol=%g)" % self.viol


def cb(x):
    if isinstance(x, CB):
        return x
    if isinstance(x, (bool, np.bool_)):
        return CB(-math.inf if x else math.inf)
    raise TypeError("not a concrete boolean: %r" % (x,))


class Obligation:
    def __init__(self, name, kind, hyps, goal, prop_level, meta):
        self.name = name
        self.kind = kind            # 'post' | 'safety' | 'exception' | 'callee_pre' | 'lemma' | 'cover' | 'canary' ...
        self.hyps = hyps            # list of (fact_name, z3 BoolRef)
        self.goal = goal            # z3 BoolRef
        self.prop_level = prop_level
        self.meta = meta            # dict: path decisions, hints, use=..., tol=...
        self.result = None


class Ctx:
    """one path of one contract"""
    cur = None

    def __init__(self, vt, prefix=(), mode="sym", values=None, opts=None):
        self.vt = vt
        self.mode = mode
        self.values = values or {}       # concrete mode: input name -> float
        self.prefix = list(prefix)
        self.decisions = []
        self.alternatives = []
        self.facts = []                  # list of (name, z3 BoolRef)
        self.obligations = []
        self.opts = dict(feas_timeout_ms=300, feasibility=True, abs_ite=False, minmax_ite=False)
        if opts:
            self.opts.update(opts)
        self._fresh = itertools.count()
        self._sqrt_cache = {}
        self._div_cache = {}
        self.defs = {}                   # aux var name -> ('sqrt', S) | ('div', num, den) | ('let', S)
        self.rules = {}
        self.fn_label = "?"
        self.notes = []
        self.concrete_report = []        # concrete mode: list of (name, viol, tol)
        self.trace = []
        self.scratch = {}
        self.loop_specs = {}
        self._decided = {}
        self.div_rules = {}
        self.div_defs = {}               # quotient var -> (numerator Poly, denominator Poly)
        self.post_rules = {}             # rewrite rules applied only to cleared goals (e.g. T^2 -> Gram determinant)

    # ---------------------------------------------------------------- inputs
    def real(self, name, lo=None, hi=None, pos=False, nonneg=False):
        if self.mode == "concrete":
            x = float(self.values[name])
            return x
        v = self.vt.get(name, "input")
        s = S(Poly.var(v))
        if pos:
            self.assume(s > 0, "dom:" + name)
        if nonneg:
            self.assume(s >= 0, "dom:" + name)
        if lo is not None:
            self.assume(s >= lo, "dom:" + name)
        if hi is not None:
            self.assume(s <= hi, "dom:" + name)
        return s

    def vec(self, name, n=3, **kw):
        a = np.empty(n, dtype=object if self.mode == "sym" else float)
        for i in range(n):
            a[i] = self.real("%s_%d" % (name, i), **kw)
        return a

    def mat(self, name, r, c):
        a = np.empty((r, c), dtype=object if self.mode == "sym" else float)
        for i in range(r):
            for j in range(c):
                a[i, j] = self.real("%s_%d%d" % (name, i, j))
        return a

    def fresh(self, stem):
        name = "%s!%d" % (stem, next(self._fresh))
        v = self.vt.get(name, "aux")
        return name, S(Poly.var(v))

    # ---------------------------------------------------------------- facts / obligations
    def assume(self, cond, name=None):
        if self.mode == "concrete":
            c = cb(cond)
            self.concrete_report.append(("assume:" + str(name), c.viol, None))
            if c.viol > 1e-9:
                raise PathEnd("precondition %s not met by this sample" % name)     # the sample is outside the contract's domain
            return
        if isinstance(cond, (bool, np.bool_)):
            if not cond:
                raise PathEnd("assume False")
            return
        t = bz(cond)
        self.facts.append((name or "assume", t))
        try:
            ts = z3.simplify(t)
            self._decided[ts.sexpr()] = True
            self._decided[z3.simplify(z3.Not(ts)).sexpr()] = False
        except Exception:
            pass

    def prove(self, name, cond, kind="post", prop_level=True, tol=1e-9, **meta):
        if self.mode == "concrete":
            c = cb(cond)
            self.concrete_report.append((name, c.viol, tol))
            return
        if isinstance(cond, (bool, np.bool_)) and cond:
            g = z3.BoolVal(True)
        else:
            g = bz(cond)
        meta = dict(meta)
        meta["decisions"] = list(self.decisions)
        meta["tol"] = tol
        if isinstance(cond, B) and cond.atom is not None and self.div_defs:
            cg = self._cleared_goal(*cond.atom)
            if cg is not None:
                meta["clear_goal"] = cg
        self.obligations.append(Obligation(name, kind, list(self.facts), g, prop_level, meta))
        # assert-then-assume
        if not z3.is_true(g):
            self.facts.append(("proved:" + name, g))

    def canary(self, name, cond, strict=False):
        """deliberately false claim: must NOT be provable (guards against vacuous hypotheses / unsound engine).
        strict=True: a proof is fatal even when the path's reachability could not be established by a model (used where
        the hypotheses are quantified and the solver cannot produce models)."""
        if self.mode == "concrete":
            return
        g = bz(cond) if not isinstance(cond, (bool, np.bool_)) else z3.BoolVal(bool(cond))
        self.obligations.append(Obligation("canary:" + name, "canary", list(self.facts), g, False,
                                           dict(decisions=list(self.decisions), tol=0.0, canary="strict" if strict else "")))

    def cover(self, name):
        """reachability: the hypotheses collected so far must be satisfiable"""
        if self.mode == "concrete":
            return
        self.obligations.append(Obligation("cover:" + name, "cover", list(self.facts), z3.BoolVal(False), False,
                                           dict(decisions=list(self.decisions), tol=0.0)))

    def _cleared_goal(self, p, op, depth=0):
        """denominator clearing (exact polynomial manipulation): for a quotient atom q with q*b = a, write the goal polynomial
        as P(q) = sum_e c_e q^e (degree D); then b^D P = sum_e c_e a^e b^(D-e) contains no q.  Returns a z3 formula F with
        F => (p op 0): F = (b != 0 and P' op 0) for even D or (dis)equalities, and the two sign cases of b for odd D."""
        qs = [v for v in p.variables() if v in self.div_defs]
        if not qs or depth > 6:
            if depth == 0:
                return None
            z = poly_to_z3(p)
            zero = z3.RealVal(0)
            return {"<": z < zero, "<=": z <= zero, ">": z > zero, ">=": z >= zero, "==": z == zero, "!=": z != zero}[op]
        q = max(qs)            # latest quotient first (its numerator/denominator may contain earlier ones)
        a, b = self.div_defs[q]
        # split by power of q
        coeffs = {}
        for m, c in p.d.items():
            e = 0
            rest = []
            for v, ex in m:
                if v == q:
                    e = ex
                else:
                    rest.append((v, ex))
            coeffs.setdefault(e, Poly()).d[tuple(rest)] = c
        D = max(coeffs)
        old = Poly.rules
        Poly.rules = None          # plain polynomial arithmetic (no rewriting) for the exact identity
        try:
            apow = [Poly.const(1)]
            bpow = [Poly.const(1)]
            for _ in range(D):
                apow.append(apow[-1] * a)
                bpow.append(bpow[-1] * b)
            tot = Poly()
            for e, c in coeffs.items():
                tot = tot + c * apow[e] * bpow[D - e]
        finally:
            Poly.rules = old
        if len(tot.d) > 4000:
            return None
        if self.post_rules or Poly.rules:
            old = Poly.rules
            merged = dict(old or {})
            merged.update(self.post_rules)
            Poly.rules = merged
            try:
                tot = tot.reduce()
            finally:
                Poly.rules = old
        bz3 = poly_to_z3(b)
        zero = z3.RealVal(0)
        if tot.is_const():
            c = tot.const_value()
            inner = z3.BoolVal({"<": c < 0, "<=": c <= 0, ">": c > 0, ">=": c >= 0, "==": c == 0, "!=": c != 0}[op])
            flipped = z3.BoolVal({"<": c > 0, "<=": c >= 0, ">": c < 0, ">=": c <= 0, "==": c == 0, "!=": c != 0}[op])
        else:
            inner = self._cleared_goal(tot, op, depth + 1)
            flipped = None
            if inner is None:
                return None
        if D % 2 == 0 or op in ("==", "!="):
            return z3.And(bz3 != zero, inner)
        if flipped is None:
            flip = {"<": ">", "<=": ">=", ">": "<", ">=": "<=", "==": "==", "!=": "!="}[op]
            flipped = self._cleared_goal(tot, flip, depth + 1)
            if flipped is None:
                return None
        return z3.Or(z3.And(bz3 > zero, inner), z3.And(bz3 < zero, flipped))

    def lemma(self, name, cond, **meta):
        """auxiliary proof step: proved as its own obligation, then available as a fact"""
        self.prove(name, cond, kind="lemma", prop_level=False, **meta)

    # ---------------------------------------------------------------- decisions
    def decide(self, b):
        t = z3.simplify(b.t)
        if z3.is_true(t):
            return True
        if z3.is_false(t):
            return False
        # the same condition decided earlier on this path: reuse the verdict (no fork, no solver call)
        key = t.sexpr()
        known = self._decided.get(key)
        if known is not None:
            return known
        k = len(self.decisions)
        if k < len(self.prefix):
            val = self.prefix[k]
        else:
            can_t, can_f = True, True
            if self.opts["feasibility"]:
                can_t = self._feasible(t)
                can_f = self._feasible(z3.Not(t)) if can_t else True
            if can_t and can_f:
                val = True
                self.alternatives.append(self.decisions + [False])
            elif can_t:
                val = True
            else:
                val = False
        self.decisions.append(val)
        self.facts.append(("branch", t if val else z3.Not(t)))
        self._decided[key] = val
        self._decided[z3.simplify(z3.Not(t)).sexpr()] = not val
        return val

    def choice(self, n, label="choice"):
        """nondeterministic choice among range(n): every alternative is explored as its own path"""
        if self.mode == "concrete":
            return self.rng.randrange(n)
        k = len(self.decisions)
        if k < len(self.prefix):
            val = self.prefix[k]
        else:
            val = 0
            for j in range(1, n):
                self.alternatives.append(self.decisions + [j])
        self.decisions.append(val)
        return val

    def _feasible(self, t):
        # (1) linear abstraction (every nonlinear monomial opaque): deterministic, no timeout games; unsat is conclusive
        try:
            from .solve import linear_abstraction
            hs, g = linear_abstraction([f for _, f in self.facts] + [t], z3.BoolVal(False))
            s0 = z3.SimpleSolver()
            s0.set("timeout", 2000)
            for h in hs:
                s0.add(h)
            if s0.check() == z3.unsat:
                return False
        except Exception:
            pass
        # (2) the real (nonlinear) query under a short budget; unknown counts as feasible
        s = z3.Solver()
        s.set("timeout", self.opts["feas_timeout_ms"])
        for _, f in self.facts:
            s.add(f)
        s.add(t)
        return s.check() != z3.unsat

    # ---------------------------------------------------------------- arithmetic devices
    def sqrt(self, x):
        if is_num(x):
            if x < 0:
                raise ValueError("math domain error")
            return math.sqrt(x)
        if isinstance(x, Uninit):
            x._raise()
        x = S.lift(x)
        xs = x.simplify()
        if not isinstance(xs, S):
            return self.sqrt(xs)
        self.prove("sqrt_arg_nonneg", True if x.nn else (x >= 0), kind="safety", prop_level=False)
        key = x.p.key()
        if key in self._sqrt_cache:
            return self._sqrt_cache[key]
        name, s = self.fresh("sqrt")
        s.nn = True
        self.defs[name] = ("sqrt", x)
        self.facts.append(("def:" + name, z3.And(s.z() >= 0, (s * s).z() == x.z()) if isinstance(s * s, S) else z3.BoolVal(True)))
        self._sqrt_cache[key] = s
        return s

    def div(self, a, b):
        if isinstance(a, Uninit):
            a._raise()
        if isinstance(b, Uninit):
            b._raise()
        if is_num(b):
            if b == 0:
                raise ZeroDivisionError("division by zero")
            if is_num(a):
                return a / b
            return _mk(S.lift(a).p.scale(1 / _frac(b)))
        b = S.lift(b)
        bs = b.simplify()
        if not isinstance(bs, S):
            return self.div(a, bs)
        self.prove("divisor_nonzero", b != 0, kind="safety", prop_level=False)
        a = S.lift(a)
        if a.p.is_const() and a.p.const_value() == 0:
            return 0.0
        key = (a.p.key(), b.p.key())
        if key in self._div_cache:
            return self._div_cache[key]
        # a/b with b = c * monomial-free?  keep it simple: fresh atom q with q*b == a
        name, q = self.fresh("quot")
        self.defs[name] = ("div", a, b)
        qb = q * b
        self.facts.append(("def:" + name, S.lift(qb).z() == a.z()))
        self._div_cache[key] = q
        self.div_defs[self.vt.ids[name]] = (a.p, b.p)
        if len(b.p.d) == 1:
            (mono, coef), = b.p.d.items()
            if len(mono) == 1 and mono[0][1] == 1:
                self.div_rules[(mono[0][0], self.vt.ids[name])] = (a.p, coef)
        return q

    def abs(self, x):
        if is_num(x):
            return abs(x)
        if self.opts["abs_ite"]:
            x = S.lift(x)
            key = ("abs", x.p.key())
            nkey = ("abs", (-x).p.key())
            if key in self._sqrt_cache:
                return self._sqrt_cache[key]
            if nkey in self._sqrt_cache:
                return self._sqrt_cache[nkey]
            name, a = self.fresh("abs")
            a.nn = True
            self._sqrt_cache[key] = a
            self.defs[name] = ("abs", x)
            self.facts.append(("def:" + name, z3.And(a.z() >= 0, z3.Or(a.z() == x.z(), a.z() == (-x).z()))))
            return a
        if x >= 0:
            return x
        return -x

    def extremum(self, xs, kind):
        """max / min of a list without forking: fresh atom m with  m >= all  and  m equal to one of them"""
        xs = list(xs)
        if all(is_num(x) for x in xs):
            return max(xs) if kind == "max" else min(xs)
        key = (kind, tuple(S.lift(x).p.key() for x in xs))
        if key in self._sqrt_cache:
            return self._sqrt_cache[key]
        name, m = self.fresh(kind)
        self._sqrt_cache[key] = m
        self.defs[name] = (kind, xs)
        ts = []
        for x in xs:
            c = (m >= x) if kind == "max" else (m <= x)
            ts.append(bz(c))
        ts.append(z3.Or(*[bz(m == x) for x in xs]))
        self.facts.append(("def:" + name, z3.And(*ts)))
        return m

    def let(self, stem, x):
        """name an intermediate: fresh atom equal to x (definition available as fact 'def:<name>')"""
        if self.mode == "concrete" or is_num(x):
            return x
        name, a = self.fresh(stem)
        self.defs[name] = ("let", x)
        self.facts.append(("def:" + name, a.z() == S.lift(x).z()))
        return a

    # ---------------------------------------------------------------- contract-language helpers (mode-polymorphic)
    def le(self, a, b):
        if self.mode == "concrete":
            return CB(float(a) - float(b))
        return _as_b(a <= b) if not isinstance(a, np.ndarray) else self.all([self.le(x, y) for x, y in zip(a, np.broadcast_to(b, a.shape))])

    def lt(self, a, b):
        if self.mode == "concrete":
            return CB(float(a) - float(b))
        return _as_b(a < b)

    def ge(self, a, b):
        return self.le(b, a)

    def gt(self, a, b):
        return self.lt(b, a)

    def eq(self, a, b):
        if isinstance(a, np.ndarray) or isinstance(b, np.ndarray):
            a = np.asarray(a, dtype=object if self.mode == "sym" else float)
            b = np.broadcast_to(np.asarray(b, dtype=a.dtype), a.shape)
            return self.all([self.eq(x, y) for x, y in zip(a.ravel(), b.ravel())])
        if self.mode == "concrete":
            return CB(abs(float(a) - float(b)))
        return _as_b(a == b)

    def ne(self, a, b):
        if self.mode == "concrete":
            return CB(-abs(float(a) - float(b)) + 0.0) if a != b else CB(math.inf)
        return _as_b(a != b)

    def all(self, xs):
        xs = list(xs)
        if self.mode == "concrete":
            r = CB(-math.inf)
            for x in xs:
                r = r & cb(x)
            return r
        ts = []
        for x in xs:
            if isinstance(x, (bool, np.bool_)):
                if not x:
                    return False
                continue
            ts.append(bz(x))
        if not ts:
            return True
        return B(z3.And(*ts)) if len(ts) > 1 else B(ts[0])

    def any(self, xs):
        xs = list(xs)
        if self.mode == "concrete":
            r = CB(math.inf)
            for x in xs:
                r = r | cb(x)
            return r
        ts = []
        for x in xs:
            if isinstance(x, (bool, np.bool_)):
                if x:
                    return True
                continue
            ts.append(bz(x))
        if not ts:
            return False
        return B(z3.Or(*ts)) if len(ts) > 1 else B(ts[0])

    def implies(self, a, b):
        return self.any([self.neg(a), b])

    def neg(self, a):
        if isinstance(a, (bool, np.bool_)):
            return not a
        return ~a

    def dot(self, a, b):
        r = 0.0
        for x, y in zip(a, b):
            r = r + x * y
        return r

    def sq(self, a):
        return self.dot(a, a)


def _as_b(x):
    return x


def as_float_if_const(x):
    if isinstance(x, S):
        return x.simplify()
    return x
