"""vector operations usable in contracts for abstract (Gram-mode), symbolic-coordinate and float vectors alike"""
import numpy as np
from . import gram


def dot(u, v):
    if gram.is_abs(u) or gram.is_abs(v):
        return gram.dot(u, v)
    r = 0.0
    for x, y in zip(u, v):
        r = r + x * y
    return r


def sq(u):
    return dot(u, u)


def cross(u, v):
    if gram.is_abs(u) or gram.is_abs(v):
        return gram.cross(u, v)
    return np.array([u[1] * v[2] - u[2] * v[1], u[2] * v[0] - u[0] * v[2], u[0] * v[1] - u[1] * v[0]], dtype=np.asarray(u).dtype)


def lincomb(ws, vs):
    r = None
    for w, v in zip(ws, vs):
        t = v * w
        r = t if r is None else r + t
    return r
