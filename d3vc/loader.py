"""Loads modules of /repo from their source text on every run and executes them in a namespace where numpy,
math and numba are the models of npmodel.py.  Nothing is transcribed: the function objects verified are compiled
from the FunctionDef nodes of the working tree.  What is dropped: numba decorators (kept as call-site signature
checks), docstrings (irrelevant to execution).
"""
import ast
import builtins
import hashlib
import importlib
import os
import types

from .npmodel import NPModel, MathModel, NumbaModel
from .sym import Unsupported

REPO_ROOT = os.environ.get("D3VC_REPO", "/repo")


class ModuleNS:
    def __init__(self, ns):
        object.__setattr__(self, "_ns", ns)

    def __getattr__(self, k):
        try:
            return self._ns[k]
        except KeyError:
            raise AttributeError(k)

    def __setattr__(self, k, v):
        self._ns[k] = v


def _strip_docstrings(tree):
    for n in ast.walk(tree):
        if isinstance(n, (ast.FunctionDef, ast.ClassDef, ast.Module, ast.AsyncFunctionDef)) and n.body:
            b0 = n.body[0]
            if isinstance(b0, ast.Expr) and isinstance(b0.value, ast.Constant) and isinstance(b0.value.value, str):
                n.body = n.body[1:] or [ast.Pass()]
    return tree


class Repo:
    def __init__(self, root=None, transforms=None, stubs=None, loop_contracts=None):
        self.loop_contracts = loop_contracts or {}    # function qualname -> iterable of loop ordinals under contract
        self.root = root or REPO_ROOT
        self.cache = {}
        self.trees = {}
        self.np = NPModel()
        self.math = MathModel()
        self.numba = NumbaModel()
        self.transforms = transforms or {}   # module name -> callable(tree) -> tree
        self.stubs = stubs or {}             # module name -> object to use instead of loading

    # -- paths
    def path_of(self, modname):
        rel = modname.replace(".", "/")
        p = os.path.join(self.root, rel + ".py")
        if os.path.exists(p):
            return p, False
        p = os.path.join(self.root, rel, "__init__.py")
        if os.path.exists(p):
            return p, True
        return None, False

    def source(self, modname):
        p, _ = self.path_of(modname)
        with open(p) as f:
            return f.read()

    def tree(self, modname):
        if modname not in self.trees:
            self.trees[modname] = ast.parse(self.source(modname))
        return self.trees[modname]

    def find_def(self, qualname):
        """qualname 'distance3d.geometry.support_function_box' or 'distance3d.colliders.Box.aabb' -> (module, ast node)"""
        parts = qualname.split(".")
        for k in range(len(parts) - 1, 0, -1):
            mod = ".".join(parts[:k])
            p, _ = self.path_of(mod)
            if p:
                node = self.tree(mod)
                for name in parts[k:]:
                    found = None
                    for ch in node.body:
                        if isinstance(ch, (ast.FunctionDef, ast.ClassDef)) and ch.name == name:
                            found = ch
                    if found is None:
                        raise KeyError(qualname)
                    node = found
                return mod, node
        raise KeyError(qualname)

    def fn_hash(self, qualname):
        _, node = self.find_def(qualname)
        node = _strip_docstrings(ast.parse(ast.unparse(node)))
        return hashlib.sha256(ast.dump(node).encode()).hexdigest()[:16]

    def fn_loc(self, qualname):
        mod, node = self.find_def(qualname)
        p, _ = self.path_of(mod)
        return "%s:%d" % (os.path.relpath(p, self.root), node.lineno)

    # -- loading
    def module(self, modname):
        if modname in self.cache:
            return self.cache[modname]
        if modname in self.stubs:
            self.cache[modname] = self.stubs[modname]
            return self.cache[modname]
        path, is_pkg = self.path_of(modname)
        if path is None:
            raise ImportError("no repo module %s" % modname)
        ns = {"__name__": modname, "__file__": path, "__builtins__": builtins.__dict__}
        mod = ModuleNS(ns)
        self.cache[modname] = mod
        tree = ast.parse(self.source(modname))
        from . import loops as _loops, zarr as _zarr
        tree = _loops.LenRewriter().visit(tree)
        tree = _loops.CompoundConditionRewriter().visit(tree)
        for (fq, ks) in self.loop_contracts.items():
            fmod, fname = fq.rsplit(".", 1)
            if fmod == modname:
                for st in tree.body:
                    if isinstance(st, ast.FunctionDef) and st.name == fname:
                        _loops.instrument_function(st, fq, set(ks))
            elif fmod.rsplit(".", 1)[0] == modname and "." in fmod:       # method: <module>.<Class>.<name>
                cname = fmod.rsplit(".", 1)[1]
                for cls in tree.body:
                    if isinstance(cls, ast.ClassDef) and cls.name == cname:
                        for st in cls.body:
                            if isinstance(st, ast.FunctionDef) and st.name == fname:
                                _loops.instrument_function(st, fq, set(ks))
        ast.fix_missing_locations(tree)
        ns["__d3vc_len__"] = _zarr.d3vc_len
        ns["__d3vc_and__"] = _loops.d3vc_and
        ns["__d3vc_or__"] = _loops.d3vc_or
        ns["__d3vc_not__"] = _loops.d3vc_not
        ns["__d3vc_loop__"] = _loops.loop_hook
        ns["min"] = _zarr.model_min
        ns["max"] = _zarr.model_max
        if modname in self.transforms:
            tree = self.transforms[modname](tree)
            ast.fix_missing_locations(tree)
        pkg = modname if is_pkg else modname.rsplit(".", 1)[0]
        for stmt in tree.body:
            if isinstance(stmt, ast.Import):
                for a in stmt.names:
                    self._import(ns, a.name, a.asname)
            elif isinstance(stmt, ast.ImportFrom):
                self._import_from(ns, pkg, stmt)
            else:
                code = compile(ast.Module([stmt], []), path, "exec")
                exec(code, ns)
        for orig, value in getattr(self, "_pending_patches", []):
            for k, v in list(ns.items()):
                if v is orig:
                    ns[k] = value
        return mod

    def _model_for(self, name):
        top = name.split(".")[0]
        if top == "numpy":
            obj = self.np
        elif top == "math":
            obj = self.math
        elif top == "numba":
            obj = self.numba
        else:
            return None
        for part in name.split(".")[1:]:
            obj = getattr(obj, part)
        return obj

    def _import(self, ns, name, asname):
        m = self._model_for(name)
        if m is not None:
            ns[asname or name.split(".")[0]] = m if asname or "." not in name else self._model_for(name.split(".")[0])
            return
        if name.split(".")[0] == "distance3d":
            mod = self.module(name)
            if asname:
                ns[asname] = mod
            else:
                ns["distance3d"] = self.module("distance3d")
            return
        try:
            real = importlib.import_module(name)
        except Exception as e:  # optional dependency missing (open3d, ...)
            real = _Missing(name, e)
        if asname:
            ns[asname] = real
        else:
            top = name.split(".")[0]
            try:
                ns[top] = importlib.import_module(top)
            except Exception as e:
                ns[top] = _Missing(top, e)

    def _import_from(self, ns, pkg, stmt):
        if stmt.level > 0:
            base = pkg.split(".")
            if stmt.level > 1:
                base = base[: -(stmt.level - 1)]
            target = ".".join(base + ([stmt.module] if stmt.module else []))
        else:
            target = stmt.module
        m = self._model_for(target)
        if m is not None:
            for a in stmt.names:
                ns[a.asname or a.name] = getattr(m, a.name)
            return
        if target.split(".")[0] == "distance3d":
            for a in stmt.names:
                sub = target + "." + a.name
                p, _ = self.path_of(sub)
                if p is not None and not self._has_attr(target, a.name):
                    ns[a.asname or a.name] = self.module(sub)
                    continue
                mod = self.module(target)
                if a.name == "*":
                    for k, v in mod._ns.items():
                        if not k.startswith("_"):
                            ns[k] = v
                    continue
                if not hasattr(mod, a.name):
                    if p is not None:
                        ns[a.asname or a.name] = self.module(sub)
                        continue
                    raise ImportError("cannot import name %s from %s" % (a.name, target))
                ns[a.asname or a.name] = getattr(mod, a.name)
            return
        try:
            real = importlib.import_module(target)
        except Exception as e:
            real = _Missing(target, e)
        for a in stmt.names:
            try:
                ns[a.asname or a.name] = getattr(real, a.name)
            except Exception as e:
                ns[a.asname or a.name] = _Missing(target + "." + a.name, e)

    def _has_attr(self, modname, attr):
        """does the module's own text define `attr` at top level (without loading it)?"""
        try:
            tree = self.tree(modname)
        except Exception:
            return False
        for st in tree.body:
            if isinstance(st, (ast.FunctionDef, ast.ClassDef)) and st.name == attr:
                return True
            if isinstance(st, ast.Assign):
                for t in st.targets:
                    if isinstance(t, ast.Name) and t.id == attr:
                        return True
            if isinstance(st, ast.ImportFrom):
                for a in st.names:
                    if (a.asname or a.name) == attr:
                        return True
        return False

    def patch(self, qualname, value):
        """replace a function by its summary (callee contract) in every loaded namespace that imported it"""
        mod, name = qualname.rsplit(".", 1)
        orig = getattr(self.module(mod), name)
        for m in list(self.cache.values()):
            ns = getattr(m, "_ns", None)
            if ns is None:
                continue
            for k, v in list(ns.items()):
                if v is orig:
                    ns[k] = value
        self._pending_patches = getattr(self, "_pending_patches", [])
        self._pending_patches.append((orig, value))
        return orig

    def get(self, qualname):
        """resolve a dotted name to the loaded (model-namespace) object"""
        parts = qualname.split(".")
        for k in range(len(parts) - 1, 0, -1):
            mod = ".".join(parts[:k])
            p, _ = self.path_of(mod)
            if p:
                obj = self.module(mod)
                for name in parts[k:]:
                    obj = getattr(obj, name)
                return obj
        raise KeyError(qualname)


class _Missing:
    def __init__(self, name, err):
        self._name, self._err = name, err

    def __getattr__(self, k):
        if k.startswith("__"):
            raise AttributeError(k)
        return _Missing(self._name + "." + k, self._err)

    def __call__(self, *a, **k):
        raise Unsupported("external dependency %s is not available/modelled (%s)" % (self._name, self._err))


def native(qualname):
    """the real, natively imported object (JIT as installed) for replay and the bounded tier"""
    import sys as _sys
    if "distance3d.visualization" not in _sys.modules:
        try:
            importlib.import_module("distance3d.visualization")
        except Exception:
            m = types.ModuleType("distance3d.visualization")

            class RigidBodyTetrahedralMesh:
                def __init__(self, *a, **k):
                    pass
            m.RigidBodyTetrahedralMesh = m.Mesh = m.Ellipse = RigidBodyTetrahedralMesh
            _sys.modules["distance3d.visualization"] = m
    parts = qualname.split(".")
    for k in range(len(parts), 0, -1):
        try:
            obj = importlib.import_module(".".join(parts[:k]))
        except ImportError:
            continue
        for name in parts[k:]:
            obj = getattr(obj, name)
        return obj
    raise KeyError(qualname)
