"""Per-property registration data: MANIFEST level, technique, explanation (goes into evidence), assumptions, and the
reason text for properties that are not claimed."""

LEVEL = {
    "C03": "proof", "C04": "proof", "C13": "proof", "C14": "proof", "C12": "other",
}

TECHNIQUE = {
    "C03": "contract-based deductive verification: own VC generator d3vc (symbolic execution of the real source) + z3/cvc5",
    "C04": "contract-based deductive verification: d3vc + z3/cvc5, Cauchy-Schwarz proof steps, local-frame witnesses",
    "C13": "contract-based deductive verification: d3vc + z3/cvc5 (path-wise: result[i] <=> membership predicate)",
    "C14": "contract-based deductive verification: d3vc + z3/cvc5; numpy view/contiguity flags as layout type-state",
    "C12": "contract-based deductive verification (pose algebra, frame-quantified contracts); iterative queries not decided",
}

EXPLANATION = {
    "C03": "Every public support_function / first_vertex / center method of the closed-form collider classes is executed "
           "symbolically from its source text (including the geometry.support_function_* kernels, utils.transform_point, "
           "utils.norm_vector; utils.plane_basis_from_normal is used through its separately proved contract). Postconditions "
           "taken from the property: result is a member of the shape (membership predicate of d3vc/spec.py, local-frame "
           "definition from the class docstring) and no Skolem point of the shape projects further on d. Poses are universally "
           "quantified rotations; polynomials are kept in normal form modulo the Groebner basis of SO(3).",
    "C04": "aabb() of the eight closed-form collider classes (which call the free functions of distance3d.containment): per axis, "
           "every Skolem point of the shape lies within the bounds (enclosure) and each of the six bounds is attained by a witness "
           "point of the shape given in the local frame (tightness). Ellipsoid: genuine defect, see known_findings.json.",
    "C13": "points_in_<shape> on a batch of two arbitrary points: on every path of the numpy code the boolean returned for point i "
           "is True only if the membership predicate holds and False only if it does not (for the capsule the axis parameter is "
           "Skolemised; for the disk the band form required by the property is used).",
    "C14": "For every class with update_pose: an object built at an arbitrary pose T0 and moved with update_pose(T) answers "
           "support_function, aabb, center, first_vertex, collider2origin exactly like an object constructed at T, and every call "
           "of an eagerly typed numba kernel receives arrays whose rank/contiguity (real numpy view semantics) match its signature.",
    "C12": "Pose algebra of distance3d.utils (inverse, batch/single consistency, adjoint blocks) as polynomial identities modulo the "
           "SO(3) ideal; rigid-motion behaviour of the closed-form support/containment functions follows from their C03/C13 "
           "contracts, which are quantified over all poses. Symmetry/invariance of iterative queries (GJK, EPA, MPR) is not decided.",
}

EXTRA_ASSUMPTIONS = {
    "C03": ["ConvexHullVertices/Box vertex support and MeshGraph hill climbing are covered by separate contracts (see evidence) "
            "with fixed vertex counts / an explicit mesh-convexity precondition"],
    "C04": ["tolerance 1e-9*L of the statement is not consumed: the obligations are exact in real arithmetic"],
    "C13": ["row-parametricity of the numpy operations for batch sizes other than 2 (the code has no cross-row data flow)"],
    "C14": ["a pose taken out of a C-contiguous (n,4,4) stack has the same layout as a fresh C-contiguous (4,4) array"],
    "C12": [],
}

LEVEL_NOTE = {
    "C03": "float64 as reals; d3vc engine, numpy model and spec library trusted (mitigated by canaries, covers and native execution "
           "of every contract on the JIT-compiled code); solvers trusted for unsat",
    "C04": "as C03; Ellipsoid.aabb is a recorded known finding (genuine defect, pinned test asserts the wrong numbers)",
    "C13": "as C03; batch size 2 generalised by row-parametricity of the numpy code; convex mesh for a fixed topology",
    "C14": "as C03; layout model = real numpy flags on object arrays; numba dispatch assumed to follow its declared signatures",
    "C12": "partial: closed-form part proved, iterative queries only through the bounded tiers of C01/C02/C07-C09",
}

NOT_APPLICABLE = {}
