"""MANIFEST level per property + free-text explanation that goes into the evidence."""
LEVEL = {
    "C03": "proof",
}
EXPLANATION = {
    "C03": "Every public support_function / first_vertex / center method of the closed-form collider classes is executed "
           "symbolically from its source text (including the geometry.support_function_* kernels, utils.transform_point, "
           "utils.norm_vector; utils.plane_basis_from_normal is used through its separately proved contract). Postconditions "
           "taken from the property: result is a member of the shape (membership predicate of d3vc/spec.py, local-frame "
           "definition from the class docstring) and no Skolem point of the shape projects further on d. Poses are universally "
           "quantified rotations; polynomials are kept in normal form modulo the Groebner basis of SO(3).",
}
EXTRA_ASSUMPTIONS = {
    "C03": ["MeshGraph hill climbing is proved relative to an explicit mesh-convexity precondition (see contract doc); "
            "ConvexHullVertices is verified for symbolic vertex coordinates with a fixed number of vertices (4 and 8)"],
}
