"""Symbolic-length containers for data-structure proofs (C05): integer scalars (SI), integer tables (ZTable, e.g. the
`nodes` array of the AABB tree), box arrays (ZBoxes, shape (N,3,2)), integer lists with symbolic length (ZList, used for
the explicit stacks / result lists of the queries).  All are backed by z3 arrays; every subscript generates an index-safety
obligation (0 <= i < length; a computed negative index is a failure - this is where numba and CPython diverge).
Views (`nodes[i]`, `aabbs[i]`) read through to the CURRENT contents, as numpy views do.
"""
import itertools

import numpy as np
import z3

from .poly import Poly
from .sym import S, B, Ctx, Unsupported, is_num, bz


def zint(x):
    if isinstance(x, SI):
        return x.t
    if isinstance(x, z3.ExprRef):
        return x
    if isinstance(x, (int, np.integer)) and not isinstance(x, bool):
        return z3.IntVal(int(x))
    raise TypeError("not an integer: %r" % (x,))


class SI:
    """symbolic integer"""
    __slots__ = ("t",)

    def __init__(self, t):
        self.t = t

    @staticmethod
    def mk(t):
        t = z3.simplify(t)
        if z3.is_int_value(t):
            return t.as_long()
        return SI(t)

    def __add__(self, o):
        return SI.mk(self.t + zint(o))

    __radd__ = __add__

    def __sub__(self, o):
        return SI.mk(self.t - zint(o))

    def __rsub__(self, o):
        return SI.mk(zint(o) - self.t)

    def __mul__(self, o):
        return SI.mk(self.t * zint(o))

    __rmul__ = __mul__

    def __neg__(self):
        return SI.mk(-self.t)

    def _cmp(self, o, f):
        try:
            oz = zint(o)
        except TypeError:
            return NotImplemented
        r = z3.simplify(f(self.t, oz))
        if z3.is_true(r):
            return True
        if z3.is_false(r):
            return False
        return B(r)

    def __eq__(self, o):
        return self._cmp(o, lambda a, b: a == b)

    def __ne__(self, o):
        return self._cmp(o, lambda a, b: a != b)

    def __lt__(self, o):
        return self._cmp(o, lambda a, b: a < b)

    def __le__(self, o):
        return self._cmp(o, lambda a, b: a <= b)

    def __gt__(self, o):
        return self._cmp(o, lambda a, b: a > b)

    def __ge__(self, o):
        return self._cmp(o, lambda a, b: a >= b)

    __hash__ = None

    def __index__(self):
        raise Unsupported("symbolic integer used as a python index")

    def __int__(self):
        raise Unsupported("int() of a symbolic integer")

    def __bool__(self):
        return bool(self != 0)

    def __repr__(self):
        return "SI(%s)" % self.t


def _fresh(stem, sort):
    cx = Ctx.cur
    return z3.Const("%s!%d" % (stem, next(cx._fresh)), sort)


def real_atom(term):
    """S value standing for an arbitrary z3 Real term (e.g. a Select): interned in the variable table"""
    cx = Ctx.cur
    term = z3.simplify(term)
    if z3.is_rational_value(term):
        return float(term.numerator_as_long()) / float(term.denominator_as_long())
    key = "term:" + term.sexpr()
    vt = cx.vt
    i = vt.ids.get(key)
    if i is None:
        i = len(vt.names)
        vt.ids[key] = i
        vt.names.append(key)
        vt.z3.append(term)
        vt.kind.append("term")
    return S(Poly.var(i))


def zreal(x):
    if isinstance(x, S):
        return x.z()
    if is_num(x):
        return z3.RealVal(str(x)) if isinstance(x, int) else z3.RealVal(repr(float(x)))
    raise TypeError(x)


def check_index(i, n, what):
    cx = Ctx.cur
    if isinstance(i, (int, np.integer)) and isinstance(n, (int, np.integer)):
        if not (0 <= i < n):
            raise IndexError("index %d is out of bounds for axis 0 with size %d" % (i, n))
        return
    cx.prove("index_in_bounds[%s]" % what, B(z3.And(zint(i) >= 0, zint(i) < zint(n))), kind="safety", prop_level=True)


class ZTable:
    """2-D integer array (N, ncols) with symbolic N; one z3 array per column"""

    def __init__(self, cols, nrows, name="tbl"):
        self.cols = list(cols)
        self.nrows = nrows
        self.name = name

    @staticmethod
    def fresh(name, ncols, nrows):
        IA = z3.ArraySort(z3.IntSort(), z3.IntSort())
        return ZTable([_fresh("%s_c%d" % (name, k), IA) for k in range(ncols)], nrows, name)

    def snapshot(self):
        return ZTable(list(self.cols), self.nrows, self.name)

    def __d3vc_len__(self):
        return self.nrows

    def __getitem__(self, idx):
        if isinstance(idx, tuple):
            i, k = idx
            check_index(i, self.nrows, self.name)
            return SI.mk(z3.Select(self.cols[int(k)], zint(i)))
        if isinstance(idx, slice):
            if idx.start is None and idx.step is None:
                return ZTable(self.cols, idx.stop, self.name)
            raise Unsupported("general slice of a symbolic table")
        check_index(idx, self.nrows, self.name)
        return ZRow(self, idx)

    def __setitem__(self, idx, v):
        if isinstance(idx, tuple):
            i, k = idx
            check_index(i, self.nrows, self.name)
            self.cols[int(k)] = z3.Store(self.cols[int(k)], zint(i), zint(v))
            return
        if isinstance(v, ZRow) and len(v.tbl.cols) == len(self.cols):
            # tbl[i] = tbl2[j]: numpy copies the row (the right-hand side is read before the store)
            check_index(idx, self.nrows, self.name)
            vals = [z3.Select(c, zint(v.i)) for c in v.tbl.cols]
            for k, val in enumerate(vals):
                self.cols[k] = z3.Store(self.cols[k], zint(idx), val)
            return
        raise Unsupported("row store into a symbolic table")

    def col(self, k):
        return self.cols[k]


class ZRow:
    def __init__(self, tbl, i):
        self.tbl, self.i = tbl, i

    def __getitem__(self, k):
        return SI.mk(z3.Select(self.tbl.cols[int(k)], zint(self.i)))

    def __setitem__(self, k, v):
        self.tbl.cols[int(k)] = z3.Store(self.tbl.cols[int(k)], zint(self.i), zint(v))


class ZBoxes:
    """(N, 3, 2) real array with symbolic N; arr[a][b] : Int -> Real"""

    def __init__(self, arr, nrows, name="boxes"):
        self.arr = [list(r) for r in arr]
        self.nrows = nrows
        self.name = name

    @staticmethod
    def fresh(name, nrows):
        RA = z3.ArraySort(z3.IntSort(), z3.RealSort())
        return ZBoxes([[_fresh("%s_%d%d" % (name, a, b), RA) for b in range(2)] for a in range(3)], nrows, name)

    def snapshot(self):
        return ZBoxes(self.arr, self.nrows, self.name)

    def __d3vc_len__(self):
        return self.nrows

    def __getitem__(self, idx):
        if isinstance(idx, slice):
            if idx.start is None and idx.step is None:
                return ZBoxes(self.arr, idx.stop, self.name)
            raise Unsupported("general slice of a symbolic box array")
        if isinstance(idx, tuple):
            i, a, b = idx
            check_index(i, self.nrows, self.name)
            return real_atom(z3.Select(self.arr[int(a)][int(b)], zint(i)))
        check_index(idx, self.nrows, self.name)
        return ZBox(self, idx)

    def __setitem__(self, idx, m):
        if isinstance(idx, tuple):
            raise Unsupported("element store into a symbolic box array")
        check_index(idx, self.nrows, self.name)
        for a in range(3):
            for b in range(2):
                self.arr[a][b] = z3.Store(self.arr[a][b], zint(idx), zreal(m[a, b]))

    def sel(self, a, b, i):
        return z3.Select(self.arr[a][b], zint(i))


class ZBox:
    """view of one (3,2) box; reads the current contents of the parent"""
    shape = (3, 2)
    ndim = 2

    def __init__(self, boxes, i):
        self.boxes, self.i = boxes, i

    def __getitem__(self, ab):
        a, b = ab
        return real_atom(z3.Select(self.boxes.arr[int(a)][int(b)], zint(self.i)))


class ZList:
    """python list of integers with symbolic length.  Ghost state maintained by the list operations themselves:
    popped : set of elements removed with lst[:-1];  onst : set of elements currently stored (exact when the elements are
    pairwise distinct, which the invariants state);  pos : position of each stored element (witness for onst)."""

    def __init__(self, arr, n, popped=None, onst=None, pos=None, name="lst"):
        self.arr, self.n, self.popped, self.onst, self.pos, self.name = arr, n, popped, onst, pos, name

    @staticmethod
    def fresh(name):
        cx = Ctx.cur
        IA = z3.ArraySort(z3.IntSort(), z3.IntSort())
        BA = z3.ArraySort(z3.IntSort(), z3.BoolSort())
        n = SI(_fresh(name + "_len", z3.IntSort()))
        cx.facts.append(("len>=0:" + name, n.t >= 0))
        return ZList(_fresh(name + "_arr", IA), n, _fresh(name + "_popped", BA), _fresh(name + "_onst", BA), _fresh(name + "_pos", IA), name)

    @staticmethod
    def of(items, name="lst"):
        arr = z3.K(z3.IntSort(), z3.IntVal(0))
        onst = z3.K(z3.IntSort(), z3.BoolVal(False))
        pos = z3.K(z3.IntSort(), z3.IntVal(-1))
        for k, it in enumerate(items):
            arr = z3.Store(arr, k, zint(it))
            onst = z3.Store(onst, zint(it), z3.BoolVal(True))
            pos = z3.Store(pos, zint(it), z3.IntVal(k))
        return ZList(arr, len(items), z3.K(z3.IntSort(), z3.BoolVal(False)), onst, pos, name)

    def __d3vc_len__(self):
        return self.n

    def __getitem__(self, idx):
        if isinstance(idx, slice):
            if idx.start is None and idx.step is None and idx.stop == -1:
                cx = Ctx.cur
                cx.prove("pop_from_nonempty[%s]" % self.name, B(zint(self.n) >= 1) if not isinstance(self.n, int) else self.n >= 1,
                         kind="safety", prop_level=True)
                last = z3.Select(self.arr, zint(self.n) - 1)
                return ZList(self.arr, SI.mk(zint(self.n) - 1), z3.Store(self.popped, last, z3.BoolVal(True)),
                             z3.Store(self.onst, last, z3.BoolVal(False)), self.pos, self.name)
            raise Unsupported("general slice of a symbolic list")
        if isinstance(idx, int) and idx == -1:
            cx = Ctx.cur
            cx.prove("index_in_bounds[%s[-1]]" % self.name, B(zint(self.n) >= 1) if not isinstance(self.n, int) else self.n >= 1,
                     kind="safety", prop_level=True)
            return SI.mk(z3.Select(self.arr, zint(self.n) - 1))
        check_index(idx, self.n, self.name)
        return SI.mk(z3.Select(self.arr, zint(idx)))

    def extend(self, items):
        items = list(items)
        for k, it in enumerate(items):
            self.arr = z3.Store(self.arr, zint(self.n) + k, zint(it))
            self.onst = z3.Store(self.onst, zint(it), z3.BoolVal(True))
            self.pos = z3.Store(self.pos, zint(it), zint(self.n) + k)
        self.n = SI.mk(zint(self.n) + len(items))

    def append(self, it):
        self.extend([it])

    def sel(self, p):
        return z3.Select(self.arr, zint(p))


def d3vc_len(x):
    f = getattr(x, "__d3vc_len__", None)
    if f is not None:
        return f()
    return len(x)


def model_min(*a, **k):
    import builtins
    cx = Ctx.cur
    if cx is not None and cx.mode == "sym" and cx.opts.get("minmax_ite") and len(a) >= 2 and any(isinstance(x, S) for x in a):
        return cx.extremum(list(a), "min")
    return builtins.min(*a, **k)


def model_max(*a, **k):
    import builtins
    cx = Ctx.cur
    if cx is not None and cx.mode == "sym" and cx.opts.get("minmax_ite") and len(a) >= 2 and any(isinstance(x, S) for x in a):
        return cx.extremum(list(a), "max")
    return builtins.max(*a, **k)


def model_array(x):
    """np.array(list-of-indices) where the list is symbolic: keep the ZList (the callers only take len / iterate via contract)"""
    return x
