"""Solver portfolio.  An obligation arrives as SMT-LIB2 text (hypotheses + negated goal); `unsat` from any back
end discharges it; `sat` is only believed from a query that contains ALL hypotheses (variant 'full')."""
import os
import re
import subprocess
import tempfile
import time

import z3

Z3_OLD = "/usr/bin/z3"
CVC5 = "/usr/bin/cvc5"

# (variant, backend, timeout seconds)
DEFAULT_PLAN = [
    ("coi", "z3", 4),
    ("full", "z3", 6),
    ("coi", "nra", 15),
    ("full", "nra", 20),
    ("coi", "z3old", 30),
    ("coi", "cvc5", 30),
    ("full", "z3old", 60),
]

THOROUGH_EXTRA = [
    ("coi", "nra", 120),
    ("full", "nra", 120),
    ("coi", "cvc5", 120),
]


def _model_to_dict(m):
    out = {}
    for d in m.decls():
        if d.arity() != 0:
            continue
        v = m[d]
        try:
            if z3.is_rational_value(v):
                out[d.name()] = [str(v.numerator_as_long()), str(v.denominator_as_long())]
            elif z3.is_algebraic_value(v):
                out[d.name()] = float(v.approx(30).as_fraction())
            elif z3.is_int_value(v):
                out[d.name()] = [str(v.as_long()), "1"]
            elif z3.is_true(v) or z3.is_false(v):
                out[d.name()] = bool(z3.is_true(v))
        except Exception:
            pass
    return out


def run_z3_api(smt2, backend, timeout_s, seed=0, shuffle=0):
    ctx = z3.Context()
    fs = z3.parse_smt2_string(smt2, ctx=ctx)
    if shuffle:
        # nlsat's variable order follows the order of the assertions; a different order is often decisive
        import random
        fs = list(fs)
        random.Random(1000 * shuffle).shuffle(fs)
    if backend == "z3":
        s = z3.Solver(ctx=ctx)
    elif backend == "nra":
        s = z3.SolverFor("QF_NRA", ctx=ctx)
    elif backend == "nlsat":
        s = z3.Tactic("qfnra-nlsat", ctx=ctx).solver()
    elif backend == "smt":
        s = z3.SimpleSolver(ctx=ctx)
    else:
        raise ValueError(backend)
    s.set("timeout", int(timeout_s * 1000))
    s.add(fs)
    r = s.check()
    if r == z3.unsat:
        return "unsat", None
    if r == z3.sat:
        return "sat", _model_to_dict(s.model())
    return "unknown", None


def run_cli(smt2, backend, timeout_s):
    with tempfile.NamedTemporaryFile("w", suffix=".smt2", delete=False, dir=os.environ.get("D3VC_WORK", None)) as f:
        if backend == "cvc5":
            f.write("(set-logic ALL)\n")
        f.write(smt2)
        if "(check-sat)" not in smt2:
            f.write("\n(check-sat)\n")
        path = f.name
    try:
        if backend == "z3old":
            cmd = [Z3_OLD, "-T:%d" % int(timeout_s), path]
        elif backend == "z3new":
            cmd = ["z3-new", "-T:%d" % int(timeout_s), path]
        elif backend == "cvc5":
            cmd = [CVC5, "--tlimit=%d" % int(timeout_s * 1000), path]
        else:
            raise ValueError(backend)
        try:
            out = subprocess.run(cmd, capture_output=True, text=True, timeout=timeout_s + 5).stdout
        except subprocess.TimeoutExpired:
            return "unknown", None
        first = out.strip().splitlines()[0] if out.strip() else ""
        if first == "unsat":
            return "unsat", None
        if first == "sat":
            return "sat", None   # CLI models are not parsed; a 'full' sat is re-derived with the API for the model
        return "unknown", None
    finally:
        try:
            os.unlink(path)
        except OSError:
            pass


def discharge(rec, plan=None, seed=0, budget_scale=1.0):
    """rec: dict with 'smt2' = {'full': text, 'coi': text or None, 'use': text or None}.  Returns result dict."""
    if rec.get("kind") in ("canary", "cover"):
        plan = [("full", "z3", 3), ("full", "nra", 6)]   # reachability probes, not proof obligations: short budget
        if rec.get("meta", {}).get("canary") == "strict":
            plan = [("full", "z3", 8), ("full", "z3old", 12)]
    plan = plan or rec.get("plan") or DEFAULT_PLAN
    t0 = time.time()
    attempts = []
    smt = rec["smt2"]
    trivially = rec.get("trivial")
    if trivially is not None:
        return dict(status=trivially, backend="syntactic", variant="-", seconds=0.0, attempts=[], model=None)
    order = []
    hint = rec.get("hint")          # strategy that discharged this very query before (baseline/ledger.json), tried first
    if hint and smt.get(hint[0]):
        order.append((hint[0], hint[1], 12))
    if smt.get("clearcore"):
        order.append(("clearcore", "z3", 3))
    if smt.get("core"):
        order.append(("core", "z3", 3))
    if smt.get("clearlin"):
        order.append(("clearlin", "smt", 3))
    if smt.get("clear"):
        order.append(("clear", "z3", 3))
        order.append(("clear", "nra", 6))
    if smt.get("lin"):
        order.append(("lin", "smt", 3))
    if smt.get("near"):
        order.append(("near", "z3", 2))
    if smt.get("use"):
        order.append(("use", "z3", 5))
        order.append(("use", "nra", 20))
    order.extend(plan)
    # re-try the cheap, small variants with shuffled assertion orders before the long budgets
    shuf = []
    for v in ("clearcore", "core", "clear", "coi"):
        if smt.get(v):
            for k in range(1, 25):
                shuf.append((v, "z3#%d" % k, 2.5))
            break
    if shuf:
        cut = next((i for i, (vv, b, t) in enumerate(order) if t >= 10), len(order))
        order = order[:cut] + shuf + order[cut:]
    sat_seen = False
    for variant, backend, tmo in order:
        text = smt.get(variant)
        if text is None:
            continue
        if variant == "coi" and smt.get("coi_same"):
            # the cone of influence is the full query: run it once, as 'full'
            continue
        tmo = tmo * budget_scale
        t1 = time.time()
        try:
            if backend.startswith("z3#"):
                st, model = run_z3_api(text, "z3", tmo, seed, shuffle=int(backend[3:]))
            elif backend in ("z3", "nra", "nlsat", "smt"):
                st, model = run_z3_api(text, backend, tmo, seed)
            else:
                st, model = run_cli(text, backend, tmo)
        except Exception as e:  # solver crash: treated as unknown
            st, model = "unknown", None
            attempts.append((variant, backend, "error: %s" % e, round(time.time() - t1, 3)))
            continue
        dt = round(time.time() - t1, 3)
        attempts.append((variant, backend, st, dt))
        if st == "unsat":
            return dict(status="unsat", backend=backend, variant=variant, seconds=round(time.time() - t0, 3),
                        attempts=attempts, model=None)
        if st == "sat" and variant == "full":
            if model is None:
                # get a model through the API
                try:
                    st2, model = run_z3_api(text, "nra", max(tmo, 30), seed)
                    if st2 != "sat":
                        st2, model = run_z3_api(text, "z3", max(tmo, 30), seed)
                except Exception:
                    model = None
            return dict(status="sat", backend=backend, variant=variant, seconds=round(time.time() - t0, 3),
                        attempts=attempts, model=model)
        if st == "sat" and not sat_seen:
            sat_seen = True
            r = _try_families(smt, rec, attempts, seed, 4 * budget_scale, t0)
            if r is not None:
                return r
            tried_fam = True
    # refutation search: 'sat' on a weakened query is not a counterexample, but a model of the FULL query restricted to a
    # sub-family of the inputs is one (extra constraints only shrink the model space).  Rotations are pinned to
    # one-parameter families, where nlsat finds models quickly.
    if sat_seen:
        r = _try_families(smt, rec, attempts, seed, 20 * budget_scale, t0)
        if r is not None:
            return r
    return dict(status="unknown", backend=None, variant=None, seconds=round(time.time() - t0, 3), attempts=attempts,
                model=None, sat_on_weakened=sat_seen)


def _try_families(smt, rec, attempts, seed, tmo, t0):
    if not smt.get("full") or rec.get("kind") in ("canary", "cover"):
        return None
    for fam_name, extra in pose_families(smt["full"]):
        t1 = time.time()
        text = smt["full"].replace("(check-sat)", extra + "\n(check-sat)")
        try:
            st, model = run_z3_api(text, "nra", tmo, seed)
        except Exception:
            st, model = "unknown", None
        attempts.append(("full+" + fam_name, "nra", st, round(time.time() - t1, 3)))
        if st == "sat":
            return dict(status="sat", backend="nra", variant="full+" + fam_name, seconds=round(time.time() - t0, 3),
                        attempts=attempts, model=model)
    return None


def pose_families(full_text):
    """sub-families of SO(3) for every pose <name>_Rij declared in the query: rotations about one coordinate axis"""
    names = sorted(set(re.findall(r"\(declare-fun ([A-Za-z0-9_]+)_R00 \(\) Real\)", full_text)))
    if not names:
        return []
    fams = []
    for axis, zero, one in (("z", ["02", "12", "20", "21"], "22"), ("x", ["01", "02", "10", "20"], "00"), ("y", ["01", "10", "12", "21"], "11")):
        parts = []
        for n in names:
            for z in zero:
                if "%s_R%s " % (n, z) in full_text:
                    parts.append("(assert (= %s_R%s 0.0))" % (n, z))
            if "%s_R%s " % (n, one) in full_text:
                parts.append("(assert (= %s_R%s 1.0))" % (n, one))
        fams.append(("rot-" + axis, "\n".join(parts)))
    return fams


# ---- building the SMT2 texts ----------------------------------------------------------------------
def _vars_of(e, cache):
    k = e.get_id()
    if k in cache:
        return cache[k]
    out = set()
    stack = [e]
    seen = set()
    while stack:
        x = stack.pop()
        i = x.get_id()
        if i in seen:
            continue
        seen.add(i)
        if z3.is_const(x) and x.decl().kind() == z3.Z3_OP_UNINTERPRETED:
            out.add(x.decl().name())
        else:
            stack.extend(x.children())
    cache[k] = out
    return out


def to_smt2(hyps, goal):
    s = z3.Solver()
    for h in hyps:
        s.add(h)
    s.add(z3.Not(goal))
    return s.to_smt2()


def linear_abstraction(hyps, goal):
    """replace every nonlinear monomial (product of >= 2 non-numeral factors) by a fresh variable named after its sorted
    factors.  The result is linear real arithmetic; the abstraction has MORE models than the original, so unsat of the
    abstraction is unsat of the original.  Squares get the fact m >= 0."""
    cache = {}
    mono = {}

    def factors(e, acc):
        if z3.is_app(e) and e.decl().kind() == z3.Z3_OP_MUL:
            for ch in e.children():
                factors(ch, acc)
        else:
            acc.append(e)

    def walk(e):
        k = e.get_id()
        if k in cache:
            return cache[k]
        if z3.is_app(e) and e.decl().kind() == z3.Z3_OP_MUL:
            fs = []
            factors(e, fs)
            coef = [f for f in fs if z3.is_rational_value(f) or z3.is_int_value(f)]
            rest = [walk(f) for f in fs if not (z3.is_rational_value(f) or z3.is_int_value(f))]
            if len(rest) >= 2:
                names = sorted(str(r) for r in rest)
                key = "*".join(names)
                if key not in mono:
                    mono[key] = (z3.Real("m!%d" % len(mono)), names)
                r = mono[key][0]
            elif len(rest) == 1:
                r = rest[0]
            else:
                r = z3.RealVal(1)
            for c in coef:
                r = c * r
        elif z3.is_app(e) and e.num_args() > 0:
            r = e.decl()(*[walk(ch) for ch in e.children()])
        else:
            r = e
        cache[k] = r
        return r

    hs = [walk(h) for h in hyps]
    g = walk(goal)
    extra = []
    for key, (m, names) in mono.items():
        # even powers are non-negative
        from collections import Counter
        if all(c % 2 == 0 for c in Counter(names).values()):
            extra.append(m >= 0)
    return hs + extra, g


def prune_defs(named_hyps, goal):
    """drop definitional facts ('def:<atom>') of auxiliary atoms that occur neither in the goal nor in any remaining fact.
    Dropping hypotheses is always sound; this removes the clutter of quotient / sqrt / min / max atoms that the goal does not
    depend on (a large speed-up for nlsat)."""
    cache = {}
    items = list(named_hyps)
    gv = _vars_of(goal, cache)
    changed = True
    while changed:
        changed = False
        used = set(gv)
        counts = {}
        for n, h in items:
            for v in _vars_of(h, cache):
                counts[v] = counts.get(v, 0) + 1
        keep = []
        for n, h in items:
            if n.startswith("def:"):
                atom = n[4:]
                # referenced elsewhere?
                vs = _vars_of(h, cache)
                if atom in vs and atom not in gv and counts.get(atom, 0) <= 1:
                    changed = True
                    continue
            keep.append((n, h))
        items = keep
    return items


def core_hyps(named_hyps, goal):
    """hypotheses without the by-products of earlier proof steps: facts 'proved:*' (assert-then-assume of earlier obligations)
    are dropped, definitional facts 'def:*' are kept only for atoms the goal (transitively) mentions.  Sound: a subset."""
    cache = {}
    need = set(_vars_of(goal, cache))
    defs = {}
    rest = []
    for n, h in named_hyps:
        if n.startswith("proved:"):
            continue
        if n.startswith("def:"):
            defs[n[4:]] = h
            continue
        rest.append(h)
        need |= _vars_of(h, cache)
    out = list(rest)
    changed = True
    used = set()
    while changed:
        changed = False
        for atom, h in defs.items():
            if atom in need and atom not in used:
                used.add(atom)
                out.append(h)
                need |= _vars_of(h, cache)
                changed = True
    return out


def near_hyps(hyps, goal):
    """hypotheses that share a variable with the goal directly (no transitive closure); sound: fewer hypotheses"""
    cache = {}
    gv = set(_vars_of(goal, cache))
    return [h for h in hyps if (_vars_of(h, cache) & gv)]


def cone_of_influence(hyps, goal):
    cache = {}
    gv = set(_vars_of(goal, cache))
    hv = [(_vars_of(h, cache), h) for h in hyps]
    keep = [False] * len(hv)
    changed = True
    while changed:
        changed = False
        for i, (vs, h) in enumerate(hv):
            if not keep[i] and (vs & gv or not vs):
                keep[i] = True
                if not vs <= gv:
                    gv |= vs
                    changed = True
    return [h for k, (_, h) in zip(keep, hv) if k]
