"""Specification library: poses, shape membership predicates (the oracle of C03/C04/C13), input constructors.

Everything here is mode-polymorphic: with a symbolic context it builds S/B terms, with a concrete context it
computes floats / CB slacks, so the same contract text is proved and replayed.
"""
import math

import numpy as np

from .poly import Poly
from .sym import S, B, CB, is_num


def sym(cx):
    return cx.mode == "sym"


def arr(cx, xs):
    a = np.empty(len(xs), dtype=object if sym(cx) else float)
    for i, x in enumerate(xs):
        a[i] = x
    return a


def dot(a, b):
    r = 0.0
    for x, y in zip(a, b):
        r = r + x * y
    return r


def sq(a):
    return dot(a, a)


def cross(a, b):
    return [a[1] * b[2] - a[2] * b[1], a[2] * b[0] - a[0] * b[2], a[0] * b[1] - a[1] * b[0]]


CUBE_GROUP = None


def _cube_group():
    global CUBE_GROUP
    if CUBE_GROUP is None:
        import itertools
        g = []
        for perm in itertools.permutations(range(3)):
            for signs in itertools.product([1, -1], repeat=3):
                m = np.zeros((3, 3))
                for i, p in enumerate(perm):
                    m[i, p] = signs[i]
                if np.linalg.det(m) > 0:
                    g.append(m)
        CUBE_GROUP = g
    return CUBE_GROUP


def _project_rotation(m):
    u, _, vt = np.linalg.svd(m)
    r = u @ vt
    if np.linalg.det(r) < 0:
        u[:, -1] *= -1
        r = u @ vt
    return r


def pose(cx, name, reduce="cols", tlim=1e3):
    """4x4 rigid transform.  Symbolic: entries <name>_R<i><j>, <name>_t<i>; orthonormality is stated as facts
    named orth:<name>:...; with reduce='cols' the six relations R^T R = I are additionally installed as rewrite
    rules (products of two last-row entries are eliminated), so frame-disciplined code sees R disappear."""
    T = np.empty((4, 4), dtype=object if sym(cx) else float)
    if not sym(cx):
        have = all(("%s_R%d%d" % (name, i, j)) in cx.values for i in range(3) for j in range(3))
        if have:
            m = np.array([[cx.values["%s_R%d%d" % (name, i, j)] for j in range(3)] for i in range(3)], dtype=float)
            r = _project_rotation(m)
        else:
            u = cx.rng.random()
            if u < 0.3:
                r = cx.rng.choice(_cube_group())
            else:
                q = np.array([cx.rng.gauss(0, 1) for _ in range(4)])
                q /= np.linalg.norm(q)
                w, x, y, z = q
                r = np.array([[1 - 2 * (y * y + z * z), 2 * (x * y - z * w), 2 * (x * z + y * w)],
                              [2 * (x * y + z * w), 1 - 2 * (x * x + z * z), 2 * (y * z - x * w)],
                              [2 * (x * z - y * w), 2 * (y * z + x * w), 1 - 2 * (x * x + y * y)]])
        for i in range(3):
            for j in range(3):
                cx.values["%s_R%d%d" % (name, i, j)] = float(r[i, j])
                T[i, j] = r[i, j]
        for i in range(3):
            T[i, 3] = cx.real("%s_t%d" % (name, i), lo=-10.0, hi=10.0)
        T[3, :] = [0.0, 0.0, 0.0, 1.0]
        return np.ascontiguousarray(T)
    R = [[cx.real("%s_R%d%d" % (name, i, j)) for j in range(3)] for i in range(3)]
    t = [cx.real("%s_t%d" % (name, i)) for i in range(3)]
    vt = cx.vt
    ids = [[vt.ids["%s_R%d%d" % (name, i, j)] for j in range(3)] for i in range(3)]
    zr = [[vt.z3[ids[i][j]] for j in range(3)] for i in range(3)]
    # orthonormality as raw z3 facts (never rewritten), so that counter-models are rotations
    import z3 as _z3
    for i in range(3):
        for k in range(i, 3):
            cx.facts.append(("orth:%s:col%d%d" % (name, i, k),
                             sum(zr[j][i] * zr[j][k] for j in range(3)) == (1 if i == k else 0)))
            cx.facts.append(("orth:%s:row%d%d" % (name, i, k),
                             sum(zr[i][j] * zr[k][j] for j in range(3)) == (1 if i == k else 0)))
    cx.facts.append(("orth:%s:det" % name,
                     zr[0][0] * (zr[1][1] * zr[2][2] - zr[1][2] * zr[2][1]) - zr[0][1] * (zr[1][0] * zr[2][2] - zr[1][2] * zr[2][0])
                     + zr[0][2] * (zr[1][0] * zr[2][1] - zr[1][1] * zr[2][0]) == 1))
    # every entry of a rotation is in [-1, 1]: nine small lemmas (each its own obligation, from one row-norm fact);
    # they make radicands like 1 - R_k2^2 of the AABB formulas immediate
    for i in range(3):
        for j in range(3):
            g = zr[i][j] * zr[i][j] <= 1
            cx.prove("pose_entry_le_1:%s[%d,%d]" % (name, i, j), B(g), kind="lemma", prop_level=False,
                     use=["orth:%s:row%d%d" % (name, i, i)])
    if reduce:
        # Groebner basis of the ideal of SO(3) (computed by sympy, 20 elements, all leading monomials are products of
        # two entries): polynomials in the entries of R are kept in normal form modulo "R is a rotation"
        for (a, b), rhs in _so3_rules():
            va, vb = ids[a[0]][a[1]], ids[b[0]][b[1]]
            p = Poly()
            for mono, c in rhs:
                m = Poly.const(c)
                for (i, j), e in mono:
                    for _ in range(e):
                        m = m * Poly.var(ids[i][j])
                p = p + m
            cx.rules[(min(va, vb), max(va, vb))] = p
    for i in range(3):
        for j in range(3):
            T[i, j] = R[i][j]
        T[i, 3] = t[i]
        T[3, i] = 0.0
    T[3, 3] = 1.0
    if tlim is not None:
        for i in range(3):
            cx.assume((t[i] >= -tlim) & (t[i] <= tlim), "dom:%s_t%d" % (name, i))
    return T


_SO3 = None


def _so3_rules():
    """[((i,j),(k,l)) leading product, replacement as list of (monomial, coeff)] from the reduced Groebner basis"""
    global _SO3
    if _SO3 is not None:
        return _SO3
    import sympy as sp
    from fractions import Fraction
    r = sp.symbols("r00 r01 r02 r10 r11 r12 r20 r21 r22")
    idx = {r[3 * i + j]: (i, j) for i in range(3) for j in range(3)}
    R = sp.Matrix(3, 3, r)
    gens = []
    for M in (R.T * R - sp.eye(3), R * R.T - sp.eye(3)):
        for i in range(3):
            for j in range(i, 3):
                gens.append(sp.expand(M[i, j]))
    gens.append(sp.expand(R.det() - 1))
    order = [r[6], r[7], r[8], r[3], r[4], r[5], r[0], r[1], r[2]]
    G = sp.groebner(gens, *order, order="grevlex")
    rules = []
    for g in G.exprs:
        P = sp.Poly(g, *order)
        terms = P.terms(order="grevlex")
        (lm, lc) = terms[0]
        lead = [(idx[order[k]], e) for k, e in enumerate(lm) if e]
        assert sum(e for _, e in lead) == 2, "unexpected leading monomial in SO(3) basis"
        if len(lead) == 1:
            a = b = lead[0][0]
        else:
            a, b = lead[0][0], lead[1][0]
        rhs = []
        for m, c in terms[1:]:
            mono = tuple((idx[order[k]], e) for k, e in enumerate(m) if e)
            rhs.append((mono, Fraction(int(sp.numer(-c / lc)), int(sp.denom(-c / lc)))))
        rules.append(((a, b), rhs))
    _SO3 = rules
    return rules


def rot(T):
    return T[:3, :3]


def to_world_point(cx, T, y):
    return arr(cx, [T[i, 3] + T[i, 0] * y[0] + T[i, 1] * y[1] + T[i, 2] * y[2] for i in range(3)])


def to_world_dir(cx, T, y):
    return arr(cx, [T[i, 0] * y[0] + T[i, 1] * y[1] + T[i, 2] * y[2] for i in range(3)])


def to_local_point(cx, T, x):
    d = [x[i] - T[i, 3] for i in range(3)]
    return arr(cx, [T[0, j] * d[0] + T[1, j] * d[1] + T[2, j] * d[2] for j in range(3)])


def to_local_dir(cx, T, d):
    return arr(cx, [T[0, j] * d[0] + T[1, j] * d[1] + T[2, j] * d[2] for j in range(3)])


def world_dir(cx, name, T, nonzero=True):
    """a world direction, parameterised by its local coordinates (d = R delta; bijection since R is invertible)"""
    delta = cx.vec(name + "_loc")
    if nonzero:
        if sym(cx):
            cx.assume(sq(delta) > 0, "nonzero:" + name)
        else:
            cx.assume(CB(-sq(delta) + 1e-300), "nonzero:" + name)
    return to_world_dir(cx, T, delta), delta


def world_point(cx, name, T):
    xi = cx.vec(name + "_loc")
    return to_world_point(cx, T, xi), xi


def unit_vector(cx, name):
    """unit 3-vector"""
    if sym(cx):
        n = cx.vec(name)
        cx.assume(sq(n) == 1.0, "unit:" + name)
        return n
    have = all(("%s_%d" % (name, i)) in cx.values for i in range(3))
    if have:
        v = np.array([cx.values["%s_%d" % (name, i)] for i in range(3)])
    else:
        if cx.rng.random() < 0.3:
            v = np.zeros(3)
            v[cx.rng.randrange(3)] = cx.rng.choice([-1.0, 1.0])
        else:
            v = np.array([cx.rng.gauss(0, 1) for _ in range(3)])
    v = v / np.linalg.norm(v)
    for i in range(3):
        cx.values["%s_%d" % (name, i)] = float(v[i])
    return np.ascontiguousarray(v)


def size(cx, name, lo=1e-2, hi=1e2):
    """feature size in the declared domain D (pass lo=0.2 for the primitive domain P)"""
    return cx.real(name, lo=lo, hi=hi)


# --------------------------------------------------------------------------------------------------
# shape membership in the local frame.  Each returns a B / CB.  `scale` normalises concrete slacks to lengths.
# --------------------------------------------------------------------------------------------------
def _len_slack(cx, lhs_sq, rhs_sq):
    """lhs_sq <= rhs_sq for squared lengths; concrete slack measured in length units"""
    if sym(cx):
        return lhs_sq <= rhs_sq
    return CB(math.sqrt(max(lhs_sq, 0.0)) - math.sqrt(max(rhs_sq, 0.0)))


def in_cylinder_local(cx, y, r, L):
    return cx.all([_len_slack(cx, y[0] * y[0] + y[1] * y[1], r * r), cx.le(y[2], 0.5 * L), cx.le(-0.5 * L, y[2])])


def in_box_local(cx, y, half):
    return cx.all([cx.le(y[i], half[i]) for i in range(3)] + [cx.le(-half[i], y[i]) for i in range(3)])


def in_ball(cx, x, c, r):
    return _len_slack(cx, sq([x[i] - c[i] for i in range(3)]), r * r)


def in_ellipsoid_local(cx, y, radii):
    if sym(cx):
        a, b, c = radii
        return y[0] * y[0] * (b * b * c * c) + y[1] * y[1] * (a * a * c * c) + y[2] * y[2] * (a * a * b * b) <= a * a * b * b * c * c
    s = math.sqrt(sum((y[i] / radii[i]) ** 2 for i in range(3)))
    return CB((s - 1.0) * float(min(radii)))


def in_capsule_local(cx, y, r, h, t):
    """t is the witness/Skolem parameter of the axis point (0,0,t), |t| <= h/2"""
    return cx.all([cx.le(t, 0.5 * h), cx.le(-0.5 * h, t),
                   _len_slack(cx, y[0] * y[0] + y[1] * y[1] + (y[2] - t) * (y[2] - t), r * r)])


def in_cone_local(cx, y, r, h):
    """cone with base disk radius r at z=0 and apex at z=h"""
    if sym(cx):
        return cx.all([y[2] >= 0.0, y[2] <= h, (y[0] * y[0] + y[1] * y[1]) * (h * h) <= (r * r) * (h - y[2]) * (h - y[2])])
    rho = math.sqrt(y[0] ** 2 + y[1] ** 2)
    return cx.all([CB(-y[2]), CB(y[2] - h), CB(rho - r * (1.0 - y[2] / h))])


# --------------------------------------------------------------------------------------------------
# lemma library: each lemma instance is justified by a polynomial identity that is CHECKED in normal form here
# --------------------------------------------------------------------------------------------------
def _is_zero(x):
    if is_num(x):
        return x == 0
    return isinstance(x, S) and not x.p.d


def cs_fact(cx, u, v, name):
    """Cauchy-Schwarz instance (u.v)^2 <= |u|^2 |v|^2, from Lagrange's identity |u|^2|v|^2 - (u.v)^2 = |u x v|^2,
    which is verified syntactically (polynomial normal form) before the fact is added."""
    if not sym(cx):
        return
    from .sym import ContractError
    u = list(u) + [0.0] * (3 - len(u))
    v = list(v) + [0.0] * (3 - len(v))
    uv = dot(u, v)
    lhs = sq(u) * sq(v) - uv * uv
    c = cross(u, v)
    if not _is_zero(lhs - sq(c)):
        raise ContractError("Lagrange identity failed to normalise to 0 (%s)" % name)
    f = (uv * uv <= sq(u) * sq(v))
    if isinstance(f, B):
        cx.facts.append(("lemma:cs:" + name, f.t))


def cs_bound(cx, u, v, bu, bv, name):
    """derived rule:  |u|^2 <= bu^2, |v|^2 <= bv^2, bu, bv >= 0   |-   u.v <= bu*bv.
    Premises are proved as obligations of their own, Cauchy-Schwarz comes from the checked Lagrange identity and the
    remaining scalar step is proved once over fresh atoms (so it is a lemma valid for all values)."""
    if not sym(cx):
        return
    import z3
    from .sym import ContractError
    u = list(u) + [0.0] * (3 - len(u))
    v = list(v) + [0.0] * (3 - len(v))
    uv = dot(u, v)
    if not _is_zero(sq(u) * sq(v) - uv * uv - sq(cross(u, v))):
        raise ContractError("Lagrange identity failed to normalise to 0 (%s)" % name)
    cx.lemma(name + ":|u|<=bu", sq(u) <= bu * bu)
    cx.lemma(name + ":|v|<=bv", sq(v) <= bv * bv)
    cx.lemma(name + ":bu>=0", bu >= 0)
    cx.lemma(name + ":bv>=0", bv >= 0)
    A, U, V, BU, BV = [z3.Real("csb_%s" % n) for n in "A U V BU BV".split()]
    core = z3.Implies(z3.And(A * A <= U * V, U >= 0, V >= 0, U <= BU * BU, V <= BV * BV, BU >= 0, BV >= 0), A <= BU * BV)
    cx.prove("cs_scalar_core", B(core), kind="lemma", prop_level=False, use=[])
    f = (uv <= bu * bv)
    if isinstance(f, B):
        cx.facts.append(("lemma:csb:" + name, f.t))
