"""Loop contracts: AST instrumentation of designated loops and the run-time hooks that generate the obligations

    invariant holds on entry            (kind loop_init)
    invariant + guard  => invariant after the body, variant decreased and bounded below   (kind loop_preserve / loop_variant)
    invariant + not guard               is what the code after the loop may use (facts on the exit path)

The loop body that is executed is the repository's own statement list (only `continue` is rewritten to the back-edge hook
and `len(...)` to a length function that understands symbolic containers)."""
import ast
import copy

import numpy as np
import z3

from .sym import Ctx, S, B, PathEnd, Unsupported, ContractError, bz, is_num
from .poly import Poly
from . import zarr


class LoopSpec:
    """side-car description of one loop: invariant(env) -> list of (name, B/bool); variant(env) -> SI/int or None;
    havoc: optional dict var -> callable(old_value) -> fresh value; ghost(env) may add ghost entries to env"""

    def __init__(self, invariant, variant=None, havoc=None, keep=(), on_exit=None, prop_level=False, progress=None, havoc_state=None):
        self.invariant, self.variant, self.havoc_map, self.keep = invariant, variant, havoc or {}, set(keep)
        self.progress = progress      # progress(env_at_loop_head, env_at_back_edge) -> B : e.g. a ghost rank strictly moved
        self.on_exit = on_exit
        self.prop_level = prop_level
        self.havoc_state = havoc_state    # havoc_state(env): replaces object state the body mutates through attributes / method calls


class _Active:
    def __init__(self, key, spec, cx):
        self.key, self.spec, self.cx = key, spec, cx
        self.v0 = None

    def _inv(self, env):
        return list(self.spec.invariant(env))

    def enter(self, env):
        for name, cond in self._inv(env):
            self.cx.prove("loop_init[%s#%d]:%s" % (self.key[0].split(".")[-1], self.key[1], name), cond, kind="loop_init",
                          prop_level=self.spec.prop_level)

    def havoc(self, name, env):
        old = env.get(name, None)
        if name in self.spec.keep:
            return old
        if name in self.spec.havoc_map:
            return self.spec.havoc_map[name](old)
        cx = self.cx
        stem = "h_%s_%s" % (self.key[0].split(".")[-1], name)
        if isinstance(old, (bool, np.bool_)):
            raise Unsupported("havoc of boolean %s needs an explicit rule" % name)
        if isinstance(old, (zarr.SI, int, np.integer)):
            return zarr.SI(zarr._fresh(stem, z3.IntSort()))
        if isinstance(old, (S, float)):
            nm, s = cx.fresh(stem)
            return s
        if isinstance(old, zarr.ZTable):
            return zarr.ZTable.fresh(stem, len(old.cols), old.nrows)
        if isinstance(old, zarr.ZBoxes):
            return zarr.ZBoxes.fresh(stem, old.nrows)
        if isinstance(old, (zarr.ZList, list)):
            return zarr.ZList.fresh(stem)
        if old is None:
            return None
        raise Unsupported("cannot havoc %s of type %s" % (name, type(old).__name__))

    def assume(self, env):
        if self.spec.havoc_state is not None:
            self.spec.havoc_state(env)
        for name, cond in self._inv(env):
            self.cx.assume(cond, "inv[%s#%d]:%s" % (self.key[0].split(".")[-1], self.key[1], name))
        if self.spec.variant is not None:
            self.v0 = self.spec.variant(env)
        self.env0 = dict(env)

    def back(self, env):
        if self.spec.progress is not None:
            self.cx.prove("loop_progress[%s#%d]" % (self.key[0].split(".")[-1], self.key[1]), self.spec.progress(self.env0, env),
                          kind="loop_variant", prop_level=False)
        for name, cond in self._inv(env):
            self.cx.prove("loop_preserve[%s#%d]:%s" % (self.key[0].split(".")[-1], self.key[1], name), cond, kind="loop_preserve",
                          prop_level=self.spec.prop_level)
        if self.spec.variant is not None:
            v1 = self.spec.variant(env)
            dec = B(z3.And(zarr.zint(v1) < zarr.zint(self.v0), zarr.zint(self.v0) >= 0)) \
                if not (isinstance(v1, int) and isinstance(self.v0, int)) else (v1 < self.v0 and self.v0 >= 0)
            self.cx.prove("loop_variant[%s#%d]" % (self.key[0].split(".")[-1], self.key[1]), dec, kind="loop_variant", prop_level=False)
        raise PathEnd("loop back edge")

    def exit(self, env):
        if self.spec.on_exit is not None:
            self.spec.on_exit(env)


def loop_hook(fn_qualname, k):
    cx = Ctx.cur
    if cx is None or cx.mode != "sym":
        return None
    spec = getattr(cx, "loop_specs", {}).get((fn_qualname, k))
    if spec is None:
        return None
    return _Active((fn_qualname, k), spec, cx)


# ---------------------------------------------------------------------------------------------- AST instrumentation
def _modified_names(body):
    names = []

    def tgt(t):
        if isinstance(t, ast.Name):
            names.append(t.id)
        elif isinstance(t, (ast.Tuple, ast.List)):
            for e in t.elts:
                tgt(e)
        elif isinstance(t, ast.Subscript):
            b = t.value
            while isinstance(b, ast.Subscript):
                b = b.value
            if isinstance(b, ast.Name):
                names.append(b.id)
        elif isinstance(t, ast.Starred):
            tgt(t.value)

    for node in ast.walk(ast.Module(body, [])):
        if isinstance(node, ast.Assign):
            for t in node.targets:
                tgt(t)
        elif isinstance(node, (ast.AugAssign, ast.AnnAssign)):
            tgt(node.target)
        elif isinstance(node, ast.For):
            tgt(node.target)
        elif isinstance(node, ast.Call) and isinstance(node.func, ast.Attribute) and node.func.attr in ("extend", "append", "update", "add") \
                and isinstance(node.func.value, ast.Name):
            names.append(node.func.value.id)
    out = []
    for n in names:
        if n not in out and not n.startswith("__"):
            out.append(n)
    return out


class _ContinueRewriter(ast.NodeTransformer):
    def __init__(self, lp_name):
        self.lp = lp_name

    def visit_While(self, node):
        return node     # nested loops keep their own continue/break

    def visit_For(self, node):
        return node

    def visit_Continue(self, node):
        return ast.Expr(ast.Call(ast.Attribute(ast.Name(self.lp, ast.Load()), "back", ast.Load()),
                                 [ast.Call(ast.Name("locals", ast.Load()), [], [])], []))


def instrument_function(fdef, qualname, which):
    """rewrite the loops with ordinals in `which` (ordinal = position in a pre-order walk of the function's While/For nodes)"""
    counter = {"k": 0}

    def rewrite_block(stmts):
        out = []
        for st in stmts:
            if isinstance(st, (ast.While, ast.For)):
                k = counter["k"]
                counter["k"] += 1
                # nested loops are numbered after their parent
                st.body = rewrite_block(st.body)
                st.orelse = rewrite_block(st.orelse)
                if k in which:
                    out.extend(_instrument_loop(st, qualname, k))
                else:
                    out.append(st)
            else:
                for field in ("body", "orelse", "finalbody"):
                    if hasattr(st, field) and isinstance(getattr(st, field), list) and not isinstance(st, (ast.FunctionDef, ast.ClassDef)):
                        setattr(st, field, rewrite_block(getattr(st, field)))
                if isinstance(st, ast.Try):
                    for h in st.handlers:
                        h.body = rewrite_block(h.body)
                out.append(st)
        return out

    fdef.body = rewrite_block(fdef.body)
    return fdef


def _call(obj, meth, *args):
    return ast.Call(ast.Attribute(ast.Name(obj, ast.Load()), meth, ast.Load()), list(args), [])


def _locals():
    return ast.Call(ast.Name("locals", ast.Load()), [], [])


def _instrument_loop(loop, qualname, k):
    lp = "__lp%d" % k
    orig = copy.deepcopy(loop)
    mods = _modified_names(loop.body)
    body = [_ContinueRewriter(lp).visit(copy.deepcopy(s)) for s in loop.body]
    pre = [ast.Assign([ast.Name(lp, ast.Store())],
                      ast.Call(ast.Name("__d3vc_loop__", ast.Load()), [ast.Constant(qualname), ast.Constant(k)], []))]
    sym = [ast.Expr(_call(lp, "enter", _locals()))]
    if isinstance(loop, ast.While):
        for m in mods:
            sym.append(ast.Assign([ast.Name(m, ast.Store())], _call(lp, "havoc", ast.Constant(m), _locals())))
        sym.append(ast.Expr(_call(lp, "assume", _locals())))
        inner = [ast.If(ast.UnaryOp(ast.Not(), loop.test), [ast.Break()], [])] + body + [ast.Expr(_call(lp, "back", _locals()))]
        sym.append(ast.While(ast.Constant(True), inner, []))
        sym.append(ast.Expr(_call(lp, "exit", _locals())))
    else:
        raise Unsupported("for-loop contracts are not implemented (%s loop %d)" % (qualname, k))
    node = ast.If(ast.Compare(ast.Name(lp, ast.Load()), [ast.Is()], [ast.Constant(None)]), [orig], sym)
    return pre + [node]


class LenRewriter(ast.NodeTransformer):
    def visit_Call(self, node):
        self.generic_visit(node)
        if isinstance(node.func, ast.Name) and node.func.id == "len" and len(node.args) == 1 and not node.keywords:
            node.func = ast.Name("__d3vc_len__", ast.Load())
        return node


# ---------------------------------------------------------------------------------------------- compound conditions
class CompoundConditionRewriter(ast.NodeTransformer):
    """`if a <= b <= c and d > e:` is decided as ONE condition instead of one fork per comparison, when every operand is a pure
    arithmetic expression over local names and constants (no call, subscript, attribute or division, so eager evaluation cannot
    raise or have a side effect and Python's short-circuit order is unobservable).  Fewer paths, and the negation stays a
    disjunction, which is how the geometric region tests are meant to be read."""

    def _pure(self, e):
        if isinstance(e, ast.Constant):
            return isinstance(e.value, (int, float, bool))
        if isinstance(e, ast.Name):
            return True
        if isinstance(e, ast.UnaryOp) and isinstance(e.op, (ast.USub, ast.UAdd)):
            return self._pure(e.operand)
        if isinstance(e, ast.BinOp) and isinstance(e.op, (ast.Add, ast.Sub, ast.Mult)):
            return self._pure(e.left) and self._pure(e.right)
        return False

    def _safe(self, t):
        if isinstance(t, ast.Compare):
            return all(isinstance(o, (ast.Lt, ast.LtE, ast.Gt, ast.GtE)) for o in t.ops) and self._pure(t.left) and all(self._pure(c) for c in t.comparators)
        if isinstance(t, ast.BoolOp):
            return all(self._safe(v) for v in t.values)
        if isinstance(t, ast.UnaryOp) and isinstance(t.op, ast.Not):
            return self._safe(t.operand)
        return False

    def _build(self, t):
        if isinstance(t, ast.Compare):
            parts = []
            left = t.left
            for op, right in zip(t.ops, t.comparators):
                parts.append(ast.Compare(left, [op], [right]))
                left = right
            if len(parts) == 1:
                return parts[0]
            return ast.Call(ast.Name("__d3vc_and__", ast.Load()), parts, [])
        if isinstance(t, ast.BoolOp):
            fn = "__d3vc_and__" if isinstance(t.op, ast.And) else "__d3vc_or__"
            return ast.Call(ast.Name(fn, ast.Load()), [self._build(v) for v in t.values], [])
        if isinstance(t, ast.UnaryOp):
            return ast.Call(ast.Name("__d3vc_not__", ast.Load()), [self._build(t.operand)], [])
        return t

    def _rewrite_test(self, test):
        if isinstance(test, (ast.BoolOp,)) or (isinstance(test, ast.Compare) and len(test.ops) > 1) or \
                (isinstance(test, ast.UnaryOp) and isinstance(test.op, ast.Not) and isinstance(test.operand, ast.BoolOp)):
            if self._safe(test):
                return self._build(test)
        return test

    def visit_If(self, node):
        self.generic_visit(node)
        node.test = self._rewrite_test(node.test)
        return node

    def visit_Assert(self, node):
        self.generic_visit(node)
        node.test = self._rewrite_test(node.test)
        return node


def d3vc_and(*xs):
    ts = []
    for x in xs:
        if isinstance(x, (bool, np.bool_)):
            if not x:
                return False
            continue
        ts.append(x)
    if not ts:
        return True
    r = ts[0]
    for t in ts[1:]:
        r = r & t
    return r


def d3vc_or(*xs):
    ts = []
    for x in xs:
        if isinstance(x, (bool, np.bool_)):
            if x:
                return True
            continue
        ts.append(x)
    if not ts:
        return False
    r = ts[0]
    for t in ts[1:]:
        r = r | t
    return r


def d3vc_not(x):
    if isinstance(x, (bool, np.bool_)):
        return not x
    return ~x
