"""./check <property-id> --tier quick|thorough   (see MANIFEST.json)

exit 0: every obligation generated from /repo's current working tree was discharged (KNOWN-FINDING lines allowed)
exit 1: a property-level obligation failed -> 'VIOLATION property=<id> replay=<path>' (one line per failure)
exit 2: undecided (solver budget) on unchanged code -- the check is broken, nothing is claimed
exit 3: checker crash, canary proved, vacuous precondition
"""
import argparse
import fnmatch
import glob
import hashlib
import importlib
import json
import multiprocessing as mp
import os
import signal
import subprocess
import sys
import time
import traceback

VERIF = os.path.dirname(os.path.dirname(os.path.abspath(__file__)))
sys.path.insert(0, VERIF)
os.environ.setdefault("D3VC_WORK", os.path.join(VERIF, ".work"))
os.makedirs(os.environ["D3VC_WORK"], exist_ok=True)
if os.environ.get("D3VC_REPO"):      # scratch copy under test: native replay must import the same tree the VCs came from
    sys.path.insert(0, os.environ["D3VC_REPO"])

from d3vc import engine, solve  # noqa: E402
from d3vc.loader import Repo  # noqa: E402

ASSUMPTIONS_COMMON = [
    "float64 arithmetic is treated as exact real arithmetic (no rounding, NaN, inf, overflow); int64 as mathematical integers",
    "d3vc itself (proxy symbolic executor, numpy/math/numba model in d3vc/npmodel.py, polynomial normaliser) is trusted; "
    "mitigations: canary obligations, cover checks, native cross-execution of every contract on the real JIT-compiled code",
    "z3 5.1 / z3 4.8.12 / cvc5 1.0.3 are trusted for 'unsat'",
    "the specification library d3vc/spec.py (shape membership predicates, pose axioms) is the oracle and is hand-written",
    "numba compiles the verified source with the modelled (numpy) semantics on in-bounds, well-typed programs",
]


def load_contracts():
    for p in sorted(glob.glob(os.path.join(VERIF, "contracts", "*.py"))):
        name = os.path.basename(p)[:-3]
        if name.startswith("_"):
            continue
        importlib.import_module("contracts." + name)
    return engine.CONTRACTS


def _stubs():
    """distance3d.visualization needs open3d (libusb is missing in this sandbox); the hydroelastic package imports one class from it"""
    import types

    class RigidBodyTetrahedralMesh:
        def __init__(self, *a, **k):
            pass
    m = types.SimpleNamespace(RigidBodyTetrahedralMesh=RigidBodyTetrahedralMesh, Mesh=RigidBodyTetrahedralMesh, Ellipse=RigidBodyTetrahedralMesh)
    return {"distance3d.visualization": m}


def _explore_worker(cname):
    try:
        signal.signal(signal.SIGINT, signal.SIG_IGN)
        c = engine.CONTRACTS[cname]
        repo = Repo(loop_contracts=c.loops, stubs=_stubs())
        t0 = time.time()
        res = engine.explore(c, repo)
        recs = engine.serialise(c, res) if res["status"] == "ok" else []
        mods = sorted(m for m in repo.cache if isinstance(m, str))
        hashes = {}
        for m in mods:
            p, _ = repo.path_of(m)
            if p:
                with open(p, "rb") as f:
                    hashes[m] = hashlib.sha256(f.read()).hexdigest()[:16]
        fninfo = {}
        for q in [c.fn] + c.deps:
            try:
                fninfo[q] = dict(hash=repo.fn_hash(q), loc=repo.fn_loc(q))
            except Exception as e:
                fninfo[q] = dict(hash=None, loc="?", error=str(e))
        return dict(contract=cname, status=res["status"], note=res["note"], paths=res["paths"], recs=recs,
                    seconds=round(time.time() - t0, 2), modules=hashes, functions=fninfo)
    except Exception:
        return dict(contract=cname, status="crash", note=traceback.format_exc(), paths=0, recs=[], seconds=0.0, modules={},
                    functions={})


def _solve_worker(args):
    rec, seed, scale = args
    signal.signal(signal.SIGINT, signal.SIG_IGN)
    try:
        return solve.discharge(rec, seed=seed, budget_scale=scale)
    except Exception:
        return dict(status="unknown", backend=None, variant=None, seconds=0.0, attempts=[("-", "-", "crash", 0)], model=None,
                    crash=traceback.format_exc())


def _concrete_worker(args):
    cname, values, seed = args
    signal.signal(signal.SIGINT, signal.SIG_IGN)
    try:
        c = engine.CONTRACTS[cname]
        out = engine.run_concrete(c, values, seed)
        return dict(ok=True, out=dict(report=out["report"], values=out["values"], notes=out["notes"], ended=out["ended"]))
    except Exception:
        return dict(ok=False, err=traceback.format_exc())


def run_concrete_subprocess(cname, values, seed, timeout=180):
    """replay on the real code in a fresh interpreter under a watchdog (a hang is a finding, not a checker hang)"""
    payload = json.dumps(dict(contract=cname, values=values, seed=seed))
    cmd = [sys.executable, "-m", "d3vc.cli", "--concrete-json"]
    try:
        p = subprocess.run(cmd, input=payload, capture_output=True, text=True, timeout=timeout, cwd=VERIF)
    except subprocess.TimeoutExpired:
        return dict(ok=False, err="timeout after %ds (native execution did not return)" % timeout, hang=True)
    try:
        return json.loads(p.stdout.strip().splitlines()[-1])
    except Exception:
        return dict(ok=False, err="replay process failed: rc=%s stderr=%s" % (p.returncode, p.stderr[-2000:]))


def _bounded_batch(args):
    """run one contract concretely on n random inputs (real code, JIT as installed); returns failures + counts"""
    cname, seed0, n = args
    signal.signal(signal.SIGINT, signal.SIG_IGN)
    c = engine.CONTRACTS[cname]
    fails, used, skipped, errors = [], 0, 0, []
    sample = None
    n = n * int((c.opts or {}).get("fuzz_mult", 1))      # cheap run-time contracts with many leaves ask for more inputs
    for k in range(n):
        seed = seed0 * 1000003 + k
        try:
            out = engine.run_concrete(c, {}, seed)
        except Exception:
            errors.append(traceback.format_exc()[-1500:])
            break
        pre_ok, f = engine.judge_concrete(out)
        if not pre_ok:
            skipped += 1
            continue
        used += 1
        if sample is None:
            sample = {k2: round(v, 6) for k2, v in list(out["values"].items())[:12]}
        if f:
            fails.append(dict(seed=seed, values=out["values"], failures=f, notes=out["notes"]))
            if len(fails) >= 3:
                break
    return dict(contract=cname, used=used, skipped=skipped, fails=fails, errors=errors, sample=sample)


def load_known_findings():
    p = os.path.join(VERIF, "known_findings.json")
    if not os.path.exists(p):
        return []
    with open(p) as f:
        return json.load(f).get("findings", [])


def _glob(pattern, text):
    """'*' is the only wildcard (names contain brackets, which fnmatch would treat as character classes)"""
    import re
    return re.fullmatch(re.escape(pattern).replace(r"\*", ".*"), text) is not None


def finding_for(kf, pid, contract, obligation):
    for e in kf:
        if e.get("status") != "finding":
            continue
        if pid not in e.get("properties", [e.get("property")]):
            continue
        if _glob(e.get("contract", "*"), contract) and _glob(e.get("obligation", "*"), obligation):
            return e
    return None


def main(argv=None):
    ap = argparse.ArgumentParser()
    ap.add_argument("property", nargs="?")
    ap.add_argument("--tier", default=os.environ.get("VERIF_TIER", "quick"))
    ap.add_argument("--contract", default=None, help="fnmatch pattern on contract names")
    ap.add_argument("--replay", default=None)
    ap.add_argument("-v", "--verbose", action="count", default=0)
    ap.add_argument("--concrete-json", action="store_true")
    ap.add_argument("--no-bounded", action="store_true")
    ap.add_argument("--list", action="store_true")
    ap.add_argument("--jobs", type=int, default=int(os.environ.get("D3VC_JOBS", "16")))
    ap.add_argument("--no-evidence", action="store_true")
    args = ap.parse_args(argv)

    contracts = load_contracts()

    if args.concrete_json:
        req = json.loads(sys.stdin.read())
        res = _concrete_worker((req["contract"], req["values"], req.get("seed", 0)))
        print(json.dumps(res, default=str))
        return 0

    if args.list:
        for n, c in sorted(contracts.items()):
            print(n, c.fn, c.props)
        return 0

    if args.replay:
        return replay_cmd(args.replay)

    pid = args.property
    seed = int(os.environ.get("VERIF_SEED", "0") or 0)
    from d3vc import props as propmod
    return propmod.run_property(pid, args, contracts, seed)


def replay_cmd(path):
    with open(path) as f:
        rp = json.load(f)
    print("replaying", rp["contract"], rp["obligation"])
    if rp["contract"] not in engine.CONTRACTS:
        # a case found by a bounded harness (bounded/<pid>.py): the file carries the concrete input and how to build it; the harness
        # regenerates the same case deterministically from (tier, seed), there is no single-case entry point
        print("bounded-harness case (not a d3vc contract); recorded input and verdict:")
        print(json.dumps({k: rp.get(k) for k in ("detail", "input", "note")}, indent=1, default=str)[:6000])
        print("re-execute with: ./check %s --tier <tier>   (VERIF_SEED as in the run that wrote this file)" % rp.get("property", "<property>"))
        return 2
    r = run_concrete_subprocess(rp["contract"], rp.get("values", {}), rp.get("seed", 0))
    print(json.dumps(r, indent=1, default=str)[:4000])
    if not r.get("ok"):
        return 1
    pre_ok, fails = engine.judge_concrete(r["out"])
    print("precondition ok:", pre_ok, "failures:", fails)
    return 1 if fails else 0


if __name__ == "__main__":
    try:
        rc = main()
    except SystemExit:
        raise
    except Exception:
        traceback.print_exc()
        rc = 3
    sys.exit(rc)
