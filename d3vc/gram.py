"""Gram mode: 3-vectors are kept abstract (linear combinations of named basis vectors and their cross products);
every scalar the code can compute from them with dot / cross / norm is a polynomial in Gram atoms g_xy = x.y and
triple-product atoms T_xyz = [x,y,z].  Only identities valid for all vectors of R^3 are used (bilinearity,
(u x v).w = [u,v,w], Binet-Cauchy, the vector triple product, T_xyz T_uvw = det[x.u ...]), so a proof in Gram
atoms is a proof for all coordinates, independent of any frame.  Component access (v[0]) is outside this mode.
"""
import itertools
import math

import numpy as np
import z3

from .poly import Poly
from .sym import S, B, Ctx, Unsupported, is_num, _mk


def _perm_sign(seq):
    seq = list(seq)
    sign = 1
    for i in range(len(seq)):
        for j in range(i + 1, len(seq)):
            if seq[i] > seq[j]:
                sign = -sign
    return sign


class GramSpace:
    """the set of named basis vectors of one contract run; owns the atoms and their relations"""

    def __init__(self, cx, names, rank3=True):
        self.cx = cx
        self.names = list(names)
        cx.gram = self
        self._g = {}
        self._t = {}
        for a in self.names:
            for b in self.names:
                if a <= b:
                    self.g(a, b)
        # positive semidefiniteness of every principal minor (valid for all real vectors)
        for a in self.names:
            cx.facts.append(("gram:psd1:%s" % a, (self.g(a, a) >= 0).t))
        for a, b in itertools.combinations(self.names, 2):
            m = self.g(a, a) * self.g(b, b) - self.g(a, b) * self.g(a, b)
            cx.facts.append(("gram:psd2:%s%s" % (a, b), (m >= 0).t))
        for tri in itertools.combinations(self.names, 3):
            d = self.det3(tri, tri)
            cx.facts.append(("gram:psd3:%s" % "".join(tri), (d >= 0).t))
        for tri in itertools.combinations(self.names, 3):
            self.t(*tri)
        if len(self.names) >= 4 and rank3:
            # four vectors of R^3 are linearly dependent: their 4x4 Gram determinant vanishes
            for quad in itertools.combinations(self.names, 4):
                M = [[self.g(x, y) for y in quad] for x in quad]
                cx.facts.append(("gram:rank3:%s" % "".join(quad), (_det(M) == 0).t))

    def g(self, a, b):
        if a > b:
            a, b = b, a
        k = (a, b)
        if k not in self._g:
            v = self.cx.vt.get("g_%s_%s" % k, "input")
            self._g[k] = S(Poly.var(v))
        return self._g[k]

    def det3(self, xs, us):
        M = [[self.g(x, u) for u in us] for x in xs]
        return _det(M)

    def t(self, a, b, c):
        """[a,b,c] as +-atom; zero when two names coincide"""
        if len({a, b, c}) < 3:
            return 0.0
        key = tuple(sorted((a, b, c)))
        sign = _perm_sign([key.index(a), key.index(b), key.index(c)])
        if key not in self._t:
            v = self.cx.vt.get("T_%s_%s_%s" % key, "input")
            self._t[key] = S(Poly.var(v))
            # products of triple products are Gram determinants: stated as facts (and as rewrite rules only on request:
            # expanding T^2 into the cubic determinant destroys the structure the solver needs)
            for k2, s2 in list(self._t.items()):
                va = self.cx.vt.ids["T_%s_%s_%s" % key]
                vb = self.cx.vt.ids["T_%s_%s_%s" % k2]
                rhs = S.lift(self.det3(key, k2))
                if self.cx.opts.get("gram_t_rules"):
                    self.cx.rules[(min(va, vb), max(va, vb))] = rhs.p
                self.cx.post_rules[(min(va, vb), max(va, vb))] = rhs.p
                zt1, zt2 = self.cx.vt.z3[va], self.cx.vt.z3[vb]
                self.cx.facts.append(("gram:TT:%s:%s" % ("".join(key), "".join(k2)), zt1 * zt2 == rhs.z()))
        return self._t[key] if sign > 0 else -self._t[key]

    def vec(self, name):
        return AbsVec({("v", name): 1.0})


def _det(M):
    n = len(M)
    if n == 1:
        return M[0][0]
    if n == 2:
        return M[0][0] * M[1][1] - M[0][1] * M[1][0]
    tot = 0.0
    for j in range(n):
        minor = [row[:j] + row[j + 1:] for row in M[1:]]
        term = M[0][j] * _det(minor)
        tot = tot + term if j % 2 == 0 else tot - term
    return tot


def _iszero(c):
    if is_num(c):
        return c == 0
    return isinstance(c, S) and not c.p.d


class AbsVec:
    __slots__ = ("c",)
    __array_ufunc__ = None

    def __init__(self, c):
        self.c = {k: v for k, v in c.items() if not _iszero(v)}

    # -- linear structure
    def __add__(self, o):
        if is_num(o) and o == 0:
            return self
        if not isinstance(o, AbsVec):
            return NotImplemented
        c = dict(self.c)
        for k, v in o.c.items():
            c[k] = c[k] + v if k in c else v
        return AbsVec(c)

    __radd__ = __add__

    def __neg__(self):
        return AbsVec({k: -v for k, v in self.c.items()})

    def __sub__(self, o):
        if not isinstance(o, AbsVec):
            return NotImplemented
        return self + (-o)

    def __rsub__(self, o):
        if is_num(o) and o == 0:
            return -self
        return NotImplemented

    def __mul__(self, s):
        if isinstance(s, (AbsVec, np.ndarray)):
            raise Unsupported("component-wise product of abstract vectors")
        return AbsVec({k: v * s for k, v in self.c.items()})

    __rmul__ = __mul__

    def __truediv__(self, s):
        if isinstance(s, (AbsVec, np.ndarray)):
            raise Unsupported("component-wise quotient of abstract vectors")
        inv = Ctx.cur.div(1.0, s)
        return AbsVec({k: v * inv for k, v in self.c.items()})

    def __getitem__(self, i):
        if isinstance(i, slice) and i == slice(None):
            return self
        raise Unsupported("component access on an abstract (Gram-mode) vector")

    def __setitem__(self, i, v):
        raise Unsupported("component store on an abstract (Gram-mode) vector")

    def __len__(self):
        return 3

    @property
    def shape(self):
        return (3,)

    @property
    def ndim(self):
        return 1

    def copy(self):
        return AbsVec(dict(self.c))

    def dot(self, o):
        return dot(self, o)

    def __repr__(self):
        return "AbsVec(%s)" % " + ".join("%s*%s" % (v, "x".join(k[1:])) for k, v in self.c.items())


def _G():
    return Ctx.cur.gram


def _dot_elem(e1, e2):
    G = _G()
    if e1[0] == "v" and e2[0] == "v":
        return G.g(e1[1], e2[1])
    if e1[0] == "x" and e2[0] == "v":
        return G.t(e1[1], e1[2], e2[1])
    if e1[0] == "v" and e2[0] == "x":
        return G.t(e2[1], e2[2], e1[1])
    # Binet-Cauchy
    a, b, c, d = e1[1], e1[2], e2[1], e2[2]
    return G.g(a, c) * G.g(b, d) - G.g(a, d) * G.g(b, c)


def _same_vec(u, v):
    if u is v:
        return True
    if set(u.c) != set(v.c):
        return False
    for k in u.c:
        a, b = u.c[k], v.c[k]
        if is_num(a) and is_num(b):
            if a != b:
                return False
        elif isinstance(a, S) and isinstance(b, S):
            if a.p.key() != b.p.key():
                return False
        else:
            return False
    return True


def dot(u, v):
    if not isinstance(u, AbsVec) or not isinstance(v, AbsVec):
        raise Unsupported("dot of abstract and concrete vector")
    tot = 0.0
    for k1, c1 in u.c.items():
        for k2, c2 in v.c.items():
            tot = tot + c1 * c2 * _dot_elem(k1, k2)
    if isinstance(tot, S) and _same_vec(u, v):
        tot.nn = True          # squared norm of a vector: non-negative by construction (the Gram matrix is positive semidefinite)
    return tot


def _cross_elem(e1, e2):
    """-> AbsVec"""
    G = _G()
    if e1[0] == "v" and e2[0] == "v":
        a, b = e1[1], e2[1]
        if a == b:
            return AbsVec({})
        if a < b:
            return AbsVec({("x", a, b): 1.0})
        return AbsVec({("x", b, a): -1.0})
    if e1[0] == "x" and e2[0] == "v":
        a, b, c = e1[1], e1[2], e2[1]          # (a x b) x c = b (a.c) - a (b.c)
        return AbsVec({("v", b): G.g(a, c)}) + AbsVec({("v", a): -G.g(b, c)})
    if e1[0] == "v" and e2[0] == "x":
        return -_cross_elem(e2, e1)
    a, b, c, d = e1[1], e1[2], e2[1], e2[2]     # (a x b) x (c x d) = c [a,b,d] - d [a,b,c]
    return AbsVec({("v", c): G.t(a, b, d)}) + AbsVec({("v", d): -G.t(a, b, c)})


def cross(u, v):
    if not isinstance(u, AbsVec) or not isinstance(v, AbsVec):
        raise Unsupported("cross of abstract and concrete vector")
    r = AbsVec({})
    for k1, c1 in u.c.items():
        for k2, c2 in v.c.items():
            r = r + _cross_elem(k1, k2) * (c1 * c2)
    return r


def norm(u):
    return Ctx.cur.sqrt(dot(u, u))


def is_abs(x):
    return isinstance(x, AbsVec)


# --------------------------------------------------------------------------------------------------
# realisation of a Gram model by coordinates (for native replay)
# --------------------------------------------------------------------------------------------------
def realise(names, gval, tsign=1.0):
    """coordinates of vectors with the given Gram matrix (Cholesky-like, rank <= 3); tsign = sign of [v0,v1,v2]"""
    n = len(names)
    Gm = np.array([[gval(a, b) for b in names] for a in names], dtype=float)
    w, V = np.linalg.eigh((Gm + Gm.T) / 2)
    w = np.clip(w, 0, None)
    idx = np.argsort(w)[::-1][:3]
    X = V[:, idx] * np.sqrt(w[idx])          # n x 3
    if X.shape[1] < 3:
        X = np.hstack([X, np.zeros((n, 3 - X.shape[1]))])
    if n >= 3:
        d = np.linalg.det(X[:3])
        if d * tsign < 0:
            X[:, 2] *= -1
    return {nm: np.ascontiguousarray(X[i]) for i, nm in enumerate(names)}


class AbsRows:
    """an (n, 3) array whose rows are abstract vectors (e.g. triangle_points)"""
    ndim = 2

    def __init__(self, rows):
        self.rows = list(rows)
        self.shape = (len(self.rows), 3)

    def __getitem__(self, i):
        if isinstance(i, slice):
            return AbsRows(self.rows[i])
        return self.rows[i]

    def __len__(self):
        return len(self.rows)

    def __iter__(self):
        return iter(self.rows)


def coefficient(v, name):
    """coefficient of the basis vector `name` in the abstract vector v (0 if absent)"""
    return v.c.get(("v", name), 0.0)


def has_only(v, names):
    return all(k[0] == "v" and k[1] in names for k in v.c)
