#!/usr/bin/env python
"""runs bounded/<pid>.py for several seeds/tiers and prints the failures that no known finding covers (should be none on the unchanged tree)"""
import json, subprocess, sys, os
V = os.path.dirname(os.path.dirname(os.path.abspath(__file__)))
sys.path.insert(0, V)
from d3vc import cli
kf = cli.load_known_findings()
pids = sys.argv[1].split(",")
seeds = [int(x) for x in (sys.argv[2] if len(sys.argv) > 2 else "1,2,3").split(",")]
tier = sys.argv[3] if len(sys.argv) > 3 else "quick"
for pid in pids:
    for s in seeds:
        p = subprocess.run([sys.executable, os.path.join(V, "bounded", pid.lower() + ".py"), "--tier", tier, "--seed", str(s)], capture_output=True, text=True, cwd=V)
        lines = [l for l in p.stdout.splitlines() if l.startswith("{")]
        if not lines:
            print(pid, s, "NO JSON"); continue
        d = json.loads(lines[-1])
        un = sorted({(f["contract"], f["obligation"]) for f in d["failures"] if cli.finding_for(kf, pid, f["contract"], f["obligation"]) is None})
        print(pid, "seed", s, tier, "failures", d.get("n_failures"), "unmatched", len(un), un[:6], "wall", d.get("wall_s"))
