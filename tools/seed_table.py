#!/usr/bin/env python
"""prints the markdown table of DESIGN.md section 11 from seeded/*/meta.json (our_checks is written by tools/seed_matrix.py)"""
import json, glob, os, re
V = os.path.dirname(os.path.dirname(os.path.abspath(__file__)))
print("| seed | change (one line) | caught | reported by (contract / obligation) |")
print("|---|---|---|---|")
for d in sorted(glob.glob(os.path.join(V, "seeded", "C*_*"))):
    m = json.load(open(os.path.join(d, "meta.json")))
    oc = m.get("our_checks", {})
    s = re.sub(r"\s+", " ", m.get("summary", "")).replace("|", "/")
    s = s[:150] + ("…" if len(s) > 150 else "")
    rb = oc.get("reported_by", [])
    tiers = []
    for r in rb[:3]:
        r = r.replace("|", "/")
        tiers.append("`%s`" % (r[:110]))
    kind = ", ".join(oc.get("tiers", [])) or "tier not recorded"
    print("| %s | %s | %s | %s%s |" % (os.path.basename(d), s, ("yes (%s)" % kind) if oc.get("caught") else "**no**", "; ".join(tiers), " …" if len(rb) > 3 else ""))
