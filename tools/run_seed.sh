#!/bin/sh
# usage: tools/run_seed.sh <seed-name> <property> [check args]   -- applies seeded/<name>/patch.diff to /repo, runs the check, undoes it
NAME=$1; PROP=$2; shift 2
cd /verif
git -C /repo diff --quiet || { echo "/repo has uncommitted changes"; exit 9; }
git -C /repo apply /verif/seeded/$NAME/patch.diff || { echo "patch does not apply"; exit 9; }
trap 'git -C /repo checkout -- . ' EXIT INT TERM
./check "$PROP" --no-evidence "$@" 2>&1 | grep -v "^  " | cut -c1-220 | tail -${TAILN:-6}
echo "exit=$?"
