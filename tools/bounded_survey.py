#!/usr/bin/env python
"""runs bounded/<pid>.py --tier quick for several seeds and aggregates the (contract, obligation) failure keys"""
import json, subprocess, sys, os, collections, time
V = os.path.dirname(os.path.dirname(os.path.abspath(__file__)))
pids = sys.argv[1].split(",")
seeds = [int(x) for x in (sys.argv[2] if len(sys.argv) > 2 else "0,1,2").split(",")]
for pid in pids:
    keys = collections.defaultdict(set)
    info = []
    for s in seeds:
        t = time.time()
        p = subprocess.run([sys.executable, os.path.join(V, "bounded", pid.lower() + ".py"), "--tier", "quick", "--seed", str(s)],
                           capture_output=True, text=True, cwd=V)
        lines = [l for l in p.stdout.splitlines() if l.startswith("{")]
        if not lines:
            print(pid, "seed", s, "NO JSON", p.stderr[-500:]); continue
        d = json.loads(lines[-1])
        fk = d.get("failure_counts") or d.get("failure_keys")
        for f in d["failures"]:
            keys[(f["contract"], f["obligation"])].add(s)
        info.append((s, d["evaluations"], d.get("n_failures"), round(time.time() - t), d.get("undecided"), (list(fk.items())[:3] if isinstance(fk, dict) else None)))
    print("==", pid, info)
    for k, ss in sorted(keys.items()):
        print("   ", k[0], "::", k[1], sorted(ss))
