#!/usr/bin/env python
"""For every verified seeded change under /verif/seeded: apply it to a scratch copy of /repo/distance3d (never to /repo),
run its demo (must fail) and the quick check of its property against the scratch copy (D3VC_REPO), and record which
obligations report it.  Writes seeded/RESULTS.json and updates seeded/<id>/meta.json ('our_checks')."""
import json, os, shutil, subprocess, sys, tempfile, time
V = os.path.dirname(os.path.dirname(os.path.abspath(__file__)))
only = sys.argv[1].split(",") if len(sys.argv) > 1 else None
res_path = os.path.join(V, "seeded", "RESULTS.json")
results = json.load(open(res_path)) if os.path.exists(res_path) else {}
for name in sorted(os.listdir(os.path.join(V, "seeded"))):
    d = os.path.join(V, "seeded", name)
    if not os.path.isdir(d) or (only and name not in only):
        continue
    meta = json.load(open(os.path.join(d, "meta.json")))
    prop = meta["property"]
    scratch = tempfile.mkdtemp(prefix="d3seed_")
    try:
        shutil.copytree("/repo/distance3d", os.path.join(scratch, "distance3d"), ignore=shutil.ignore_patterns("__pycache__"))
        p = subprocess.run(["patch", "-p1", "-d", scratch, "-i", os.path.join(d, "patch.diff")], capture_output=True, text=True)
        if p.returncode != 0:
            results[name] = dict(property=prop, applies=False, note=p.stdout[-300:])
            print(name, "PATCH DOES NOT APPLY"); continue
        env = dict(os.environ, PYTHONPATH=scratch, PYTHONWARNINGS="ignore")
        t = time.time()
        dm = subprocess.run(["timeout", "900", "/venv/bin/python", os.path.join(d, "demo.py")], capture_output=True, text=True, env=env, cwd=scratch)
        env2 = dict(os.environ, D3VC_REPO=scratch)
        ck = subprocess.run([os.path.join(V, "check"), prop, "--no-evidence"], capture_output=True, text=True, env=env2, cwd=V)
        lines = ck.stdout.splitlines()
        viol = [l for l in lines if l.startswith("VIOLATION")]
        caught_by = sorted({os.path.basename(l.split("replay=")[1].split(" ")[0]).replace(".json", "") for l in viol})
        tiers = set()
        for l in viol:
            rp = l.split("replay=")[1].split(" ")[0]
            try:
                note = json.load(open(rp)).get("note", "")
            except Exception:
                note = ""
            tiers.add("bounded harness" if "bounded stand-in" in note else "run-time contract" if "executing the contract" in note else "proof obligation")
        results[name] = dict(property=prop, applies=True, demo_exit_with_change=dm.returncode, check_exit=ck.returncode, caught=bool(viol),
                             n_violation_lines=len(viol), caught_by=caught_by[:12], tiers=sorted(tiers), summary_line=(lines[-1] if lines else "")[:300],
                             seconds=round(time.time() - t))
        meta["our_checks"] = dict(command="D3VC_REPO=<scratch copy with the patch> ./check %s --no-evidence" % prop, exit=ck.returncode,
                                  caught=bool(viol), reported_by=caught_by[:12], tiers=sorted(tiers))
        json.dump(meta, open(os.path.join(d, "meta.json"), "w"), indent=1)
        print(name, prop, "demo", dm.returncode, "check", ck.returncode, "caught" if viol else "MISSED", caught_by[:3])
    finally:
        shutil.rmtree(scratch, ignore_errors=True)
    json.dump(results, open(res_path, "w"), indent=1)
