#!/usr/bin/env python
"""verify a seeded change delivered by an independent sub-agent in a scratch worktree and store it under /verif/seeded/<name>/

usage: tools/verify_seed.py <worktree> <name>
checks (all in the scratch worktree, never in /repo): the 62 pinned baseline tests still pass with the change; demo.py exits 0
without the change and non-zero with it.  Writes seeded/<name>/{patch.diff, demo.py, meta.json} with what was run."""
import json, os, shutil, subprocess, sys, tempfile, xml.etree.ElementTree as ET
wt, name = sys.argv[1], sys.argv[2]
V = os.path.dirname(os.path.dirname(os.path.abspath(__file__)))
seed = os.path.join(wt, "_seed")
env = dict(os.environ, PYTHONPATH=wt, PYTHONWARNINGS="ignore")

def run(cmd, **kw):
    return subprocess.run(cmd, shell=True, capture_output=True, text=True, env=env, **kw)

def demo():
    p = run("timeout 900 /venv/bin/python %s/demo.py" % seed, cwd=wt)
    return p.returncode, (p.stdout + p.stderr)[-600:]

def baseline():
    b = json.load(open("/root/.vp/BASELINE.json"))
    out = os.path.join(tempfile.mkdtemp(prefix="d3seed"), "j.xml")
    cmd = b["cmd"].replace("<file>", out).replace("cd /repo", "cd " + wt)
    run(cmd)
    passed = set()
    for tc in ET.parse(out).getroot().iter("testcase"):
        if not any(ch.tag in ("failure", "error", "skipped") for ch in tc):
            passed.add(tc.get("classname") + "::" + tc.get("name"))
    shutil.rmtree(os.path.dirname(out), ignore_errors=True)
    return [t for t in b["stable_pass"] if t not in passed]

patch = open(os.path.join(seed, "patch.diff")).read()
assert patch.strip(), "empty patch"
# never use `git stash` here: the stash is shared by all worktrees of /repo.  Reset the worktree and (un)apply the patch file.
run("git -C %s checkout -- distance3d" % wt)
assert run("git -C %s diff --quiet -- distance3d" % wt).returncode == 0
rc_without, out_without = demo()
r = run("git -C %s apply %s/patch.diff" % (wt, seed))
assert r.returncode == 0, "patch does not apply: " + r.stderr
rc_with, out_with = demo()
missing = baseline()
ok = rc_with != 0 and rc_without == 0 and not missing
meta = json.load(open(os.path.join(seed, "meta.json")))
meta["verified_by_us"] = dict(demo_exit_with_change=rc_with, demo_exit_without_change=rc_without, demo_output_with_change=out_with,
                              pinned_tests_missing_with_change=missing, ok=ok,
                              ran="demo.py with and without the change (patch file applied / checkout, never git stash) in the scratch worktree; the 62 pinned baseline tests "
                                  "(BASELINE.json command, cd <worktree>, PYTHONPATH=<worktree>) with the change")
print(json.dumps(meta["verified_by_us"], indent=1)[:1500])
if ok:
    d = os.path.join(V, "seeded", name)
    os.makedirs(d, exist_ok=True)
    open(os.path.join(d, "patch.diff"), "w").write(patch)
    shutil.copy(os.path.join(seed, "demo.py"), os.path.join(d, "demo.py"))
    json.dump(meta, open(os.path.join(d, "meta.json"), "w"), indent=1)
    print("stored", d)
sys.exit(0 if ok else 1)
