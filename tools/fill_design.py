#!/usr/bin/env python
"""rewrites the seed table of DESIGN.md section 11 (between the SEED_TABLE markers) from seeded/*/meta.json"""
import os, subprocess, sys, re
V = os.path.dirname(os.path.dirname(os.path.abspath(__file__)))
tab = subprocess.run([sys.executable, os.path.join(V, "tools", "seed_table.py")], capture_output=True, text=True).stdout.strip()
p = os.path.join(V, "DESIGN.md")
s = open(p).read()
block = "<!-- SEED_TABLE_BEGIN -->\n" + tab + "\n<!-- SEED_TABLE_END -->"
if "SEED_TABLE_PLACEHOLDER" in s:
    s = s.replace("SEED_TABLE_PLACEHOLDER", block)
else:
    s = re.sub(r"<!-- SEED_TABLE_BEGIN -->.*?<!-- SEED_TABLE_END -->", lambda m: block, s, flags=re.S)
open(p, "w").write(s)
print("table rows:", tab.count("\n") - 1)
