#!/usr/bin/env python
"""validate MANIFEST.json and every evidence file against the schemas"""
import json, sys, glob, os
import jsonschema
V = os.path.dirname(os.path.dirname(os.path.abspath(__file__)))
m = json.load(open(os.path.join(V, "MANIFEST.json")))
jsonschema.validate(m, json.load(open("/root/.vp/MANIFEST.schema.json")))
es = json.load(open("/root/.vp/EVIDENCE.schema.json"))
bad = 0
for f in sorted(glob.glob(os.path.join(V, "evidence", "*.json"))):
    try:
        jsonschema.validate(json.load(open(f)), es)
    except Exception as e:
        bad += 1
        print("INVALID", f, str(e)[:300])
props = [json.loads(l)["id"] for l in open(os.path.join(V, "properties.jsonl"))]
claimed = {c["property_id"] for c in m["checks"]}
na = {c["property_id"] for c in m.get("not_applicable", [])}
missing = [p for p in props if p not in claimed and p not in na]
print("manifest ok; claimed", sorted(claimed), "n/a", sorted(na), "unlisted", missing, "bad evidence", bad)
sys.exit(1 if bad or missing else 0)
