#!/usr/bin/env python
"""runs the repository's pinned baseline (guard off) and compares with /root/.vp/BASELINE.json stable_pass"""
import json, subprocess, sys, xml.etree.ElementTree as ET, os, tempfile
b = json.load(open("/root/.vp/BASELINE.json"))
out = os.path.join(tempfile.mkdtemp(prefix="d3base"), "j.xml")
cmd = b["cmd"].replace("<file>", out)
env = dict(os.environ); env.pop("DISTANCE3D_VERIF", None)
subprocess.run(cmd, shell=True, env=env, stdout=subprocess.DEVNULL, stderr=subprocess.DEVNULL)
passed = set()
for tc in ET.parse(out).getroot().iter("testcase"):
    if not any(ch.tag in ("failure", "error", "skipped") for ch in tc):
        passed.add(tc.get("classname") + "::" + tc.get("name"))
missing = [t for t in b["stable_pass"] if t not in passed]
print("baseline: %d/%d stable tests pass; missing: %s; newly passing: %d" % (len(b["stable_pass"]) - len(missing), len(b["stable_pass"]), missing, len(passed - set(b["stable_pass"]))))
sys.exit(1 if missing else 0)
