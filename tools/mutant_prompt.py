#!/usr/bin/env python
"""prints the prompt given to an independent sub-agent that seeds a property-breaking change (property text only)"""
import json, sys
pid = sys.argv[1]
for l in open('/verif/properties.jsonl'):
    p = json.loads(l)
    if p['id'] == pid:
        break
wt = "/tmp/wt_%s%s" % (pid, sys.argv[2] if len(sys.argv) > 2 else "")
print(f"""You are helping to evaluate a verification effort by seeding ONE realistic defect into a Python library.

The library is AlexanderFabisch/distance3d (pure-Python/numba 3D computational geometry: GJK/EPA/MPR collision and distance,
primitive distance functions, AABB tree broad phase, hydroelastic contact). You have your own scratch git worktree of it at
{wt} (work ONLY there; never touch /repo or /verif, do not read anything under /verif).
Run python as /venv/bin/python with PYTHONPATH={wt} (so that `import distance3d` picks up YOUR worktree; check with
`PYTHONPATH={wt} /venv/bin/python -c "import distance3d; print(distance3d.__file__)"`). Always wrap python runs in `timeout 600`.
Note: `import distance3d.hydroelastic_contact` fails in this sandbox (open3d needs libusb) unless you pre-seed
sys.modules["distance3d.visualization"] with a stub module exposing a dummy class RigidBodyTetrahedralMesh.

The property (a semantic guarantee users rely on):

  {p['id']}: {p['title']}
  Statement: {p['statement']}
  Quantified over: {p['quantifier']['text']}

Your task: write a small change (a few lines) to the library source under {wt}/distance3d (not to its tests) that BREAKS this
property while
  (a) the library still imports and the pinned test suite still passes:
      cd {wt} && PYTHONPATH={wt} timeout 900 /venv/bin/python -m pytest -q -p no:cacheprovider --timeout=900 --continue-on-collection-errors -x -q distance3d/test 2>&1 | tail -5
      (some tests fail/err already on the unchanged tree - e.g. visualization - what matters is that no test that passes WITHOUT your
      change fails WITH it; compare the list of passing tests before and after: run with `-rA` or `--junitxml`),
  (b) the change looks like a plausible slip a maintainer could make (an off-by-one, a wrong sign in one branch, a dropped abs, a
      stale cache, a `<` for `<=`, a transposed matrix in one place, a missed update of one field, ...), and
  (c) it needs something SPECIFIC to manifest - an unusual input (a degenerate / axis-aligned / boundary configuration, a particular
      branch), a multi-step sequence of operations, or two cooperating sites that each look fine alone - NOT something that any
      ordinary use or random smoke test would expose at once.

Deliver, in the directory {wt}/_seed/ (create it):
  - patch.diff : `git -C {wt} diff -- distance3d > {wt}/_seed/patch.diff` (the change, relative to the worktree's HEAD)
  - demo.py    : a small stand-alone program (no pytest needed) that exits 0 on the ORIGINAL code (current HEAD of the worktree) and exits 1 (printing what went wrong)
                 WITH your change; run it as `PYTHONPATH={wt} timeout 600 /venv/bin/python {wt}/_seed/demo.py`. It must test the
                 property as stated above (against an independent oracle / brute force / mathematical fact), not an implementation detail.
  - meta.json  : {{"property": "{p['id']}", "summary": "...what you changed...", "needs": "...what is needed for it to manifest...",
                  "ran": "...commands you ran and what they showed (tests before/after, demo before/after)..."}}
Verify all three claims yourself (tests before = tests after; demo passes on the original tree and fails with the change) and leave
the change APPLIED in the worktree. IMPORTANT: do NOT use `git stash` (the stash is shared between all worktrees of this repository and other
people work in parallel in sibling worktrees): to get back to the original, save your change with `git -C {wt} diff -- distance3d > /tmp/{p['id']}_change.diff`,
run `git -C {wt} checkout -- distance3d`, and re-apply with `git -C {wt} apply /tmp/{p['id']}_change.diff`. Reply with a 5-line summary.""")
