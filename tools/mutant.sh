#!/bin/sh
# usage: tools/mutant.sh <property> <file-relative-to-repo> <old> <new> [extra check args]
# applies one textual mutation to a scratch copy of /repo (removed afterwards) and runs the check against it
set -e
PROP=$1; FILE=$2; OLD=$3; NEW=$4; shift 4
S=$(mktemp -d /tmp/d3mut.XXXXXX)
cp -r /repo/distance3d "$S/"
python3 - "$S/$FILE" "$OLD" "$NEW" <<'PY'
import sys
p, old, new = sys.argv[1:4]
s = open(p).read()
assert s.count(old) >= 1, "pattern not found"
open(p, "w").write(s.replace(old, new, 1))
PY
cd /verif
D3VC_REPO=$S ./check "$PROP" --no-evidence "$@" 2>&1 | grep -v "^  " | cut -c1-200 | tail -4 || true
rm -rf "$S"
