#!/usr/bin/env python
"""writes MANIFEST.json from d3vc/levels.py (single source of truth) and validates it"""
import json, os, sys
V = os.path.dirname(os.path.dirname(os.path.abspath(__file__)))
sys.path.insert(0, V)
from d3vc import levels
props = [json.loads(l) for l in open(os.path.join(V, "properties.jsonl"))]
commits = []
try:
    import subprocess
    out = subprocess.run(["git", "-C", "/repo", "log", "--format=%H %s"], capture_output=True, text=True).stdout
    commits = [l.split()[0] for l in out.splitlines() if " fix:" in " " + l.split(" ", 1)[1][:5] or l.split(" ", 1)[1].startswith("fix:")]
except Exception:
    pass
checks = []
na = []
for p in props:
    pid = p["id"]
    if pid in levels.LEVEL:
        checks.append(dict(
            property_id=pid, quick_cmd="./check %s --tier quick" % pid, thorough_cmd="./check %s --tier thorough" % pid,
            evidence_file="evidence/%s.json" % pid, replay_cmd_template="./check %s --replay {path}" % pid, engine="d3vc",
            level_claimed=dict(category=levels.LEVEL[pid], text=levels.EXPLANATION[pid], design_ref="DESIGN.md section 6, " + pid),
            level_note=levels.LEVEL_NOTE[pid], technique=levels.TECHNIQUE[pid]))
    else:
        na.append(dict(property_id=pid, reason=levels.NOT_APPLICABLE.get(pid, "check not built yet (work in progress)")))
m = dict(version=1, setup_cmd="./setup.sh",
         hooks=dict(guard="DISTANCE3D_VERIF", enable="none needed: contracts are side-car files under /verif/contracts, the checks read "
                    "/repo's source text and import /repo natively; no guarded source commits exist",
                    baseline_off_cmd="cd /repo && /venv/bin/python -m pytest -ra -q -p no:cacheprovider --timeout=900 --continue-on-collection-errors",
                    source_commits=[], add_only=True),
         engines=[dict(name="d3vc", path="d3vc/", serves_properties=sorted(levels.LEVEL),
                       kind_free_text="own verification-condition generator for Python/numpy: proxy symbolic execution of the real source, "
                       "side-car contracts, polynomial normal forms modulo SO(3), portfolio z3 5.1 / z3 4.8 / cvc5, native replay")],
         checks=checks, not_applicable=na,
         notes="See DESIGN.md. No hook / instrumentation commits exist in /repo (contracts are side-car). Genuine defects repaired by unguarded "
               "'fix:' commits in /repo: " + ", ".join(c[:10] for c in commits) + ". known_findings.json lists every genuine defect (finding / fixed).")
json.dump(m, open(os.path.join(V, "MANIFEST.json"), "w"), indent=1)
import jsonschema
jsonschema.validate(m, json.load(open("/root/.vp/MANIFEST.schema.json")))
print("MANIFEST.json written:", len(checks), "checks,", len(na), "not applicable; fix commits:", commits)
