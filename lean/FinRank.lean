import Mathlib

/-- Well-founded induction along a real-valued rank on a finite index set:
to prove `C i` for all `i`, it suffices to prove it assuming `C j` for all `j` of strictly larger rank. -/
theorem fin_rank_induction {n : ℕ} (rank : Fin n → ℝ) (C : Fin n → Prop)
    (step : ∀ i, (∀ j, rank i < rank j → C j) → C i) : ∀ i, C i := by
  have wf : WellFounded (fun j i : Fin n => rank i < rank j) :=
    Finite.wellFounded_of_trans_of_irrefl _
  intro i
  exact wf.induction (C := C) i (fun x ih => step x (fun j hj => ih j hj))

/-- Pigeonhole: a walk `w : Fin (n+1) → Fin n` cannot be strictly rank-increasing. -/
theorem no_long_increasing_walk {n : ℕ} (rank : Fin n → ℝ) (w : Fin (n+1) → Fin n)
    (inc : ∀ a b : Fin (n+1), a < b → rank (w a) < rank (w b)) : False := by
  have hinj : Function.Injective w := by
    intro a b hab
    rcases lt_trichotomy a b with h | h | h
    · have := inc a b h; rw [hab] at this; exact absurd this (lt_irrefl _)
    · exact h
    · have := inc b a h; rw [hab] at this; exact absurd this (lt_irrefl _)
  have := Fintype.card_le_of_injective w hinj
  simp at this
