"""BOUNDED stand-in for C16: hydroelastic contact forces obey action-reaction, symmetry and frame invariance.

Runs the REAL contact_forces / find_contact_surface on pairs of factory bodies with arbitrary poses of BOTH bodies and checks the
clauses of the property metamorphically (the oracle is the property's own symmetry, evaluated on independent calls with fresh
bodies) plus two independent computations:
  * world_frame_force: the world-frame force must be R2 * F, where F is the resultant in the frame of body 2 recomputed HERE from the
    reported polygons (own barycentric solve for the pressure at the centroid of every fan triangle, own areas) - this isolates the
    frame change of _transform_wrenches from everything else;
  * tree_equals_bruteforce: candidate pairs of the AABB tree query vs an own numpy all-pairs interval test (and vs the library's brute
    force); through the public switch use_aabb_trees=True when that call works at all.
  * repeatable: the call history (b1,b2),(b1,b2),(b1,b3),(b1,b2),(b2,b1),(b1,b2),(b3,b1),(b2,b3),(b1,b2) is executed on the SAME mutated objects;
    every (b1,b2) result is compared with the first one and every other step with the same pair on fresh, never re-expressed bodies;
    afterwards the caches (tetrahedra_points, aabbs, com) of all three bodies are compared with a direct computation.
Tolerance of the force clauses: 5 % of the force magnitude (property text); torques: 5 % of max(|torque|, |force| * body diameter).
Rotated sphere bodies are RigidBody(pose, *make_tetrahedral_sphere(...)) because RigidBody.make_sphere only takes a centre.

Contracts (stable):  hydroelastic.contact_forces[<k1>,<k2>]                 general rotations of both bodies
                     hydroelastic.contact_forces[<k1>,<k2>;body2_at_origin]  body 2 has the identity pose (the only case upstream tests)
                     hydroelastic.contact_forces[<k1>,<k2>;body2_translated] body 2 has identity rotation, non-zero translation
                     hydroelastic.contact_forces[<k1>,<k2>;lattice]          cube-group rotations, half-integer offsets
                     hydroelastic.find_contact_surface[use_aabb_trees]       the public tree switch
                     hydroelastic.broad_phase[<k1>,<k2>]                     tree query vs brute force on the bodies' AABBs
Obligations (stable): no_exception, world_frame_force, action_reaction, swap_symmetry, swap_symmetry_torque, rigid_motion_equivariance,
  repeatable, flag_unchanged, tree_equals_bruteforce, express_in_consistent, cache_consistent, terminates
"""
import itertools
import math
import os
import sys
import time

for _v in ("OMP_NUM_THREADS", "OPENBLAS_NUM_THREADS", "MKL_NUM_THREADS", "NUMBA_NUM_THREADS"):
    os.environ.setdefault(_v, "1")

import numpy as np

import _common as C

C.stub_visualization()

KINDS = ["sphere", "ellipsoid", "cube", "box", "cylinder", "capsule"]
REL = 0.05


# ------------------------------------------------------------------------------------------------- bodies (same factories as c15)
def body_params(kind, s, variant=0):
    if kind == "sphere":
        return dict(radius=0.5 * s, order=1 + variant % 2)
    if kind == "ellipsoid":
        return dict(radii=[0.5 * s, 0.25 * s, 0.375 * s] if variant % 2 == 0 else [0.3 * s, 0.5 * s, 0.5 * s], order=1 + (variant // 2) % 2)
    if kind == "cube":
        return dict(size=s)
    if kind == "box":
        return dict(size=[[s, 0.5 * s, 0.75 * s], [s, s, 0.5 * s], [0.5 * s, s, s], [s, s, s]][variant % 4])
    if kind == "cylinder":
        r, length = [(0.3 * s, s), (0.5 * s, s), (0.5 * s, 0.4 * s)][variant % 3]
        return dict(radius=r, length=length, nv=[6, 8, 5][variant % 3])
    if kind == "capsule":
        return dict(radius=0.25 * s, height=0.5 * s, nv=[6, 4, 7][variant % 3])
    raise ValueError(kind)


def make_body(kind, par, T, E):
    from distance3d.hydroelastic_contact import RigidBody
    T = np.ascontiguousarray(np.array(T, dtype=float))
    if kind == "sphere":
        if np.array_equal(T[:3, :3], np.eye(3)):
            rb = RigidBody.make_sphere(T[:3, 3].copy(), par["radius"], par["order"])
        else:       # RigidBody.make_sphere takes a centre only; a rotated sphere body is the factory mesh with a general pose
            from distance3d.hydroelastic_contact._tetra_mesh_creation import make_tetrahedral_sphere
            rb = RigidBody(T, *make_tetrahedral_sphere(par["radius"], par["order"]))
    elif kind == "ellipsoid":
        rb = RigidBody.make_ellipsoid(T, np.array(par["radii"], dtype=float), par["order"])
    elif kind == "cube":
        rb = RigidBody.make_cube(T, par["size"])
    elif kind == "box":
        rb = RigidBody.make_box(T, np.array(par["size"], dtype=float))
    elif kind == "cylinder":
        rb = RigidBody.make_cylinder(T, par["radius"], par["length"], 2 * math.pi * par["radius"] / (par["nv"] - 0.5))
    elif kind == "capsule":
        rb = RigidBody.make_capsule(T, par["radius"], par["height"], 2 * math.pi * par["radius"] / (par["nv"] + 0.5))
    else:
        raise ValueError(kind)
    rb.youngs_modulus = float(E)
    return rb


def half_extent(kind, par):
    if kind == "sphere":
        return np.full(3, par["radius"])
    if kind == "ellipsoid":
        return np.array(par["radii"], dtype=float)
    if kind == "cube":
        return np.full(3, 0.5 * par["size"])
    if kind == "box":
        return 0.5 * np.array(par["size"], dtype=float)
    if kind == "cylinder":
        return np.array([par["radius"], par["radius"], 0.5 * par["length"]])
    if kind == "capsule":
        return np.array([par["radius"], par["radius"], 0.5 * par["height"] + par["radius"]])


def sphere_pose(kind, T):
    """poses are used as given for every kind (rotated sphere bodies are built from the factory mesh, see make_body)"""
    return np.array(T, dtype=float)


# ------------------------------------------------------------------------------------------------- oracles
def own_resultant(cs, b1):
    """resultant force on body 1 in the frame of body 2 from the reported polygons: sum over fan triangles of
    E1 * phi1(centroid) * area * n  (phi1 by an own barycentric solve in the tetrahedron of body 1)"""
    P1, Q1, E1 = b1.tetrahedra_points, b1.tetrahedra_potentials, b1.youngs_modulus
    F = np.zeros(3)
    for k, i in enumerate(cs.intersecting_tetrahedra1):
        poly = np.asarray(cs.contact_polygons[k], dtype=float)
        n = np.asarray(cs.contact_planes[k], dtype=float)[:3]
        A = np.vstack((P1[i].T, np.ones((1, 4))))
        for j in range(1, len(poly) - 1):
            a, b, c = poly[0], poly[j], poly[j + 1]
            cen = (a + b + c) / 3.0
            w = np.linalg.solve(A, np.r_[cen, 1.0])
            area = 0.5 * np.linalg.norm(np.cross(b - a, c - a))
            F += E1 * float(w @ Q1[i]) * area * n
    return F


def np_bruteforce_pairs(a1, a2):
    ov = np.all((a1[:, None, :, 0] <= a2[None, :, :, 1]) & (a1[:, None, :, 1] >= a2[None, :, :, 0]), axis=2)
    I, J = np.nonzero(ov)
    return set(zip(I.tolist(), J.tolist()))


class Ctx:
    def __init__(self, contract, inp):
        self.contract, self.inp = contract, inp
        self.failures, self.seen = [], set()

    def fail(self, obligation, detail, contract=None, extra=None):
        key = (contract or self.contract, obligation)
        if key in self.seen:
            return
        self.seen.add(key)
        inp = dict(self.inp)
        if extra:
            inp.update(extra)
        self.failures.append(dict(contract=key[0], obligation=obligation, detail=detail, input=inp))


def close(a, b, floor):
    a, b = np.asarray(a, dtype=float), np.asarray(b, dtype=float)
    if not (np.all(np.isfinite(a)) and np.all(np.isfinite(b))):
        return False, float("inf")
    dev = float(np.linalg.norm(a - b))
    return dev <= REL * max(np.linalg.norm(a), np.linalg.norm(b)) + floor, dev


# ------------------------------------------------------------------------------------------------- one scene
def run_scene(task):
    import distance3d.hydroelastic_contact as hc
    from distance3d import aabb_tree as AT
    k1, p1, T1, E1 = task["k1"], task["p1"], np.array(task["T1"]), task["E1"]
    k2, p2, T2, E2 = task["k2"], task["p2"], np.array(task["T2"]), task["E2"]
    G = np.array(task["G"])
    rng = np.random.default_rng(task["seed"])
    inp = dict(body1=dict(kind=k1, **p1, pose=T1.tolist(), youngs_modulus=E1), body2=dict(kind=k2, **p2, pose=T2.tolist(), youngs_modulus=E2))
    ctx = Ctx(task["contract"], inp)
    res = dict(evals=0, nontrivial=0, sample=None, undecided=0)
    size = 2 * float(min(half_extent(k1, p1).max(), half_extent(k2, p2).max()))
    D = 2 * float(max(np.linalg.norm(half_extent(k1, p1)), np.linalg.norm(half_extent(k2, p2))))
    floor = 1e-12 * max(E1, E2) * size ** 3
    L = max(1.0, D, float(np.linalg.norm(T1[:3, 3] - T2[:3, 3])))
    fresh = lambda M=np.eye(4): (make_body(k1, p1, sphere_pose(k1, M @ T1), E1), make_body(k2, p2, sphere_pose(k2, M @ T2), E2))

    def call(b1, b2, what):
        res["evals"] += 1
        try:
            out = hc.contact_forces(b1, b2)
            return bool(out[0]), np.asarray(out[1], dtype=float).copy(), np.asarray(out[2], dtype=float).copy()
        except Exception as e:
            ctx.fail("no_exception", f"{what}: {type(e).__name__}: {e}")
            return None

    # ---- base call
    b1, b2 = fresh()
    V1_world = b1.vertices_ @ sphere_pose(k1, T1)[:3, :3].T + T1[:3, 3]
    base = call(b1, b2, "contact_forces(b1, b2)")
    if base is None:
        return done(ctx, res)
    flag, w12, w21 = base
    f12, f21 = w12[:3], w21[:3]
    fmag = max(np.linalg.norm(f12), np.linalg.norm(f21))
    res["nontrivial"] = int(flag and fmag > 1e3 * floor)
    res["sample"] = dict(contract=task["contract"], **inp, intersection=flag, f12=f12.tolist(), f21=f21.tolist())

    # ---- state: body 1 is now expressed in the frame of body 2 - world geometry unchanged, caches consistent
    R2, t2 = sphere_pose(k2, T2)[:3, :3], T2[:3, 3]
    back = b1.vertices_ @ np.asarray(b1.body2origin_)[:3, :3].T + np.asarray(b1.body2origin_)[:3, 3]
    if np.max(np.abs(back - V1_world)) > 1e-9 * max(1.0, float(np.max(np.abs(V1_world)))):
        ctx.fail("express_in_consistent", f"after the query, body2origin_ * vertices_ of body 1 differs from its world vertices by {np.max(np.abs(back - V1_world)):.3e}")
    tp = b1.vertices_[b1.tetrahedra_]
    if not (np.array_equal(b1.tetrahedra_points, tp) and np.array_equal(b1.aabbs, np.stack((tp.min(axis=1), tp.max(axis=1)), axis=2))):
        ctx.fail("cache_consistent", "tetrahedra_points / aabbs of body 1 are stale after express_in")

    # ---- world-frame force = R2 * (own resultant in the frame of body 2); action-reaction
    try:
        c1, c2 = fresh()
        cs = hc.find_contact_surface(c1, c2)
        res["evals"] += 1
        F2 = own_resultant(cs, c1) if cs.intersection else np.zeros(3)
        Fw = R2 @ F2
        scale = max(np.linalg.norm(Fw), fmag)
        if np.linalg.norm(f21 - Fw) > 1e-6 * scale + floor:
            ctx.fail("world_frame_force", f"force on body 1: contact_forces gives {f21.tolist()}, R2 * (sum of pressure * area * normal over the reported "
                     f"polygons) = {Fw.tolist()} (|diff| = {np.linalg.norm(f21 - Fw):.3e}, |F| = {np.linalg.norm(Fw):.3e})")
        if np.linalg.norm(f12 + Fw) > 1e-6 * scale + floor:
            ctx.fail("world_frame_force", f"force on body 2: contact_forces gives {f12.tolist()}, -R2 * F = {(-Fw).tolist()}")
        pairs_brute = set(zip([int(i) for i in cs.intersecting_tetrahedra1], [int(j) for j in cs.intersecting_tetrahedra2]))
        if bool(cs.intersection) != flag:
            ctx.fail("flag_unchanged", f"find_contact_surface.intersection = {cs.intersection}, contact_forces flag = {flag} on identical fresh bodies")
    except Exception as e:
        ctx.fail("no_exception", f"find_contact_surface(b1, b2): {type(e).__name__}: {e}")
        pairs_brute = None
    # triage aid (not a verdict): the same symmetry clauses evaluated on R * (own resultant), i.e. with the frame change done HERE; tells
    # whether swap / rigid-motion violations would remain if only the wrench transform of the library were repaired
    diag = res.setdefault("diag", dict(swap=0, motion=0, scenes=0))
    try:
        if pairs_brute is not None and res["nontrivial"]:
            diag["scenes"] += 1
            d2, d1 = fresh()[::-1]
            cs_s = hc.find_contact_surface(d2, d1)
            Fs = sphere_pose(k1, T1)[:3, :3] @ (own_resultant(cs_s, d2) if cs_s.intersection else np.zeros(3))      # force on old body 2
            diag["swap"] += int(not close(Fs, -Fw, floor)[0])
            g1, g2 = fresh(G)
            cs_m = hc.find_contact_surface(g1, g2)
            Fm = sphere_pose(k2, G @ T2)[:3, :3] @ (own_resultant(cs_m, g1) if cs_m.intersection else np.zeros(3))
            diag["motion"] += int(not close(Fm, G[:3, :3] @ Fw, floor)[0])
    except Exception:
        pass
    ok, dev = close(f12, -f21, floor)
    if not ok:
        ctx.fail("action_reaction", f"f12 = {f12.tolist()}, f21 = {f21.tolist()}: |f12 + f21| = {dev:.4g} > 5 % of {fmag:.4g}")

    # ---- swap the bodies
    s2, s1 = fresh()[::-1]
    sw = call(s2, s1, "contact_forces(b2, b1)")
    if sw is not None:
        if sw[0] != flag:
            ctx.fail("flag_unchanged", f"intersection = {flag} for (b1, b2) but {sw[0]} for (b2, b1)")
        for a, b, nm in ((sw[1][:3], f21, "f12' vs f21"), (sw[2][:3], f12, "f21' vs f12")):
            ok, dev = close(a, b, floor)
            if not ok:
                ctx.fail("swap_symmetry", f"{nm}: {np.asarray(a).tolist()} vs {np.asarray(b).tolist()} (|diff| = {dev:.4g}, 5 % of the magnitude = {REL * max(np.linalg.norm(a), np.linalg.norm(b)):.4g})")
        for a, b, nm in ((sw[1][3:], w21[3:], "torque12' vs torque21"), (sw[2][3:], w12[3:], "torque21' vs torque12")):
            dev = float(np.linalg.norm(a - b))
            if not dev <= REL * max(np.linalg.norm(a), np.linalg.norm(b), fmag * D) + floor * D:
                ctx.fail("swap_symmetry_torque", f"{nm}: {a.tolist()} vs {b.tolist()} (|diff| = {dev:.4g}; tolerance 5 % of max(|torque|, |force| * diameter) = "
                         f"{REL * max(np.linalg.norm(a), np.linalg.norm(b), fmag * D):.4g})")

    # ---- move both bodies by one rigid motion G: the forces rotate with G
    m1, m2 = fresh(G)
    mv = call(m1, m2, "contact_forces(G b1, G b2)")
    if mv is not None:
        if mv[0] != flag:
            ctx.fail("flag_unchanged", f"intersection = {flag} before and {mv[0]} after the common rigid motion", extra=dict(rigid_motion=G.tolist()))
        for a, b, nm in ((mv[1][:3], G[:3, :3] @ f12, "f12"), (mv[2][:3], G[:3, :3] @ f21, "f21")):
            ok, dev = close(a, b, floor)
            if not ok:
                ctx.fail("rigid_motion_equivariance", f"{nm} after the motion = {np.asarray(a).tolist()}, R_G * {nm} before = {np.asarray(b).tolist()} (|diff| = {dev:.4g})",
                         extra=dict(rigid_motion=G.tolist()))

    # ---- repeated and interleaved calls on the SAME (mutated) objects
    k3 = KINDS[int(rng.integers(len(KINDS)))]
    p3 = body_params(k3, size, variant=int(rng.integers(12)))
    T3 = sphere_pose(k3, C.pose(C.random_rotation(rng), T1[:3, 3] + rng.normal(size=3) * 0.3 * size))
    b3 = make_body(k3, p3, T3, 1.0)
    history = ["(b1,b2)"]
    for step in ["(b1,b2)", "(b1,b3)", "(b1,b2)", "(b2,b1)", "(b1,b2)", "(b3,b1)", "(b2,b3)", "(b1,b2)"]:
        history.append(step)
        if step == "(b1,b2)":
            r = call(b1, b2, f"contact_forces after history {history}")
            if r is None:
                break
            if r[0] != flag:
                ctx.fail("flag_unchanged", f"intersection = {flag} on the first call and {r[0]} after the call history {history}")
            for a, b, nm in ((r[1][:3], f12, "f12"), (r[2][:3], f21, "f21")):
                ok, dev = close(a, b, floor)
                if not ok:
                    ctx.fail("repeatable", f"{nm} = {np.asarray(b).tolist()} on the first call, {np.asarray(a).tolist()} after the call history {history} (|diff| = {dev:.4g})")
        else:
            objs = dict(b1=b1, b2=b2, b3=b3)
            x, y = objs[step[1:3]], objs[step[4:6]]
            r = call(x, y, f"contact_forces{step} in history {history}")
            if r is None:
                break
            # the same pair computed on fresh, never re-expressed bodies must give the same answer
            mk = dict(b1=lambda: make_body(k1, p1, T1, E1), b2=lambda: make_body(k2, p2, T2, E2), b3=lambda: make_body(k3, p3, T3, 1.0))
            q = call(mk[step[1:3]](), mk[step[4:6]](), f"contact_forces{step} on fresh bodies")
            if q is not None:
                if q[0] != r[0]:
                    ctx.fail("flag_unchanged", f"contact_forces{step}: intersection = {q[0]} on fresh bodies and {r[0]} on the re-expressed bodies after the call history {history}",
                             extra=dict(body3=dict(kind=k3, **p3, pose=T3.tolist(), youngs_modulus=1.0)))
                for a, b, nm in ((r[1][:3], q[1][:3], "f12"), (r[2][:3], q[2][:3], "f21")):
                    ok, dev = close(a, b, floor)
                    if not ok:
                        ctx.fail("repeatable", f"contact_forces{step}: {nm} = {np.asarray(b).tolist()} on fresh bodies, {np.asarray(a).tolist()} on the re-expressed bodies after the "
                                 f"call history {history} (|diff| = {dev:.4g})", extra=dict(body3=dict(kind=k3, **p3, pose=T3.tolist(), youngs_modulus=1.0)))
    for nm, b in (("b1", b1), ("b2", b2), ("b3", b3)):
        tp = b.vertices_[b.tetrahedra_]
        vol = np.abs(np.linalg.det(tp[:, 1:] - tp[:, :1])) / 6.0
        com = (vol[:, None] * tp.mean(axis=1)).sum(axis=0) / vol.sum()
        if not (np.array_equal(b.tetrahedra_points, tp) and np.array_equal(b.aabbs, np.stack((tp.min(axis=1), tp.max(axis=1)), axis=2))
                and np.max(np.abs(np.asarray(b.com) - com)) <= 1e-9 * L):
            ctx.fail("cache_consistent", f"tetrahedra_points / aabbs / com of {nm} are stale after the call history {history}")

    # ---- broad phase: tree vs brute force
    try:
        t1, t2_ = fresh()
        cs_t = hc.find_contact_surface(t1, t2_, use_aabb_trees=True)
        res["evals"] += 1
        pairs_tree = set(zip([int(i) for i in cs_t.intersecting_tetrahedra1], [int(j) for j in cs_t.intersecting_tetrahedra2]))
        if pairs_brute is not None and pairs_tree != pairs_brute:
            ctx.fail("tree_equals_bruteforce", f"use_aabb_trees=True reports {len(pairs_tree)} intersecting pairs, brute force {len(pairs_brute)}; only tree: "
                     f"{sorted(pairs_tree - pairs_brute)[:5]}, only brute force: {sorted(pairs_brute - pairs_tree)[:5]}")
    except Exception as e:
        ctx.fail("no_exception", f"find_contact_surface(b1, b2, use_aabb_trees=True): {type(e).__name__}: {e}", contract="hydroelastic.find_contact_surface[use_aabb_trees]")
    try:     # the same comparison one level down, through the attribute that exists (aabb_tree), so that the clause is decided either way
        u1, u2 = fresh()
        u1.express_in(u2.body2origin_)
        res["evals"] += 1
        own = np_bruteforce_pairs(u1.aabbs, u2.aabbs)
        _, _, lib_pairs = AT.all_aabbs_overlap(u1.aabbs, u2.aabbs)
        lib = set((int(i), int(j)) for i, j in lib_pairs)
        _, _, _, tree_pairs = u1.aabb_tree.overlaps_aabb_tree(u2.aabb_tree)
        tree = set((int(i), int(j)) for i, j in tree_pairs)
        n_t = len(tree_pairs)
        bc = f"hydroelastic.broad_phase[{k1},{k2}]"
        if lib != own:
            ctx.fail("tree_equals_bruteforce", f"all_aabbs_overlap: {len(lib)} candidate pairs, own interval test {len(own)}", contract=bc)
        if tree != own or n_t != len(tree):
            ctx.fail("tree_equals_bruteforce", f"aabb_tree.overlaps_aabb_tree: {n_t} candidate pairs ({len(tree)} distinct), brute force {len(own)}; only tree: "
                     f"{sorted(tree - own)[:5]}, only brute force: {sorted(own - tree)[:5]}", contract=bc)
    except Exception as e:
        ctx.fail("no_exception", f"aabb_tree.overlaps_aabb_tree: {type(e).__name__}: {e}", contract=f"hydroelastic.broad_phase[{k1},{k2}]")
    return done(ctx, res)


def done(ctx, res):
    res["failures"] = ctx.failures
    return res


def run_task(task):
    try:
        return run_scene(task)
    except Exception as e:
        import traceback
        return dict(evals=0, nontrivial=0, sample=None, failures=[], undecided=1,
                    harness_error=f"{type(e).__name__}: {e} :: {traceback.format_exc()[-500:]}")


# ------------------------------------------------------------------------------------------------- domain
def youngs(rng):
    if rng.random() < 0.5:
        return float(rng.choice([1e-2, 1.0, 1e2]))
    return float(10.0 ** rng.uniform(-2, 2))


def build_tasks(tier, rng):
    thorough = tier == "thorough"
    tasks = []
    reps = dict(general=3, origin=1, translated=1, lattice=1) if not thorough else dict(general=28, origin=8, translated=8, lattice=14)
    for k1, k2 in itertools.product(KINDS, KINDS):
        for fam, n in reps.items():
            for rep in range(n):
                s1 = float(10.0 ** rng.uniform(-2, 2)) if rng.random() < 0.4 else float(rng.choice([0.01, 1.0, 1.0, 100.0]))
                s2 = s1 * float(rng.choice([0.5, 1.0, 1.0, 2.0]))
                p1, p2 = body_params(k1, s1, int(rng.integers(12))), body_params(k2, s2, int(rng.integers(12)))
                r1, r2 = float(half_extent(k1, p1).min()), float(half_extent(k2, p2).min())
                dirn = rng.normal(size=3)
                dirn /= np.linalg.norm(dirn)
                rel = dirn * (r1 + r2) * rng.uniform(0.4, 0.95)          # body 1 relative to body 2: overlapping
                if fam == "general":
                    T2 = C.pose(C.random_rotation(rng), rng.normal(size=3) * s1 * float(rng.choice([0.0, 1.0, 10.0])))
                    T1 = C.pose(C.random_rotation(rng), T2[:3, 3] + rel)
                    contract = f"hydroelastic.contact_forces[{k1},{k2}]"
                elif fam == "origin":
                    T2 = np.eye(4)
                    T1 = C.pose(C.random_rotation(rng), rel)
                    contract = f"hydroelastic.contact_forces[{k1},{k2};body2_at_origin]"
                elif fam == "translated":
                    T2 = C.pose(np.eye(3), rng.normal(size=3) * s1 * float(rng.choice([1.0, 10.0])))
                    T1 = C.pose(C.random_rotation(rng), T2[:3, 3] + rel)
                    contract = f"hydroelastic.contact_forces[{k1},{k2};body2_translated]"
                else:
                    T2 = C.pose(C.CUBE[rng.integers(24)], rng.integers(-2, 3, size=3).astype(float) * 0.5 * s1)
                    off = rng.integers(-1, 2, size=3).astype(float)
                    if not np.any(off):
                        off[int(rng.integers(3))] = 1.0
                    off = off / np.linalg.norm(off) if rep % 2 else off / np.abs(off).sum()
                    T1 = C.pose(C.CUBE[rng.integers(24)], T2[:3, 3] + off * float(rng.choice([0.5, 0.75, 1.0])) * (r1 + r2))
                    contract = f"hydroelastic.contact_forces[{k1},{k2};lattice]"
                G = C.pose(C.random_rotation(rng), rng.normal(size=3) * 10.0 * s1)
                tasks.append(dict(contract=contract, k1=k1, p1=p1, T1=sphere_pose(k1, T1).tolist(), E1=youngs(rng), k2=k2, p2=p2, T2=sphere_pose(k2, T2).tolist(),
                                  E2=youngs(rng), G=G.tolist(), seed=int(rng.integers(2 ** 31))))
    return tasks


def pmap_partial(fn, tasks, jobs=16, timeout=600):
    """like _common.pmap but task-wise: returns (results, pending) where results[i] is None for the tasks that had not returned at
    the deadline.  A native hang blocks one worker with one task while the others drain the queue, so 'few pending, rest done' is
    the signature of a hang; 'many pending' means the time budget was too small for this machine load (reported as undecided)."""
    import multiprocessing as mp
    ctx = mp.get_context("fork")
    pool = ctx.Pool(min(jobs, max(1, len(tasks))))
    handles = [pool.apply_async(fn, (t,)) for t in tasks]
    results = [None] * len(tasks)
    pending = set(range(len(tasks)))
    deadline = time.time() + timeout
    while pending and time.time() < deadline:
        for i in list(pending):
            if handles[i].ready():
                try:
                    results[i] = handles[i].get(0)
                except Exception as e:           # the worker function itself never raises; this is a pickling / pool problem
                    results[i] = dict(pool_error=f"{type(e).__name__}: {e}")
                pending.discard(i)
        time.sleep(0.05)
    pool.terminate()
    pool.join()
    return results, sorted(pending)


def order_failures(failures):
    counts, first, rest = {}, [], []
    for f in failures:
        k = f["contract"] + " | " + f["obligation"]
        counts[k] = counts.get(k, 0) + 1
        (first if counts[k] == 1 else rest).append(f)
    return first + rest, dict(sorted(counts.items()))


def warm_up():
    import distance3d.hydroelastic_contact as hc
    b1 = make_body("cube", dict(size=1.0), np.eye(4), 1.0)
    b2 = make_body("cube", dict(size=1.0), C.pose(C.random_rotation(np.random.default_rng(0)), [0.1, 0.2, 0.7]), 1.0)
    hc.contact_forces(b1, b2)
    b1.aabb_tree.overlaps_aabb_tree(b2.aabb_tree)


def main():
    a = C.args()
    t0 = time.time()
    rng = np.random.default_rng(a.seed)
    extra = {}
    try:
        warm_up()
    except Exception as e:
        extra["warm_up_error"] = f"{type(e).__name__}: {e}"
    tasks = build_tasks(a.tier, rng)
    results, pending = pmap_partial(run_task, tasks, jobs=a.jobs, timeout=(1150 if a.tier == "thorough" else 140) - (time.time() - t0))
    failures = []
    if pending:
        extra["unfinished_tasks"] = len(pending)
        if len(pending) <= a.jobs:        # hang signature, see pmap_partial
            for i in pending:
                failures.append(dict(contract=tasks[i]["contract"], obligation="terminates",
                                     detail="the scene did not return before the watchdog deadline while all other scenes finished", input=tasks[i]))
    results = [r for r in results if r is not None]
    evals = nontrivial = undecided = 0
    samples, seen, herr = [], set(), []
    diag = dict(swap=0, motion=0, scenes=0)
    for r in results:
        if "pool_error" in r:
            herr.append(r["pool_error"])
            continue
        for k in diag:
            diag[k] += r.get("diag", {}).get(k, 0)
        evals += r["evals"]
        nontrivial += r["nontrivial"]
        undecided += r["undecided"]
        failures += r["failures"]
        if r.get("harness_error"):
            herr.append(r["harness_error"])
        s = r["sample"]
        if s and r["nontrivial"]:
            fam = s["contract"].split(";")[1] if ";" in s["contract"] else "general"
            if fam not in seen:
                seen.add(fam)
                samples.append(s)
    if herr:
        extra["harness_errors"] = herr[:5]
        extra["n_harness_errors"] = len(herr)
    by_ob = {}
    for f in failures:
        fam = f["contract"].split(";")[1].rstrip("]") if ";" in f["contract"] else (
            "general" if f["contract"].startswith("hydroelastic.contact_forces") else "use_aabb_trees" if "use_aabb_trees" in f["contract"] else "broad_phase")
        key = f["obligation"] + " | " + fam
        by_ob[key] = by_ob.get(key, 0) + 1
    extra["failures_by_obligation_and_pose_family"] = dict(sorted(by_ob.items()))
    failures, extra["failure_counts"] = order_failures(failures)
    import distance3d
    extra["library"] = os.path.dirname(distance3d.__file__)
    C.emit(t0, evals, nontrivial,
           "a scene is non-trivial when the first contact_forces call reports an intersection and a force above 1e-9 * E * size^3 "
           "(so that the 5 % clauses compare non-zero vectors); evaluations = number of contact_forces / find_contact_surface / broad-phase calls",
           samples, failures,
           f"tier {a.tier}: {len(tasks)} scenes = 36 ordered kind pairs (sphere, ellipsoid, cube, box, cylinder, capsule) x pose families [general rotations of both "
           "bodies, body 2 at the identity pose, body 2 translated only, cube-group lattice poses]; feature sizes {0.01,1,100} and log-uniform in "
           "[1e-2,1e2], size ratios {1/2,1,2}, Young's moduli {1e-2,1,1e2} and log-uniform; overlap 5-60 % of the sum of the inradii along a random "
           "direction; per scene: swap of the bodies, one random common rigid motion (translation ~10 sizes), the call history (b1,b2),(b1,b2),(b1,b3),"
           "(b1,b2),(b2,b1),(b1,b2),(b3,b1),(b2,b3),(b1,b2) on the same mutated objects with a third random body b3, tree vs brute-force broad phase",
           undecided=undecided + (len(pending) if len(pending) > a.jobs else 0), triage_symmetry_violations_with_own_frame_change=dict(
               note="5 % swap / rigid-motion clauses re-evaluated on R2 * (own resultant of the reported polygons); what would remain if only "
                    "_transform_wrenches were repaired", scenes=diag["scenes"], swap_symmetry=diag["swap"], rigid_motion_equivariance=diag["motion"]), **extra)


if __name__ == "__main__":
    main()
