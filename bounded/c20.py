"""BOUNDED stand-in for C20: compiled (numba JIT as installed) and interpreted (NUMBA_DISABLE_JIT=1) execution give the same results.

The driver (this file; it never imports the library) builds a seeded corpus of calls with pure numpy, pickles it and runs it in fresh
interpreter processes (this same file with C20_WORKER=1): with the JIT as installed, and with NUMBA_DISABLE_JIT=1 set in the environment
BEFORE python starts (the worker reports numba.config.DISABLE_JIT, so the mode is verified, not assumed).  Workers write one JSON line
before and one after every call; a supervisor thread per worker enforces a per-call watchdog, records a hang / a died process for the call
in flight and restarts the worker behind it.  JIT pass 1 runs the generic / tie / mid calls under a long watchdog (a cold numba cache has
to compile: about 150 s for the whole library), JIT pass 2 then runs the container calls (EMPTY tree ...: the ones that can hang when
compiled code reads outside its arrays) under a short watchdog, the EMPTY-tree calls spread over separate processes.

Obligations (contract names jit_vs_interp.<module>.<function>):
  same_result          floats of closed-form functions: |a-b| <= 1e-9*max(L,|a|,|b|); iterative solvers: distances within acc*L
                       (acc = 1e-5 for the Jolt GJK (C01), 1e-3 for the other GJK flavours / EPA, 2e-3 MPR, 1e-6 iterative primitives),
                       witness points of separated generic pairs within 1e-3*L; booleans, integers, index sets, array shapes identical
                       (an integer array and a float array with the same values, e.g. empty index arrays, count as the same set: recorded)
  same_exception_type  both modes raise the same exception type or neither raises
  terminates           no mode hangs (watchdog) or dies (signal) on a call
  imports_under_jit    every module of distance3d (except visualization / plotting) imports with the JIT as installed (thorough: one
                       fresh interpreter per module; quick: 3 fresh interpreters, all distance3d modules purged from sys.modules between two
                       imports, anything not ok is re-checked in its own fresh interpreter; hydroelastic_contact.* with the open3d stub of
                       _common because open3d cannot load in this sandbox)

L = max(1, largest |coordinate| / size in the call).  Inputs carry a tag: 'generic' (random, away from every decision boundary with
probability 1) and 'container' (empty / single-element / duplicate containers: explicitly part of the property) -> every mismatch is a
failure; 'tie' (exactly degenerate lattice placements: parallel, touching, coincident; structurally coincident half-planes) and 'mid'
(unknown overlap state) -> numeric mismatches of distances are failures, mismatching booleans / index sets / shapes / exception types are
counted as `undecided` (the property exempts decision boundaries).  Hangs and dead processes are failures everywhere.

No false alarm from uninitialised memory: every mismatch is re-run twice in both modes with python-level np.empty()/np.empty_like()
returning pattern-filled arrays (legal: their contents are unspecified) and MALLOC_PERTURB_ set; only a mismatch that shows in every
repetition is reported, otherwise it is `undecided` (example: gjk_distance_jolt hands EPA a simplex with never-written rows of np.empty,
so EPA's answer changes with the garbage in BOTH modes).
"""
import time
t0 = time.time()
import importlib
import importlib.util
import json
import math
import os
import pickle
import shutil
import subprocess
import sys
import tempfile
from concurrent.futures import ThreadPoolExecutor

HERE = os.path.dirname(os.path.abspath(__file__))
sys.path.insert(0, HERE)
WORKER = os.environ.get("C20_WORKER") == "1"

import numpy as np


# =============================================================================================================== worker side
def norm(x):
    """result -> JSON-able structure"""
    import enum
    if x is None or isinstance(x, (bool, str)):
        return x
    if isinstance(x, np.bool_):
        return bool(x)
    if isinstance(x, (int, np.integer)):
        return int(x)
    if isinstance(x, (float, np.floating)):
        return float(x)
    if isinstance(x, enum.Enum):
        return "enum:" + x.name
    if isinstance(x, np.ndarray):
        k = "b" if x.dtype == bool else "i" if np.issubdtype(x.dtype, np.integer) else "f"
        flat = x.ravel().tolist()
        return {"__a__": k, "shape": list(x.shape), "v": flat}
    if isinstance(x, (tuple, list)):
        return [norm(y) for y in x]
    if isinstance(x, dict):
        return {str(k): norm(v) for k, v in x.items()}
    return "obj:" + type(x).__name__


def _resolve(target):
    mod, fn = target.split(":")
    obj = importlib.import_module(mod)
    for part in fn.split("."):
        obj = getattr(obj, part)
    return obj


def r_call(c):
    return _resolve(c["target"])(*c["args"], **c.get("kwargs", {}))


def r_dist0(c):
    """distance functions on tie inputs: only the distance is compared (witness points are not unique)"""
    res = _resolve(c["target"])(*c["args"])
    return {"d_dist": res[0] if isinstance(res, tuple) else res}


def r_dist_iter(c):
    """iterative primitives: distance within acc*L, witness points within 1e-3*L"""
    res = _resolve(c["target"])(*c["args"])
    return {"d_dist": res[0], "p_points": list(res[1:])}


def _collider(spec):
    import _common as C
    kind, T, size = spec
    return C.make_collider(kind, np.ascontiguousarray(T), size)["obj"]


def r_collider(c):
    from distance3d import colliders
    col = _collider(c["A"])
    if c.get("margin"):
        col = colliders.Margin(col, c["margin"])
    out = {}
    out["c_center"] = col.center()
    out["c_first_vertex"] = col.first_vertex()
    out["c_aabb"] = col.aabb()
    out["c_support"] = np.array([col.support_function(np.ascontiguousarray(d)) for d in c["dirs"]])
    out["c_support_value_axis"] = np.array([float(np.dot(col.support_function(np.ascontiguousarray(d)), d)) for d in c["axis_dirs"]])
    if c.get("pose2") is not None:
        try:
            col.update_pose(np.ascontiguousarray(c["pose2"]))
        except Exception as e:        # e.g. ConvexHullVertices.update_pose is not implemented: recorded as part of the result
            out["x_update_pose_raises"] = type(e).__name__
            return out
        out["c_support2"] = np.array([col.support_function(np.ascontiguousarray(d)) for d in c["dirs"]])
        out["c_center2"] = col.center()
        out["c_aabb2"] = col.aabb()
    return out


def r_pair(c):
    from distance3d import gjk, mpr, epa
    A, B = _collider(c["A"]), _collider(c["B"])
    fn = c["fn"]
    pts = c["regime"] == "sep"
    if fn in ("gjk_distance_jolt", "gjk_distance_original"):
        res = getattr(gjk, fn)(A, B)
        out = {"d_dist": res[0]}
        if pts:
            out["p_a"], out["p_b"] = res[1], res[2]
        return out
    if fn in ("gjk_nesterov_accelerated_distance", "gjk_nesterov_accelerated_primitives_distance"):
        return {"d_dist": getattr(gjk, fn)(A, B)}
    if fn in ("gjk_intersection_jolt", "gjk_intersection_libccd", "gjk_nesterov_accelerated_intersection",
              "gjk_nesterov_accelerated_primitives_intersection"):
        return {"x_hit": bool(getattr(gjk, fn)(A, B))}
    if fn == "mpr_intersection":
        return {"x_hit": bool(mpr.mpr_intersection(A, B))}
    if fn == "mpr_penetration":
        hit, depth, direction, pos = mpr.mpr_penetration(A, B)
        return {"x_hit": bool(hit), "d_depth": depth, "n_dir": direction, "n_pos": pos}
    if fn == "epa":
        dist, a, b, simplex = gjk.gjk_distance_jolt(A, B)
        if simplex is None or dist > 0.0:
            return {"x_overlap": False, "d_dist": dist}
        mtv, faces, success = epa.epa(simplex, A, B)
        return {"x_overlap": True, "x_success": bool(success), "d_mtv_len": float(np.linalg.norm(mtv)), "n_mtv": mtv,
                "n_faces": len(faces)}
    if fn == "minkowski.support_function":
        from distance3d import minkowski
        return {"c": [minkowski.support_function(A, B, np.ascontiguousarray(d)) for d in c["dirs"]]}
    raise ValueError(fn)


def _tree(batches, mode):
    from distance3d import aabb_tree as AT
    t = AT.AabbTree()
    for b in batches:
        t.insert_aabbs(np.ascontiguousarray(b), list(range(len(b))), pre_insertion_methode=mode)
    return t


def r_aabb(c):
    from distance3d import aabb_tree as AT
    op = c["op"]
    if op == "all_aabbs_overlap":
        i1, i2, pairs = AT.all_aabbs_overlap(c["a"], c["b"])
        return {"x_1": np.sort(np.asarray(i1)), "x_2": np.sort(np.asarray(i2)), "x_pairs": sorted(map(tuple, np.asarray(pairs).tolist()))}
    if op == "aabb_overlap":
        return {"x": [bool(AT.aabb_overlap(a, b)) for a, b in zip(c["a"], c["b"])]}
    t = _tree(c["batches"], c.get("mode", "none"))
    if op == "structure":
        return {"x_root": t.root, "x_filled": t.filled_len, "x_nodes": t.nodes, "c_aabbs": t.aabbs,
                "x_ext": [e for e in t.external_data_list], "x_ins": [e for e in t.insert_index_list]}
    if op == "overlaps_aabb":
        out = []
        for q in c["queries"]:
            hit, idx = t.overlaps_aabb(np.ascontiguousarray(q))
            out.append({"x_hit": bool(hit), "x_idx": sorted(np.asarray(idx).tolist())})
        return out
    if op == "query_first_leaf":
        out = []
        for q in c["queries"]:
            idx = AT.query_overlap(np.ascontiguousarray(q), t.root, t.nodes, t.aabbs, True)
            out.append({"x_n": len(idx)})
        return out
    if op == "overlaps_aabb_tree":
        t2 = _tree(c["batches2"], c.get("mode", "none"))
        hit, i1, i2, pairs = t.overlaps_aabb_tree(t2)
        return {"x_hit": bool(hit), "x_1": np.asarray(i1), "x_2": np.asarray(i2), "x_pairs": sorted(map(tuple, np.asarray(pairs).tolist()))}
    if op == "get_root_aabb":
        return {"c": t.get_root_aabb()}
    raise ValueError(op)


def r_hydro(c):
    import _common as C
    C.stub_visualization()
    import distance3d.hydroelastic_contact as H
    from distance3d.hydroelastic_contact import _tetrahedron_intersection as TI, _halfplanes as HP, _forces as F
    op = c["op"]
    if op == "tetra_pair":
        t1, t2 = c["t1"], c["t2"]
        X1 = np.ascontiguousarray(H.barycentric_transforms(t1[None])[0])
        X2 = np.ascontiguousarray(H.barycentric_transforms(t2[None])[0])
        hit, info = TI.intersect_tetrahedron_pair(t1, c["e1"], X1, t2, c["e2"], X2)
        out = {"x_hit": bool(hit), "c_plane": info[0], "c_poly": info[1]}
        if hit:
            com, force, area, tri = F.compute_contact_force(t1, c["e1"], np.ascontiguousarray(info[0]), np.ascontiguousarray(info[1]))
            out.update({"c_com": com, "c_force": force, "c_area": area, "x_tri": tri})
        return out
    if op == "rigid_bodies":
        def make(spec):
            kind, T, size = spec
            T = np.ascontiguousarray(T)
            if kind == "cube":
                return H.RigidBody.make_cube(T, size)
            if kind == "box":
                return H.RigidBody.make_box(T, np.array([size, 0.5 * size, 0.75 * size]))
            if kind == "sphere":
                return H.RigidBody.make_sphere(np.ascontiguousarray(T[:3, 3]), size, order=1)
            if kind == "ellipsoid":
                return H.RigidBody.make_ellipsoid(T, np.array([size, 0.5 * size, 0.75 * size]), order=1)
            if kind == "cylinder":
                return H.RigidBody.make_cylinder(T, 0.5 * size, size, resolution_hint=0.5 * size)
            if kind == "capsule":
                return H.RigidBody.make_capsule(T, 0.5 * size, size, resolution_hint=0.5 * size)
            raise ValueError(kind)
        rb1, rb2 = make(c["A"]), make(c["B"])
        if c.get("use_aabb_trees"):
            cs = H.find_contact_surface(rb1, rb2, use_aabb_trees=True)
            return {"x_hit": bool(cs.intersection)}
        hit, w12, w21 = H.contact_forces(rb1, rb2)
        return {"x_hit": bool(hit), "c_w12": w12, "c_w21": w21}
    if op == "transform_wrenches":
        return {"c": F._transform_wrenches(*c["args"])}
    raise ValueError(op)


RUNNERS = dict(call=r_call, dist0=r_dist0, dist_iter=r_dist_iter, collider=r_collider, pair=r_pair, aabb=r_aabb, hydro=r_hydro)


def worker_main():
    import warnings
    warnings.filterwarnings("ignore")
    with open(os.environ["C20_CORPUS"], "rb") as f:
        corpus = pickle.load(f)
    key, group = os.environ["C20_KEY"], os.environ["C20_GROUP"]
    start = int(os.environ.get("C20_START", "0"))
    calls = [c for c in corpus if c[key] == group]
    fo = open(os.environ["C20_OUT"], "a")

    def w(obj):
        fo.write(json.dumps(obj) + "\n")
        fo.flush()
    import _common as C          # puts D3VC_REPO first on sys.path
    C.stub_visualization()       # open3d cannot be loaded in this sandbox (same stub in both modes)
    import numba
    import distance3d
    np.seterr(all="ignore")
    w({"ready": 1, "jit_disabled": bool(numba.config.DISABLE_JIT), "file": distance3d.__file__})
    poison = os.environ.get("C20_POISON")
    orig_empty, orig_empty_like = np.empty, np.empty_like

    def _fill(a_):
        if a_.dtype.kind == "f":
            a_.fill(float(poison))
        elif a_.dtype.kind in "iu":
            a_.fill(123456789)
        return a_

    def p_empty(*a_, **k_):
        return _fill(orig_empty(*a_, **k_))

    def p_empty_like(*a_, **k_):
        return _fill(orig_empty_like(*a_, **k_))
    for n, c in enumerate(calls):
        if n < start:
            continue
        w({"s": n})
        t = time.time()
        if poison:
            # reproducibility probe: the contents of np.empty() are unspecified, so every fill is a legal behaviour.  Python-level
            # np.empty / np.empty_like (identical call sites in both modes) return arrays filled with a recognisable pattern;
            # MALLOC_PERTURB_ in the environment perturbs fresh malloc / NRT blocks.  Under the JIT the call is executed once
            # unpatched first, so that everything is compiled before the numpy attribute is replaced (numba resolves np.empty at
            # compile time).
            if not numba.config.DISABLE_JIT:
                try:
                    RUNNERS[c["runner"]](c)
                except Exception:
                    pass
            np.empty, np.empty_like = p_empty, p_empty_like
        try:
            res = {"ok": norm(RUNNERS[c["runner"]](c))}
        except Exception as e:
            res = {"exc": type(e).__name__, "msg": str(e)[:300]}
        finally:
            np.empty, np.empty_like = orig_empty, orig_empty_like
        res["r"] = n
        res["t"] = round(time.time() - t, 3)
        w(res)
    w({"done": 1})


if WORKER:
    worker_main()
    sys.exit(0)

# =============================================================================================================== driver side
import _common as C

PY = sys.executable


def supervise(key, group, mode, corpus_path, tmp, n_calls, t_call, t_import, extra_env=None, label=""):
    """run the worker of one (group, mode) with restarts; returns ({call index within the group: result}, meta)"""
    results, meta = {}, {}
    start = 0
    while start < n_calls:
        out = os.path.join(tmp, "%s%s.%s.%d.jsonl" % (group, label, mode, start))
        err = out + ".err"
        env = dict(os.environ)
        env.update(C20_WORKER="1", C20_CORPUS=corpus_path, C20_KEY=key, C20_GROUP=group, C20_OUT=out, C20_START=str(start),
                   OMP_NUM_THREADS="1", OPENBLAS_NUM_THREADS="1", MKL_NUM_THREADS="1", NUMBA_NUM_THREADS="1", PYTHONHASHSEED="0")
        env.pop("NUMBA_DISABLE_JIT", None)
        if mode == "interp":
            env["NUMBA_DISABLE_JIT"] = "1"
        env.update(extra_env or {})
        open(out, "w").close()
        with open(err, "w") as ferr:
            p = subprocess.Popen([PY, os.path.abspath(__file__)], env=env, stdout=subprocess.DEVNULL, stderr=ferr, cwd=tmp)
        pos, current, nxt = 0, None, start
        last = time.time()
        ready = done = hang = False
        while True:
            rc = p.poll()
            with open(out) as f:
                f.seek(pos)
                chunk = f.read()
            cut = chunk.rfind("\n")
            lines = chunk[:cut].split("\n") if cut >= 0 else []
            pos += cut + 1 if cut >= 0 else 0
            for line in lines:
                if not line:
                    continue
                obj = json.loads(line)
                last = time.time()
                if "ready" in obj:
                    ready, meta = True, obj
                elif "s" in obj:
                    current = obj["s"]
                elif "r" in obj:
                    results[obj["r"]] = obj
                    current, nxt = None, obj["r"] + 1
                elif "done" in obj:
                    done = True
            if done:
                try:
                    p.wait(timeout=30)
                except subprocess.TimeoutExpired:
                    p.kill()
                break
            if rc is not None and not lines:
                break
            if time.time() - last > (t_call if ready else t_import):
                hang = True
                p.kill()
                p.wait()
                break
            time.sleep(0.05)
        if done:
            break
        tail = ""
        try:
            tail = open(err).read()[-400:]
        except Exception:
            pass
        if not ready:
            for n in range(start, n_calls):
                results[n] = {"nostart": "hang" if hang else "rc=%s" % p.returncode, "stderr": tail}
            break
        bad = current if current is not None else nxt
        if bad >= n_calls:
            break
        results[bad] = {"hang": t_call} if hang else {"died": p.returncode, "stderr": tail}
        start = bad + 1
    return results, meta


def import_check(module, stub, tmp, timeout):
    code = "import sys; sys.path.insert(0, %r); import _common\n" % HERE
    if stub:
        code += "_common.stub_visualization()\n"
    code += "import numba\nassert not numba.config.DISABLE_JIT\nimport %s\n" % module
    env = dict(os.environ)
    env.pop("NUMBA_DISABLE_JIT", None)
    try:
        p = subprocess.run([PY, "-c", code], env=env, cwd=tmp, capture_output=True, text=True, timeout=timeout)
        return module, p.returncode, (p.stderr or "")[-500:]
    except subprocess.TimeoutExpired:
        return module, "timeout", "no return within %d s" % timeout


def import_batch(modules, tmp, timeout):
    """quick tier: one fresh interpreter imports several modules one after the other, every distance3d module is removed from
    sys.modules in between (each module must import on its own; numba / numpy stay loaded).  Falls back to one fresh interpreter per
    module for everything that is not reported ok (so a failure is always confirmed in a really fresh interpreter)."""
    code = ("import sys, json, importlib; sys.path.insert(0, %r); import _common; import numba\n"
            "assert not numba.config.DISABLE_JIT\n"
            "for m in %r:\n"
            "    for k in [k for k in sys.modules if k == 'distance3d' or k.startswith('distance3d.')]:\n"
            "        del sys.modules[k]\n"
            "    if '.hydroelastic_contact' in m:\n"
            "        _common.stub_visualization()\n"
            "    try:\n"
            "        importlib.import_module(m); print(json.dumps([m, 0]), flush=True)\n"
            "    except BaseException as e:\n"
            "        print(json.dumps([m, type(e).__name__ + ': ' + str(e)[:200]]), flush=True)\n") % (HERE, list(modules))
    env = dict(os.environ)
    env.pop("NUMBA_DISABLE_JIT", None)
    ok = set()
    try:
        p = subprocess.run([PY, "-c", code], env=env, cwd=tmp, capture_output=True, text=True, timeout=timeout)
        out = p.stdout
    except subprocess.TimeoutExpired as e:
        out = e.stdout.decode() if isinstance(e.stdout, bytes) else (e.stdout or "")
    for line in out.splitlines():
        try:
            m, rc = json.loads(line)
            if rc == 0:
                ok.add(m)
        except Exception:
            pass
    res = [(m, 0, "") for m in modules if m in ok]
    for m in modules:
        if m not in ok:
            res.append(import_check(m, ".hydroelastic_contact" in m, tmp, 300))
    return res


# ----------------------------------------------------------------------------------------------- comparison
DTYPE_NOTES = {}


def _tol(cls, spec, a, b):
    L = spec["L"]
    if cls == "d":
        return spec.get("acc", 1e-9) * L
    if cls == "p":
        return 1e-3 * L
    return 1e-9 * max(L, abs(a), abs(b))


def compare(a, b, cls, spec, path, out):
    """appends (kind, path, detail); kind in {'num', 'exact', 'struct'}"""
    if cls == "n":
        return
    if isinstance(a, dict) and "__a__" in a and isinstance(b, dict) and "__a__" in b:
        if a["shape"] != b["shape"] or (a["__a__"] != b["__a__"] and "b" in (a["__a__"], b["__a__"]) and a["v"]):
            out.append(("struct", path, "array %s%s vs %s%s" % (a["__a__"], a["shape"], b["__a__"], b["shape"])))
            return
        if a["__a__"] != b["__a__"]:
            # same values in an integer array (compiled) and a float array (interpreted), typically empty index arrays from
            # np.unique([]): the index SETS are identical; recorded, not judged
            DTYPE_NOTES[spec["contract"]] = DTYPE_NOTES.get(spec["contract"], 0) + 1
        for i, (x, y) in enumerate(zip(a["v"], b["v"])):
            compare(x, y, cls, spec, "%s[%d]" % (path, i), out)
            if len(out) > 20:
                return
        return
    if isinstance(a, dict) and isinstance(b, dict) and "__a__" not in a and "__a__" not in b:
        if set(a) != set(b):
            out.append(("struct", path, "keys %s vs %s" % (sorted(a), sorted(b))))
            return
        for k in a:
            sub = k[0] if len(k) >= 2 and k[1] == "_" and k[0] in "xcdpn" else (k if k in "xcdpn" else cls)
            compare(a[k], b[k], sub, spec, path + "." + k, out)
        return
    if isinstance(a, list) and isinstance(b, list):
        if len(a) != len(b):
            out.append(("struct", path, "length %d vs %d" % (len(a), len(b))))
            return
        for i, (x, y) in enumerate(zip(a, b)):
            compare(x, y, cls, spec, "%s[%d]" % (path, i), out)
        return
    if isinstance(a, bool) or isinstance(b, bool) or isinstance(a, str) or isinstance(b, str) or a is None or b is None:
        if type(a) != type(b) or a != b:
            out.append(("exact" if type(a) == type(b) else "struct", path, "%r vs %r" % (a, b)))
        return
    if isinstance(a, int) and isinstance(b, int):
        if a != b:
            out.append(("exact", path, "%r vs %r" % (a, b)))
        return
    if isinstance(a, (int, float)) and isinstance(b, (int, float)):
        a, b = float(a), float(b)
        if math.isnan(a) and math.isnan(b):
            return
        if a == b:
            return
        if cls == "x":
            out.append(("exact", path, "%r vs %r" % (a, b)))
            return
        if math.isnan(a) or math.isnan(b) or math.isinf(a) or math.isinf(b) or not abs(a - b) <= _tol(cls, spec, a, b):
            out.append(("num:" + cls, path, "%.17g vs %.17g (|diff| %.3g > tol %.3g)" % (a, b, abs(a - b), _tol(cls, spec, a, b) if not (
                math.isnan(a) or math.isnan(b) or math.isinf(a) or math.isinf(b)) else 0.0)))
        return
    out.append(("struct", path, "%s vs %s" % (type(a).__name__, type(b).__name__)))


# ----------------------------------------------------------------------------------------------- corpus
def g_pt(rng, s, lat):
    return rng.integers(-2, 3, size=3).astype(float) * s if lat else rng.normal(size=3) * s


def g_dir(rng, lat):
    if lat:
        v = np.zeros(3)
        v[rng.integers(3)] = rng.choice([-1.0, 1.0])
        return v
    v = rng.normal(size=3)
    return v / np.linalg.norm(v)


def g_rot(rng, lat):
    return C.CUBE[rng.integers(len(C.CUBE))].copy() if lat else C.random_rotation(rng)


def g_pose(rng, s, lat):
    return C.pose(g_rot(rng, lat), g_pt(rng, s, lat))


def g_len(rng, s, lat, n=None):
    if lat:
        v = rng.choice([0.5, 1.0, 2.0], size=n) * s
    else:
        v = rng.uniform(0.3, 2.0, size=n) * s
    return float(v) if n is None else np.asarray(v, dtype=float)


GEN = {
    "pt": lambda rng, s, lat: g_pt(rng, s, lat),
    "dir": lambda rng, s, lat: g_dir(rng, lat),
    "tri": lambda rng, s, lat: np.ascontiguousarray(_nondeg_tri(rng, s, lat)),
    "axes": lambda rng, s, lat: np.ascontiguousarray(g_rot(rng, lat)[:2]),
    "len2": lambda rng, s, lat: g_len(rng, s, lat, 2),
    "size3": lambda rng, s, lat: g_len(rng, s, lat, 3),
    "pose": lambda rng, s, lat: g_pose(rng, s, lat),
    "radius": lambda rng, s, lat: g_len(rng, s, lat),
    "length": lambda rng, s, lat: g_len(rng, s, lat),
}


def _nondeg_tri(rng, s, lat):
    while True:
        t = np.array([g_pt(rng, s, lat) for _ in range(3)])
        if np.linalg.norm(np.cross(t[1] - t[0], t[2] - t[0])) > 0.1 * s * s:
            return t


DIST = {
    "point_to_line": ["pt", "pt", "dir"], "line_to_line": ["pt", "dir", "pt", "dir"], "point_to_line_segment": ["pt", "pt", "pt"],
    "line_to_line_segment": ["pt", "dir", "pt", "pt"], "line_segment_to_line_segment": ["pt", "pt", "pt", "pt"],
    "point_to_plane": ["pt", "pt", "dir"], "line_to_plane": ["pt", "dir", "pt", "dir"], "line_segment_to_plane": ["pt", "pt", "pt", "dir"],
    "plane_to_plane": ["pt", "dir", "pt", "dir"], "plane_to_triangle": ["pt", "dir", "tri"],
    "plane_to_rectangle": ["pt", "dir", "pt", "axes", "len2"], "plane_to_box": ["pt", "dir", "pose", "size3"],
    "plane_to_ellipsoid": ["pt", "dir", "pose", "size3"], "plane_to_cylinder": ["pt", "dir", "pose", "radius", "length"],
    "point_to_triangle": ["pt", "tri"], "line_to_triangle": ["pt", "dir", "tri"], "line_segment_to_triangle": ["pt", "pt", "tri"],
    "triangle_to_triangle": ["tri", "tri"], "triangle_to_rectangle": ["tri", "pt", "axes", "len2"],
    "point_to_rectangle": ["pt", "pt", "axes", "len2"], "line_to_rectangle": ["pt", "dir", "pt", "axes", "len2"],
    "line_segment_to_rectangle": ["pt", "pt", "pt", "axes", "len2"], "rectangle_to_rectangle": ["pt", "axes", "len2", "pt", "axes", "len2"],
    "point_to_disk": ["pt", "pt", "radius", "dir"], "disk_to_disk": ["pt", "radius", "dir", "pt", "radius", "dir"],
    "point_to_circle": ["pt", "pt", "radius", "dir"], "line_to_circle": ["pt", "dir", "pt", "radius", "dir"],
    "line_segment_to_circle": ["pt", "pt", "pt", "radius", "dir"], "point_to_box": ["pt", "pose", "size3"],
    "line_to_box": ["pt", "dir", "pose", "size3"], "line_segment_to_box": ["pt", "pt", "pose", "size3"],
    "rectangle_to_box": ["pt", "axes", "len2", "pose", "size3"], "point_to_cylinder": ["pt", "pose", "radius", "length"],
    "point_to_ellipsoid": ["pt", "pose", "size3"],
}
ITER_PRIMS = {"point_to_ellipsoid", "disk_to_disk", "line_to_circle", "line_segment_to_circle"}

KINDS = C.COLLIDER_TYPES
NESTEROV_PRIM = {"sphere", "capsule", "box", "ellipsoid", "cylinder"}
PAIR_FNS = [("gjk", "gjk_distance_jolt", 1e-5), ("gjk", "gjk_distance_original", 1e-3), ("gjk", "gjk_nesterov_accelerated_distance", 1e-3),
            ("gjk", "gjk_nesterov_accelerated_primitives_distance", 1e-3), ("gjk", "gjk_intersection_jolt", None),
            ("gjk", "gjk_intersection_libccd", None), ("gjk", "gjk_nesterov_accelerated_intersection", None),
            ("gjk", "gjk_nesterov_accelerated_primitives_intersection", None), ("mpr", "mpr_intersection", None),
            ("mpr", "mpr_penetration", 2e-3), ("epa", "epa", 1e-3)]


def maxabs(args):
    m = 1.0
    for a in args:
        if isinstance(a, np.ndarray) and a.size:
            m = max(m, float(np.max(np.abs(a))))
        elif isinstance(a, (int, float)):
            m = max(m, abs(float(a)))
        elif isinstance(a, (list, tuple)):
            m = max(m, maxabs(a))
    return m


def place_pair(rng, kA, kB, regime):
    """poses of two colliders: 'sep' = bounding spheres apart by a clear gap; 'overlap' = interior reference points (nearly) coincide;
    'mid' = unknown; 'tie' = cube-group rotations and (half-)integer translations (touching / parallel / coincident features)"""
    sA, sB = float(rng.choice([0.5, 1.0, 2.0])), float(rng.choice([0.5, 1.0, 2.0]))
    lat = regime == "tie"
    RA, RB = g_rot(rng, lat), g_rot(rng, lat)
    cA = g_pt(rng, 1.0, lat)
    u = g_dir(rng, lat)
    bound = 1.25 * (sA + sB)
    if regime == "sep":
        cB = cA + u * (bound + 0.5 * (sA + sB))
    elif regime == "overlap":
        cB = cA + u * 0.05 * min(sA, sB)
    elif regime == "mid":
        cB = cA + u * rng.uniform(0.3, 1.0) * bound
    else:
        cB = cA + u * float(rng.choice([0.0, 0.5, 1.0, 1.5, 2.0, 3.0])) + g_pt(rng, 0.5, True) * float(rng.choice([0.0, 1.0]))

    def pose_of(kind, R, c, s):
        # the cone's pose origin is its base centre: move an interior point (quarter height) to the requested centre
        t = c - R @ np.array([0.0, 0.0, 0.25 * s]) if (kind == "cone" and not lat) else c
        return C.pose(R, t)
    return (kA, pose_of(kA, RA, cA, sA), sA), (kB, pose_of(kB, RB, cB, sB), sB), max(1.0, sA, sB, float(np.linalg.norm(cB - cA)), float(
        np.max(np.abs(cA))), float(np.max(np.abs(cB))))


def rand_boxes(rng, n, s=1.0, lat=False):
    if lat:
        lo = rng.integers(-3, 3, size=(n, 3)).astype(float)
        ext = rng.integers(1, 3, size=(n, 3)).astype(float)
    else:
        lo = rng.uniform(-3, 3, size=(n, 3)) * s
        ext = rng.uniform(0.2, 1.5, size=(n, 3)) * s
    return np.ascontiguousarray(np.stack([lo, lo + ext], axis=2))


def rand_tetra(rng, c, s):
    while True:
        t = c + rng.normal(size=(4, 3)) * s
        vol = np.dot(np.cross(t[1] - t[0], t[2] - t[0]), t[3] - t[0])
        if abs(vol) > 0.2 * s ** 3:
            if vol < 0:
                t[[0, 1]] = t[[1, 0]]
            return np.ascontiguousarray(t)


def build_corpus(rng, thorough):
    corpus = []

    def add(contract, group, runner, tag, L=None, **kw):
        c = dict(contract="jit_vs_interp." + contract, group=group, runner=runner, tag=tag, **kw)
        c["L"] = float(L) if L is not None else maxabs(list(kw.get("args", [])))
        c["id"] = len(corpus)
        corpus.append(c)

    n_gen = 30 if thorough else 5
    scales = [0.1, 1.0, 10.0] if thorough else [1.0]

    # ---- utils / geometry / containment / random (closed form)
    for it in range(n_gen * len(scales)):
        s = scales[it % len(scales)]
        T, T2 = g_pose(rng, s, False), g_pose(rng, s, it % 5 == 4)
        p = g_pt(rng, s, False)
        P = np.ascontiguousarray(rng.normal(size=(7, 3)) * s)
        U = "distance3d.utils:"
        add("utils.norm_vector", "utils", "call", "generic", target=U + "norm_vector", args=[p])
        add("utils.scalar_triple_product", "utils", "call", "generic", target=U + "scalar_triple_product",
            args=[g_pt(rng, s, False), g_pt(rng, s, False), g_pt(rng, s, False)], L=max(1.0, s) ** 3 * 30)
        add("utils.plane_basis_from_normal", "utils", "call", "generic", target=U + "plane_basis_from_normal", args=[g_dir(rng, False)])
        add("utils.transform_point", "utils", "call", "generic", target=U + "transform_point", args=[T, p])
        add("utils.transform_points", "utils", "call", "generic", target=U + "transform_points", args=[T, P])
        add("utils.transform_directions", "utils", "call", "generic", target=U + "transform_directions", args=[T, P])
        add("utils.inverse_transform_point", "utils", "call", "generic", target=U + "inverse_transform_point", args=[T, p])
        add("utils.invert_transform", "utils", "call", "generic", target=U + "invert_transform", args=[T])
        add("utils.cross_product_matrix", "utils", "call", "generic", target=U + "cross_product_matrix", args=[p])
        add("utils.adjoint_from_transform", "utils", "call", "generic", target=U + "adjoint_from_transform", args=[T], L=max(1.0, s) ** 2 * 30)
        add("utils.angles_between_vectors", "utils", "call", "generic", target=U + "angles_between_vectors",
            args=[P, np.ascontiguousarray(rng.normal(size=(7, 3)))])
        G = "distance3d.geometry:"
        size3, r, h = g_len(rng, s, False, 3), g_len(rng, s, False), g_len(rng, s, False)
        d = g_dir(rng, False)
        add("geometry.convert_segment_to_line", "geometry", "call", "generic", target=G + "convert_segment_to_line", args=[p, g_pt(rng, s, False)])
        add("geometry.convert_box_to_vertices", "geometry", "call", "generic", target=G + "convert_box_to_vertices", args=[T, size3])
        add("geometry.convert_box_to_face", "geometry", "call", "generic", target=G + "convert_box_to_face",
            args=[T, size3, int(rng.integers(3)), int(rng.choice([-1, 1]))])
        add("geometry.convert_rectangle_to_vertices", "geometry", "call", "generic", target=G + "convert_rectangle_to_vertices",
            args=[p, np.ascontiguousarray(T[:3, :2].T), g_len(rng, s, False, 2)])
        add("geometry.support_function_cylinder", "geometry", "call", "generic", target=G + "support_function_cylinder", args=[d, T, r, h])
        add("geometry.support_function_capsule", "geometry", "call", "generic", target=G + "support_function_capsule", args=[d, T, r, h])
        add("geometry.support_function_ellipsoid", "geometry", "call", "generic", target=G + "support_function_ellipsoid", args=[d, T, size3])
        add("geometry.support_function_box", "geometry", "call", "generic", target=G + "support_function_box", args=[d, T, 0.5 * size3])
        add("geometry.support_function_sphere", "geometry", "call", "generic", target=G + "support_function_sphere", args=[d, p, r])
        add("geometry.support_function_disk", "geometry", "call", "generic", target=G + "support_function_disk",
            args=[d, p, r, np.ascontiguousarray(T[:3, 2])])
        add("geometry.support_function_ellipse", "geometry", "call", "generic", target=G + "support_function_ellipse",
            args=[d, p, np.ascontiguousarray(T[:3, :2].T), g_len(rng, s, False, 2)])
        add("geometry.support_function_cone", "geometry", "call", "generic", target=G + "support_function_cone", args=[d, T, r, h])
        add("geometry.hesse_normal_form", "geometry", "call", "generic", target=G + "hesse_normal_form", args=[p, g_dir(rng, False)])
        add("geometry.line_from_pluecker", "geometry", "call", "generic", target=G + "line_from_pluecker",
            args=[d, np.cross(p, d)])
        add("geometry.barycentric_coordinates_tetrahedron", "geometry", "call", "generic", target=G + "barycentric_coordinates_tetrahedron",
            args=[p, rand_tetra(rng, np.zeros(3), s)], L=30.0)
        K = "distance3d.containment:"
        add("containment.axis_aligned_bounding_box", "containment", "call", "generic", target=K + "axis_aligned_bounding_box", args=[P])
        add("containment.sphere_aabb", "containment", "call", "generic", target=K + "sphere_aabb", args=[p, r])
        add("containment.box_aabb", "containment", "call", "generic", target=K + "box_aabb", args=[T, size3])
        add("containment.cylinder_aabb", "containment", "call", "generic", target=K + "cylinder_aabb", args=[T, r, h])
        add("containment.capsule_aabb", "containment", "call", "generic", target=K + "capsule_aabb", args=[T, r, h])
        add("containment.ellipsoid_aabb", "containment", "call", "generic", target=K + "ellipsoid_aabb", args=[T, size3])
        add("containment.disk_aabb", "containment", "call", "generic", target=K + "disk_aabb", args=[p, r, np.ascontiguousarray(T[:3, 2])])
        add("containment.cone_aabb", "containment", "call", "generic", target=K + "cone_aabb", args=[T2, r, h])
        add("containment.ellipse_aabb", "containment", "call", "generic", target=K + "ellipse_aabb",
            args=[p, np.ascontiguousarray(T[:3, :2].T), g_len(rng, s, False, 2)])
        Q = np.ascontiguousarray(T[:3, 3] + rng.normal(size=(40, 3)) * s)
        KT = "distance3d.containment_test:"
        add("containment_test.points_in_sphere", "containment", "call", "generic", target=KT + "points_in_sphere", args=[Q, T[:3, 3].copy(), r])
        add("containment_test.points_in_capsule", "containment", "call", "generic", target=KT + "points_in_capsule", args=[Q, T, r, h])
        add("containment_test.points_in_ellipsoid", "containment", "call", "generic", target=KT + "points_in_ellipsoid", args=[Q, T, size3])
        add("containment_test.points_in_disk", "containment", "call", "generic", target=KT + "points_in_disk",
            args=[Q, T[:3, 3].copy(), r, np.ascontiguousarray(T[:3, 2])])
        add("containment_test.points_in_cone", "containment", "call", "generic", target=KT + "points_in_cone", args=[Q, T, r, h])
        add("containment_test.points_in_cylinder", "containment", "call", "generic", target=KT + "points_in_cylinder", args=[Q, T, r, h])
        add("containment_test.points_in_box", "containment", "call", "generic", target=KT + "points_in_box", args=[Q, T, size3])
        add("minkowski.minkowski_sum", "containment", "call", "generic", target="distance3d.minkowski:minkowski_sum",
            args=[P, np.ascontiguousarray(rng.normal(size=(5, 3)) * s)])
        add("mesh.make_convex_mesh", "containment", "call", "generic", target="distance3d.mesh:make_convex_mesh",
            args=[np.ascontiguousarray(rng.normal(size=(12, 3)) * s)])
        if it < 6:
            for fn in ["randn_point", "randn_direction", "randn_line", "randn_line_segment", "randn_plane", "randn_triangle", "randn_rectangle",
                       "rand_circle", "rand_box", "rand_capsule", "rand_ellipsoid", "rand_cylinder", "rand_sphere", "rand_cone", "randn_convex",
                       "rand_ellipse"]:
                add("random." + fn, "containment", "call", "generic", target="distance3d.random:" + fn,
                    args=[np.random.RandomState(int(rng.integers(2 ** 31)))], L=30.0)
    # container-type degenerate inputs of closed-form helpers
    add("utils.transform_points", "utils", "call", "container", target="distance3d.utils:transform_points", args=[np.eye(4), np.zeros((0, 3))])
    add("utils.transform_directions", "utils", "call", "container", target="distance3d.utils:transform_directions", args=[np.eye(4), np.zeros((0, 3))])
    add("containment_test.points_in_box", "containment", "call", "container", target="distance3d.containment_test:points_in_box",
        args=[np.zeros((0, 3)), np.eye(4), np.ones(3)])
    add("minkowski.minkowski_sum", "containment", "call", "container", target="distance3d.minkowski:minkowski_sum",
        args=[np.ones((1, 3)), np.ones((1, 3))])
    add("minkowski.minkowski_sum", "containment", "call", "container", target="distance3d.minkowski:minkowski_sum",
        args=[np.array([[0.0, 0, 0], [0, 0, 0], [1, 0, 0]]), np.array([[0.0, 1, 0], [0, 1, 0]])])

    # ---- distance primitives
    for name, kinds in DIST.items():
        for it in range(n_gen * len(scales)):
            s = scales[it % len(scales)]
            args = [GEN[k](rng, s, False) for k in kinds]
            add("distance." + name, "distance" + str(it % 2), "dist_iter" if name in ITER_PRIMS else "call", "generic",
                target="distance3d.distance:" + name, args=args, acc=1e-6)
        for it in range(n_gen):
            args = [GEN[k](rng, 1.0, True) for k in kinds]
            add("distance." + name, "distance_tie", "dist0", "tie", target="distance3d.distance:" + name, args=args,
                acc=1e-6 if name in ITER_PRIMS else 1e-9)

    # ---- colliders: support functions, update_pose, aabb
    axis_dirs = np.array([[1.0, 0, 0], [-1, 0, 0], [0, 1, 0], [0, -1, 0], [0, 0, 1], [0, 0, -1], [1, 1, 0], [0, -1, 1]])
    for kind in KINDS:
        for it in range(max(2, n_gen // 2)):
            lat = it % 2 == 1
            s = float(rng.choice([0.5, 1.0, 2.0]))
            T = g_pose(rng, 1.0, lat)
            dirs = np.array([g_dir(rng, False) for _ in range(12)])
            # axis directions are given in the collider frame so that they hit the ties of every shape
            ad = (T[:3, :3] @ axis_dirs.T).T if not lat else axis_dirs
            add("colliders.%s" % kind, "colliders", "collider", "generic", A=(kind, T, s), dirs=dirs, axis_dirs=np.ascontiguousarray(ad),
                pose2=g_pose(rng, 1.0, it % 4 == 3), margin=0.1 if it % 3 == 2 else None, L=max(4.0, 2 * s + 3))

    # ---- collider pairs: GJK flavours, MPR, EPA
    n_pose = 4 if thorough else 1
    regimes = ["sep", "overlap", "mid", "tie"]
    for mod, fn, acc in PAIR_FNS:
        for ia, kA in enumerate(KINDS):
            for kB in KINDS[ia:]:
                if "primitives" in fn and not (kA in NESTEROV_PRIM and kB in NESTEROV_PRIM):
                    continue
                for regime in regimes:
                    if fn == "epa" and regime == "sep":
                        continue
                    for _ in range(n_pose):
                        if not thorough and rng.random() < 0.5 and regime in ("mid", "tie"):
                            continue
                        A, B, L = place_pair(rng, kA, kB, regime)
                        flat = kA in ("disk", "ellipse") or kB in ("disk", "ellipse")
                        tag = "generic" if regime in ("sep", "overlap") and not (regime == "overlap" and flat) else (
                            "tie" if regime == "tie" else "mid")
                        add("%s.%s" % (mod, fn), "pair_" + fn, "pair", tag, A=A, B=B, fn=fn, regime=regime, acc=acc or 1e-3, L=L)
    for it in range(2 * n_gen):
        kA, kB = str(rng.choice(KINDS)), str(rng.choice(KINDS))
        A, B, L = place_pair(rng, kA, kB, "mid")
        add("minkowski.support_function", "colliders", "pair", "generic", A=A, B=B, fn="minkowski.support_function", regime="mid",
            dirs=np.array([g_dir(rng, False) for _ in range(6)]), L=L)

    # ---- AABB tree (incl. EMPTY tree and degenerate containers)
    T_ = "aabb_tree.AabbTree."
    for it in range(n_gen):
        for n in (1, 2, 3, 7, 40):
            boxes = rand_boxes(rng, n, lat=it % 3 == 2)
            qs = rand_boxes(rng, 6, lat=it % 3 == 2)
            tag = "tie" if it % 3 == 2 else ("container" if n == 1 else "generic")
            for mode in ("none", "sort"):
                add(T_ + "insert_aabbs", "aabb", "aabb", tag, op="structure", batches=[boxes], mode=mode, L=6.0)
                add(T_ + "overlaps_aabb", "aabb", "aabb", tag, op="overlaps_aabb", batches=[boxes], mode=mode, queries=qs, L=6.0)
            add("aabb_tree.query_overlap", "aabb", "aabb", tag, op="query_first_leaf", batches=[boxes], queries=qs, L=6.0)
            add(T_ + "get_root_aabb", "aabb", "aabb", tag, op="get_root_aabb", batches=[boxes], L=6.0)
            b2 = rand_boxes(rng, int(rng.choice([1, 2, 5, 30])), lat=it % 3 == 2)
            add(T_ + "overlaps_aabb_tree", "aabb", "aabb", tag, op="overlaps_aabb_tree", batches=[boxes], batches2=[b2], L=6.0)
            add(T_ + "insert_aabbs", "aabb", "aabb", tag, op="structure", batches=[boxes, b2], mode="none", L=6.0)
            add("aabb_tree.all_aabbs_overlap", "aabb", "aabb", tag, op="all_aabbs_overlap", a=boxes, b=b2, L=6.0)
            add("aabb_tree.aabb_overlap", "aabb", "aabb", tag, op="aabb_overlap", a=qs, b=rand_boxes(rng, 6, lat=it % 3 == 2), L=6.0)
    # duplicates / identical boxes / zero-extent boxes
    dup = np.repeat(rand_boxes(rng, 1), 5, axis=0)
    zero = rand_boxes(rng, 4)
    zero[:, :, 1] = zero[:, :, 0]
    for name, boxes in (("dup", dup), ("zero", zero)):
        add(T_ + "insert_aabbs", "aabb", "aabb", "container", op="structure", batches=[boxes], L=6.0)
        add(T_ + "overlaps_aabb", "aabb", "aabb", "container", op="overlaps_aabb", batches=[boxes], queries=np.concatenate([boxes[:1], rand_boxes(rng, 3)]), L=6.0)
        add(T_ + "overlaps_aabb_tree", "aabb", "aabb", "container", op="overlaps_aabb_tree", batches=[boxes], batches2=[boxes], L=6.0)
    add("aabb_tree.all_aabbs_overlap", "aabb", "aabb", "container", op="all_aabbs_overlap", a=np.zeros((0, 3, 2)), b=rand_boxes(rng, 3), L=6.0)
    add(T_ + "insert_aabbs", "aabb", "aabb", "container", op="structure", batches=[np.zeros((0, 3, 2))], L=6.0)
    # EMPTY tree: every call in a group of its own (a hang costs one watchdog period, the groups run in parallel)
    some = rand_boxes(rng, 3)
    add(T_ + "overlaps_aabb", "aabb_empty1", "aabb", "container", op="overlaps_aabb", batches=[], queries=rand_boxes(rng, 1), L=6.0)
    add(T_ + "overlaps_aabb_tree", "aabb_empty2", "aabb", "container", op="overlaps_aabb_tree", batches=[], batches2=[some], L=6.0)
    add(T_ + "overlaps_aabb_tree", "aabb_empty3", "aabb", "container", op="overlaps_aabb_tree", batches=[some], batches2=[], L=6.0)
    add(T_ + "overlaps_aabb_tree", "aabb_empty4", "aabb", "container", op="overlaps_aabb_tree", batches=[], batches2=[], L=6.0)
    add(T_ + "get_root_aabb", "aabb_empty5", "aabb", "container", op="get_root_aabb", batches=[], L=6.0)
    # (the raw kernel aabb_tree.query_overlap is NOT called with root = INDEX_NONE: a valid root index is its precondition, the
    # AabbTree methods are the public entry points for an empty tree)

    # ---- hydroelastic contact: half-planes, tetrahedron pairs, forces, rigid bodies
    HPt = "distance3d.hydroelastic_contact._halfplanes:"
    for it in range(3 * n_gen):
        n = int(rng.integers(3, 9))
        ang = np.sort(rng.uniform(0, 2 * np.pi, size=n)) if it % 4 else np.arange(n) * 2 * np.pi / n
        rad = rng.uniform(0.5, 2.0, size=n) if it % 4 else np.ones(n)
        hp = np.ascontiguousarray(np.stack([rad * np.cos(ang), rad * np.sin(ang), -np.sin(ang), np.cos(ang)], axis=1))
        add("hydroelastic_contact.intersect_halfplanes", "hydro", "call", "generic" if it % 4 else "tie", target=HPt + "intersect_halfplanes",
            args=[hp], L=3.0)
        add("hydroelastic_contact.intersect_two_halfplanes", "hydro", "call", "generic", target=HPt + "intersect_two_halfplanes",
            args=[np.ascontiguousarray(hp[0]), np.ascontiguousarray(hp[1])], L=3.0)
        add("hydroelastic_contact.point_outside_of_halfplane", "hydro", "call", "generic", target=HPt + "point_outside_of_halfplane",
            args=[np.ascontiguousarray(hp[0]), rng.normal(size=2)], L=3.0)
    sq = np.array([[1.0, 0, 0, 1], [0, 1, -1, 0], [-1, 0, 0, -1], [0, -1, 1, 0]])
    add("hydroelastic_contact.intersect_halfplanes", "hydro", "call", "tie", target=HPt + "intersect_halfplanes", args=[np.vstack([sq, sq])], L=3.0)
    add("hydroelastic_contact.intersect_halfplanes", "hydro", "call", "container", target=HPt + "intersect_halfplanes", args=[sq[:1].copy()], L=3.0)
    add("hydroelastic_contact.intersect_halfplanes", "hydro", "call", "container", target=HPt + "intersect_halfplanes", args=[sq[:2].copy()], L=3.0)
    add("hydroelastic_contact.intersect_halfplanes", "hydro_empty", "call", "container", target=HPt + "intersect_halfplanes",
        args=[np.zeros((0, 4))], L=3.0)
    add("hydroelastic_contact.intersect_two_halfplanes", "hydro", "call", "tie", target=HPt + "intersect_two_halfplanes",
        args=[sq[0].copy(), sq[2].copy()], L=3.0)
    for it in range(4 * n_gen):
        t1 = rand_tetra(rng, np.zeros(3), 1.0)
        mode = it % 4
        t2 = rand_tetra(rng, rng.normal(size=3) * (0.3 if mode < 2 else 1.2), 1.0)
        if mode == 3 and it % 8 == 3:
            t2 = t1.copy()
        if it % 2:
            # realistic potentials (0 on three surface vertices): the two faces with potential 0 cut the contact plane in the SAME line,
            # i.e. two half-plane boundaries coincide by construction: a structural tie
            e1, e2 = np.array([0.0, 0, 0, 1.0]) * rng.uniform(0.1, 1.0), np.array([0.0, 0, 0, 1.0]) * rng.uniform(0.1, 1.0)
            rng.shuffle(e1)
            rng.shuffle(e2)
            ttag = "tie"
        else:
            e1, e2 = rng.uniform(0.1, 1.0, size=4), rng.uniform(0.1, 1.0, size=4)
            ttag = "generic"
        if np.array_equal(t1, t2):
            # identical tetrahedra: with identical potentials the library's `same` branch applies (container case); with different
            # potentials all eight half-plane boundaries coincide pairwise (tie)
            if it % 16 == 3:
                e2, ttag = e1.copy(), "container"
            else:
                ttag = "tie"
        add("hydroelastic_contact.intersect_tetrahedron_pair", "hydro", "hydro", ttag, op="tetra_pair", t1=t1, t2=t2, e1=e1, e2=e2, L=4.0)
        add("hydroelastic_contact._transform_wrenches", "hydro", "hydro", "generic", op="transform_wrenches",
            args=[g_pose(rng, 1.0, False), rng.normal(size=3), rng.normal(size=3), rng.normal(size=3)], L=10.0)
    rb_kinds = ["cube", "box", "sphere", "ellipsoid", "cylinder", "capsule"]
    for it in range(len(rb_kinds) * (3 if thorough else 1)):
        kA, kB = rb_kinds[it % len(rb_kinds)], rb_kinds[(it // 2 + 1) % len(rb_kinds)]
        lat = it % 3 == 2
        TA = g_pose(rng, 0.0, lat)
        TB = C.pose(g_rot(rng, lat), (np.array([0.0, 0.0, 0.9]) if lat else rng.normal(size=3) * 0.45))
        add("hydroelastic_contact.contact_forces", "hydro_rb%d" % (it % 4), "hydro", "tie" if lat else "generic", op="rigid_bodies",
            A=(kA, TA, 1.0), B=(kB, TB, 1.0), L=10.0)
    add("hydroelastic_contact.find_contact_surface", "hydro_rb0", "hydro", "generic", op="rigid_bodies", use_aabb_trees=True,
        A=("cube", np.eye(4), 1.0), B=("cube", C.pose(np.eye(3), [0.3, 0.2, 0.5]), 1.0), L=10.0)
    return corpus


def judge(c, x, y):
    """outcome of one call in the two modes -> (obligation or None or 'both_raise', detail, soft) ; soft = (obligation, detail) of a
    mismatch that the property exempts (tie / unknown-overlap inputs)"""
    bad_t = [(m_, r_) for m_, r_ in (("jit", x), ("interp", y)) if "hang" in r_ or "died" in r_ or "nostart" in r_]
    if bad_t:
        parts = []
        for m_, r_ in bad_t:
            other = y if m_ == "jit" else x
            what = ("did not return within the %d s watchdog" % r_["hang"]) if "hang" in r_ else (
                "worker process died (%s) %s" % (r_.get("died", r_.get("nostart")), r_.get("stderr", "")[-200:]))
            parts.append("%s mode: %s; other mode: %s" % (m_, what, _short(other)))
        return "terminates", " | ".join(parts), None
    if "exc" in x or "exc" in y:
        if x.get("exc") != y.get("exc"):
            det = "jit: %s; interp: %s" % (_short(x), _short(y))
            if c["tag"] in ("tie", "mid"):
                return None, "", ("same_exception_type", det)
            return "same_exception_type", det, None
        return "both_raise", "%s: %s" % (c["contract"], x["exc"]), None
    mism = []
    compare(x["ok"], y["ok"], c.get("cls", "c"), c, "result", mism)
    if c["tag"] in ("generic", "container"):
        hard, soft = mism, []
    else:
        # ties / unknown overlap state: only distances (class d) must agree numerically
        hard = [m for m in mism if m[0] == "num:d"]
        soft = [m for m in mism if m[0] != "num:d"]
    if hard:
        return "same_result", "; ".join("%s: %s" % (p_, d_) for _, p_, d_ in hard[:4]), None
    if soft:
        return None, "", ("same_result", "; ".join("%s: %s" % (p_, d_) for _, p_, d_ in soft[:3]))
    return None, "", None


def import_modules():
    spec = importlib.util.find_spec("distance3d")     # finds the package without executing it
    root = os.path.dirname(spec.origin)
    mods = []
    for dirpath, dirnames, filenames in os.walk(root):
        dirnames[:] = [d for d in dirnames if d not in ("test", "__pycache__")]
        for f in sorted(filenames):
            if f.endswith(".py"):
                rel = os.path.relpath(os.path.join(dirpath, f), os.path.dirname(root))[:-3].replace(os.sep, ".")
                if rel.endswith(".__init__"):
                    rel = rel[:-9]
                mods.append(rel)
    skip = {"distance3d.visualization", "distance3d.plotting"}
    return root, sorted(m for m in set(mods) if m not in skip)


def main():
    a = C.args()
    rng = np.random.default_rng(a.seed)
    thorough = a.tier == "thorough"
    tmp = tempfile.mkdtemp(prefix="c20_")
    failures, undecided, info = [], [], {}
    try:
        corpus = build_corpus(rng, thorough)
        corpus_path = os.path.join(tmp, "corpus.pkl")
        # worker groups.  interpreted mode: N_I balanced groups (no native code, a watchdog of t_lenient per call).  JIT mode, pass 1: the
        # generic / tie / mid calls by module family (may have to COMPILE with a cold numba cache: long watchdog).  JIT mode, pass 2, after
        # pass 1 has filled numba's on-disk cache: the container calls (EMPTY tree ...: the ones expected to be able to hang) under a
        # short watchdog, the EMPTY-tree calls spread over separate processes so that hangs time out in parallel.
        N_I = 8
        fam = {"utils": "jA", "geometry": "jA", "containment": "jA", "distance0": "jE", "distance1": "jE", "distance_tie": "jE",
               "colliders": "jB", "aabb": "jD", "hydro": "jF"}
        n_risky = 0
        for c in corpus:
            c["igroup"] = "i%d" % (c["id"] % N_I)
            g = c["group"]
            if c["tag"] == "container":
                if g.startswith("aabb_empty"):
                    c["jgroup"] = "jc_risky%d" % (n_risky % 3)
                    n_risky += 1
                else:
                    c["jgroup"] = "jc"
            elif g.startswith("pair_"):
                c["jgroup"] = "jB" if ("jolt" in g or "original" in g or "libccd" in g) else ("jC" if "nesterov" in g else "jG")
            elif g.startswith("hydro_rb"):
                c["jgroup"] = "jF"
            else:
                c["jgroup"] = fam[g]
        with open(corpus_path, "wb") as f:
            pickle.dump(corpus, f)
        igroups, jgroups = {}, {}
        for c in corpus:
            igroups.setdefault(c["igroup"], []).append(c)
            jgroups.setdefault(c["jgroup"], []).append(c)
        root, mods = import_modules()
        t_strict = 25.0
        t_lenient = 400.0 if thorough else 240.0
        t_import = 400.0
        with ThreadPoolExecutor(max_workers=40) as ex:
            futs = {}
            for g in jgroups:
                if not g.startswith("jc"):
                    futs[("jgroup", g, "jit")] = ex.submit(supervise, "jgroup", g, "jit", corpus_path, tmp, len(jgroups[g]), t_lenient, t_import)
            for g in igroups:
                futs[("igroup", g, "interp")] = ex.submit(supervise, "igroup", g, "interp", corpus_path, tmp, len(igroups[g]), t_lenient, t_import)
            if thorough:
                imps = [ex.submit(lambda m: [import_check(m, ".hydroelastic_contact" in m, tmp, 300)], m) for m in mods]
            else:
                imps = [ex.submit(import_batch, mods[i::3], tmp, 300) for i in range(3)]
            for k, f in list(futs.items()):
                if k[2] == "jit":
                    f.result()
            info["t_first_jit_pass_s"] = round(time.time() - t0, 1)
            for g in jgroups:
                if g.startswith("jc"):
                    futs[("jgroup", g, "jit")] = ex.submit(supervise, "jgroup", g, "jit", corpus_path, tmp, len(jgroups[g]), t_strict, t_import)
            res = {k: f.result() for k, f in futs.items()}
            imp_res = [r for f in imps for r in f.result()]
        by_id = {"jit": {}, "interp": {}}
        for (key, g, mode), (r, meta) in res.items():
            calls = (jgroups if key == "jgroup" else igroups)[g]
            for n, c in enumerate(calls):
                if n in r:
                    by_id[mode][c["id"]] = r[n]

        # ---- import obligation
        for m, rc, err in imp_res:
            if rc != 0:
                failures.append(dict(contract="jit_vs_interp.%s.__import__" % m[len("distance3d."):] if m != "distance3d" else
                                     "jit_vs_interp.distance3d.__import__", obligation="imports_under_jit" if rc != "timeout" else "terminates",
                                     detail="import %s in a fresh interpreter with the JIT as installed: rc=%s: %s" % (m, rc, err.strip()[-300:]),
                                     input=dict(module=m)))
        # ---- mode sanity
        for (key, g, mode), (r, meta) in res.items():
            if meta and meta.get("jit_disabled") != (mode == "interp"):
                raise RuntimeError("worker %s/%s ran with DISABLE_JIT=%r" % (g, mode, meta.get("jit_disabled")))
            if meta:
                info["library"] = meta.get("file")
        # ---- comparison
        evaluations = 0
        pending = []
        nontrivial = set()
        samples = []
        slowest = []
        for c in corpus:
            x, y = by_id["jit"].get(c["id"]), by_id["interp"].get(c["id"])
            desc = dict(call=c["contract"], tag=c["tag"], args=_brief(c))
            if x is None or y is None:
                failures.append(dict(contract=c["contract"], obligation="terminates", input=desc,
                                     detail="no result recorded (jit: %s, interp: %s)" % ("ok" if x else "missing", "ok" if y else "missing")))
                continue
            evaluations += 2
            for r_, mode in ((x, "jit"), (y, "interp")):
                if "t" in r_:
                    slowest.append((r_["t"], c["contract"], mode))
            ob, det, soft = judge(c, x, y)
            if ob == "terminates":
                failures.append(dict(contract=c["contract"], obligation=ob, detail=det, input=desc))
            elif ob == "both_raise":
                info["same_exception_both_modes"] = info.get("same_exception_both_modes", {})
                info["same_exception_both_modes"][det] = info["same_exception_both_modes"].get(det, 0) + 1
            elif ob is not None:
                pending.append((c, ob, det, desc))
            elif soft:
                undecided.append(dict(contract=c["contract"], obligation=soft[0], detail=soft[1], input=desc))
            if c["tag"] != "generic" or c["runner"] in ("pair", "aabb", "hydro", "collider"):
                nontrivial.add(c["id"])
            if len(samples) < 8 and c["id"] % 97 == 5:
                samples.append(dict(call=c["contract"], tag=c["tag"], jit=_short(x), interp=_short(y)))
        # ---- confirmation: a difference between the modes only counts if it is REPRODUCIBLE.  The pending calls are repeated twice in
        # both modes with python-level np.empty() returning a pattern-filled array and MALLOC_PERTURB_ for malloc / NRT blocks (the
        # same pattern in both modes).  If the two modes agree in one of the repetitions, the original difference came from uninitialised
        # memory that both modes read (e.g. GJK hands EPA a simplex with unwritten rows of np.empty), not from the execution mode:
        # undecided.  (A call whose interpreted run always raises and whose compiled run never does stays a failure whatever the
        # compiled run does instead.)
        if pending:
            ids = set(c["id"] for c, _, _, _ in pending)
            for c in corpus:
                c["rgroup"] = "r" if c["id"] in ids else ""
            rpath = os.path.join(tmp, "corpus_retry.pkl")
            with open(rpath, "wb") as f:
                pickle.dump(corpus, f)
            rcalls = [c for c in corpus if c["rgroup"] == "r"]
            variants = {"v1": dict(C20_POISON="1.5", MALLOC_PERTURB_="85"), "v2": dict(C20_POISON="-7e10", MALLOC_PERTURB_="170")}
            with ThreadPoolExecutor(max_workers=4) as ex:
                fr = {(mode, v): ex.submit(supervise, "rgroup", "r", mode, rpath, tmp, len(rcalls), t_strict if mode == "jit" else 120.0,
                                           400.0, env_, v) for v, env_ in variants.items() for mode in ("jit", "interp")}
                rr = {k: f.result()[0] for k, f in fr.items()}
            pos = {c["id"]: n for n, c in enumerate(rcalls)}
            for c, ob, det, desc in pending:
                reproduced, notes = True, []
                for v in variants:
                    xk, yk = rr[("jit", v)].get(pos[c["id"]]), rr[("interp", v)].get(pos[c["id"]])
                    obk = judge(c, xk, yk)[0] if (xk is not None and yk is not None) else "terminates"
                    notes.append("%s: jit %s / interp %s" % (v, _short(xk)[:90], _short(yk)[:90]))
                    if obk in (None, "both_raise"):
                        reproduced = False
                if reproduced:
                    failures.append(dict(contract=c["contract"], obligation=ob, detail=det, input=desc))
                else:
                    undecided.append(dict(contract=c["contract"], obligation=ob, input=desc, detail=det + " -- NOT REPRODUCIBLE under allocator "
                                          "poisoning (both modes read uninitialised memory): " + "; ".join(notes)))
                    info["not_reproducible_under_allocator_poisoning"] = info.get("not_reproducible_under_allocator_poisoning", {})
                    info["not_reproducible_under_allocator_poisoning"][c["contract"]] = info[
                        "not_reproducible_under_allocator_poisoning"].get(c["contract"], 0) + 1
        slowest.sort(reverse=True)
        info["slowest_calls_s"] = ["%.1f %s (%s)" % s_ for s_ in slowest[:5]]
        info["calls_per_contract"] = len(set(c["contract"] for c in corpus))
        und_counts = {}
        for u in undecided:
            k = "%s / %s" % (u["contract"], u["obligation"])
            und_counts[k] = und_counts.get(k, 0) + 1
        fcounts = {}
        for f_ in failures:
            k = "%s / %s" % (f_["contract"], f_["obligation"])
            fcounts[k] = fcounts.get(k, 0) + 1
        # keep at most 3 examples per (contract, obligation)
        seen, kept = {}, []
        for f_ in failures:
            k = (f_["contract"], f_["obligation"])
            seen[k] = seen.get(k, 0) + 1
            if seen[k] <= 3:
                kept.append(f_)
        tags = {}
        for c in corpus:
            tags[c["tag"]] = tags.get(c["tag"], 0) + 1
        domain = ("%d calls of %d functions / methods (contracts) in %d worker groups, each executed in 2 fresh interpreters (JIT as installed / "
                  "NUMBA_DISABLE_JIT=1) on identical pickled inputs; tags: %s; + %d module imports under the JIT; modules: utils, geometry, "
                  "containment(+_test), minkowski, mesh, random, distance (34 primitives, generic + lattice ties), colliders (10 types + Margin: "
                  "support/update_pose/aabb), 11 pair algorithms (4 GJK distance, 4 GJK + 1 MPR intersection, MPR penetration, EPA) x 55 "
                  "unordered type pairs x {separated, overlapping, unknown, lattice tie}, AabbTree (1..40 boxes, 2 batches, duplicates, "
                  "zero-extent, EMPTY tree), half-planes (incl. 0,1,2 half-planes), tetrahedron pairs (incl. identical), contact forces of "
                  "rigid bodies; per-call watchdog %d s (container inputs under the JIT, after the cache is warm) / %d s (other calls, may "
                  "compile)" % (len(corpus), info["calls_per_contract"], len(igroups) + len(jgroups), tags, len(mods), t_strict, t_lenient))
        C.emit(t0, evaluations + len(mods), len(nontrivial),
               "calls whose input is a degenerate container / lattice tie / unknown-overlap pair, or that run a multi-step algorithm (collider "
               "pairs, AABB tree, hydroelastic kernels, collider objects); single closed-form evaluations on generic inputs are counted as trivial",
               samples, kept, domain, undecided=len(undecided), undecided_counts=und_counts, undecided_examples=undecided[:6],
               failure_counts=fcounts, info=info, dtype_kind_differs_values_equal=DTYPE_NOTES)
    finally:
        shutil.rmtree(tmp, ignore_errors=True)


def _short(r):
    if r is None:
        return "missing"
    if "exc" in r:
        return "raised %s(%s)" % (r["exc"], r.get("msg", "")[:120])
    if "hang" in r:
        return "hang"
    if "died" in r or "nostart" in r:
        return "died"
    return "returned " + json.dumps(r.get("ok"))[:240]


def _brief(c):
    out = {}
    for k, v in c.items():
        if k in ("contract", "group", "igroup", "jgroup", "rgroup", "runner", "tag", "id", "L"):
            continue
        out[k] = _b(v)
    return out


def _b(v):
    if isinstance(v, np.ndarray):
        return v.tolist() if v.size <= 48 else {"shape": list(v.shape), "head": v.ravel()[:12].tolist()}
    if isinstance(v, (list, tuple)):
        return [_b(x) for x in v]
    if isinstance(v, np.random.RandomState):
        return "RandomState"
    if isinstance(v, (np.floating, np.integer)):
        return v.item()
    return v


if __name__ == "__main__":
    main()
