#!/usr/bin/env python
"""BOUNDED stand-in for C08 (MPR penetration result separates the pair and its contact point is shared).

Runs the REAL  distance3d.mpr.mpr_penetration(A, B)  (default mpr_tolerance) natively on an explicitly enumerated finite domain
of collider pairs and checks, whenever it reports an intersection with depth t, direction u and contact position x:

  depth_nonneg          t is finite and >= 0
  direction_unit        |u| = 1 (1e-9), or u = 0 with t <= 1e-9*L
  residual_overlap      the penetration depth of A and B + t*u is <= 2e-3*L
  depth_not_too_small   t >= penetration depth of A and B - 2e-3*L
  contact_in_both       dist(x, A) <= 2e-3*L and dist(x, B) <= 2e-3*L
  no_exception / terminates   on pairs that the oracle certifies as overlapping the call returns

Oracles (shared with bounded/c07.py, independent of the library: closed-form supports of bounded/_common.py, numpy, Qhull):
  * polytope pairs (box / hull / mesh): exact penetration depth = min over the facet normals of the Minkowski difference of its
    extent (also for the translated pair, which is the same polytope shifted by -t*u);
  * other pairs: depth <= min over sampled + locally optimised unit directions n of h_A(n) + h_B(-n) (sound upper bound) and
    depth >= r_A(x) + r_B(x) for any point x, r_K = closed-form lower bound of the distance to the complement of K (sound lower
    bound, maximised over x); a failure needs the LOWER bound to exceed the reported value, a pass needs the UPPER bound to be
    small enough, anything in between is counted as undecided;
  * point in collider: closed-form membership for the pass side, separating-plane certificate max_n (n.x - h_K(n)), a sound
    lower bound of dist(x, K), for the failure side.
L = max(1, 2*size of either collider, distance of the positions).  Results are bounded, never "proved".
"""
import math
import os
import sys
import time

sys.path.insert(0, os.path.dirname(os.path.abspath(__file__)))
import _common as C
import numpy as np
from c07 import (POLY, CaseTimeout, clean, PairOracle, build_pair, case_key, certificate, enumerate_cases, order_failures, prime,
                 priming_effective, run_pool, scale_L, set_phase, warm_up, with_timeout, HANG_SECONDS)


def point_distance_lower_bound(col, x):
    """sound lower bound of dist(x, K): max over sampled + locally optimised unit n of n.x - h_K(n) (support inequality)"""
    pt = dict(kind="sphere", par=dict(c=np.asarray(x, dtype=float), r=0.0), size=col["size"], obj=None)
    g, n = certificate(col, pt, nfib=64, nref=3, polish=False)
    return g


def eval_case(case):
    from distance3d import mpr
    out = dict(id=case["id"], status="", failures=[], undecided=[], info={})
    A, B = build_pair(case)
    # placement family is part of the name: known findings are pinned to the family they were observed in
    contract = "mpr.mpr_penetration[%s,%s;fam=%s]" % (A["kind"], B["kind"], case.get("family"))
    poly = A["kind"] in POLY and B["kind"] in POLY
    L = scale_L(A, B)
    tol = 2e-3 * L
    inp = dict(case=case, L=L)

    def fail(ob, detail):
        out["failures"].append(dict(contract=contract, obligation=ob, detail=detail, input=inp))

    def undecided(ob):
        out["undecided"].append(ob)

    orc = None

    def certified_overlap():
        nonlocal orc
        orc = orc or PairOracle(A, B)
        if poly and orc.exact is None:
            return False
        return orc.depth_bounds()[0] > tol

    try:
        prime(0.0)
        set_phase(3)
        intersection, t, u, x = with_timeout(lambda: mpr.mpr_penetration(A["obj"], B["obj"]))
        set_phase(0)
    except CaseTimeout:
        set_phase(0)
        out["status"] = "timeout"
        if certified_overlap():
            fail("terminates", "mpr_penetration did not return (10 s, repeated with 30 s) on a pair whose penetration depth is at least %.6g" % orc.depth_bounds()[0])
        return out
    except Exception as e:
        set_phase(0)
        out["status"] = "exception:" + type(e).__name__
        if certified_overlap():
            fail("no_exception", "%s: %s on a pair whose penetration depth is at least %.6g" % (type(e).__name__, str(e)[:100], orc.depth_bounds()[0]))
        return out
    if not intersection:
        out["status"] = "no_intersection"
        return out
    out["status"] = "intersection"
    inp["result"] = dict(depth=t, direction=None if u is None else np.asarray(u).tolist(), position=None if x is None else np.asarray(x).tolist())

    # ---- format clauses
    t_ok = t is not None and np.isfinite(t) and t >= 0.0
    if not t_ok:
        fail("depth_nonneg", "depth = %r" % (t,))
    u = None if u is None else np.asarray(u, dtype=float)
    u_ok = u is not None and u.shape == (3,) and bool(np.all(np.isfinite(u)))
    if u_ok:
        nu = float(np.linalg.norm(u))
        if abs(nu - 1.0) <= 1e-9:
            pass
        elif nu == 0.0 and t_ok and t <= 1e-9 * L:
            pass
        else:
            u_ok = False
            fail("direction_unit", "|direction| = %.12g with depth %r (neither a unit vector nor the zero vector at depth 0)" % (nu, t))
    else:
        fail("direction_unit", "direction = %r" % (u,))
    x = None if x is None else np.asarray(x, dtype=float)
    x_ok = x is not None and x.shape == (3,) and bool(np.all(np.isfinite(x)))

    # ---- geometric clauses need the oracle
    orc = orc or PairOracle(A, B)
    if poly and orc.exact is None:
        out["status"] = "oracle_abstains"
        undecided("exact_oracle")
        return out
    extra = [u, -u] if (u_ok and np.any(u != 0)) else None
    D_lb, D_ub = orc.depth_bounds(extra=extra, seeds=[x] if x_ok else [], lb_above=(t + tol) if t_ok else 0.0)
    out["info"].update(D_lb=D_lb, D_ub=D_ub, t=t)
    if D_ub < -1e-6 * L:
        out["status"] = "mpr_false_overlap"                  # certified disjoint: C08's premise (overlapping pair) does not hold
        return out

    if t_ok:
        if t < D_lb - tol:
            fail("depth_not_too_small", "depth %.9g but the penetration depth is %s %.9g (tol %.3g)" % (t, "exactly" if poly else "at least", D_lb, tol))
        elif not (t >= D_ub - tol):
            undecided("depth_not_too_small")
    if t_ok and u_ok:
        shift = t * u
        R_lb, R_ub, _, _ = orc.shifted_bounds(shift, extra=extra, seeds=[x + 0.5 * shift] if x_ok else [], lb_above=tol)
        out["info"].update(R_lb=R_lb, R_ub=R_ub)
        if R_lb > tol:
            fail("residual_overlap", "after translating B by depth*direction (depth %.9g, penetration depth in [%.9g, %.9g]) the pair still overlaps by %s %.9g (tol %.3g)" % (
                t, D_lb, D_ub, "exactly" if poly else "at least", R_lb, tol))
        elif not (R_ub <= tol):
            undecided("residual_overlap")
    if not x_ok:
        fail("contact_in_both", "contact position = %r" % (x,))
    else:
        for name, col in (("first", A), ("second", B)):
            if C.contains(col, x, 0.5 * tol):
                continue
            lb = point_distance_lower_bound(col, x)
            if lb > tol:
                fail("contact_in_both", "contact position %s is at least %.6g away from the %s collider (tol %.3g)" % (x.tolist(), lb, name, tol))
                break
    return out


def _worker(case):
    try:
        return eval_case(case)
    except Exception as e:                                   # harness error: never a finding, but visible
        import traceback
        return dict(id=case["id"], status="harness_error:" + type(e).__name__, failures=[], undecided=["harness_error"],
                    info=dict(trace=traceback.format_exc()[-400:]))


def main():
    a = C.args()
    t0 = time.time()
    rng = np.random.default_rng(a.seed)
    from distance3d import mpr                               # noqa: F401  (compile / load the JIT cache before forking)
    import distance3d
    cases = enumerate_cases(rng, a.tier, poly_boost=2)
    primed = priming_effective()
    warm_up(use_epa=False, use_mpr=True)
    order = [cases[i] for i in np.random.default_rng(a.seed).permutation(len(cases))]
    res, hung = run_pool(_worker, order, a.jobs, t0 + (1080.0 if a.tier == "thorough" else 125.0))
    failures, samples, status, undec = [], [], {}, {}
    nontrivial = set()
    hung_elsewhere = []
    for i, phase in hung:
        c = cases[i]
        A, B = build_pair(c)
        orc = PairOracle(A, B)
        lb = orc.depth_bounds()[0] if (orc.exact is not None or not (A["kind"] in POLY and B["kind"] in POLY)) else -math.inf
        if phase == "mpr" and lb > 2e-3 * scale_L(A, B):
            failures.append(dict(contract="mpr.mpr_penetration[%s,%s]" % (c["A"]["kind"], c["B"]["kind"]), obligation="terminates",
                                 detail="mpr_penetration occupied a worker for more than %g s (native code does not return) on a pair whose "
                                        "penetration depth is at least %.6g" % (HANG_SECONDS, lb), input=dict(case=c)))
        else:
            hung_elsewhere.append(dict(phase=phase, certified_depth=lb, case=c))
    by_id = {c["id"]: c for c in cases}
    for r in res:
        st = r["status"].split(":")[0]
        status[st] = status.get(st, 0) + 1
        for u in r["undecided"]:
            undec[u] = undec.get(u, 0) + 1
        failures.extend(r["failures"])
        c = by_id[r["id"]]
        if st == "intersection" and r["info"].get("D_ub", 0.0) > 1e-6:
            nontrivial.add(case_key(c))
        if st == "intersection" and len(samples) < 8 and r["id"] % 97 == 0:
            samples.append(dict(case=c, result=r["info"]))
        if st == "harness_error" and len(samples) < 8:
            samples.append(dict(case=c, harness_error=r["info"]))
    if os.environ.get("D3VC_DUMP"):                          # full, untruncated result list for triage
        import json
        with open(os.environ["D3VC_DUMP"], "w") as fh:
            json.dump(dict(failures=failures, results=res), fh, default=C._js)
    failures, keys = order_failures(clean(failures))
    samples = clean(samples)
    fams = {}
    for c in cases:
        fams[c["family"]] = fams.get(c["family"], 0) + 1
    C.emit(t0, len(res), len(nontrivial),
           "mpr_penetration reports an intersection and the oracle's penetration depth (exact for polytopes, upper bound otherwise) exceeds 1e-6",
           samples, failures,
           "mpr_penetration(A,B) on %d scenes: all 100 ordered pairs of %s x families %s; lattice = cube-group rotations, offsets from "
           "{0,+-.25,+-.5,+-1}*{.5,1}*size; random = uniform rotations, gaussian offsets; sizes {0.5,1,2}, scene scale {0.01,1,100}, origin shift "
           "up to 707; boxgrid = boxes with sizes {0.5,1,2}^3 at offsets {-1,-.5,0,.25,.5,1}^3 (2/3 axis-aligned, 1/3 cube-group rotated); "
           "randhull = gaussian vertex hulls with 8..40 vertices" % (len(cases), C.COLLIDER_TYPES, fams),
           incomplete=len(cases) - len(res), hung_not_counted=clean(hung_elsewhere), undecided=sum(undec.values()), undecided_by_obligation=undec, status=status, failure_keys=keys,
           priming_effective=primed,
           library=os.path.dirname(distance3d.__file__), tier=a.tier, seed=a.seed)


if __name__ == "__main__":
    try:
        main()
    except Exception as _e:                                  # never a finding, never a non-zero exit code
        import traceback
        C.emit(time.time(), 0, 0, "harness error", [], [], "nothing was evaluated", harness_error=traceback.format_exc()[-1500:])
