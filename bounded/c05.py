"""Bounded stand-in for C05: AabbTree answers overlap queries exactly, for every insertion history.

Runs the REAL distance3d.aabb_tree.AabbTree (JIT as installed) over a systematically enumerated set of insertion histories
(sequences of insert_aabbs / insert_aabb calls: batch sizes incl. 0, modes none/sort/shuffle, with / without external data,
mixed) over box families incl. degenerate, touching, nested, duplicate and lattice boxes, followed by box queries (incl. touching
ones) and tree-vs-tree queries.  Oracle: brute force over MY OWN record of the inserted boxes with the closed-interval test.

Every scenario is executed in a forked worker that streams its results; the parent is a watchdog: a worker that makes no
progress for `timeout` seconds is killed and the scenario is reported as `terminates`; a worker that dies (signal) is reported as
`no_exception` (process crash).  The scenarios of the family `empty` (known to hang / crash under the JIT) are one task each.
The family `empty` is additionally executed interpreted (NUMBA_DISABLE_JIT=1, separate subprocess), where the out-of-bounds
read of the JIT code is a deterministic IndexError.

contract   aabb_tree.AabbTree[history=<family>]     (+ aabb_tree.AabbTree.get_root_aabb[history=<family>])
obligations query_complete query_sound query_no_duplicates tree_query_pairs_exact external_data_mapping terminates no_exception
            (+ root_aabb_is_union for get_root_aabb)
"""
import hashlib
import itertools
import json
import os
import subprocess
import sys
import time
import traceback
from collections import Counter
from multiprocessing import connection as mpc

import numpy as np

import _common as C

MODES = ("none", "sort", "shuffle")
FAMILIES = ("lattice", "nested", "duplicate", "degenerate", "row", "random", "scale", "mixed")
COUNT_NAME = {1: "single_batch", 2: "two_batches", 3: "three_batches", 4: "four_batches", 5: "five_batches"}


# ------------------------------------------------------------------------------------------------ histories
def options(sizes):
    """one insertion call = (kind, size, mode, data); data: True = external data list given, False = None"""
    opts = [("batch", s, m, d) for s in sizes for m in MODES for d in (False, True)]
    opts += [("single", 1, "none", True), ("single", 1, "none", None)]      # insert_aabb(box, token) / insert_aabb(box)
    return opts


def family_of(history):
    eff = [h for h in history if h[1] > 0]
    if not eff:
        return "empty"
    modes = [h[2] for h in eff]
    if "sort" in modes[1:]:
        m = "sort_later"
    elif modes[0] == "sort":
        m = "sort_first"
    elif "shuffle" in modes:
        m = "shuffle"
    else:
        m = "none"
    given = {h[3] is not False for h in eff}          # insert_aabb always passes a list
    d = "mixed_data" if len(given) == 2 else ("data" if True in given else "no_data")
    return "%s_%s_%s" % (COUNT_NAME.get(len(eff), "many_batches"), m, d)


def contract_of(history):
    return "aabb_tree.AabbTree[history=%s]" % family_of(history)


# ------------------------------------------------------------------------------------------------ boxes
def _box(lo, hi):
    return np.stack([np.asarray(lo, dtype=float), np.asarray(hi, dtype=float)], axis=1) + 0.0     # (3,2), no -0.0


def gen_boxes(fam, n, rng):
    """n boxes (n,3,2) of the family; all lo <= hi"""
    out = []
    if fam == "mixed":
        fams = [f for f in FAMILIES if f != "mixed"]
        for _ in range(n):
            out.append(gen_boxes(fams[rng.integers(len(fams))], 1, rng)[0])
        return np.array(out).reshape(n, 3, 2)
    if fam == "lattice":            # unit / double cubes on the integer lattice: faces, edges, corners touch; repeats possible
        for _ in range(n):
            lo = rng.integers(-1, 3, size=3).astype(float)
            out.append(_box(lo, lo + rng.choice([1.0, 1.0, 2.0])))
    elif fam == "nested":           # concentric + boxes sharing a face / corner with the enclosing one
        c = rng.integers(-1, 2, size=3).astype(float)
        for k in range(n):
            h = float(n - k)
            if rng.random() < 0.3:
                lo = c - h
                out.append(_box(lo, lo + h * rng.choice([0.5, 1.0])))
            else:
                out.append(_box(c - h * 0.5, c + h * 0.5))
    elif fam == "duplicate":        # one or two distinct boxes, repeated
        base = gen_boxes("lattice", 2, rng)
        for _ in range(n):
            out.append(base[rng.integers(1 + (rng.random() < 0.5))].copy())
    elif fam == "degenerate":       # points, segments, flat rectangles on the half-integer lattice
        for _ in range(n):
            lo = rng.integers(-2, 5, size=3).astype(float) * 0.5
            ext = rng.choice([0.0, 0.0, 0.5, 1.0], size=3)
            ext[rng.integers(3)] = 0.0
            out.append(_box(lo, lo + ext))
    elif fam == "row":              # boxes in a row along x, end to end (touching), in decreasing / shuffled x order
        xs = list(range(n))
        if rng.random() < 0.5:
            xs = xs[::-1]
        else:
            rng.shuffle(xs)
        w = rng.choice([1.0, 0.5, 0.0])
        for x in xs:
            out.append(_box([x, 0, 0], [x + 1.0, w, 1.0]))
    elif fam == "random":
        for _ in range(n):
            lo = rng.normal(size=3) * 2.0
            out.append(_box(lo, lo + rng.random(3) * 2.0))
    elif fam == "scale":            # sizes 1e-3 .. 1e3, partly nested around the origin, partly far away
        for _ in range(n):
            s = 10.0 ** rng.integers(-3, 4)
            c = np.zeros(3) if rng.random() < 0.5 else rng.integers(-2, 3, size=3) * s
            out.append(_box(c - s, c + s))
    else:
        raise ValueError(fam)
    return np.array(out).reshape(n, 3, 2)


def gen_queries(boxes, rng, n_extra):
    """query boxes: everything, nothing, touching (face / edge / corner), identical, points, flats, random"""
    qs = []
    if len(boxes):
        lo, hi = boxes[:, :, 0].min(axis=0), boxes[:, :, 1].max(axis=0)
    else:
        lo, hi = np.zeros(3), np.ones(3)
    qs.append(("all", _box(lo - 1, hi + 1)))
    qs.append(("far", _box(hi + 7, hi + 9)))
    qs.append(("hull", _box(lo, hi)))
    for t in range(n_extra):
        b = boxes[rng.integers(len(boxes))] if len(boxes) else _box([0, 0, 0], [1, 1, 1])
        kind = ("face", "edge", "corner", "same", "point_lo", "point_mid", "slab", "rand", "near_miss", "inside")[t % 10]
        if kind in ("face", "edge", "corner"):
            k = {"face": 1, "edge": 2, "corner": 3}[kind]
            axes = rng.permutation(3)[:k]
            q = b.copy()
            for a in axes:
                if rng.random() < 0.5:
                    q[a] = [b[a, 1], b[a, 1] + 1.0]              # touches the upper side
                else:
                    q[a] = [b[a, 0] - 1.0, b[a, 0]]              # touches the lower side
        elif kind == "same":
            q = b.copy()
        elif kind == "point_lo":
            q = _box(b[:, 0], b[:, 0])
        elif kind == "point_mid":
            m = 0.5 * (b[:, 0] + b[:, 1])
            q = _box(m, m)
        elif kind == "slab":
            a = rng.integers(3)
            q = _box(lo - 1, hi + 1)
            q[a] = [b[a, 1], b[a, 1]]
        elif kind == "rand":
            p = lo + rng.random(3) * (hi - lo)
            q = _box(p, p + rng.random(3) * (hi - lo + 1) * 0.5)
        elif kind == "near_miss":
            a = rng.integers(3)
            q = b.copy()
            up = np.nextafter(b[a, 1], np.inf)
            q[a] = [up, up + 1.0]                                # one ulp beyond touching
        else:
            m = 0.5 * (b[:, 0] + b[:, 1])
            q = _box(0.5 * (b[:, 0] + m), 0.5 * (b[:, 1] + m))
        qs.append((kind, q + 0.0))
    return qs


def overlap_mask(B, q):
    """closed-interval oracle: B (n,3,2), q (3,2) -> bool (n,)"""
    if len(B) == 0:
        return np.zeros(0, dtype=bool)
    return np.all((B[:, :, 0] <= q[None, :, 1]) & (B[:, :, 1] >= q[None, :, 0]), axis=1)


def gkey(box):
    return (np.asarray(box, dtype=float) + 0.0).tobytes()


# ------------------------------------------------------------------------------------------------ scenario execution
class Rec:
    """my own bookkeeping of a tree: inserted boxes and the datum supplied with each, in insertion order"""

    def __init__(self):
        self.boxes = []
        self.data = []

    def arr(self):
        return np.array(self.boxes, dtype=float).reshape(len(self.boxes), 3, 2)


def build(history, boxes, tag):
    """run the insertion history on a fresh tree; returns tree, Rec"""
    from distance3d.aabb_tree import AabbTree
    tree, rec, pos = AabbTree(), Rec(), 0
    for bi, (kind, size, mode, data) in enumerate(history):
        chunk = boxes[pos:pos + size]
        pos += size
        if kind == "single":
            datum = "%s.b%d.0" % (tag, bi) if data else None
            if data:
                tree.insert_aabb(chunk[0].copy(), datum)
            else:
                tree.insert_aabb(chunk[0].copy())
            rec.boxes.append(chunk[0])
            rec.data.append(datum)
            continue
        if data:
            ext = ["%s.b%d.%d" % (tag, bi, i) for i in range(size)]
        else:
            ext = None
        if size == 0:
            arr = [] if data else np.empty((0, 3, 2))
        else:
            arr = np.ascontiguousarray(chunk.copy())
        tree.insert_aabbs(arr, None if ext is None else list(ext), mode)
        for i in range(size):
            rec.boxes.append(chunk[i])
            rec.data.append(None if ext is None else ext[i])
    return tree, rec


def leaf_info(tree, i):
    """(problem or None, geometry key, datum, insert ordinal) of a reported index"""
    try:
        ii = int(i)
    except Exception:
        return "index %r is not an integer" % (i,), None, None, None
    if ii != i or not (0 <= ii < len(tree.aabbs)) or ii >= len(tree.nodes):
        return "index %r out of range [0,%d)" % (i, len(tree.aabbs)), None, None, None
    if int(tree.nodes[ii, 3]) != 1:
        return "index %d is not a leaf (node type %d)" % (ii, int(tree.nodes[ii, 3])), None, None, None
    ext = tree.external_data_list[ii] if ii < len(tree.external_data_list) else "<external_data_list too short>"
    ins = tree.insert_index_list[ii] if ii < len(tree.insert_index_list) else "<insert_index_list too short>"
    return None, gkey(tree.aabbs[ii]), ext, ins


def check_mapping(tree, rec, idxs, fails):
    """external_data_mapping for the reported (valid, distinct) indices"""
    keys = Counter((gkey(b), d) for b, d in zip(rec.boxes, rec.data))
    seen = Counter()
    for i in idxs:
        prob, g, ext, ins = leaf_info(tree, i)
        if prob is not None:
            continue
        seen[(g, ext)] += 1
        if seen[(g, ext)] > keys.get((g, ext), 0):
            fails.append(("external_data_mapping", "index %d carries datum %r, which was not supplied with (that many copies of) "
                          "the box stored there" % (int(i), ext)))
            continue
        if not isinstance(ins, (int, np.integer)) or not (0 <= ins < len(rec.boxes)):
            fails.append(("external_data_mapping", "insert_index_list[%d] = %r is not an insertion ordinal" % (int(i), ins)))
        elif gkey(rec.boxes[ins]) != g or rec.data[ins] != ext:
            fails.append(("external_data_mapping", "index %d: insert ordinal %d / datum %r do not belong to the box stored there "
                          "(supplied datum %r)" % (int(i), ins, ext, rec.data[ins])))


def check_box_query(tree, rec, q):
    """returns (list of (obligation, detail), nontrivial?)"""
    fails = []
    B = rec.arr()
    exp = overlap_mask(B, q)
    expected = Counter(gkey(B[k]) for k in np.nonzero(exp)[0])
    flag, idx = tree.overlaps_aabb(np.ascontiguousarray(q))
    idx = list(np.asarray(idx).tolist())
    if len(set(idx)) != len(idx):
        dup = [i for i, c in Counter(idx).items() if c > 1]
        fails.append(("query_no_duplicates", "indices reported more than once: %s (result %s)" % (dup[:5], idx[:20])))
    reported = Counter()
    for i in sorted(set(idx)):
        prob, g, ext, ins = leaf_info(tree, i)
        if prob is not None:
            fails.append(("query_sound", prob))
            continue
        reported[g] += 1
    missing = expected - reported
    spurious = reported - expected
    if missing:
        g = next(iter(missing))
        fails.append(("query_complete", "%d overlapping inserted box(es) not reported, e.g. %s (expected %d, reported %d)" % (
            sum(missing.values()), np.frombuffer(g).reshape(3, 2).tolist(), sum(expected.values()), len(set(idx)))))
    if spurious:
        g = next(iter(spurious))
        fails.append(("query_sound", "%d reported box(es) do not overlap / were not inserted, e.g. %s" % (
            sum(spurious.values()), np.frombuffer(g).reshape(3, 2).tolist())))
    if bool(flag) != (len(idx) > 0):
        fails.append(("query_sound", "flag %r inconsistent with %d reported indices" % (flag, len(idx))))
    check_mapping(tree, rec, sorted(set(idx)), fails)
    n_exp = int(exp.sum())
    return fails, (0 < n_exp < len(B))


def check_tree_query(tree, rec, other, orec):
    fails = []
    A, B = rec.arr(), orec.arr()
    expected = Counter()
    for a in range(len(A)):
        m = overlap_mask(B, A[a])
        ka = gkey(A[a])
        for b in np.nonzero(m)[0]:
            expected[(ka, gkey(B[b]))] += 1
    flag, ov_self, ov_other, pairs = tree.overlaps_aabb_tree(other)
    pairs = [(p[0], p[1]) for p in pairs]
    if len(set(pairs)) != len(pairs):
        dup = [p for p, c in Counter(pairs).items() if c > 1]
        fails.append(("tree_query_pairs_exact", "pairs reported more than once: %s" % (dup[:5],)))
    reported = Counter()
    bad = False
    for (i, j) in sorted(set(pairs)):
        p1, g1, _, _ = leaf_info(tree, i)
        p2, g2, _, _ = leaf_info(other, j)
        if p1 is not None or p2 is not None:
            fails.append(("tree_query_pairs_exact", "pair (%r,%r): %s" % (i, j, p1 or p2)))
            bad = True
            continue
        reported[(g1, g2)] += 1
    missing = expected - reported
    spurious = reported - expected
    if missing:
        g = next(iter(missing))
        fails.append(("tree_query_pairs_exact", "%d overlapping pair(s) not reported (expected %d, reported %d), e.g. %s x %s" % (
            sum(missing.values()), sum(expected.values()), len(set(pairs)), np.frombuffer(g[0]).reshape(3, 2).tolist(),
            np.frombuffer(g[1]).reshape(3, 2).tolist())))
    if spurious:
        g = next(iter(spurious))
        fails.append(("tree_query_pairs_exact", "%d reported pair(s) do not overlap / are not inserted boxes, e.g. %s x %s" % (
            sum(spurious.values()), np.frombuffer(g[0]).reshape(3, 2).tolist(), np.frombuffer(g[1]).reshape(3, 2).tolist())))
    if not bad:
        s1 = sorted({int(p[0]) for p in pairs})
        s2 = sorted({int(p[1]) for p in pairs})
        if list(np.asarray(ov_self).tolist()) != s1 or list(np.asarray(ov_other).tolist()) != s2:
            fails.append(("tree_query_pairs_exact", "overlap_self / overlap_other %s / %s are not the projections %s / %s of the pairs"
                          % (np.asarray(ov_self).tolist()[:10], np.asarray(ov_other).tolist()[:10], s1[:10], s2[:10])))
    if bool(flag) != (len(pairs) > 0):
        fails.append(("tree_query_pairs_exact", "flag %r inconsistent with %d pairs" % (flag, len(pairs))))
    check_mapping(tree, rec, sorted({p[0] for p in pairs}), fails)
    n_exp = sum(expected.values())
    return fails, (0 < n_exp < len(A) * len(B))


def exc_text(e):
    return "%s: %s" % (type(e).__name__, str(e)[:200])


def run_scenario(sc):
    """sc = dict(id, history, fam, seed, nq, kinds); returns dict(evals, nontrivial, fails=[(contract, obligation, detail, input)], sample)"""
    hist = [tuple(h) for h in sc["history"]]
    contract = contract_of(hist)
    rng = np.random.default_rng([sc["seed"], sc["id"], 5])
    np.random.seed((sc["seed"] * 1000003 + sc["id"]) % (2 ** 32))          # 'shuffle' uses the global generator
    n = sum(h[1] for h in hist)
    boxes = gen_boxes(sc["fam"], n, rng) if n else np.empty((0, 3, 2))
    inp = dict(scenario=sc["id"], history=[list(h) for h in hist], box_family=sc["fam"], boxes=boxes.tolist())
    out = dict(evals=0, nontrivial=0, fails=[], sample=None)

    def fail(obl, detail, extra=None, contract_=None):
        d = dict(inp)
        if extra:
            d.update(extra)
        out["fails"].append((contract_ or contract, obl, detail, d))

    try:
        tree, rec = build(hist, boxes, "s%d" % sc["id"])
    except Exception as e:                                               # noqa
        out["evals"] += 1
        fail("no_exception", "insertion raised " + exc_text(e))
        return out
    seen = set()
    kinds = sc.get("kinds", ("box", "tree", "root"))
    # --- get_root_aabb
    if "root" in kinds:
        out["evals"] += 1
        cname = "aabb_tree.AabbTree.get_root_aabb[history=%s]" % family_of(hist)
        try:
            r = np.asarray(tree.get_root_aabb(), dtype=float)
            if n:
                B = rec.arr()
                u = np.stack([B[:, :, 0].min(axis=0), B[:, :, 1].max(axis=0)], axis=1)
                if r.shape != (3, 2) or not np.array_equal(r, u):
                    fail("root_aabb_is_union", "root box %s is not the union %s of the inserted boxes" % (r.tolist(), u.tolist()),
                         contract_=cname)
        except Exception as e:                                           # noqa
            fail("no_exception", "get_root_aabb raised " + exc_text(e), contract_=cname)
    # --- box queries
    if "box" in kinds:
        for kind, q in gen_queries(rec.arr(), rng, sc["nq"]):
            out["evals"] += 1
            try:
                fl, nontriv = check_box_query(tree, rec, q)
            except Exception as e:                                       # noqa
                fail("no_exception", "overlaps_aabb raised " + exc_text(e), dict(query=q.tolist(), query_kind=kind))
                continue
            for obl, det in fl:
                fail(obl, det, dict(query=q.tolist(), query_kind=kind))
            k = q.tobytes()
            if nontriv and k not in seen:
                seen.add(k)
                out["nontrivial"] += 1
                if out["sample"] is None and sc["id"] % 997 == 0:       # a deterministic, sparse selection of written-out cases
                    out["sample"] = dict(contract=contract, history=[list(h) for h in hist], box_family=sc["fam"], n_boxes=n,
                                         query=q.tolist(), query_kind=kind,
                                         n_expected=int(overlap_mask(rec.arr(), q).sum()))
    # --- tree-vs-tree queries
    if "tree" in kinds:
        others = []
        for m, fam in ((1, sc["fam"]), (4, sc["fam"]), (3, "lattice")):
            ob = gen_boxes(fam, m, rng)
            if n and m > 1:                                              # make one of them touch an inserted box at a corner
                b = rec.boxes[rng.integers(n)]
                ob[0] = np.stack([b[:, 1], b[:, 1] + 1.0], axis=1)
            others.append((("other", m, fam), [("batch", m, "none", True)], ob))
        for name, oh, ob in others:
            out["evals"] += 1
            try:
                other, orec = build(oh, ob, "o%d" % sc["id"])
                fl, nontriv = check_tree_query(tree, rec, other, orec)
            except Exception as e:                                       # noqa
                fail("no_exception", "overlaps_aabb_tree raised " + exc_text(e), dict(other_boxes=ob.tolist()))
                continue
            for obl, det in fl:
                fail(obl, det, dict(other_boxes=ob.tolist()))
            k = b"T" + ob.tobytes()
            if nontriv and k not in seen:
                seen.add(k)
                out["nontrivial"] += 1
        out["evals"] += 1
        try:
            fl, nontriv = check_tree_query(tree, rec, tree, rec)
            for obl, det in fl:
                fail(obl, det, dict(other="self"))
            if nontriv:
                out["nontrivial"] += 1
        except Exception as e:                                           # noqa
            fail("no_exception", "overlaps_aabb_tree(self) raised " + exc_text(e), dict(other="self"))
    return out


# ------------------------------------------------------------------------------------------------ family `empty`
EMPTY_VARIANTS = ("box_query", "tree_query_self_empty", "tree_query_other_empty", "tree_query_both_empty", "root")


def poison_heap(rep):
    """The JIT code reads aabbs[-1] / nodes[-1] of zero-length arrays, i.e. memory in front of the arrays: what happens depends
    on what the allocator left there.  Vary it deterministically.  The data block of a zero-length array is a 1-byte allocation
    (smallest malloc chunk) that numpy recycles from a small cache: allocate pairs (3 doubles = same chunk class, empty array) so
    that the recycled 1-byte blocks are preceded by OUR values, then release the empty ones.  rep 0: neighbours filled with 0.0
    (decodes as a box around the origin and node links 0), rep 1: heap left as it is, rep 2: neighbours filled with 0.5.
    Returns the objects that must stay alive during the query."""
    if rep == 1:
        return None
    val = 0.0 if rep == 0 else 0.5
    keep, empties = [], []
    for _ in range(48):
        keep.append(np.full(3, val))
        empties.append(np.empty(0))
    del empties
    return keep


def run_empty(sc):
    """one native call on a tree without any inserted box; sc = dict(id, history (all sizes 0), variant, seed, rep)"""
    hist = [tuple(h) for h in sc["history"]]
    contract = "aabb_tree.AabbTree[history=empty]"
    inp = dict(scenario=sc["id"], history=[list(h) for h in hist], variant=sc["variant"], mode=sc.get("mode", "jit"))
    out = dict(evals=1, nontrivial=0, fails=[], sample=None)
    rng = np.random.default_rng([sc["seed"], sc["id"], 7])
    ob = gen_boxes("lattice", 3, rng)
    full, frec = build([("batch", 3, "none", True)], ob, "f")
    keep_alive = poison_heap(sc.get("rep", 0))
    inp["heap_preparation"] = {0: "neighbouring blocks filled with 0.0", 1: "none", 2: "neighbouring blocks filled with 0.5"}[sc.get("rep", 0)]
    tree, rec = build(hist, np.empty((0, 3, 2)), "e")
    v = sc["variant"]
    try:
        if v == "box_query":
            q = _box([0, 0, 0], [1, 1, 1]) if sc["id"] % 2 else _box([-1e9] * 3, [1e9] * 3)
            inp["query"] = q.tolist()
            flag, idx = tree.overlaps_aabb(q)
            if bool(flag) or len(idx):
                out["fails"].append((contract, "query_sound", "empty tree reports flag=%r indices=%s" % (flag, np.asarray(idx).tolist()[:10]), inp))
        elif v == "root":
            contract = "aabb_tree.AabbTree.get_root_aabb[history=empty]"
            r = tree.get_root_aabb()
            out["fails"].append((contract, "root_aabb_is_union", "empty tree has a root box %s" % (np.asarray(r).tolist(),), inp))
        else:
            a, b = {"tree_query_self_empty": (tree, full), "tree_query_other_empty": (full, tree),
                    "tree_query_both_empty": (tree, build(hist, np.empty((0, 3, 2)), "e2")[0])}[v]
            inp["nonempty_boxes"] = ob.tolist()
            flag, s1, s2, pairs = a.overlaps_aabb_tree(b)
            if bool(flag) or len(s1) or len(s2) or len(pairs):
                out["fails"].append((contract, "tree_query_pairs_exact", "query with an empty tree reports flag=%r self=%s other=%s pairs=%s" % (
                    flag, np.asarray(s1).tolist()[:5], np.asarray(s2).tolist()[:5], list(pairs)[:5]), inp))
    except Exception as e:                                               # noqa
        out["fails"].append((contract, "no_exception", "%s raised %s [%s]" % (v, exc_text(e), inp["mode"]), inp))
    del keep_alive
    return out


def interpreted_empty_main():
    """child process with NUMBA_DISABLE_JIT=1: the same family interpreted (deterministic)"""
    scs = json.load(open(sys.argv[2]))
    res = []
    for sc in scs:
        sc["mode"] = "interpreted"
        try:
            res.append(run_empty(sc))
        except Exception as e:                                           # noqa
            res.append(dict(evals=1, nontrivial=0, sample=None, fails=[("aabb_tree.AabbTree[history=empty]", "no_exception",
                                                                        "harness: " + exc_text(e), sc)]))
    print("\n" + json.dumps(res, default=C._js))


# ------------------------------------------------------------------------------------------------ guarded scheduler
def _compress(r, sent):
    """keep the pipe traffic small: per (contract, obligation) a count; detail + input only the first time within this worker"""
    agg = {}
    for (c, o, d, i) in r["fails"]:
        k = (c, o)
        if k in agg:
            agg[k][0] += 1
        elif k in sent:
            agg[k] = [1, None, None]
        else:
            sent.add(k)
            agg[k] = [1, d, i]
    r["fails"] = [(k[0], k[1], v[0], v[1], v[2]) for k, v in agg.items()]
    return r


def _child(conn, fn, tasks):
    sent = set()
    try:
        for t in tasks:
            try:
                r = fn(t)
            except Exception as e:                                       # noqa  (harness error inside a scenario)
                r = dict(evals=0, nontrivial=0, sample=None, fails=[], harness_error=traceback.format_exc()[-800:], task=t.get("id"))
            conn.send(_compress(r, sent))
        conn.send("END")
    finally:
        conn.close()
        os._exit(0)


def run_guarded(chunks, jobs, deadline, on_result=None):
    """chunks: iterable of (fn, [tasks], per_task_timeout).  Forked workers stream one result per task.  Returns
    (results list of (task, result) [empty if on_result is given], incidents list of (task, 'hang'|'crash', info), #skipped)"""
    import multiprocessing as mp
    ctx = mp.get_context("fork")
    it = iter(chunks)
    requeue = []
    state = dict(exhausted=False)
    running = {}            # conn -> dict(proc, fn, tasks, pos, t_last, timeout)
    results, incidents = [], []
    skipped = 0

    def next_chunk():
        if requeue:
            return requeue.pop()
        if state["exhausted"]:
            return None
        try:
            return next(it)
        except StopIteration:
            state["exhausted"] = True
            return None

    def spawn(ch):
        fn, tasks, tmo = ch
        r, w = ctx.Pipe(duplex=False)
        p = ctx.Process(target=_child, args=(w, fn, tasks))
        p.daemon = True
        p.start()
        w.close()
        running[r] = dict(proc=p, fn=fn, tasks=tasks, pos=0, t_last=time.time(), timeout=tmo)

    def retire(conn, st, kind, info):
        """the task at st.pos hung / crashed: record, requeue the rest"""
        tasks = st["tasks"]
        if st["pos"] < len(tasks):
            incidents.append((tasks[st["pos"]], kind, info))
            rest = tasks[st["pos"] + 1:]
            if rest:
                requeue.append((st["fn"], rest, st["timeout"]))
        try:
            st["proc"].kill()
        except Exception:                                                # noqa
            pass
        st["proc"].join(5)
        conn.close()
        del running[conn]

    while True:
        if time.time() > deadline:
            for conn, st in list(running.items()):
                skipped += len(st["tasks"]) - st["pos"]
                st["proc"].kill()
                st["proc"].join(5)
                conn.close()
                del running[conn]
            while True:
                ch = next_chunk()
                if ch is None:
                    break
                skipped += len(ch[1])
            break
        while len(running) < jobs:
            ch = next_chunk()
            if ch is None:
                break
            spawn(ch)
        if not running:
            break
        ready = mpc.wait(list(running.keys()), timeout=0.25)
        for conn in ready:
            st = running.get(conn)
            if st is None:
                continue
            try:
                while conn.poll():
                    msg = conn.recv()
                    if isinstance(msg, str) and msg == "END":
                        st["proc"].join(5)
                        conn.close()
                        del running[conn]
                        break
                    if on_result is None:
                        results.append((st["tasks"][st["pos"]], msg))
                    else:
                        on_result(st["tasks"][st["pos"]], msg)
                    st["pos"] += 1
                    st["t_last"] = time.time()
            except (EOFError, OSError):
                st["proc"].join(5)
                retire(conn, st, "crash", "worker died, exit code %r" % (st["proc"].exitcode,))
        now = time.time()
        for conn, st in list(running.items()):
            if now - st["t_last"] > st["timeout"]:
                retire(conn, st, "hang", "no result within %.0f s (worker killed)" % st["timeout"])
    return results, incidents, skipped


# ------------------------------------------------------------------------------------------------ main
def warm_up():
    """compile every jitted function on the types used (in the parent, so that forked workers do not compile)"""
    from distance3d.aabb_tree import AabbTree
    rng = np.random.default_rng(0)
    for mode in MODES:
        t = AabbTree()
        t.insert_aabbs(gen_boxes("lattice", 4, rng), None, mode)
        t.insert_aabb(gen_boxes("lattice", 1, rng)[0], "x")
        t.insert_aabb(gen_boxes("lattice", 1, rng)[0])
        t.overlaps_aabb(_box([0, 0, 0], [1, 1, 1]))
        t.overlaps_aabb_tree(t)
        t.get_root_aabb()


def _warm_task(t):
    try:
        warm_up()
        return dict(evals=0, nontrivial=0, fails=[], sample=None, ok=True)
    except Exception as e:                                               # noqa
        return dict(evals=0, nontrivial=0, fails=[], sample=None, ok=False, error=exc_text(e))


def main():
    if len(sys.argv) > 1 and sys.argv[1] == "--interpreted-empty":
        return interpreted_empty_main()
    a = C.args()
    t0 = time.time()
    thorough = a.tier == "thorough"
    budget = 1050 if thorough else 125
    deadline = t0 + budget
    import distance3d
    repo_file = distance3d.__file__

    # ---- enumerate histories (lazily: the scenario list of the thorough tier would not fit comfortably in memory)
    opts = options((0, 1, 2, 3, 5))
    big_opts = options((4, 8, 13, 21))[:-2]
    small = options((0, 1, 3))[:-1]                                      # 19 call kinds, used for length 4
    fams_per = len(FAMILIES) if thorough else 2
    nq = 14 if thorough else 10

    def history_groups():
        yield "base", itertools.chain([()], *[itertools.product(opts, repeat=L) for L in (1, 2, 3)])
        yield "big", itertools.chain(*[itertools.product(big_opts, repeat=L) for L in ((1, 2, 3) if thorough else (1, 2))])
        if thorough:
            yield "len4", itertools.product(small, repeat=4)

    stats = dict(hist=0, scen=0, maxbox=0)
    empty_hists = []

    def scenario_iter(count_only=False):
        sid = hi = 0
        for group, hs in history_groups():
            for h in hs:
                hi += 1
                if family_of(h) == "empty":
                    if count_only:
                        empty_hists.append(h)
                    continue
                if group == "base":
                    nf = fams_per if (thorough or len(h) <= 2) else 1      # quick: 2 families up to 2 calls, 1 for 3 calls
                    fams = [FAMILIES[(hi * nf + k) % len(FAMILIES)] for k in range(nf)]
                elif group == "big":
                    fams = [FAMILIES[(hi + k * 3) % len(FAMILIES)] for k in range(2)]
                else:
                    fams = [FAMILIES[hi % len(FAMILIES)]]
                if count_only:
                    stats["hist"] += 1
                    stats["scen"] += len(fams)
                    stats["maxbox"] = max(stats["maxbox"], sum(c[1] for c in h))
                    sid += len(fams)
                    continue
                for fam in fams:
                    yield dict(id=sid, history=h, fam=fam, seed=a.seed, nq=nq if group != "len4" else 10)
                    sid += 1

    for _ in scenario_iter(count_only=True):
        pass
    sid = stats["scen"]
    empties = []
    # ---- family `empty`: a bounded selection (each may cost a full watchdog timeout)
    empty_hists.sort(key=lambda h: (len(h), h))
    sel = [h for h in empty_hists if len(h) <= 1]
    rest = [h for h in empty_hists if len(h) > 1]
    step = max(1, len(rest) // (40 if thorough else 5))
    sel += rest[::step][: (40 if thorough else 5)]
    reps = 3 if thorough else 2
    for h in sel:
        for v in EMPTY_VARIANTS:
            for rep in range(reps):
                empties.append(dict(id=sid, history=h, variant=v, seed=a.seed, rep=rep))
                sid += 1
    # ---- interpreted run of the family `empty` (separate process, deterministic)
    env = dict(os.environ, NUMBA_DISABLE_JIT="1")
    interp_scs = [e for e in empties if e["rep"] == 0]
    import tempfile
    tmp = tempfile.NamedTemporaryFile("w", suffix=".json", prefix="c05_empty_", delete=False)
    json.dump(interp_scs, tmp)
    tmp.close()
    interp = subprocess.Popen([sys.executable, os.path.abspath(__file__), "--interpreted-empty", tmp.name], stdin=subprocess.DEVNULL,
                              stdout=subprocess.PIPE, stderr=subprocess.DEVNULL, env=env, text=True)

    # compile in a guarded worker first (a hang / crash / exception of the plain insert + query path must not take the harness down)
    warm_res, warm_inc, _ = run_guarded([(_warm_task, [dict(id=-1, history=(("batch", 4, "none", False),))], 300.0)], 1, deadline)
    warm_ok = bool(warm_res) and warm_res[0][1].get("ok")
    if warm_ok:
        try:
            warm_up()                   # now served from numba's on-disk cache; forked workers inherit the compiled code
        except Exception:               # noqa
            warm_ok = False
    empty_timeout = 6.0 if warm_ok else 60.0
    chunk_n = 400 if thorough else 250

    # ---- merge on the fly (deterministic: example with the smallest scenario id per (contract, obligation))
    tot = dict(evals=0, nontriv=0)
    agg = {}
    samples = []
    harness_errors = []

    def add(contract, obl, detail, inp, cnt=1):
        key = (contract, obl)
        sidx = inp.get("scenario", 1 << 60) if isinstance(inp, dict) else 1 << 61
        cur = agg.get(key)
        if cur is None:
            agg[key] = [cnt, sidx, detail, inp]
        else:
            cur[0] += cnt
            if inp is not None and sidx < cur[1]:
                cur[1:] = [sidx, detail, inp]

    def on_result(task, r):
        tot["evals"] += r["evals"]
        tot["nontriv"] += r["nontrivial"]
        if r.get("harness_error") and len(harness_errors) < 20:
            harness_errors.append(dict(task=task.get("id"), error=r["harness_error"]))
        for (c, o, n_, d, i) in r["fails"]:
            add(c, o, d, i, n_)
        if r.get("sample") is not None and len(samples) < 4000:
            samples.append((task["id"], r["sample"]))

    def chunk_iter():
        for e in empties:
            yield (run_empty, [e], empty_timeout)
        buf = []
        for sc in scenario_iter():
            buf.append(sc)
            if len(buf) >= chunk_n:
                yield (run_scenario, buf, 30.0)
                buf = []
        if buf:
            yield (run_scenario, buf, 30.0)

    _, incidents, skipped = run_guarded(chunk_iter(), a.jobs, deadline, on_result)
    evals, nontriv = tot["evals"], tot["nontriv"]
    if not warm_ok:
        extra_note = "warm-up (insert 4 boxes in each mode, query) failed: %s" % (
            (warm_res[0][1].get("error") if warm_res else None) or (warm_inc[0][1:] if warm_inc else "?"),)
        for task, kind, info in warm_inc:
            incidents.append((dict(id=-1, history=task["history"]), kind, "during warm-up: " + info))
    else:
        extra_note = None
    for task, kind, info in incidents:
        evals += 1
        hist = [tuple(h) for h in task["history"]]
        contract = contract_of(hist)
        if task.get("variant") == "root":
            contract = "aabb_tree.AabbTree.get_root_aabb[history=empty]"
        inp = dict(scenario=task["id"], history=[list(h) for h in hist], variant=task.get("variant"), box_family=task.get("fam"), mode="jit")
        if kind == "hang":
            add(contract, "terminates", "native call did not return: " + info, inp)
        else:
            add(contract, "no_exception", "process crashed during the native call: " + info, inp)
    # interpreted results
    interp_note = None
    try:
        so, _ = interp.communicate(timeout=max(5.0, deadline + 15 - time.time()))
        for r in json.loads(so.strip().splitlines()[-1]):
            evals += r["evals"]
            for (c, o, d, i) in r["fails"]:
                add(c, o, d, dict(i, scenario=(1 << 59) + i.get("scenario", 0)))
    except Exception as e:                                               # noqa
        interp.kill()
        interp.communicate()
        interp_note = "interpreted run of family empty did not finish: " + exc_text(e)

    try:
        os.unlink(tmp.name)
    except OSError:
        pass
    failures = []
    for (c, o) in sorted(agg):
        cnt, sidx, detail, inp = agg[(c, o)]
        failures.append(dict(contract=c, obligation=o, detail="%s  [%d case(s) of this kind]" % (detail, cnt), input=inp))
    samples.sort(key=lambda s: s[0])
    pick = [s[1] for s in samples[:: max(1, len(samples) // 8)]][:8]
    n_hist = stats["hist"] + len(sel)
    domain = ("insertion histories: all sequences of <=3 calls over 32 call kinds (insert_aabbs sizes {0,1,2,3,5} x modes none/sort/shuffle x "
              "external data yes/no, insert_aabb with / without datum)%s; %d histories, %d scenarios = history x box family "
              "(%s; %d famil%s per history%s, <= %d boxes) each with %d box queries (all / far / hull / face-, edge-, corner-touching / identical / "
              "point / slab / random / one-ulp near miss / inside), 3 tree-vs-tree queries against single-batch trees (1, 4, 3 boxes, one corner-touching), "
              "self-vs-self and get_root_aabb; family empty (no inserted box): %d histories x %s, JIT (guarded, %d rep) + interpreted; "
              "repo %s") % (
        "; + sequences of <=%d calls with sizes {4,8,13,21}%s" % (3 if thorough else 2, "; + all sequences of 4 calls over 19 call kinds (sizes {0,1,3}, insert_aabb with datum)" if thorough else ""),
        n_hist, stats["scen"], ",".join(FAMILIES), fams_per, "ies" if fams_per > 1 else "y", " (2 for the large-batch histories, 1 for histories of 4 calls)" if thorough else " (1 for histories of 3 calls)",
        stats["maxbox"], nq + 3, len(sel), "/".join(EMPTY_VARIANTS), reps, repo_file)
    rule = ("non-trivial = the oracle's answer set is neither empty nor everything (box query: 0 < #overlapping < #inserted; tree query: 0 < #pairs < "
            "#A*#B); distinct by (scenario = history x box family, query bytes)")
    extra_out = dict(failure_counts={"%s :: %s" % k: v[0] for k, v in sorted(agg.items())}, scenarios=stats["scen"] + len(empties),
                     skipped_for_time=skipped, undecided=0)
    if harness_errors:
        extra_out["harness_errors"] = harness_errors[:5]
    if interp_note or extra_note:
        extra_out["note"] = "; ".join(x for x in (interp_note, extra_note) if x)
    # get_root_aabb() of a tree without insertions raises IndexError (plain Python, same with and without the JIT).  The property
    # speaks of the box query and the tree-vs-tree query; a root box of an empty tree does not exist, so raising is not a violation.
    # Reported as information, not as a failure (an earlier version of this harness raised a false alarm here).
    info_only = [f for f in failures if f["contract"] == "aabb_tree.AabbTree.get_root_aabb[history=empty]" and f["obligation"] == "no_exception"]
    failures = [f for f in failures if f not in info_only]
    extra_out["info_root_aabb_of_empty_tree_raises"] = len(info_only)
    C.emit(t0, evals, nontriv, rule, pick, failures, domain, **extra_out)


if __name__ == "__main__":
    main()
