"""Bounded stand-in for C01: Jolt GJK distance query (gjk.gjk = gjk.gjk_distance = gjk_distance_jolt).

Runs the REAL library on an enumerated finite domain (all ordered pairs of the 10 collider types, optionally wrapped in Margin,
in lattice / touching / nested / coincident / random placements, feature sizes in [1e-2, 1e2]) and checks the clauses of C01

    a in A, b in B, |a-b| = d, d = dist(A,B)  (each up to 1e-5*L),  d = 0 with a = b when the sets overlap

against a SOUND two-sided oracle that never trusts any GJK:

  lower bound  dist(A,B) >= -(h_A(n) + h_B(-n))     for any unit n   (support inequality; closed-form supports of _common)
  upper bound  dist(A,B) <= |p - q|                  for any p in A, q in B verified by the closed-form _common.contains
  overlap      dist(A,B)  = 0                        if one point is verified to lie in both sets
  Margin       dist(A+Ball(mA), B+Ball(mB)) = max(0, dist(A,B) - mA - mB)     (exact identity, applied to both bounds)

Candidate directions / witness points come from an own small min-norm-point iteration on A-B (`hint_solve`, exact closed-form
supports, brute-force sub-simplex enumeration) and from the library's own answer; candidates are only HINTS, every bound that is
used is re-verified by the closed forms above, so a bad hint can only make a case undecided, never produce a false alarm.
A failure is reported only if the library's answer contradicts a sound bound by more than the property's tolerance.

This file also hosts the oracle + scene generator shared with bounded/c09.py (both files are the author's own).
"""
import os
import sys
import time
import math
import copy
import signal

sys.path.insert(0, os.path.dirname(os.path.abspath(__file__)))
import _common as C
import numpy as np

K_C01 = 1e-5
SQ2 = math.sqrt(0.5)
SQ3 = math.sqrt(1.0 / 3.0)
AXES = [np.array(v, dtype=float) for v in ([1, 0, 0], [-1, 0, 0], [0, 1, 0], [0, -1, 0], [0, 0, 1], [0, 0, -1])]
LATTICE_DIRS = AXES + [np.array(v, dtype=float) * SQ2 for v in
                       ([1, 1, 0], [1, -1, 0], [0, 1, 1], [0, -1, 1], [1, 0, 1], [-1, 0, 1], [-1, -1, 0], [0, -1, -1])] + \
               [np.array(v, dtype=float) * SQ3 for v in ([1, 1, 1], [-1, 1, 1], [1, -1, -1], [-1, -1, -1])]
FAMILIES = ["coincident", "axis_offset", "support_touch_lattice", "lattice_offset", "random", "support_touch_random", "far"]


# ------------------------------------------------------------------------------------------------------------ colliders
_MESH_TEMPLATES = {}


def make_col(kind, T, size, margin=0.0):
    """collider record {kind, obj, par, size, margin}.  obj is the real library collider (wrapped in colliders.Margin if
    margin > 0); par are the parameters used by the closed-form oracle for the CORE shape (without margin)."""
    T = np.ascontiguousarray(np.asarray(T, dtype=float))
    if kind == "mesh":
        # MeshGraph.__init__ builds a numba typed dict (70 ms).  Build one real MeshGraph per size with the constructor and
        # clone it for other poses: the clone has exactly the attribute values the constructor would set (shared read-only
        # connection table, fresh first_idx).
        key = float(size)
        if key not in _MESH_TEMPLATES:
            if len(_MESH_TEMPLATES) > 64:
                _MESH_TEMPLATES.clear()
            _MESH_TEMPLATES[key] = C.make_collider("mesh", np.eye(4), size)
        tpl = _MESH_TEMPLATES[key]
        obj = copy.copy(tpl["obj"])
        sf = copy.copy(tpl["obj"]._support_function)
        vv = tpl["obj"].vertices
        obj.mesh2origin = T
        sf.mesh2origin = T
        sf.first_idx = np.min(tpl["obj"].triangles)
        obj._support_function = sf
        world = np.ascontiguousarray((T[:3, :3] @ vv.T).T + T[:3, 3])
        col = dict(kind="mesh", obj=obj, par=dict(T=T, vertices_world=world), size=float(size))
    else:
        col = C.make_collider(kind, T, size)
    col["margin"] = float(margin)
    col["core_obj"] = col["obj"]
    if margin > 0.0:
        from distance3d import colliders
        col["obj"] = colliders.Margin(col["obj"], float(margin))
    return col


def point_col(x):
    return dict(kind="sphere", par=dict(c=np.asarray(x, dtype=float), r=0.0), size=0.0, margin=0.0)


def center_of(col):
    k, p = col["kind"], col["par"]
    if k == "sphere":
        return np.asarray(p["c"], dtype=float)
    if k in ("mesh", "hull"):
        return np.mean(p["vertices_world"], axis=0)
    T = p["T"]
    if k == "cone":
        return T[:3, 3] + 0.5 * p["h"] * T[:3, 2]
    return T[:3, 3].copy()


def feature_size(col):
    """largest feature size (radius, length, edge size, vertex spread) of the collider"""
    f = 2.0 * col["size"] if col["kind"] in ("mesh", "hull") else col["size"]
    return max(f, col.get("margin", 0.0))


def scene_L(A, B):
    return max(1.0, feature_size(A), feature_size(B), float(np.linalg.norm(center_of(A) - center_of(B))))


def tname(col):
    return ("Margin(%s)" % col["kind"]) if col.get("margin", 0.0) > 0.0 else col["kind"]


# ------------------------------------------------------------------------------------------------------------ oracle
def _affine_min_norm(Ys):
    """barycentric coordinates of the point of minimum norm of the affine hull of 1..4 points, or None if degenerate"""
    m = len(Ys)
    y0 = Ys[0]
    if m == 1:
        return [1.0]
    if m == 2:
        e = Ys[1] - y0
        ee = float(e @ e)
        if ee <= 0.0:
            return None
        mu = -float(e @ y0) / ee
        return [1.0 - mu, mu]
    E = np.array([Ys[i] - y0 for i in range(1, m)])
    G = E @ E.T
    r = -(E @ y0)
    if m == 3:
        det = G[0, 0] * G[1, 1] - G[0, 1] * G[1, 0]
        if not det > 1e-13 * G[0, 0] * G[1, 1]:
            return None
        m1 = (r[0] * G[1, 1] - r[1] * G[0, 1]) / det
        m2 = (G[0, 0] * r[1] - G[1, 0] * r[0]) / det
        return [1.0 - m1 - m2, m1, m2]
    det = float(np.linalg.det(G))
    if not det > 1e-13 * G[0, 0] * G[1, 1] * G[2, 2]:
        return None
    try:
        mu = np.linalg.solve(G, r)
    except np.linalg.LinAlgError:
        return None
    return [1.0 - float(mu.sum()), float(mu[0]), float(mu[1]), float(mu[2])]


def _min_norm_simplex(Y):
    """point of minimum norm of conv(Y), |Y| <= 4, by enumeration of all sub-simplices (robust, independent of the library)"""
    k = len(Y)
    best = None
    for mask in range(1, 1 << k):
        idx = [i for i in range(k) if (mask >> i) & 1]
        lam = _affine_min_norm([Y[i] for i in idx])
        if lam is None or min(lam) < -1e-13:
            continue
        lam = [max(l, 0.0) for l in lam]
        s = sum(lam)
        lam = [l / s for l in lam]
        v = sum(l * Y[i] for l, i in zip(lam, idx))
        n2 = float(v @ v)
        if best is None or n2 < best[0]:
            best = (n2, idx, lam, v)
    return best


def hint_solve(A, B, L, max_iter=80, stop_gap=0.0):
    """own min-norm-point iteration on A - B with the closed-form supports (HINT generator only).  Returns
    (p, q, lb, n): p ~in A, q ~in B candidate closest pair (convex combinations of exact support points), lb = best support-
    inequality lower bound seen and its unit direction n (from A towards B)."""
    d0 = center_of(A) - center_of(B)
    if not float(d0 @ d0) > 0.0:
        d0 = np.array([1.0, 0.0, 0.0])
    P = [C.support_exact(A, -d0)]
    Q = [C.support_exact(B, d0)]
    lam = [1.0]
    v = P[0] - Q[0]
    best_lb, best_n = -math.inf, None
    tiny = 1e-14 * L
    for _ in range(max_iter):
        vv = float(v @ v)
        if not vv > tiny * tiny:
            break
        vn = math.sqrt(vv)
        p = C.support_exact(A, -v)
        q = C.support_exact(B, v)
        w = p - q
        g = float(v @ w) / vn
        if g > best_lb:
            best_lb, best_n = g, -v / vn
        if vn - g <= max(stop_gap, 1e-13 * L):
            break
        Y = [a - b for a, b in zip(P, Q)] + [w]
        res = _min_norm_simplex(Y)
        if res is None:
            break
        n2, idx, lam_new, v_new = res
        if not n2 < vv * (1.0 - 1e-15):
            break
        PP, QQ = P + [p], Q + [q]
        P = [PP[i] for i in idx]
        Q = [QQ[i] for i in idx]
        lam = lam_new
        v = v_new
    ph = sum(l * x for l, x in zip(lam, P))
    qh = sum(l * x for l, x in zip(lam, Q))
    return ph, qh, best_lb, best_n


def cert(A, B, n):
    """support-inequality certificate: dist(A,B) >= -(h_A(n) + h_B(-n)) for the unit vector n"""
    return -(C.support_value(A, n) + C.support_value(B, -n))


def oracle_bounds(A, B, L, tol, hint_dirs=(), hint_pairs=(), hint_points=()):
    """sound bounds  lb <= dist(coreA, coreB) <= ub  (cores = shapes without margin).  overlap=True iff a common member point
    was verified (then ub = 0).  All candidates are re-verified with closed forms; slack for float rounding is included."""
    eps = 1e-9 * L                       # membership slack used when VERIFYING witness points (accounted for in ub)
    slack = 1e-9 * L                     # rounding slack of support values at coordinates <= ~1e3
    ph, qh, lb, n = hint_solve(A, B, L, stop_gap=1e-3 * tol)
    dirs = [n] if n is not None else []
    for d in hint_dirs:
        d = np.asarray(d, dtype=float)
        dn = float(np.linalg.norm(d))
        if np.isfinite(dn) and dn > 0:
            dirs.append(d / dn)
    cd = center_of(B) - center_of(A)
    if float(cd @ cd) > 0:
        dirs.append(cd / np.linalg.norm(cd))
    best_lb, best_n = -math.inf, None
    for d in dirs:
        g = cert(A, B, d)
        if g > best_lb:
            best_lb, best_n = g, d
    # witnesses
    ub, wp, wq = math.inf, None, None
    pairs = [(ph, qh)] + [(np.asarray(p, dtype=float), np.asarray(q, dtype=float)) for p, q in hint_pairs]
    if best_n is not None:
        pairs.append((C.support_exact(A, best_n), C.support_exact(B, -best_n)))
    pairs.append((center_of(A), center_of(B)))
    for p, q in pairs:
        if not (np.all(np.isfinite(p)) and np.all(np.isfinite(q))):
            continue
        dpq = float(np.linalg.norm(p - q)) + 8.0 * eps
        if dpq < ub and C.contains(A, p, eps) and C.contains(B, q, eps):
            ub, wp, wq = dpq, p, q
    overlap, common = False, None
    cands = [0.5 * (ph + qh)] + [np.asarray(x, dtype=float) for x in hint_points]
    if wp is not None:
        cands.append(0.5 * (wp + wq))
    cands += [center_of(A), center_of(B)]
    for c in cands:
        if np.all(np.isfinite(c)) and C.contains(A, c, eps) and C.contains(B, c, eps):
            overlap, common, ub = True, c, 0.0
            break
    if best_n is not None and not overlap and ub - best_lb > 0.05 * tol:
        g2, n2 = C.refine_direction(A, B, best_n, iters=60)
        if g2 > best_lb:
            best_lb, best_n = g2, n2
            p, q = C.support_exact(A, best_n), C.support_exact(B, -best_n)
            dpq = float(np.linalg.norm(p - q)) + 8.0 * eps
            if dpq < ub and C.contains(A, p, eps) and C.contains(B, q, eps):
                ub, wp, wq = dpq, p, q
    lb_out = max(0.0, best_lb - slack)
    return dict(lb=lb_out, ub=ub, overlap=overlap, n=best_n, common=common, wp=wp, wq=wq)


def margin_bounds(ob, mA, mB):
    """bounds of dist(A + Ball(mA), B + Ball(mB)) from the bounds of the cores"""
    m = mA + mB
    lb = max(0.0, ob["lb"] - m)
    ub = max(0.0, ob["ub"] - m)
    return lb, ub, (ob["ub"] - m <= 0.0)


def point_outside_by(col, x, L, tol):
    """sound LOWER bound of the distance of the point x to the core shape of col (0 if x is verified inside with slack tol/2)"""
    if C.contains(col, x, 0.5 * tol):          # implies dist <= tol for every shape type (see contains: worst factor 2)
        return 0.0
    ob = oracle_bounds(col, point_col(x), L, tol)
    return ob["lb"]


# ------------------------------------------------------------------------------------------------------------ scenes
def _scale_classes(tier, rng):
    base = [(1.0, 1.0), (0.01, 0.01), (100.0, 100.0), (100.0, 0.01), (0.01, 100.0), (1.0, 0.25), (0.25, 1.0)]
    return base


def gen_specs(tier, seed, pair_list, per_family, margin_mode=False, scale_classes=None):
    """list of light-weight scene specs (concrete poses are derived deterministically inside the worker from sub_seed)"""
    rng = np.random.default_rng(seed)
    specs = []
    classes = scale_classes or _scale_classes(tier, rng)
    idx = 0
    for (kA, kB) in pair_list:
        for ci, (sA, sB) in enumerate(classes):
            for fam in FAMILIES:
                for r in range(per_family.get(fam, 0)):
                    if ci >= 5 and r >= max(1, per_family[fam] // 2):
                        continue
                    if sA == "rand":
                        a, b = (float(10 ** rng.uniform(-2, 2)), float(10 ** rng.uniform(-2, 2)))
                    else:
                        a, b = sA, sB
                    if margin_mode:
                        combos = [(1, 0), (0, 1), (1, 1)]
                        wa, wb = combos[(idx + r) % 3]
                        mfac = [0.1, 0.5, 1.0, 0.01][int(rng.integers(4))]
                        mA, mB = wa * mfac * a, wb * mfac * b
                        mA = min(max(mA, 1e-2), 1e2) if wa else 0.0
                        mB = min(max(mB, 1e-2), 1e2) if wb else 0.0
                    else:
                        mA = mB = 0.0
                    specs.append(dict(i=idx, kA=kA, kB=kB, sA=a, sB=b, mA=mA, mB=mB, fam=fam, rep=r,
                                      sub=int(rng.integers(2 ** 31))))
                    idx += 1
    return specs


def _extent(col, e):
    return C.support_value(col, e)


def realise(spec):
    """concrete poses TA, TB of a spec (deterministic).  Exactly degenerate placements are constructed from lattice rotations
    (C.CUBE), lattice directions and closed-form support points, so that touching / parallel / coincident configurations are hit
    exactly (up to one rounding of the sum)."""
    if spec["fam"] == "fixed":                    # explicitly given poses (reconnaissance / regression scenes)
        return (np.ascontiguousarray(np.array(spec["TA"], dtype=float)), np.ascontiguousarray(np.array(spec["TB"], dtype=float)),
                spec.get("note", ""), spec)
    rng = np.random.default_rng(spec["sub"])
    kA, kB, sA, sB, fam = spec["kA"], spec["kB"], spec["sA"], spec["sB"], spec["fam"]
    big, small = max(sA, sB), min(sA, sB)
    u = big if rng.random() < 0.5 else small
    lattice = fam in ("coincident", "axis_offset", "support_touch_lattice", "lattice_offset") or (fam == "far" and spec["rep"] % 2 == 0)
    if lattice:
        RA = C.CUBE[int(rng.integers(24))]
        RB = C.CUBE[int(rng.integers(24))]
    else:
        RA, RB = C.random_rotation(rng), C.random_rotation(rng)
    # global offset of the scene (placed within 1e3 of the origin)
    gsel = int(rng.integers(6))
    if gsel <= 2:
        tA = np.zeros(3)
    elif gsel == 3:
        tA = np.array([3.0, -2.0, 1.0]) * u
    elif gsel == 4:
        tA = np.array([100.0, -200.0, 300.0]) if big <= 10 else np.array([10.0, -20.0, 30.0])
    else:
        tA = np.array([600.0, -500.0, 400.0]) if big <= 10 else np.array([-50.0, 25.0, 12.5])
    TA = C.pose(RA, tA)
    A = _par_only(kA, TA, sA)
    B0 = _par_only(kB, C.pose(RB, np.zeros(3)), sB)
    note = ""
    if fam == "coincident":
        if spec["rep"] % 2 == 0:
            RB = RA                              # identical pose (identical colliders if kinds and sizes agree)
            note = "same pose"
        tB = tA.copy()
    elif fam == "axis_offset":
        e = AXES[int(rng.integers(6))]
        gap = [0.0, 0.0, 0.5 * u, 2.0 * u, -0.25 * small, 1e-7 * u, 0.125 * u, -0.5 * small][spec["rep"] % 8]
        tstar = _extent(A, e) - float(tA @ e) + _extent(B0, -e)
        tB = tA + (tstar + gap) * e
        note = "gap along axis %s = %g" % (e.tolist(), gap)
    elif fam in ("support_touch_lattice", "support_touch_random"):
        if fam == "support_touch_lattice":
            n = LATTICE_DIRS[int(rng.integers(len(LATTICE_DIRS)))]
            g = [0.0, 0.0, 0.5 * u, 3.0 * u, 0.0, 1.0 * small][spec["rep"] % 6]
        else:
            n = rng.normal(size=3)
            n /= np.linalg.norm(n)
            g = [0.0, 1e-4 * u, 0.3 * u, 5.0 * u, 0.0, 1e-2 * small][spec["rep"] % 6]
        pA = C.support_exact(A, n)
        pB0 = C.support_exact(B0, -n)
        tB = pA - pB0 + g * n
        note = "support points aligned along n=%s, constructed distance %g" % (np.round(n, 6).tolist(), g)
        spec = dict(spec, constructed=g, n=n)
    elif fam == "lattice_offset":
        ijk = rng.integers(-4, 5, size=3).astype(float)
        tB = tA + 0.5 * u * ijk
    elif fam == "random":
        d = rng.normal(size=3)
        d /= np.linalg.norm(d)
        reach = _extent(A, d) - float(tA @ d) + _extent(B0, -d)
        tB = tA + d * reach * rng.uniform(0.0, 1.8)
    elif fam == "far":
        d = rng.normal(size=3) if not lattice else AXES[int(rng.integers(6))] * 1.0
        d = d / np.linalg.norm(d)
        dist = [150.0, 500.0, 30.0, 310.0, 330.0, 5.0][spec["rep"] % 6] * (1.0 if big >= 1 else 0.1)
        reach = _extent(A, d) - float(tA @ d) + _extent(B0, -d)
        tB = tA + d * (reach + dist)
        # keep within 1e3 of the origin
        if np.linalg.norm(tB) > 900.0:
            tB = tB - tA
            TA = C.pose(RA, np.zeros(3))
    else:
        raise ValueError(fam)
    TB = C.pose(RB, tB)
    return TA, TB, note, spec


def _par_only(kind, T, size):
    """oracle-only record (no library object) for extents / support points during scene construction"""
    s = float(size)
    T = np.asarray(T, dtype=float)
    if kind == "sphere":
        par = dict(c=T[:3, 3].copy(), r=s)
    elif kind == "ellipsoid":
        par = dict(T=T, radii=np.array([s, 0.5 * s, 0.75 * s]))
    elif kind == "capsule":
        par = dict(T=T, r=0.5 * s, h=s)
    elif kind == "cylinder":
        par = dict(T=T, r=0.5 * s, L=s)
    elif kind == "cone":
        par = dict(T=T, r=0.5 * s, h=s)
    elif kind == "box":
        par = dict(T=T, size=np.array([s, 0.5 * s, 0.75 * s]))
    elif kind == "disk":
        par = dict(T=T, r=s)
    elif kind == "ellipse":
        par = dict(T=T, radii=np.array([s, 0.5 * s]))
    else:
        import itertools
        v = [[s, 0, 0], [-s, 0, 0], [0, 0.5 * s, 0], [0, -0.5 * s, 0], [0, 0, 0.75 * s], [0, 0, -0.75 * s]]
        for sx, sy, sz in itertools.product([-1, 1], repeat=3):
            v.append([0.45 * s * sx, 0.25 * s * sy, 0.35 * s * sz])
        v = np.array(v, dtype=float)
        par = dict(T=T, vertices_world=(T[:3, :3] @ v.T).T + T[:3, 3])
    return dict(kind=kind, par=par, size=s, margin=0.0)


def build_scene(spec):
    TA, TB, note, spec2 = realise(spec)
    A = make_col(spec["kA"], TA, spec["sA"], spec["mA"])
    B = make_col(spec["kB"], TB, spec["sB"], spec["mB"])
    inp = dict(kindA=spec["kA"], kindB=spec["kB"], sizeA=spec["sA"], sizeB=spec["sB"], marginA=spec["mA"], marginB=spec["mB"],
               TA=TA.tolist(), TB=TB.tolist(), family=spec["fam"], note=note,
               how="A=_common.make_collider(kindA,TA,sizeA), B likewise; Margin(obj, margin) if margin>0")
    return A, B, inp, spec2


# ------------------------------------------------------------------------------------------------------------ running
class _Timeout(Exception):
    pass


def _alarm(signum, frame):
    raise _Timeout()


PROGRESS = None          # set inside robust_map workers: callable that tells the parent which library call is running
ALARM_SECONDS = 12.0     # Python-level watchdog of one library call (the warm-up process raises it: JIT compilation is slow)


def guarded(fn, *a, seconds=None, label=None, **k):
    """run a library call; returns (result, None) or (None, (obligation, detail)).  Python-level endless loops are stopped by
    SIGALRM; native (JIT) hangs cannot be interrupted from inside - the parent's watchdog of robust_map kills the worker and
    reports `terminates` for the call announced through PROGRESS."""
    if PROGRESS is not None:
        PROGRESS(label)
    seconds = ALARM_SECONDS if seconds is None else seconds
    old = signal.signal(signal.SIGALRM, _alarm)
    signal.setitimer(signal.ITIMER_REAL, seconds)
    try:
        return fn(*a, **k), None
    except _Timeout:
        return None, ("terminates", "no result after %.0f s" % seconds)
    except BaseException as e:                       # noqa  (AssertionError of the sanity check, ZeroDivisionError, ...)
        return None, ("no_exception", "%s: %s" % (type(e).__name__, str(e)[:200]))
    finally:
        signal.setitimer(signal.ITIMER_REAL, 0.0)
        signal.signal(signal.SIGALRM, old)
        if PROGRESS is not None:
            PROGRESS(None)


def _vec3(x):
    try:
        x = np.asarray(x, dtype=float)
    except Exception:
        return None
    if x.shape != (3,) or not np.all(np.isfinite(x)):
        return None
    return x


def check_points_and_distance(contract, A, B, d, a, b, L, tol, inp, fails, stats, ob=None, check_points=True):
    """the clauses shared by C01 and C09.  d: returned distance; a, b: returned points (or None when check_points=False)"""
    def fail(obl, detail):
        fails.append(dict(contract=contract, obligation=obl, detail=detail, input=inp))

    try:
        d = float(d)
    except Exception:
        fail("result_finite", "distance is not a number: %r" % (d,))
        return None
    if not math.isfinite(d) or d < 0.0:
        fail("result_finite", "distance = %r" % d)
        return None
    if check_points:
        a, b = _vec3(a), _vec3(b)
        if a is None or b is None:
            fail("result_finite", "closest points are not finite 3-vectors")
            check_points = False
    mA, mB = A["margin"], B["margin"]
    if ob is None:
        hp = [(a, b)] if (check_points and mA == 0.0 and mB == 0.0) else []
        hd = [b - a] if check_points else []
        hpts = [a, b] if check_points else []
        ob = oracle_bounds(A, B, L, tol, hint_dirs=hd, hint_pairs=hp, hint_points=hpts)
    lb, ub, overlap = margin_bounds(ob, mA, mB)
    slack = 1e-9 * L
    if lb > ub + 2 * slack + 1e-300:
        stats["oracle_inconsistent"] = stats.get("oracle_inconsistent", 0) + 1     # must never happen (self check of the oracle)
        stats.setdefault("oracle_inconsistent_inputs", []).append(inp)
    # ---- membership
    if check_points:
        for nm, col, x, m in (("a_in_A", A, a, mA), ("b_in_B", B, b, mB)):
            out = point_outside_by(col, x, L, tol)
            if out > m + tol + slack:
                fail(nm, "returned point %s is at distance >= %.3e from the %s core (margin %.3g), tolerance %.1e"
                     % (x.tolist(), out, col["kind"], m, tol))
        dd = float(np.linalg.norm(a - b))
        if abs(dd - d) > tol:
            fail("d_consistent", "|a-b| = %.12g but d = %.12g (tolerance %.1e)" % (dd, d, tol))
    # ---- optimality, two sided
    if d < lb - tol - slack:
        fail("d_not_below_true", "d = %.12g but dist(A,B) >= %.12g by the separating direction %s (tolerance %.1e)"
             % (d, lb, None if ob["n"] is None else np.round(ob["n"], 9).tolist(), tol))
    if overlap:
        if d > tol + slack:
            fail("overlap_reports_zero", "d = %.12g but the sets overlap (verified common point / witness within margins), tolerance %.1e"
                 % (d, tol))
    elif d > ub + tol + slack:
        fail("d_not_above_true", "d = %.12g but dist(A,B) <= %.12g by verified member points %s, %s (tolerance %.1e)"
             % (d, ub, None if ob["wp"] is None else ob["wp"].tolist(), None if ob["wq"] is None else ob["wq"].tolist(), tol))
    gap = ub - lb
    stats["n_oracle"] = stats.get("n_oracle", 0) + 1
    if gap <= 0.5 * tol:
        stats["tight"] = stats.get("tight", 0) + 1
    elif gap > tol:
        stats["undecided"] = stats.get("undecided", 0) + 1
    reg = "overlap" if overlap else ("touching" if ub <= tol else "separated")
    stats["regime_" + reg] = stats.get("regime_" + reg, 0) + 1
    return dict(lb=lb, ub=ub, overlap=overlap, gap=gap, regime=reg, ob=ob)


class CountingCollider:
    """duck-typed proxy that counts support_function calls (gjk_distance_jolt only calls support_function)"""
    def __init__(self, obj):
        self.obj = obj
        self.n = 0

    def support_function(self, d):
        self.n += 1
        return self.obj.support_function(d)


def run_c01_scene(spec):
    from distance3d import gjk
    from distance3d.utils import MAX_FLOAT
    fails, stats = [], {}
    A, B, inp, spec2 = build_scene(spec)
    L = scene_L(A, B)
    tol = K_C01 * L
    # the scene class is part of the name so that a known finding can be pinned to the class it was observed in
    # (fam = placement family; 'large' = a feature size >= 30) and does not mask the same clause elsewhere
    contract = "gjk.gjk[%s,%s;fam=%s%s]" % (tname(A), tname(B), spec["fam"], ",large" if max(A["size"], B["size"]) >= 30.0 else "")
    res, err = guarded(gjk.gjk, A["obj"], B["obj"], label=contract)
    rec = dict(contract=contract, family=spec["fam"], L=L, tol=tol)
    if err:
        fails.append(dict(contract=contract, obligation=err[0], detail=err[1], input=inp))
        return dict(fails=fails, stats=stats, rec=rec, key=_key(inp))
    d, a, b = res[0], res[1], res[2]
    clipped = (a is None) or (d == MAX_FLOAT)
    if clipped:
        stats["clipped"] = 1
        ob = oracle_bounds(A, B, L, tol)
        lb, ub, _ = margin_bounds(ob, A["margin"], B["margin"])
        lim = math.sqrt(100000.0)
        if ub < lim - tol:
            fails.append(dict(contract=contract, obligation="clip_sound",
                              detail="clipped (MAX_FLOAT) but dist(A,B) <= %.9g < sqrt(max_distance_squared) = %.9g" % (ub, lim), input=inp))
        # the property also covers "clipping disabled": repeat without clipping
        res, err = guarded(gjk.gjk_distance, A["obj"], B["obj"], max_distance_squared=float("inf"), label=contract)
        inp = dict(inp, call="gjk_distance(A, B, max_distance_squared=inf)")
        if err:
            fails.append(dict(contract=contract, obligation=err[0], detail=err[1], input=inp))
            return dict(fails=fails, stats=stats, rec=rec, key=_key(inp))
        d, a, b = res[0], res[1], res[2]
        if a is None:
            fails.append(dict(contract=contract, obligation="clip_sound", detail="clipped although max_distance_squared=inf", input=inp))
            return dict(fails=fails, stats=stats, rec=rec, key=_key(inp))
    out = check_points_and_distance(contract, A, B, d, a, b, L, tol, inp, fails, stats)
    if out is not None:
        rec.update(d=float(d), lb=out["lb"], ub=out["ub"], regime=out["regime"], gap=out["gap"])
        if spec["i"] % 499 == 0:
            rec["input"] = {k: inp[k] for k in ("kindA", "kindB", "sizeA", "sizeB", "marginA", "marginB", "TA", "TB", "note")}
            rec["a"], rec["b"] = np.asarray(a).tolist(), np.asarray(b).tolist()
        if "constructed" in spec2 and A["margin"] == 0.0 and B["margin"] == 0.0:
            g = spec2["constructed"]
            if not (out["lb"] <= g + 1e-6 * L and g <= out["ub"] + 1e-6 * L):
                stats["oracle_inconsistent"] = stats.get("oracle_inconsistent", 0) + 1
                stats.setdefault("oracle_inconsistent_inputs", []).append(inp)
    # iteration-count helper shares the loop: same number of support evaluations as the distance query (subset of scenes)
    if spec["i"] % 4 == 0:
        from distance3d.gjk._gjk_jolt import gjk_distance_jolt_iterations
        # MeshGraph caches the last support vertex (state): both calls get freshly constructed colliders
        TA_, TB_ = np.array(inp["TA"]), np.array(inp["TB"])
        A1, B1 = make_col(spec["kA"], TA_, spec["sA"], spec["mA"]), make_col(spec["kB"], TB_, spec["sB"], spec["mB"])
        A2, B2 = make_col(spec["kA"], TA_, spec["sA"], spec["mA"]), make_col(spec["kB"], TB_, spec["sB"], spec["mB"])
        ca, cb = CountingCollider(A1["obj"]), CountingCollider(B1["obj"])
        kw = dict(max_distance_squared=float("inf")) if clipped else {}
        cname = "gjk.gjk_distance_jolt_iterations[%s,%s]" % (tname(A), tname(B))
        r1, e1 = guarded(gjk.gjk_distance, ca, cb, label=contract, **kw)
        r2, e2 = guarded(gjk_distance_jolt_iterations, A2["obj"], B2["obj"], label=cname, **kw)
        if e2:
            fails.append(dict(contract=cname, obligation=e2[0], detail=e2[1], input=inp))
        elif not e1 and r2 != ca.n:
            fails.append(dict(contract=cname, obligation="iterations_same_path",
                              detail="helper reports %r iterations, the distance query evaluated the support function %d times" % (r2, ca.n),
                              input=inp))
        if not e1 and r1 is not None and r1[1] is not None and abs(float(r1[0]) - float(d)) > 0.0:
            # the query itself must be repeatable (mesh colliders cache the last vertex index)
            if abs(float(r1[0]) - float(d)) > tol:
                fails.append(dict(contract=contract, obligation="repeatable", detail="second call returned %.12g, first %.12g" % (r1[0], d), input=inp))
        stats["iter_helper"] = 1
    return dict(fails=fails, stats=stats, rec=rec, key=_key(inp))


def _key(inp):
    return hash((inp["kindA"], inp["kindB"], inp["sizeA"], inp["sizeB"], inp["marginA"], inp["marginB"],
                 tuple(np.round(np.asarray(inp["TA"]).ravel(), 12)), tuple(np.round(np.asarray(inp["TB"]).ravel(), 12))))


def _die_with_parent():
    try:
        import ctypes
        ctypes.CDLL("libc.so.6", use_errno=True).prctl(1, signal.SIGKILL)       # PR_SET_PDEATHSIG
    except Exception:
        pass


def warm_up(fn, specs, extra=None, limit=900.0):
    """JIT warm-up.  Step 1, in a separate killable process: run the warm-up scenes without per-call alarm; the numba functions
    of the library are `cache=True`, so this fills the on-disk cache (a cold cache - fresh checkout, changed source - would
    otherwise make every worker compile for many seconds, which could be mistaken for a hang).  Step 2, in the calling process:
    repeat the scenes that completed in step 1 (now only cache loads), so that forked workers inherit the loaded functions.
    A native hang in a warm-up scene only loses the warm-up of the scenes after it."""
    import multiprocessing as mp
    ctx = mp.get_context("fork")
    rd, wr = ctx.Pipe(duplex=False)

    def body():
        global ALARM_SECONDS
        _die_with_parent()
        ALARM_SECONDS = 600.0
        try:
            if extra is not None:
                extra()
                wr.send(-1)
            for i, s in enumerate(specs):
                try:
                    fn(dict(s))
                except BaseException:
                    pass
                wr.send(i)
        finally:
            os._exit(0)
    p = ctx.Process(target=body)
    p.daemon = True
    p.start()
    wr.close()
    done, t_end, last = [], time.time() + limit, time.time()
    while time.time() < t_end:
        try:
            if rd.poll(0.5):
                done.append(rd.recv())
                last = time.time()
            elif not p.is_alive():
                break
            elif done and time.time() - last > 120.0:      # compiled already, yet stuck: a native hang in a warm-up scene
                break
        except (EOFError, OSError):
            break
    if p.is_alive():
        p.kill()
    p.join(5)
    global ALARM_SECONDS
    keep = ALARM_SECONDS
    ALARM_SECONDS = 120.0
    try:
        if extra is not None and -1 in done:
            extra()
        for i in done:
            if i >= 0:
                try:
                    fn(dict(specs[i]))
                except BaseException:
                    pass
    finally:
        ALARM_SECONDS = keep
    return len(done)


def warm_specs(specs):
    """one random and one coincident (overlapping) unit-size scene per ordered type pair, mesh-free hang risk is accepted"""
    seen, out = set(), []
    for s in specs:
        k = (s["kA"], s["kB"], s["fam"], s["mA"] > 0, s["mB"] > 0)
        if s["fam"] in ("random", "coincident", "axis_offset") and s["sA"] == 1.0 and s["sB"] == 1.0 and k not in seen:
            seen.add(k)
            out.append(s)
    return out


def _worker(fn, specs, conn, beat, lab):
    """persistent worker: receives (lo, hi) index ranges and returns the list of results of the range.  Progress (scene index,
    running library call) is published through shared memory, so the parent can name the call that hangs."""
    global PROGRESS
    _die_with_parent()

    def progress(label):
        b = (label or "").encode()[:250]
        lab.value = b
        beat[1] += 1.0
    PROGRESS = progress
    while True:
        job = conn.recv()
        if job is None:
            break
        lo, hi = job
        out = []
        for i in range(lo, hi):
            lab.value = b""
            beat[0] = float(i)
            beat[1] += 1.0
            try:
                r = fn(specs[i])
            except BaseException:                          # harness error: never hide, never count as a library failure
                import traceback
                r = dict(fails=[], stats=dict(harness_errors=1, harness_error_msgs=[traceback.format_exc()[-600:]]), rec=None, key=None)
            out.append(r)
        lab.value = b""
        conn.send((lo, hi, out))
    conn.close()
    os._exit(0)


def robust_map(fn, specs, jobs=16, chunk=25, task_timeout=20.0, on_hang=None, max_hangs=400):
    """parallel map in forked persistent workers with a PER-SCENE watchdog: a native hang (or crash) costs only that worker; it
    is reported through on_hang(spec, label, why) (label = the library call that was running), the worker is replaced and the
    other scenes of its chunk are re-queued.  Results are returned in the order of specs (deterministic)."""
    import multiprocessing as mp
    from multiprocessing.connection import wait
    ctx = mp.get_context("fork")
    queue = [(i, min(i + chunk, len(specs))) for i in range(0, len(specs), chunk)][::-1]
    results = [None] * len(specs)
    workers = {}
    hangs = 0

    def spawn():
        par, chi = ctx.Pipe(duplex=True)
        beat = ctx.RawArray("d", 2)
        lab = ctx.RawArray("c", 256)
        p = ctx.Process(target=_worker, args=(fn, specs, chi, beat, lab))
        p.daemon = True
        p.start()
        chi.close()
        workers[par] = dict(proc=p, job=None, beat=beat, lab=lab, seen=(-1.0, -1.0), t=time.time())
        return par

    def give(conn, w):
        if queue:
            w["job"] = queue.pop()
            w["t"] = time.time()
            w["beat"][0] = float(w["job"][0])
            conn.send(w["job"])
        else:
            w["job"] = None
            try:
                conn.send(None)
            except Exception:
                pass
            w["proc"].join(timeout=5)
            if w["proc"].is_alive():
                w["proc"].kill()
            conn.close()
            del workers[conn]

    def replace(conn, w, why):
        nonlocal hangs
        w["proc"].kill()
        w["proc"].join(timeout=5)
        try:
            conn.close()
        except Exception:
            pass
        del workers[conn]
        if w["job"] is not None:
            lo, hi = w["job"]
            i = int(w["beat"][0])
            label = w["lab"].value.decode(errors="replace") or None
            if lo <= i < hi and results[i] is None:
                hangs += 1
                results[i] = on_hang(specs[i], label, why)
                if hangs <= max_hangs:
                    if i + 1 < hi:
                        queue.append((i + 1, hi))
                    if lo < i:
                        queue.append((lo, i))

    for _ in range(max(1, min(jobs, len(queue)))):
        give(*(lambda c: (c, workers[c]))(spawn()))
    while workers:
        ready = wait(list(workers), timeout=0.5)
        now = time.time()
        for conn in ready:
            w = workers.get(conn)
            if w is None:
                continue
            try:
                lo, hi, out = conn.recv()
                for k, r in enumerate(out):
                    if results[lo + k] is None:
                        results[lo + k] = r
                give(conn, w)
            except (EOFError, OSError):
                replace(conn, w, "worker process died (native crash)")
        for conn, w in list(workers.items()):
            cur = (w["beat"][0], w["beat"][1])
            if cur != w["seen"]:
                w["seen"], w["t"] = cur, now
            elif w["job"] is not None and now - w["t"] > task_timeout:
                replace(conn, w, "no progress for %.0f s (native hang), worker killed" % task_timeout)
        if hangs > max_hangs:
            queue[:] = []
        while queue and len(workers) < jobs:
            c = spawn()
            give(c, workers[c])
    return results


def c01_on_hang(spec, label, why):
    try:
        TA, TB, note, _ = realise(spec)
        inp = dict(kindA=spec["kA"], kindB=spec["kB"], sizeA=spec["sA"], sizeB=spec["sB"], marginA=spec["mA"], marginB=spec["mB"],
                   TA=TA.tolist(), TB=TB.tolist(), family=spec["fam"], note=note)
    except Exception:
        inp = dict(spec)
    if label is None:
        return dict(fails=[], stats=dict(harness_errors=1, harness_error_msgs=["watchdog outside a library call: %s %r" % (why, spec)]),
                    rec=None, key=None)
    return dict(fails=[dict(contract=label, obligation="terminates", detail=why, input=inp)], stats=dict(hangs=1), rec=None, key=None)


def merge(results, fails, stats, recs, keys_nontrivial):
    for r in results:
        if r is None:
            stats["not_run"] = stats.get("not_run", 0) + 1
            continue
        fails.extend(r["fails"])
        for k, v in r["stats"].items():
            if isinstance(v, list):
                stats.setdefault(k, [])
                if len(stats[k]) < 5:
                    stats[k].extend(v[:2])
            else:
                stats[k] = stats.get(k, 0) + v
        if r["rec"] is not None:
            recs.append(r["rec"])
            if r["rec"].get("gap") is not None and r["rec"]["gap"] <= 0.5 * r["rec"]["tol"]:
                keys_nontrivial.add(r["key"])


def pick_samples(recs):
    withinp = [r for r in recs if "input" in r]
    pool = withinp if len(withinp) >= 8 else recs
    return [{k: (round(v, 9) if isinstance(v, float) else v) for k, v in r.items()} for r in pool[:: max(1, len(pool) // 8)][:8]]


def order_fails(fails):
    """stable order with one representative per (contract, obligation) first, so that the truncated list shows every name"""
    seen, first, rest = set(), [], []
    for f in fails:
        k = (f["contract"], f["obligation"])
        (rest if k in seen else first).append(f)
        seen.add(k)
    return first + rest


def main():
    a = C.args()
    t0 = time.time()
    import distance3d
    from distance3d import gjk
    from distance3d.gjk._gjk_jolt import gjk_distance_jolt
    fails, stats, recs, nontrivial = [], {}, [], set()
    if not (gjk.gjk is gjk_distance_jolt and gjk.gjk_distance is gjk_distance_jolt):
        fails.append(dict(contract="gjk.gjk", obligation="alias", detail="gjk.gjk / gjk.gjk_distance are not gjk_distance_jolt", input={}))
    pairs = [(x, y) for x in C.COLLIDER_TYPES for y in C.COLLIDER_TYPES]
    if a.tier == "quick":
        pf = dict(coincident=3, axis_offset=8, support_touch_lattice=8, lattice_offset=6, random=8, support_touch_random=8, far=2)
        pfm = dict(coincident=1, axis_offset=3, support_touch_lattice=3, lattice_offset=2, random=3, support_touch_random=3, far=1)
        mclasses = [(1.0, 1.0), (100.0, 0.01), ("rand", "rand")]
    else:
        pf = dict(coincident=8, axis_offset=80, support_touch_lattice=80, lattice_offset=60, random=80, support_touch_random=80, far=12)
        pfm = dict(coincident=2, axis_offset=16, support_touch_lattice=16, lattice_offset=8, random=16, support_touch_random=16, far=4)
        mclasses = [(1.0, 1.0), (0.01, 0.01), (100.0, 100.0), (100.0, 0.01), (0.01, 100.0), ("rand", "rand")]
    classes = _scale_classes(a.tier, None) + [("rand", "rand")]
    specs = gen_specs(a.tier, a.seed, pairs, pf, scale_classes=classes)
    mspecs = gen_specs(a.tier, a.seed + 7919, pairs, pfm, margin_mode=True, scale_classes=mclasses)
    for i, s in enumerate(mspecs):
        s["i"] = len(specs) + i
    allspecs = specs + mspecs
    warm_up(run_c01_scene, warm_specs(allspecs))     # fills the on-disk JIT cache in a separate (killable) process
    for sz in (1.0, 0.01, 100.0, 0.25):
        make_col("mesh", np.eye(4), sz)              # mesh templates (numba typed dict) are built once, before the fork
    res = robust_map(run_c01_scene, allspecs, jobs=a.jobs, on_hang=c01_on_hang)
    merge(res, fails, stats, recs, nontrivial)
    samples = pick_samples(recs)
    fails = order_fails(fails)
    names = sorted({(f["contract"], f["obligation"]) for f in fails})
    domain = ("%d ordered pairs of %s x scale classes %s (feature size s: sphere r=s; ellipsoid radii (s,s/2,3s/4); capsule r=s/2,h=s; "
              "cylinder r=s/2,L=s; cone r=s/2,h=s; box (s,s/2,3s/4); disk r=s; ellipse (s,s/2); mesh/hull 14-vertex polytope of half extent s) "
              "x placement families %s [lattice families: rotations from the 24-element cube group, touching/gap/overlap offsets built from "
              "closed-form extents and support points, integer/half-integer offsets]; %d plain scenes + %d scenes with Margin on A, B or both "
              "(margin in [1e-2,1e2]); scene offsets up to |t|<=1e3; clipped scenes are repeated with max_distance_squared=inf; "
              "repo=%s" % (len(pairs), C.COLLIDER_TYPES, classes, {k: v for k, v in pf.items()}, len(specs), len(mspecs),
                           os.path.dirname(distance3d.__file__)))
    C.emit(t0, len(recs) + stats.get("hangs", 0), len(nontrivial),
           "distinct scene (types, sizes, margins, poses) in which the library returned an answer and the independent two-sided oracle "
           "bracket [lb,ub] of the true distance is narrower than half the property tolerance (so both optimality clauses are decidable)",
           samples, fails, domain,
           undecided=stats.get("undecided", 0), tight=stats.get("tight", 0), clipped=stats.get("clipped", 0),
           regimes={k[7:]: v for k, v in stats.items() if k.startswith("regime_")},
           oracle_inconsistent=stats.get("oracle_inconsistent", 0), oracle_inconsistent_inputs=stats.get("oracle_inconsistent_inputs", []),
           harness_errors=stats.get("harness_errors", 0), harness_error_msgs=stats.get("harness_error_msgs", []),
           hangs=stats.get("hangs", 0), not_run=stats.get("not_run", 0),
           iteration_helper_cases=stats.get("iter_helper", 0), failing_names=["%s :: %s" % n for n in names][:400],
           n_failing_names=len(names), tier=a.tier, seed=a.seed)


if __name__ == "__main__":
    main()
