"""BOUNDED stand-in for C19: narrow-phase queries always terminate with finite results on valid input.

Runs the REAL library (JIT as installed) on an explicitly enumerated finite set of collider pairs and checks, per entry point,
    terminates            the call returns before the per-call watchdog: CALL_TIMEOUT = 20 s of CPU time spent by the child inside this
                          one call (a normal call takes < 50 ms; CPU time, not wall time, so a loaded machine cannot cause a failure)
    support_calls<=1000   at most 1000 support evaluations of the Minkowski difference A-B (= calls of each collider's
                          support_function; counted by a counting wrapper installed on the collider *instances*, so that
                          type(collider) is unchanged - the Nesterov code dispatches on the exact type; for the Nesterov
                          flavour the module level support_function(dir, c0, c1) is wrapped, for the jitted 'primitives'
                          flavour the returned iteration counter is used).  A call is aborted at HARD_CAP evaluations.
    no_exception          no exception, except EPA's polytope-capacity AssertionError (epa.py, Polytope.extend_with_point) when at
                          least one collider is a smooth (curved) shape
    finite_output         every documented numeric output is finite (MAX_FLOAT/None of a clipped gjk_distance is allowed).
                          Simplex arrays are NOT checked: the library allocates them with np.empty and documents only the valid rows.
Entry points: gjk.gjk_intersection (jolt), gjk.gjk_distance (jolt), gjk.gjk_distance_original, gjk.gjk_intersection_libccd,
gjk.gjk_nesterov_accelerated (core of *_intersection/*_distance), gjk.gjk_nesterov_accelerated+momentum (use_nesterov_acceleration=
True), gjk.gjk_nesterov_accelerated_primitives (5 primitive types only), mpr.mpr_intersection, mpr.mpr_penetration,
epa.epa (on the simplex of gjk_distance_jolt when that reports distance 0), self_collision.detect (two-collider BVH).

No geometric oracle is needed: all clauses are observed directly.  Closed forms of _common are only used to PLACE colliders
(touching / prescribed gap / prescribed penetration).  Each native call runs in a forked grandchild of a pmap worker with a
per-call watchdog: a hang is attributed to exactly one (scene, entry point) and reported as `terminates`; the parent process
never executes library code.  When the time budget of the tier is used up the remaining scenes are reported as `skipped`.
The simplex that gjk_distance hands to EPA is produced with np.empty poisoned by NaN (only for that call), so that rows the GJK
never wrote are deterministic: EPA reading them shows up as finite_output instead of depending on arbitrary memory.
MeshGraph's support function is stateful (vertex cache): results for mesh scenes depend on the order of the entry points above.

Replay of a failure input:  python bounded/c19.py --replay '<json of failure["input"]>'
"""
import itertools
import json
import os
import pickle
import select
import signal
import struct
import sys
import time
import traceback

sys.path.insert(0, os.path.dirname(os.path.abspath(__file__)))
import _common as C
import numpy as np

SMOOTH = {"sphere", "ellipsoid", "capsule", "cylinder", "cone", "disk", "ellipse"}
PRIM = ["sphere", "capsule", "box", "ellipsoid", "cylinder"]
TYPES = list(C.COLLIDER_TYPES)
MAX_SUPPORT = 1000
HARD_CAP = 3000
CALL_TIMEOUT = 20.0          # seconds of CPU time per native call; normal calls take < 50 ms (a lazily compiled function: 1-3 s)
WALL_FACTOR = 15.0           # wall-clock limit = WALL_FACTOR * CALL_TIMEOUT for a call that blocks without using CPU
MAX_TIMEOUTS_PER_BATCH = 2   # after that the rest of the batch is skipped (reported as `skipped`), keeps the wall time bounded

_UNIT_POLY = np.array([[1, 0, 0], [-1, 0, 0], [0, 0.5, 0], [0, -0.5, 0], [0, 0, 0.75], [0, 0, -0.75]]
                      + [[0.45 * sx, 0.25 * sy, 0.35 * sz] for sx, sy, sz in itertools.product([-1, 1], repeat=3)], dtype=float)


# ------------------------------------------------------------------------------------------- shapes (no library calls here)
def std_dims(kind, s):
    """same proportions as _common.make_collider"""
    s = float(s)
    if kind == "sphere":
        return dict(r=s)
    if kind == "ellipsoid":
        return dict(radii=[s, 0.5 * s, 0.75 * s])
    if kind == "capsule":
        return dict(r=0.5 * s, h=s)
    if kind == "cylinder":
        return dict(r=0.5 * s, L=s)
    if kind == "cone":
        return dict(r=0.5 * s, h=s)
    if kind == "box":
        return dict(size=[s, 0.5 * s, 0.75 * s])
    if kind == "disk":
        return dict(r=s)
    if kind == "ellipse":
        return dict(radii=[s, 0.5 * s])
    if kind in ("mesh", "hull"):
        return dict(vertices=(_UNIT_POLY * s).tolist())
    raise ValueError(kind)


def aspect_dims(kind, s, a, mode):
    """needle / flat variants with aspect ratio a (largest feature s, smallest s/a); None if the type has no such variant"""
    t = s / a if a else s
    if mode == "needle":
        d = {"ellipsoid": dict(radii=[s, t, t]), "capsule": dict(r=t, h=s), "cylinder": dict(r=t, L=s), "cone": dict(r=t, h=s),
             "box": dict(size=[s, t, t]), "ellipse": dict(radii=[s, t]),
             "mesh": dict(vertices=(_UNIT_POLY * np.array([s, 2 * t, 4 * t / 3])).tolist()),
             "hull": dict(vertices=(_UNIT_POLY * np.array([s, 2 * t, 4 * t / 3])).tolist())}
    elif mode == "flat":
        d = {"ellipsoid": dict(radii=[s, s, t]), "capsule": dict(r=s, h=t), "cylinder": dict(r=s, L=t), "cone": dict(r=s, h=t),
             "box": dict(size=[s, s, t]), "disk": dict(r=s), "ellipse": dict(radii=[s, s]),
             "mesh": dict(vertices=(_UNIT_POLY * np.array([s, 2 * s, 4 * t / 3])).tolist()),
             "hull": dict(vertices=(_UNIT_POLY * np.array([s, 2 * s, 4 * t / 3])).tolist())}
    elif mode == "zero":       # zero-volume colliders: single vertex, segment, planar quadrilateral (a = 0, 1, 2), disk, ellipse
        hulls = [[[0.0, 0.0, 0.0]], [[-s, 0.0, 0.0], [s, 0.0, 0.0]], [[s, 0.0, 0.0], [0.0, s, 0.0], [-s, 0.0, 0.0], [0.0, -0.5 * s, 0.0]]]
        d = {"hull": dict(vertices=hulls[int(a) % 3])}
        if int(a) == 0:
            d.update(disk=dict(r=s), ellipse=dict(radii=[s, 0.5 * s]))
    else:
        raise ValueError(mode)
    return d.get(kind)


def side(kind, T, size, dims=None):
    return dict(kind=kind, T=np.ascontiguousarray(T, dtype=float), size=float(size), dims=dims if dims is not None else std_dims(kind, size))


def par_of(sd):
    """parameter dict in the format of _common (support_exact / contains work on it); pure data, no library call"""
    k, T, d = sd["kind"], sd["T"], sd["dims"]
    if k == "sphere":
        par = dict(c=T[:3, 3].copy(), r=d["r"])
    elif k in ("ellipsoid", "ellipse"):
        par = dict(T=T, radii=np.array(d["radii"], dtype=float))
    elif k in ("capsule", "cone"):
        par = dict(T=T, r=d["r"], h=d["h"])
    elif k == "cylinder":
        par = dict(T=T, r=d["r"], L=d["L"])
    elif k == "box":
        par = dict(T=T, size=np.array(d["size"], dtype=float))
    elif k == "disk":
        par = dict(T=T, r=d["r"])
    else:
        v = np.array(d["vertices"], dtype=float).reshape(-1, 3)
        if k == "mesh":
            v = v - np.mean(v, axis=0)
        par = dict(T=T, vertices_world=np.ascontiguousarray((T[:3, :3] @ v.T).T + T[:3, 3]))
    return dict(kind=k, par=par, size=sd["size"])


def feature_extent(sd):
    """largest feature size of the shape (for L)"""
    d = sd["dims"]
    vals = []
    for v in d.values():
        vals.extend(np.abs(np.asarray(v, dtype=float)).ravel().tolist())
    return max(vals) if vals else 0.0


def build_obj(sd):
    """the library object (runs library constructors: only inside the watchdog-protected child)"""
    from distance3d import colliders
    k, T, d = sd["kind"], sd["T"], sd["dims"]
    if k == "sphere":
        return colliders.Sphere(np.ascontiguousarray(T[:3, 3]), d["r"])
    if k == "ellipsoid":
        return colliders.Ellipsoid(T, np.array(d["radii"], dtype=float))
    if k == "capsule":
        return colliders.Capsule(T, d["r"], d["h"])
    if k == "cylinder":
        return colliders.Cylinder(T, d["r"], d["L"])
    if k == "cone":
        return colliders.Cone(T, d["r"], d["h"])
    if k == "box":
        return colliders.Box(T, np.array(d["size"], dtype=float))
    if k == "disk":
        return colliders.Disk(np.ascontiguousarray(T[:3, 3]), d["r"], np.ascontiguousarray(T[:3, 2]))
    if k == "ellipse":
        return colliders.Ellipse(np.ascontiguousarray(T[:3, 3]), np.ascontiguousarray(T[:3, :2].T), np.array(d["radii"], dtype=float))
    v = np.array(d["vertices"], dtype=float).reshape(-1, 3)
    if k == "mesh":
        from distance3d.mesh import make_convex_mesh
        tri = make_convex_mesh(v)
        return colliders.MeshGraph(T, np.ascontiguousarray(v - np.mean(v, axis=0)), tri)
    return colliders.ConvexHullVertices(np.ascontiguousarray((T[:3, :3] @ v.T).T + T[:3, 3]))


def spec_json(sc):
    def sj(sd):
        return dict(kind=sd["kind"], pose=sd["T"].tolist(), size=sd["size"], dims=sd["dims"])
    return dict(A=sj(sc["A"]), B=sj(sc["B"]), same_object=bool(sc.get("same", False)), family=sc["family"])


def spec_from_json(js):
    def sd(j):
        return side(j["kind"], np.array(j["pose"], dtype=float), j["size"], j["dims"])
    return dict(A=sd(js["A"]), B=sd(js["B"]), same=bool(js.get("same_object", False)), family=js.get("family", "replay"))


def scene_L(sc):
    return max(1.0, feature_extent(sc["A"]), feature_extent(sc["B"]), float(np.linalg.norm(sc["A"]["T"][:3, 3] - sc["B"]["T"][:3, 3])))


def place_along(colA, sdB, R, n, g, lateral=None):
    """pose of B (rotation R) such that the support point of B along -n is the support point of A along n moved by g*n (+ a lateral
    offset perpendicular to n): the plane with normal n then separates with signed gap g,  -(h_A(n) + h_B(-n)) = g,  and for
    lateral = None the two extreme features face each other (g = 0: touching, g < 0: penetrating by |g| along n)"""
    n = np.asarray(n, dtype=float)
    n = n / np.linalg.norm(n)
    sd0 = dict(sdB, T=C.pose(R, np.zeros(3)))
    pa = C.support_exact(colA, n)
    pb0 = C.support_exact(par_of(sd0), -n)
    t = pa + g * n - pb0
    if lateral is not None:
        lat = np.asarray(lateral, dtype=float)
        t = t + (lat - (lat @ n) * n)
    return C.pose(R, t)


# ------------------------------------------------------------------------------------------- counting wrappers
class _Budget(BaseException):
    pass


class Counter:
    def __init__(self):
        self.n = {}

    def wrap(self, key, fn, inc=1):
        self.n[key] = 0

        def counted(*a, **k):
            self.n[key] += inc
            if self.n[key] > HARD_CAP:
                raise _Budget()
            return fn(*a, **k)
        return counted

    def evaluations(self, same):
        """number of support evaluations of A-B = calls per collider (the same object passed twice receives both calls)"""
        if not self.n:
            return 0
        if same and "A" in self.n and len(self.n) == 1:
            return (self.n["A"] + 1) // 2
        return max(self.n.values())


class Instrument:
    """installs counting wrappers on the two collider instances (instance attributes: type(obj) is unchanged)"""
    def __init__(self, a, b, nesterov=False):
        self.a, self.b, self.nesterov = a, b, nesterov
        self.counter = Counter()

    def __enter__(self):
        if self.nesterov:
            from distance3d.gjk import _gjk_nesterov_accelerated as m
            self.m, self.orig = m, m.support_function
            m.support_function = self.counter.wrap("AB", self.orig)      # one call = one evaluation of each collider
        else:
            self.a.support_function = self.counter.wrap("A", type(self.a).support_function.__get__(self.a))
            if self.b is not self.a:
                self.b.support_function = self.counter.wrap("B", type(self.b).support_function.__get__(self.b))
        return self.counter

    def __exit__(self, *exc):
        if self.nesterov:
            self.m.support_function = self.orig
        else:
            for o in (self.a, self.b):
                o.__dict__.pop("support_function", None)
        return False


def nonfinite(values):
    bad = []
    for name, v in values:
        if v is None:
            continue
        arr = np.asarray(v, dtype=float)
        if not np.all(np.isfinite(arr)):
            bad.append(f"{name}={arr.tolist()}")
    return bad


def _exc_info(e):
    tb = traceback.extract_tb(e.__traceback__)
    last = tb[-1] if tb else None
    where = f"{os.path.basename(last.filename)}:{last.lineno} in {last.name}" if last else "?"
    return dict(type=type(e).__name__, msg=str(e)[:200], where=where,
                epa_capacity=bool(isinstance(e, AssertionError) and last is not None and os.path.basename(last.filename) == "epa.py"
                                  and last.name == "extend_with_point"))


# ------------------------------------------------------------------------------------------- entry points
def entry_points():
    """name -> (applicable(kA,kB), runner(a, b, counter_factory) -> list of (label, value) to check for finiteness)"""
    from distance3d import gjk, mpr, epa, self_collision
    from distance3d.utils import MAX_FLOAT
    from distance3d.gjk import _gjk_nesterov_accelerated_primitives as prim

    def any_pair(ka, kb):
        return True

    def prim_pair(ka, kb):
        return ka in PRIM and kb in PRIM

    def r_bool(fn):
        def run(a, b, st):
            with Instrument(a, b) as cnt:
                st["cnt"] = cnt
                r = fn(a, b)
            if not isinstance(r, (bool, np.bool_)):
                st["bad"] = f"result {r!r} is not a bool"
            return [("result", float(bool(r)))]
        return run

    def r_jolt(a, b, st):
        with Instrument(a, b) as cnt:
            st["cnt"] = cnt
            d, p, q, _ = gjk.gjk_distance(a, b)
        if d == MAX_FLOAT and p is None and q is None:
            return []
        return [("distance", d), ("closest_point1", p), ("closest_point2", q)]

    def r_orig(a, b, st):
        with Instrument(a, b) as cnt:
            st["cnt"] = cnt
            d, p, q, _, it = gjk.gjk_distance_original(a, b)
        return [("distance", d), ("closest_point1", p), ("closest_point2", q), ("iterations", it)]

    def r_nest(flag):
        def run(a, b, st):
            with Instrument(a, b, nesterov=True) as cnt:
                st["cnt"] = cnt
                inside, d, _, it = gjk.gjk_nesterov_accelerated(a, b, use_nesterov_acceleration=flag)
            return [("inside", float(bool(inside))), ("distance", d), ("iterations", it)]
        return run

    def r_prim(a, b, st):
        inside, d, _, it = prim.gjk_nesterov_accelerated_primitives(a, b)
        st["evals"] = int(it) + 1          # one evaluation of A-B per loop pass; the loop runs inside one jitted function
        return [("inside", float(bool(inside))), ("distance", d), ("iterations", it)]

    def r_mprp(a, b, st):
        with Instrument(a, b) as cnt:
            st["cnt"] = cnt
            hit, depth, pdir, pos = mpr.mpr_penetration(a, b)
        return [("intersection", float(bool(hit))), ("depth", depth), ("penetration_direction", pdir), ("contact_position", pos)]

    class _PoisonNP:
        """numpy look-alike for the Python-level code of _gjk_jolt: np.empty returns NaN-filled arrays, so that rows of the
        returned simplex that gjk_distance never wrote (np.empty = arbitrary memory) are deterministic and recognisable"""
        def __getattr__(self, name):
            return getattr(np, name)

        @staticmethod
        def empty(shape, *a, **k):
            return np.full(shape, np.nan)

    def r_epa(a, b, st):
        from distance3d.gjk import _gjk_jolt as jm
        try:
            with Instrument(a, b):                          # budget only: the GJK part is judged as its own entry point
                d, p, q, simplex = gjk.gjk_distance(a, b)
        except BaseException:                               # noqa  (GJK failed: EPA is not applicable)
            st["na"] = True
            return []
        if simplex is None or d != 0.0:                     # documented use: `if dist == 0.0: epa(simplex, c1, c2)`
            st["na"] = True
            return []
        jm.np = _PoisonNP()                                 # same call again (same path, nothing new is compiled), poisoned
        try:
            with Instrument(a, b):
                d, p, q, simplex = gjk.gjk_distance(a, b)
        finally:
            jm.np = np
        k = int(np.sum(np.any(np.isnan(simplex), axis=1)))
        st["note"] = f"gjk_distance returned distance 0 and a simplex with {k} of 4 rows never written (np.empty memory, NaN-poisoned by the harness)" if k else ""
        with Instrument(a, b) as cnt:
            st["cnt"] = cnt
            mtv, faces, success = epa.epa(simplex, a, b)
        return [("mtv", mtv), ("faces", faces), ("success", float(bool(success)))]

    def r_self(a, b, st):
        from pytransform3d.transform_manager import TransformManager
        from distance3d.broad_phase import BoundingVolumeHierarchy
        if a is b:
            st["na"] = True
            return []
        bvh = BoundingVolumeHierarchy(TransformManager(), "base")
        bvh.add_collider("a", a)
        bvh.add_collider("b", b)
        bvh.self_collision_whitelists_ = {"a": ("a",), "b": ("b",)}
        with Instrument(a, b) as cnt:                      # detect() tests the pair once per frame that is not yet in contact
            st["cnt"] = cnt
            contacts = self_collision.detect(bvh)
        n1 = cnt.evaluations(False)
        with Instrument(a, b) as cnt2:
            st["cnt"] = cnt2
            anyc = self_collision.detect_any(bvh)
        st["evals"] = max((n1 + 1) // 2, cnt2.evaluations(False))   # per narrow-phase query (detect: at most two queries)
        return [("contacts", [float(bool(v)) for v in contacts.values()]), ("any", float(bool(anyc)))]

    return [
        ("gjk.gjk_intersection", any_pair, r_bool(gjk.gjk_intersection)),
        ("gjk.gjk_distance", any_pair, r_jolt),
        ("gjk.gjk_distance_original", any_pair, r_orig),
        ("gjk.gjk_intersection_libccd", any_pair, r_bool(gjk.gjk_intersection_libccd)),
        ("gjk.gjk_nesterov_accelerated", any_pair, r_nest(False)),
        ("gjk.gjk_nesterov_accelerated+momentum", any_pair, r_nest(True)),
        ("gjk.gjk_nesterov_accelerated_primitives", prim_pair, r_prim),
        ("mpr.mpr_intersection", any_pair, r_bool(mpr.mpr_intersection)),
        ("mpr.mpr_penetration", any_pair, r_mprp),
        ("epa.epa", any_pair, r_epa),
        ("self_collision.detect", any_pair, r_self),
    ]


def run_call(name, runner, a, b, same, kinds):
    """executes one entry point; returns dict(fail=[(obligation, detail)], evals=int, na=bool)"""
    st = {}
    fails = []
    vals = []
    try:
        vals = runner(a, b, st)
    except _Budget:
        fails.append(("support_calls<=1000", f"aborted after more than {HARD_CAP} support evaluations (no return)"))
        return dict(fail=fails, evals=HARD_CAP + 1, na=False)
    except BaseException as e:      # noqa: the property is about ANY exception
        info = _exc_info(e)
        allowed = info["epa_capacity"] and name == "epa.epa" and (kinds[0] in SMOOTH or kinds[1] in SMOOTH)
        if not allowed:
            fails.append(("no_exception", f"{info['type']}: {info['msg']} at {info['where']}"))
        st["exc"] = info["type"]
    if st.get("na"):
        return dict(fail=[], evals=0, na=True)
    evals = st["evals"] if "evals" in st else (st["cnt"].evaluations(same) if "cnt" in st else 0)
    if evals > MAX_SUPPORT:
        fails.append(("support_calls<=1000", f"{evals} support evaluations"))
    if "bad" in st:
        fails.append(("finite_output", st["bad"]))
    bad = nonfinite(vals)
    if bad:
        fails.append(("finite_output", "; ".join(bad)[:300]))
    if st.get("note"):
        fails = [(ob, (st["note"] + " -> " + dt)[:500]) for ob, dt in fails]
    return dict(fail=fails, evals=evals, na=False, exc=st.get("exc"))


_EP = None


def eval_scene(sc, skip, emit_start):
    """generator over the calls of one scene: yields (entry name, result dict)"""
    global _EP
    if _EP is None:
        _EP = entry_points()
    kinds = (sc["A"]["kind"], sc["B"]["kind"])
    try:
        a = build_obj(sc["A"])
        b = a if sc.get("same") else build_obj(sc["B"])
    except BaseException as e:      # constructor failed: not a narrow-phase entry point; reported separately
        yield "construct", dict(fail=[], evals=0, na=True, construct_error=f"{type(e).__name__}: {str(e)[:150]}")
        return
    for name, applicable, runner in _EP:
        if name in skip or not applicable(*kinds):
            continue
        emit_start(name)
        yield name, run_call(name, runner, a, b, a is b, kinds)


# ------------------------------------------------------------------------------------------- watchdog runner
def _send(fd, obj):
    data = pickle.dumps(obj)
    os.write(fd, struct.pack("<I", len(data)) + data)


class _Reader:
    def __init__(self, fd):
        self.fd, self.buf = fd, b""

    def get(self, timeout):
        """next message, or ('TIMEOUT',) / ('EOF',)"""
        deadline = time.time() + timeout
        while True:
            if len(self.buf) >= 4:
                n = struct.unpack("<I", self.buf[:4])[0]
                if len(self.buf) >= 4 + n:
                    msg = pickle.loads(self.buf[4:4 + n])
                    self.buf = self.buf[4 + n:]
                    return msg
            left = deadline - time.time()
            if left <= 0:
                return ("TIMEOUT",)
            r, _, _ = select.select([self.fd], [], [], left)
            if not r:
                return ("TIMEOUT",)
            chunk = os.read(self.fd, 1 << 16)
            if not chunk:
                return ("EOF",)
            self.buf += chunk


def _child(wfd, scenes, start, skip0, evaluator):
    try:
        for i in range(start, len(scenes)):
            skip = skip0 if i == start else set()
            for name, res in evaluator(scenes[i], skip, lambda nm, i=i: _send(wfd, ("S", i, nm))):
                _send(wfd, ("R", i, name, res))
            _send(wfd, ("E", i))
        _send(wfd, ("Q",))
    except BaseException as e:       # harness problem inside the child: report, never hang
        try:
            _send(wfd, ("X", f"{type(e).__name__}: {e}", traceback.format_exc()[-600:]))
        except BaseException:
            pass
    finally:
        os._exit(0)


_TCK = os.sysconf("SC_CLK_TCK")


def _cpu_seconds(pid):
    """CPU time (user + system) consumed so far by the process, from /proc (None if it is gone)"""
    try:
        with open(f"/proc/{pid}/stat") as fh:
            rest = fh.read().rsplit(")", 1)[1].split()
        return (int(rest[11]) + int(rest[12])) / _TCK
    except (OSError, IndexError, ValueError):
        return None


def run_batch_guarded(scenes, evaluator, call_timeout=CALL_TIMEOUT, deadline=None, wall_timeout=None, max_timeouts=MAX_TIMEOUTS_PER_BATCH):
    """runs evaluator over the scenes in a forked child with a per-call watchdog.  The watchdog measures the CPU time the child
    spends inside ONE call (robust against a loaded machine: a busy hang burns CPU, a slow machine does not), plus a wall-clock
    limit of WALL_FACTOR * call_timeout for a call that blocks without using CPU.
    Returns (results: {scene index: {entry: result}}, incidents: [(scene index, entry, kind, detail)], skipped scene indices)"""
    results = {i: {} for i in range(len(scenes))}
    incidents = []
    start, skip = 0, set()
    timeouts = 0
    wall_timeout = WALL_FACTOR * call_timeout if wall_timeout is None else wall_timeout
    while start < len(scenes):
        if timeouts >= max_timeouts or (deadline is not None and time.time() > deadline):
            return results, incidents, list(range(start, len(scenes)))
        rfd, wfd = os.pipe()
        pid = os.fork()
        if pid == 0:
            os.close(rfd)
            _child(wfd, scenes, start, skip, evaluator)
        os.close(wfd)
        rd = _Reader(rfd)
        inflight = None
        done_upto = start
        cpu0, wall0 = _cpu_seconds(pid) or 0.0, time.time()
        why = ""
        while True:
            msg = rd.get(0.5)
            tag = msg[0]
            if tag == "TIMEOUT":                       # nothing new within the slice: look at the clocks
                now = time.time()
                if deadline is not None and now > deadline:
                    tag = "DEADLINE"
                    break
                cpu = _cpu_seconds(pid)
                if cpu is not None and cpu - cpu0 > call_timeout:
                    why = f"no return after {cpu - cpu0:.0f} s of CPU time in this call"
                    break
                if now - wall0 > wall_timeout:
                    why = f"no return after {now - wall0:.0f} s wall time ({(cpu or cpu0) - cpu0:.0f} s CPU) in this call"
                    break
                continue
            if tag in ("S", "R", "E"):
                cpu0, wall0 = _cpu_seconds(pid) or cpu0, time.time()
            if tag == "S":
                inflight = (msg[1], msg[2])
            elif tag == "R":
                results[msg[1]][msg[2]] = msg[3]
                inflight = None
            elif tag == "E":
                done_upto = msg[1] + 1
            elif tag == "Q":
                done_upto = len(scenes)
                break
            else:
                break
        if tag != "Q":
            try:
                os.kill(pid, signal.SIGKILL)
            except OSError:
                pass
        try:
            _, status = os.waitpid(pid, 0)
        except OSError:
            status = 0
        os.close(rfd)
        if tag == "Q":
            break
        if tag == "DEADLINE":                          # out of time: the call in flight is not judged, the rest is `skipped`
            nxt = inflight[0] if inflight is not None else done_upto
            return results, incidents, list(range(min(nxt, len(scenes)), len(scenes)))
        # resume after the incident
        if inflight is not None:
            i, nm = inflight
            if tag == "TIMEOUT":
                incidents.append((i, nm, "terminates", why + " (process killed; a normal call takes < 0.05 s)"))
                timeouts += 1
            elif tag == "EOF":
                sig = os.WTERMSIG(status) if os.WIFSIGNALED(status) else None
                incidents.append((i, nm, "no_exception", f"worker process died during the call (signal {sig}, status {status})"))
            else:
                incidents.append((i, nm, "harness", str(msg[1:])[:400]))
            start = i
            skip = set(results[i].keys()) | {nm}
        else:
            # died between calls (scene construction or harness): skip that scene
            incidents.append((done_upto, "-", "harness", f"{tag}: {why} {str(msg[1:])[:400]}"))
            if tag == "TIMEOUT":
                timeouts += 1
            start, skip = done_upto + 1, set()
    return results, incidents, []


_WARM_SCENES = None      # set by the parent before the pool is forked
_WORKER_WARM = False


def _batch_task(task):
    global _WORKER_WARM
    scenes, evaluator_name, call_timeout, deadline = task
    ev = globals()[evaluator_name]
    if time.time() > deadline:
        return {i: {} for i in range(len(scenes))}, [], list(range(len(scenes)))
    if _WARM_SCENES and not _WORKER_WARM:
        # load the jitted code once per pool worker (its forked children inherit it).  These scenes returned in the guarded
        # warm-up child immediately before, so running them unguarded here cannot hang.  The PARENT never runs library code.
        for sc in _WARM_SCENES:
            for _ in ev(sc, set(), lambda nm: None):
                pass
        _WORKER_WARM = True
    return run_batch_guarded(scenes, ev, call_timeout, deadline)


def guarded_map(scenes, evaluator_name, jobs, call_timeout, budget, batch_size):
    """pmap over batches of scenes; each pmap worker forks a watchdog-protected child per batch.  `budget` = seconds for this phase:
    at the deadline every batch abandons the call in flight (not judged) and reports the remaining scenes as skipped"""
    batches = [scenes[i:i + batch_size] for i in range(0, len(scenes), batch_size)]
    deadline = time.time() + max(5.0, budget - 5.0)
    out = C.pmap(_batch_task, [(b, evaluator_name, call_timeout, deadline) for b in batches], jobs=jobs, chunksize=1, timeout=budget + 90.0)
    return batches, out


def warm_up(evaluator_name, scenes, timeout=120.0):
    """compiles the jitted code / fills numba's on-disk cache in a guarded child.  A call that does not return within `timeout` s
    of CPU time is reported as `terminates` and ends the warm-up; pool workers later pre-load only the scenes that came back"""
    global _WARM_SCENES
    t = time.time()
    res, inc, skipped = run_batch_guarded(scenes, globals()[evaluator_name], call_timeout=timeout, wall_timeout=3 * timeout, max_timeouts=1)
    bad = set(skipped) | {i for i, _, k, _ in inc if k in ("terminates", "harness", "no_exception")}
    first_bad = min(bad) if bad else len(scenes)
    clean = [sc for i, sc in enumerate(scenes) if i < first_bad]
    ok = not bad
    _WARM_SCENES = clean or None
    return ok, res, inc, time.time() - t


def library_path():
    import importlib.util
    spec = importlib.util.find_spec("distance3d")
    return os.path.dirname(spec.origin) if spec and spec.origin else "?"


def run_main(main):
    """exit code 0 and one JSON line whatever happens; stdout is flushed and the interpreter left without finalisers (llvmlite's
    teardown in a process that forked is known to crash occasionally, which would lose the buffered output)"""
    t0 = time.time()
    try:
        main()
    except BaseException as e:      # noqa
        if isinstance(e, SystemExit):
            raise
        C.emit(t0, 0, 0, "-", [], [], "harness error: nothing was checked", harness_error=traceback.format_exc()[-1500:])
    sys.stdout.flush()
    sys.stderr.flush()
    os._exit(0)


# ------------------------------------------------------------------------------------------- scene enumeration
LATTICE_DIRS = [np.array(v, dtype=float) for v in [(1, 0, 0), (0, 1, 0), (0, 0, 1), (-1, 0, 0), (0, 0, -1), (1, 1, 0), (0, 1, -1), (1, 1, 1), (1, -1, 1)]]


def rand_pose(rng, scale, lattice):
    if lattice:
        R = C.CUBE[rng.integers(len(C.CUBE))]
        t = rng.integers(-2, 3, size=3).astype(float) * scale * rng.choice([0.5, 1.0, 1.0, 2.0])
    else:
        R = C.random_rotation(rng)
        t = rng.normal(size=3) * scale
    return R, t


def gen_pair_scenes(rng, kA, kB, reps):
    """the placement families for one ordered type pair"""
    out = []

    def add(family, sdA, sdB, same=False):
        out.append(dict(A=sdA, B=sdB, same=same, family=family))

    size_classes = [(1.0, 1.0), (1.0, 0.5), (1e-2, 1e-2), (1e2, 1e2), (1e2, 1e-2), (1e-2, 1e2), (2.0, 0.1)]
    for rep in range(reps):
        lattice = rep % 2 == 0
        sA, sB = size_classes[(rep + rng.integers(3)) % len(size_classes)] if rep else (1.0, 1.0)
        RA, tA = rand_pose(rng, sA, lattice)
        if rep % 5 == 4:                                        # far from the origin (domain: within 1e3 units)
            tA = tA + rng.choice([-1.0, 1.0], size=3) * rng.choice([100.0, 500.0])
        A = side(kA, C.pose(RA, tA), sA)
        colA = par_of(A)
        RB, _ = rand_pose(rng, sB, lattice)
        B0 = side(kB, C.pose(RB, np.zeros(3)), sB)
        # coincident centres (same pose / other orientation)
        add("coincident", A, side(kB, C.pose(RA if rep % 2 == 0 else RB, tA), sB))
        # nested: B small, inside A (off-centre, lattice fraction of the size)
        sN = max(1e-2, 0.1 * sA)
        off = rng.integers(-1, 2, size=3) * (0.125 * sA if kA not in ("disk", "ellipse") else 0.0)
        add("nested", A, side(kB, C.pose(RB, tA + RA @ off), sN))
        # touching (gap exactly 0 up to rounding), small gap, small penetration along lattice / random directions
        for g_rel, fam in ((0.0, "touching"), (1e-3, "gap"), (-1e-3, "penetration"), (0.0, "touching")):
            n = LATTICE_DIRS[rng.integers(len(LATTICE_DIRS))] if lattice else rng.normal(size=3)
            n = RA @ n if lattice else n
            lat = (rng.integers(-1, 2, size=3) * 0.25 * min(sA, sB)) if lattice else rng.normal(size=3) * 0.25 * min(sA, sB)
            L = max(1.0, sA, sB)
            TB = place_along(colA, B0, RB, n, g_rel * L * rng.choice([1.0, 2.0, 10.0]), lat if rng.random() < 0.5 else None)
            add(fam, A, side(kB, TB, sB))
        # lattice / random offsets
        for _ in range(2):
            if lattice:
                t = tA + rng.integers(-2, 3, size=3).astype(float) * rng.choice([0.5, 1.0]) * max(sA, sB) * rng.choice([0.5, 1.0])
            else:
                t = tA + rng.normal(size=3) * 0.7 * (sA + sB)
            add("lattice" if lattice else "random", A, side(kB, C.pose(RB, t), sB))
    return out


def gen_identical(rng, reps):
    out = []
    for k in TYPES:
        for s in (1e-2, 1.0, 1e2):
            for rep in range(reps):
                R, t = rand_pose(rng, s, rep % 2 == 0)
                A = side(k, C.pose(R, t), s)
                out.append(dict(A=A, B=A, same=True, family="identical"))
    return out


def gen_aspect(rng, reps, aspects):
    """flat / needle / zero-volume colliders, aspect ratio up to 1e4 with all features inside [1e-2, 1e2]"""
    out = []
    variants = []
    for k in TYPES:
        for mode in ("needle", "flat", "zero"):
            for a in aspects if mode != "zero" else (0, 1, 2):
                s = 1e2 if (mode != "zero" and a >= 1e3) else 1.0
                d = aspect_dims(k, s, a, mode)
                if d is not None:
                    variants.append((k, mode, a, s, d))
    for (kA, mA, aA, sA, dA) in variants:
        partners = [variants[i] for i in rng.choice(len(variants), size=reps, replace=reps > len(variants))]
        partners.append((kA, mA, aA, sA, dA))
        for (kB, mB, aB, sB, dB) in partners:
            lattice = rng.random() < 0.6
            RA, tA = rand_pose(rng, sA, lattice)
            RB, _ = rand_pose(rng, sB, lattice)
            A = side(kA, C.pose(RA, tA), sA, dA)
            colA = par_of(A)
            B0 = side(kB, C.pose(RB, np.zeros(3)), sB, dB)
            fam = f"aspect:{mA}/{mB}"
            out.append(dict(A=A, B=side(kB, C.pose(RB, tA), sB, dB), same=False, family=fam + ":coincident"))
            n = RA @ LATTICE_DIRS[rng.integers(len(LATTICE_DIRS))] if lattice else rng.normal(size=3)
            for g in (0.0, -0.5 * min(sA / max(aA, 1), sB / max(aB, 1)), 1e-3 * max(1.0, sA, sB)):
                out.append(dict(A=A, B=side(kB, place_along(colA, B0, RB, n, g), sB, dB), same=False,
                                family=fam + (":touching" if g == 0 else ":penetration" if g < 0 else ":gap")))
            # parallel / crossing long axes through the centre
            t = tA + (RA @ np.array([0.0, 0.0, 1.0])) * rng.choice([0.0, 0.5, 1.0]) * min(sA / max(aA, 1), 1.0)
            out.append(dict(A=A, B=side(kB, C.pose(RA if lattice else RB, t), sB, dB), same=False, family=fam + ":parallel"))
    return out


def scene_key(sc):
    a, b = sc["A"], sc["B"]
    return (a["kind"], b["kind"], a["T"].round(9).tobytes(), b["T"].round(9).tobytes(), json.dumps(a["dims"]), json.dumps(b["dims"]), bool(sc.get("same")))


def closeness(sc):
    """non-trivial rule: the two shapes are close: bounding spheres (radius = largest feature) overlap or nearly so"""
    ra, rb = feature_extent(sc["A"]), feature_extent(sc["B"])
    d = float(np.linalg.norm(sc["A"]["T"][:3, 3] - sc["B"]["T"][:3, 3]))
    return d <= 1.5 * (ra + rb)


def warm_scenes():
    out = []
    for k in TYPES:
        A = side(k, C.pose(np.eye(3), np.zeros(3)), 1.0)
        for t in ([3.0, 0.1, 0.2], [0.4, 0.1, 0.05]):
            out.append(dict(A=A, B=side("box", C.pose(C.CUBE[3], np.array(t)), 1.0), same=False, family="warmup"))
            out.append(dict(A=side("sphere", C.pose(np.eye(3), np.array(t)), 0.6), B=A, same=False, family="warmup"))
    return out


# ------------------------------------------------------------------------------------------- main
def collect(batches, out, failures, stats, contract_of):
    """merges pmap output into failures / statistics"""
    if out is None:
        # the per-batch deadlines make every batch return by itself; the pool watchdog can only fire on an overloaded machine
        stats["harness_incidents"].append("global pool watchdog fired: nothing of the main phase was evaluated (machine overloaded?)")
        return
    for batch, (results, incidents, skipped) in zip(batches, out):
        stats["skipped"] += len(skipped)
        for i, nm, kind, detail in incidents:
            sc = batch[i] if 0 <= i < len(batch) else None
            if kind == "harness":
                stats["harness_incidents"].append(detail[:300])
                continue
            failures.append(dict(contract=contract_of(nm, sc), obligation=kind, detail=detail, input=spec_json(sc)))
            stats["evaluations"] += 1
        for i, per in results.items():
            sc = batch[i]
            for nm, res in per.items():
                if res.get("construct_error"):
                    stats["construct_errors"].append(dict(error=res["construct_error"], input=spec_json(sc)))
                    continue
                if res.get("na"):
                    continue
                stats["evaluations"] += 1
                stats["max_evals"][nm] = max(stats["max_evals"].get(nm, 0), res.get("evals", 0))
                if res.get("exc") == "AssertionError" and nm == "epa.epa" and not res["fail"]:
                    stats["epa_capacity_asserts"] += 1
                for ob, detail in res["fail"]:
                    failures.append(dict(contract=contract_of(nm, sc), obligation=ob, detail=detail, input=spec_json(sc)))
            if per:
                stats["scenes_run"].add(scene_key(sc))
                if len(stats["samples"]) < 6 and sc["family"] != "warmup":
                    stats["samples"].append(dict(spec_json(sc), support_evaluations={k: v.get("evals") for k, v in per.items() if not v.get("na")},
                                                 violated=[f"{k}:{ob}" for k, v in per.items() for ob, _ in v.get("fail", [])]))


def _axis_aligned(pose):
    R = np.asarray(pose, dtype=float)[:3, :3]
    return bool(np.all((np.abs(R) < 1e-12) | (np.abs(np.abs(R) - 1.0) < 1e-12)))


def contract_name(nm, sc):
    """pair of collider kinds, plus the rotation class for EPA (its known capacity-assertion finding on polytope pairs is pinned to
    generally rotated pairs; axis-aligned pairs stay sensitive)"""
    if sc is None:
        return nm
    base = f"{nm}[{sc['A']['kind']},{sc['B']['kind']}"
    if nm == "epa.epa":
        try:
            aa = _axis_aligned(sc["A"]["pose"]) and _axis_aligned(sc["B"]["pose"])
        except Exception:
            aa = False
        base += ";axis_aligned" if aa else ";rotated"
    return base + "]"


def replay(js):
    sc = spec_from_json(json.loads(js))
    res, inc, skipped = run_batch_guarded([sc], eval_scene, call_timeout=60.0)
    print(json.dumps(dict(results=res[0], incidents=inc), default=C._js, indent=1))


def main():
    if "--replay" in sys.argv:
        return replay(sys.argv[sys.argv.index("--replay") + 1])
    dump = None
    if "--dump" in sys.argv:            # development aid: write ALL failures (emit keeps 60) to a file
        i = sys.argv.index("--dump")
        dump = sys.argv[i + 1]
        del sys.argv[i:i + 2]
    a = C.args()
    t0 = time.time()
    rng = np.random.default_rng(a.seed)
    thorough = a.tier == "thorough"
    reps_pair, reps_ident, reps_aspect = (240, 40, 100) if thorough else (20, 6, 12)
    aspects = (1e2, 1e3, 1e4) if thorough else (1e2, 1e4)
    scenes = []
    for kA in TYPES:
        for kB in TYPES:
            scenes += gen_pair_scenes(rng, kA, kB, reps_pair)
    scenes += gen_identical(rng, reps_ident)
    scenes += gen_aspect(rng, reps_aspect, aspects)
    order = rng.permutation(len(scenes))           # spread expensive families over the batches
    scenes = [scenes[i] for i in order]

    failures = []
    stats = dict(evaluations=0, skipped=0, harness_incidents=[], construct_errors=[], max_evals={}, epa_capacity_asserts=0, scenes_run=set(), samples=[])
    ok, wres, winc, wt = warm_up("eval_scene", warm_scenes())
    wsc = warm_scenes()
    collect([wsc], [(wres, winc, [])], failures, stats, contract_name)
    budget = (1050.0 if thorough else 135.0) - (time.time() - t0 - wt)     # the (cold-cache) JIT compile time of the warm-up is not charged
    batch_size = max(4, min(40, len(scenes) // (a.jobs * 6) + 1))
    batches, out = guarded_map(scenes, "eval_scene", a.jobs, CALL_TIMEOUT if ok else 90.0, max(20.0, budget), batch_size)
    collect(batches, out, failures, stats, contract_name)

    nontrivial = sum(1 for k, sc in {scene_key(s): s for s in scenes + wsc}.items() if k in stats["scenes_run"] and closeness(sc))
    fams = {}
    for s in scenes:
        f = s["family"].split(":")[0] if not s["family"].startswith("aspect") else "aspect"
        fams[f] = fams.get(f, 0) + 1
    # deterministic order of failures; one representative per (contract, obligation) first
    failures.sort(key=lambda f: (f["contract"], f["obligation"], json.dumps(f["input"], sort_keys=True, default=C._js)))
    seen, seen_fam, lead, first, rest = set(), set(), [], [], []
    for f in failures:          # emit() keeps 60: one per (entry point, obligation) first, then one per (contract, obligation)
        key = (f["contract"], f["obligation"])
        fam = (f["contract"].split("[")[0], f["obligation"])
        (lead if fam not in seen_fam else rest if key in seen else first).append(f)
        seen.add(key)
        seen_fam.add(fam)
    first = lead + first
    if dump:
        with open(dump, "w") as fh:
            json.dump(first + rest, fh, default=C._js)
    summary = {}
    for f in failures:
        key = f"{f['contract'].split('[')[0]}::{f['obligation']}"
        summary[key] = summary.get(key, 0) + 1
    samples = stats["samples"]
    C.emit(t0, stats["evaluations"], nontrivial,
           "scene counts as non-trivial when the colliders are close: centre distance <= 1.5*(largest feature of A + largest feature of B) "
           "(far-apart pairs exit after 1-2 support evaluations); distinct = distinct (types, poses, dimensions, same-object) scenes executed",
           samples, first + rest,
           f"{len(scenes)} scenes + {len(wsc)} warm-up scenes x up to 11 entry points; all 100 ordered pairs of {TYPES} x families {fams} "
           f"(cube-group rotations, integer/half-integer offsets, touching/gap/penetration along lattice and random directions at 1e-3*L, "
           f"nested, coincident, identical object passed twice, sizes in {{1e-2,0.1,0.5,1,2,1e2}}, positions up to 1e3 from the origin, "
           f"needle/flat/zero-volume shapes with aspect ratios {aspects}); seed {a.seed}, tier {a.tier}; library {library_path()}",
           failure_summary=summary, distinct_failing=len(first), distinct_failures=sorted(f"{c}::{o}" for c, o in seen)[:400], skipped=stats["skipped"], harness_incidents=stats["harness_incidents"][:5],
           construct_errors=stats["construct_errors"][:5], n_construct_errors=len(stats["construct_errors"]),
           max_support_evaluations=stats["max_evals"], epa_capacity_asserts_allowed=stats["epa_capacity_asserts"],
           warmup_s=round(wt, 1), undecided=0)


if __name__ == "__main__":
    run_main(main)
