"""Bounded stand-in for C09: the alternative distance algorithms

    gjk_distance_original                                  d, a, b: a in A, b in B, |a-b| = d, d = dist(A,B)       (1e-3*L)
    gjk_nesterov_accelerated_distance / gjk_nesterov_accelerated(use_nesterov_acceleration in {False, True})
    gjk_nesterov_accelerated_primitives_distance / gjk_nesterov_accelerated_primitives(...)   (sphere, capsule, box, ellipsoid, cylinder)
                                                           d = dist(A,B) (0 when overlapping)                        (1e-3*L)
    iteration-count helpers                                return the iteration count of the same answer path

run natively on the scene enumeration of bounded/c01.py (all ordered pairs of the 10 collider types x lattice / touching / nested /
coincident / random placements x sizes in [1e-2, 1e2]) and compared with the sound two-sided oracle of bounded/c01.py
(support-inequality lower bound, verified-member upper bound, verified common point for overlap; closed forms of _common only).
A failure is reported only if an answer contradicts a sound bound by more than 1e-3*L.
"""
import os
import sys
import time
import math

sys.path.insert(0, os.path.dirname(os.path.abspath(__file__)))
import _common as C
import c01
import numpy as np

K_C09 = 1e-3
PRIMS = ("sphere", "capsule", "box", "ellipsoid", "cylinder")


def _dist_only(contract, A, B, d, L, tol, inp, fails, ob):
    return c01.check_points_and_distance(contract, A, B, d, None, None, L, tol, inp, fails, {}, ob=ob, check_points=False)


def run_c09_scene(spec):
    from distance3d import gjk
    from distance3d.gjk._gjk_original import gjk_distance_iterations
    from distance3d.gjk._gjk_nesterov_accelerated import gjk_nesterov_accelerated_iterations
    from distance3d.gjk._gjk_nesterov_accelerated_primitives import gjk_nesterov_accelerated_primitives_iterations
    fails, stats = [], {}
    A, B, inp, spec2 = c01.build_scene(spec)
    L = c01.scene_L(A, B)
    tol = K_C09 * L
    pair = "[%s,%s]" % (A["kind"], B["kind"])
    TA, TB = np.array(inp["TA"]), np.array(inp["TB"])

    def fresh():
        # MeshGraph caches the last support vertex (state): every library call gets freshly constructed colliders, so that
        # repeated calls (iteration helpers, wrapper vs full function) are compared on identical inputs
        return (c01.make_col(spec["kA"], TA, spec["sA"])["obj"], c01.make_col(spec["kB"], TB, spec["sB"])["obj"])
    rec = dict(contract="gjk.*" + pair, family=spec["fam"], L=L, tol=tol)
    ncalls = 0
    sub = (spec["i"] % 3 == 0)                          # the pure repetition checks run on every third scene
    ob = None

    def fail(contract, obl, detail):
        fails.append(dict(contract=contract, obligation=obl, detail=detail, input=inp))

    # ------------------------------------------------------------------ original GJK
    cn = "gjk.gjk_distance_original" + pair
    res, err = c01.guarded(gjk.gjk_distance_original, *fresh(), label=cn)
    ncalls += 1
    if err:
        fail(cn, err[0], err[1])
    else:
        out = c01.check_points_and_distance(cn, A, B, res[0], res[1], res[2], L, tol, inp, fails, stats)
        if out is not None:
            ob = out["ob"]
            rec.update(d_original=float(res[0]), lb=out["lb"], ub=out["ub"], regime=out["regime"], gap=out["gap"])
        if sub:
            ci = "gjk.gjk_distance_iterations" + pair
            r2, e2 = c01.guarded(gjk_distance_iterations, *fresh(), label=ci)
            ncalls += 1
            if e2:
                fail(ci, e2[0], e2[1])
            elif r2 != res[4]:
                fail(ci, "iterations_same_path", "helper returns %r, gjk_distance_original(...)[4] = %r" % (r2, res[4]))
    if ob is None:
        ob = c01.oracle_bounds(A, B, L, tol)
        lb, ub, ov = c01.margin_bounds(ob, 0.0, 0.0)
        rec.update(lb=lb, ub=ub, gap=ub - lb, regime="overlap" if ov else "separated")
        stats["n_oracle"] = stats.get("n_oracle", 0) + 1

    # ------------------------------------------------------------------ Nesterov accelerated GJK (all collider types)
    variants = [("gjk_nesterov_accelerated", gjk.gjk_nesterov_accelerated_distance, gjk.gjk_nesterov_accelerated,
                 gjk_nesterov_accelerated_iterations)]
    if A["kind"] in PRIMS and B["kind"] in PRIMS:
        variants.append(("gjk_nesterov_accelerated_primitives", gjk.gjk_nesterov_accelerated_primitives_distance,
                         gjk.gjk_nesterov_accelerated_primitives, gjk_nesterov_accelerated_primitives_iterations))
    for base, f_dist, f_full, f_iter in variants:
        cn = "gjk.%s_distance%s" % (base, pair)
        dw, err = c01.guarded(f_dist, *fresh(), label=cn)
        ncalls += 1
        if err:
            fail(cn, err[0], err[1])
            dw = None
        else:
            _dist_only(cn, A, B, dw, L, tol, inp, fails, ob)
            rec["d_" + base] = float(dw) if isinstance(dw, (int, float, np.floating)) else repr(dw)
        for accel in (True, False):
            if not accel and not sub:
                continue                                 # accel=False is the path of the public wrapper checked above
            cf = "gjk.%s%s" % (base, pair[:-1] + ";accel=%s]" % accel)
            r, err = c01.guarded(f_full, *fresh(), use_nesterov_acceleration=accel, label=cf)
            ncalls += 1
            if err:
                fail(cf, err[0], err[1])
                continue
            try:
                dfull = max(float(r[1]), 0.0)
            except Exception:
                fail(cf, "result_finite", "distance entry is %r" % (r[1],))
                continue
            if accel:
                _dist_only(cf, A, B, dfull, L, tol, inp, fails, ob)
                rec["d_" + base + "_accel"] = dfull
            else:
                ci = "gjk.%s_iterations%s" % (base, pair)
                if dw is not None and not (float(dw) == dfull):
                    fail(cn, "wrapper_consistent", "wrapper returns %r, max(full(...)[1], 0) = %r" % (dw, dfull))
                it, e3 = c01.guarded(f_iter, *fresh(), label=ci)
                ncalls += 1
                if e3:
                    fail(ci, e3[0], e3[1])
                elif it != r[3]:
                    fail(ci, "iterations_same_path", "helper returns %r, %s(...)[3] = %r" % (it, base, r[3]))
    if spec["i"] % 499 == 0:
        rec["input"] = {k: inp[k] for k in ("kindA", "kindB", "sizeA", "sizeB", "TA", "TB", "note")}
    stats["calls"] = ncalls
    return dict(fails=fails, stats=stats, rec=rec, key=c01._key(inp))


def c09_on_hang(spec, label, why):
    r = c01.c01_on_hang(spec, label, why)
    return r


def recon_specs(start):
    """the scenes of the design reconnaissance (finding h): unit sphere / capsule at the origin against shapes at x = 5"""
    out = []
    TB = C.pose(np.eye(3), [5.0, 0.0, 0.0]).tolist()
    TA = np.eye(4).tolist()
    i = start
    for kA in ("sphere", "capsule"):
        for kB in C.COLLIDER_TYPES:
            for (x, y, ta, tb) in ((kA, kB, TA, TB), (kB, kA, TB, TA)):
                out.append(dict(i=i, kA=x, kB=y, sA=1.0, sB=1.0, mA=0.0, mB=0.0, fam="fixed", rep=0, sub=0, TA=ta, TB=tb,
                                note="reconnaissance scene: identity rotations, one collider at the origin, the other at x=5"))
                i += 1
    return out


def main():
    a = C.args()
    t0 = time.time()
    import distance3d
    fails, stats, recs, nontrivial = [], {}, [], set()
    pairs = [(x, y) for x in C.COLLIDER_TYPES for y in C.COLLIDER_TYPES]
    if a.tier == "quick":
        pf = dict(coincident=2, axis_offset=5, support_touch_lattice=5, lattice_offset=3, random=5, support_touch_random=5, far=1)
    else:
        pf = dict(coincident=8, axis_offset=48, support_touch_lattice=48, lattice_offset=32, random=48, support_touch_random=48, far=8)
    classes = c01._scale_classes(a.tier, None) + [("rand", "rand")]
    specs = c01.gen_specs(a.tier, a.seed + 104729, pairs, pf, scale_classes=classes)
    # denser placements for the pairs accepted by the jitted primitives flavour: its simplex projectors have dozens of leaves that the
    # all-pairs domain reaches too rarely (a seeded wrong argument in one leaf of project_tetra_to_origin was missed without this)
    prim_pairs = [(x, y) for x in PRIMS for y in PRIMS]
    if a.tier == "quick":
        pf2 = dict(axis_offset=14, support_touch_lattice=14, lattice_offset=14, random=10, support_touch_random=10)
    else:
        pf2 = dict(axis_offset=80, support_touch_lattice=80, lattice_offset=80, random=60, support_touch_random=60)
    extra = c01.gen_specs(a.tier, a.seed + 7919, prim_pairs, pf2, scale_classes=[(1.0, 1.0), (1.0, 0.25), (0.25, 1.0)])
    for k, sp in enumerate(extra):
        sp["i"] = len(specs) + k
    specs += extra
    specs += recon_specs(len(specs))
    c01.warm_up(run_c09_scene, c01.warm_specs(specs))
    for sz in (1.0, 0.01, 100.0, 0.25):
        c01.make_col("mesh", np.eye(4), sz)
    res = c01.robust_map(run_c09_scene, specs, jobs=a.jobs, on_hang=c09_on_hang)
    c01.merge(res, fails, stats, recs, nontrivial)
    samples = c01.pick_samples(recs)
    fails = c01.order_fails(fails)
    names = sorted({(f["contract"], f["obligation"]) for f in fails})
    domain = ("%d ordered pairs of %s (nesterov_primitives: the 25 pairs of %s) x scale classes %s x placement families %s "
              "(see bounded/c01.py: cube-group rotations, touching/gap/overlap offsets from closed-form extents and support points, "
              "integer/half-integer offsets, random poses, far placements) = %d scenes incl. %d fixed reconnaissance scenes; per scene: "
              "gjk_distance_original, gjk_nesterov_accelerated_distance, gjk_nesterov_accelerated(use_nesterov_acceleration=True), "
              "the primitives counterparts where accepted; on every third scene also use_nesterov_acceleration=False explicitly, the three "
              "iteration helpers and the wrapper/full-function consistency; repo=%s"
              % (len(pairs), C.COLLIDER_TYPES, list(PRIMS), classes, pf, len(specs), len(recon_specs(0)), os.path.dirname(distance3d.__file__)))
    C.emit(t0, len(recs) + stats.get("hangs", 0), len(nontrivial),
           "distinct scene (types, sizes, poses) in which the independent two-sided oracle bracket [lb,ub] of the true distance is narrower "
           "than half the property tolerance 1e-3*L (so both optimality clauses are decidable for every algorithm run on it)",
           samples, fails, domain,
           undecided=stats.get("undecided", 0), tight=stats.get("tight", 0), library_calls=stats.get("calls", 0),
           regimes={k[7:]: v for k, v in stats.items() if k.startswith("regime_")},
           oracle_inconsistent=stats.get("oracle_inconsistent", 0), oracle_inconsistent_inputs=stats.get("oracle_inconsistent_inputs", []),
           harness_errors=stats.get("harness_errors", 0), harness_error_msgs=stats.get("harness_error_msgs", []),
           hangs=stats.get("hangs", 0), not_run=stats.get("not_run", 0),
           failing_names=["%s :: %s" % n for n in names][:600], n_failing_names=len(names), tier=a.tier, seed=a.seed)


if __name__ == "__main__":
    main()
