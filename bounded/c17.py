"""BOUNDED stand-in for C17: tetrahedral mesh factories partition the shape with valid potentials.

Runs the REAL factories (distance3d.hydroelastic_contact._tetra_mesh_creation.make_tetrahedral_* and RigidBody.make_*) and the
helpers of _mesh_processing over an enumerated parameter grid and checks every clause of the property against oracles that do
not use the library: own determinant volumes (exact rational arithmetic for numerically flat tetrahedra), scipy.spatial.ConvexHull
on per-axis normalised coordinates for the hull volume, closed-form membership / depth of the analytic shapes, closed-form inradii,
sampled point-in-tetrahedron counts (own barycentric solve) for overlaps, numpy loops for AABB / volume / centre of mass.

Obligations (stable names):
  no_exception, volume_positive, volume_sum, tiling_exact (box/cube: sum = s0*s1*s2), tiling_no_overlap (sampled interior points
  lie strictly inside at most one tetrahedron), vertices_inside_shape, potential_boundary_zero, potential_medial,
  has_medial_vertex, indices_valid, helper_agrees, rigid_body_matches_factory
Contracts: hydroelastic.make_tetrahedral_<shape>[class=<class>], hydroelastic.RigidBody.make_<shape>, hydroelastic.RigidBody.aabb,
  hydroelastic.tetrahedral_mesh_volumes / tetrahedral_mesh_aabbs / center_of_mass_tetrahedral_mesh
"""
import itertools
import math
import os
import sys
import time
from fractions import Fraction

for _v in ("OMP_NUM_THREADS", "OPENBLAS_NUM_THREADS", "MKL_NUM_THREADS", "NUMBA_NUM_THREADS"):   # 16 worker processes, 1 thread each
    os.environ.setdefault(_v, "1")

import numpy as np

import _common as C

C.stub_visualization()

REL_VOL = 1e-9      # relative tolerance of the volume clauses (hull volume from qhull on normalised coordinates)
K_LEN = 1e-9        # length tolerance k*L with L = max(1, largest feature size)


# ------------------------------------------------------------------------------------------------- independent oracles
def signed_volumes(V, Tt):
    P = V[Tt]
    e = P[:, 1:] - P[:, :1]
    return np.linalg.det(e) / 6.0


def exact_volume_is_zero(tet):
    """exact rational determinant of the tetrahedron with the float coordinates as given"""
    q = [[Fraction(float(x)) for x in p] for p in tet]
    a = [q[1][k] - q[0][k] for k in range(3)]
    b = [q[2][k] - q[0][k] for k in range(3)]
    c = [q[3][k] - q[0][k] for k in range(3)]
    det = (a[0] * (b[1] * c[2] - b[2] * c[1]) - a[1] * (b[0] * c[2] - b[2] * c[0]) + a[2] * (b[0] * c[1] - b[1] * c[0]))
    return det == 0


def hull_volume(V):
    """volume of the convex hull; coordinates are normalised per axis first (an affine map scales every volume by its
    determinant) so that needle / plate shaped inputs do not run into qhull's precision handling"""
    from scipy.spatial import ConvexHull
    lo, hi = V.min(axis=0), V.max(axis=0)
    ext = hi - lo
    if np.any(ext <= 0):
        return 0.0
    W = (V - lo) / ext
    return float(ConvexHull(W).volume * np.prod(ext))


def shape_oracle(kind, par):
    """returns (outside_lb, depth, inradius, L, analytic_volume_of_polyhedron_or_None)
    outside_lb(v): a LOWER bound of the distance of v to the analytic solid (<= 0 when inside) - sound for 'vertex outside'
    depth(v): depth of v below the analytic surface (0 on the surface, > 0 inside) up to first order - used only to classify
              vertices as boundary (|depth| <= tol) or interior (depth > 1e-6 * inradius); anything in between is undecided"""
    if kind == "sphere":
        r = par["radius"]
        return (lambda v: np.linalg.norm(v, axis=1) - r), (lambda v: r - np.linalg.norm(v, axis=1)), r, max(1.0, r)
    if kind == "ellipsoid":
        rad = np.asarray(par["radii"], dtype=float)
        g = lambda v: np.sqrt(np.sum((v / rad) ** 2, axis=1))
        # g is 1/min(rad)-Lipschitz, so dist(v, solid) >= (g - 1) * min(rad)
        return (lambda v: (g(v) - 1.0) * rad.min()), (lambda v: (1.0 - g(v)) * rad.min()), float(rad.min()), max(1.0, float(rad.max()))
    if kind in ("box", "cube"):
        h = 0.5 * (np.asarray(par["size"], dtype=float) if kind == "box" else np.full(3, float(par["size"])))
        return (lambda v: np.max(np.abs(v) - h, axis=1)), (lambda v: np.min(h - np.abs(v), axis=1)), float(h.min()), max(1.0, float(2 * h.max()))
    if kind == "cylinder":
        r, hl = par["radius"], 0.5 * par["length"]
        rho = lambda v: np.hypot(v[:, 0], v[:, 1])
        return ((lambda v: np.maximum(rho(v) - r, np.abs(v[:, 2]) - hl)), (lambda v: np.minimum(r - rho(v), hl - np.abs(v[:, 2]))),
                min(r, hl), max(1.0, 2 * r, 2 * hl))
    if kind == "capsule":
        r, hh = par["radius"], 0.5 * par["height"]

        def dseg(v):
            z = np.clip(v[:, 2], -hh, hh)
            return np.sqrt(v[:, 0] ** 2 + v[:, 1] ** 2 + (v[:, 2] - z) ** 2)
        return (lambda v: dseg(v) - r), (lambda v: r - dseg(v)), r, max(1.0, 2 * r + 2 * hh)
    raise ValueError(kind)


def bary_matrices(P):
    """inverse of [[p0 p1 p2 p3],[1 1 1 1]] for every tetrahedron (own solve, not the library's pinv)"""
    n = len(P)
    A = np.empty((n, 4, 4))
    A[:, :3, :] = P.transpose(0, 2, 1)
    A[:, 3, :] = 1.0
    return np.linalg.inv(A)


def overlap_sample(V, Tt, rng, n_points):
    """sample points strictly inside randomly chosen tetrahedra; return the maximum number of tetrahedra that contain one of
    the points STRICTLY (all barycentric coordinates > margin).  A tiling has at most 1."""
    P = V[Tt]
    vol = np.abs(signed_volumes(V, Tt))
    ok = np.where(vol > 1e-12 * vol.max())[0]     # barycentric solve of numerically flat tetrahedra is meaningless
    if len(ok) == 0:
        return 0, None
    Ainv = bary_matrices(P[ok])
    idx = rng.integers(len(ok), size=n_points)
    w = rng.dirichlet(np.ones(4) * 2.0, size=n_points)
    pts = np.einsum("pk,pkd->pd", w, P[ok][idx])
    hom = np.hstack((pts, np.ones((n_points, 1))))
    worst, wp = 0, None
    step = max(1, 2_000_000 // (4 * len(ok)))
    for s in range(0, n_points, step):
        b = np.einsum("nij,pj->pni", Ainv, hom[s:s + step])          # (p, n, 4)
        inside = np.all(b > 1e-7, axis=2)
        cnt = inside.sum(axis=1)
        k = int(np.argmax(cnt))
        if cnt[k] > worst:
            worst, wp = int(cnt[k]), pts[s + k]
    return worst, wp


# ------------------------------------------------------------------------------------------------- one case
def fail(out, contract, obligation, detail, inp):
    out.append(dict(contract=contract, obligation=obligation, detail=detail, input=inp))


def call_factory(kind, par):
    from distance3d.hydroelastic_contact import _tetra_mesh_creation as M
    if kind == "sphere":
        return M.make_tetrahedral_sphere(par["radius"], par["order"])
    if kind == "ellipsoid":
        return M.make_tetrahedral_ellipsoid(np.array(par["radii"], dtype=float), par["order"])
    if kind == "cube":
        return M.make_tetrahedral_cube(par["size"])
    if kind == "box":
        return M.make_tetrahedral_box(np.array(par["size"], dtype=float))
    if kind == "cylinder":
        return M.make_tetrahedral_cylinder(par["radius"], par["length"], par["resolution_hint"])
    if kind == "capsule":
        return M.make_tetrahedral_capsule(par["radius"], par["height"], par["resolution_hint"])
    raise ValueError(kind)


def call_rigid_body(kind, par, T):
    from distance3d.hydroelastic_contact import RigidBody
    if kind == "sphere":
        return RigidBody.make_sphere(T[:3, 3].copy(), par["radius"], par["order"])
    if kind == "ellipsoid":
        return RigidBody.make_ellipsoid(T.copy(), np.array(par["radii"], dtype=float), par["order"])
    if kind == "cube":
        return RigidBody.make_cube(T.copy(), par["size"])
    if kind == "box":
        return RigidBody.make_box(T.copy(), np.array(par["size"], dtype=float))
    if kind == "cylinder":
        return RigidBody.make_cylinder(T.copy(), par["radius"], par["length"], par["resolution_hint"])
    if kind == "capsule":
        return RigidBody.make_capsule(T.copy(), par["radius"], par["height"], par["resolution_hint"])
    raise ValueError(kind)


def direct_helpers(P):
    vols = np.array([abs(np.linalg.det(np.array([t[1] - t[0], t[2] - t[0], t[3] - t[0]]))) / 6.0 for t in P])
    aabbs = np.array([[[t[:, k].min(), t[:, k].max()] for k in range(3)] for t in P])
    cents = np.array([(t[0] + t[1] + t[2] + t[3]) / 4.0 for t in P])
    com = (vols[:, None] * cents).sum(axis=0) / vols.sum()
    return vols, aabbs, com


def check_helpers(out, P, inp, tag):
    """tetrahedral_mesh_volumes / tetrahedral_mesh_aabbs / center_of_mass_tetrahedral_mesh vs direct computation"""
    from distance3d.hydroelastic_contact import _mesh_processing as MP
    if len(P) > 600:          # the direct loops are slow; a sub-sample of the tetrahedra is a mesh as well
        P = P[:: len(P) // 600 + 1]
    P = np.ascontiguousarray(P)
    vols, aabbs, com = direct_helpers(P)
    scale = float(np.abs(P).max()) + 1e-300
    ext = float(np.max(P.max(axis=(0, 1)) - P.min(axis=(0, 1))))
    n = 0
    try:
        v = MP.tetrahedral_mesh_volumes(P)
        n += 1
        # float error of the triple product: ~ eps * |coordinates|^3 when the mesh is far from the origin
        tol = 1e-9 * vols.max() + 1e-13 * scale ** 2 * ext
        if v.shape != vols.shape or not np.all(np.abs(v - vols) <= tol):
            k = int(np.argmax(np.abs(v - vols))) if v.shape == vols.shape else -1
            fail(out, "hydroelastic.tetrahedral_mesh_volumes", "helper_agrees",
                 f"{tag}: volume {v[k] if k >= 0 else v.shape} vs direct {vols[k] if k >= 0 else vols.shape}", inp)
    except Exception as e:
        fail(out, "hydroelastic.tetrahedral_mesh_volumes", "no_exception", f"{tag}: {type(e).__name__}: {e}", inp)
    try:
        a = MP.tetrahedral_mesh_aabbs(P)
        n += 1
        if a.shape != aabbs.shape or not np.array_equal(a, aabbs):
            fail(out, "hydroelastic.tetrahedral_mesh_aabbs", "helper_agrees", f"{tag}: AABBs differ from min/max of the vertices", inp)
    except Exception as e:
        fail(out, "hydroelastic.tetrahedral_mesh_aabbs", "no_exception", f"{tag}: {type(e).__name__}: {e}", inp)
    try:
        c = MP.center_of_mass_tetrahedral_mesh(P)
        n += 1
        tol = 1e-9 * max(1.0, ext) + 1e-12 * scale
        if not np.all(np.abs(c - com) <= tol):
            fail(out, "hydroelastic.center_of_mass_tetrahedral_mesh", "helper_agrees", f"{tag}: com {c} vs direct {com}", inp)
    except Exception as e:
        fail(out, "hydroelastic.center_of_mass_tetrahedral_mesh", "no_exception", f"{tag}: {type(e).__name__}: {e}", inp)
    return n


def run_case(task):
    kind, par, cls, seed, n_samples = task["kind"], task["par"], task["cls"], task["seed"], task["n_samples"]
    rng = np.random.default_rng(seed)
    out = []
    contract = f"hydroelastic.make_tetrahedral_{kind}[class={cls}]"
    inp = dict(kind=kind, **par)
    res = dict(evals=1, failures=out, nontrivial=None, sample=None, undecided=0, neg_oriented=0)
    try:
        V, Tt, Pot = call_factory(kind, par)
        V = np.asarray(V, dtype=float)
        Tt = np.asarray(Tt)
        Pot = np.asarray(Pot, dtype=float)
    except Exception as e:
        fail(out, contract, "no_exception", f"{type(e).__name__}: {e}", inp)
        return res
    outside_lb, depth, inradius, L = shape_oracle(kind, par)
    tol = K_LEN * L

    # ---- index sanity (a factory returning dangling indices cannot be a partition)
    if Tt.ndim != 2 or Tt.shape[1] != 4 or Tt.min() < 0 or Tt.max() >= len(V) or len(Pot) != len(V) \
            or not np.all(np.isfinite(V)) or not np.all(np.isfinite(Pot)):
        fail(out, contract, "indices_valid", f"tetrahedra shape {Tt.shape}, index range [{Tt.min()}, {Tt.max()}], {len(V)} vertices, "
             f"{len(Pot)} potentials, finite={bool(np.all(np.isfinite(V)))}", inp)
        return res
    if any(len(set(t)) != 4 for t in Tt.tolist()):
        fail(out, contract, "volume_positive", "a tetrahedron repeats a vertex index", inp)
    used = np.zeros(len(V), dtype=bool)
    used[Tt.ravel()] = True

    # ---- strictly positive volumes
    sv = signed_volumes(V, Tt)
    vol = np.abs(sv)
    P = V[Tt]
    diam3 = np.max(np.linalg.norm(P[:, :, None, :] - P[:, None, :, :], axis=3), axis=(1, 2)) ** 3
    flat = np.where(vol <= 1e-9 * diam3)[0]
    bad = [int(k) for k in flat[:200] if exact_volume_is_zero(P[k])]
    if bad:
        fail(out, contract, "volume_positive", f"{len(bad)} tetrahedra with exactly zero volume, e.g. #{bad[0]} = {P[bad[0]].tolist()}", inp)
    res["neg_oriented"] = int(np.sum(sv < 0))

    # ---- volumes sum to the hull volume
    total = float(vol.sum())
    try:
        hv = hull_volume(V[used])
    except Exception as e:
        hv = None
        res["undecided"] += 1
    if hv is not None and abs(total - hv) > REL_VOL * hv:
        fail(out, contract, "volume_sum", f"sum of tetrahedron volumes {total!r} vs convex hull volume {hv!r} (rel. diff {(total - hv) / hv:.3e})", inp)
    if kind in ("box", "cube"):
        s = np.asarray(par["size"], dtype=float) if kind == "box" else np.full(3, float(par["size"]))
        exact = float(np.prod(s))
        if abs(total - exact) > 1e-12 * exact:
            fail(out, contract, "tiling_exact", f"sum of volumes {total!r} vs s0*s1*s2 = {exact!r}", inp)
        lo, hi = V[used].min(axis=0), V[used].max(axis=0)
        if np.max(np.abs(lo + 0.5 * s)) > 1e-15 * L or np.max(np.abs(hi - 0.5 * s)) > 1e-15 * L:
            fail(out, contract, "tiling_exact", f"mesh extent [{lo}, {hi}] is not the box +-size/2", inp)

    # ---- no overlaps (sampled)
    worst, wp = overlap_sample(V, Tt, rng, n_samples)
    if worst > 1:
        fail(out, contract, "tiling_no_overlap", f"point {wp.tolist()} lies strictly inside {worst} tetrahedra", inp)

    # ---- vertices on or inside the analytic shape
    olb = outside_lb(V)
    k = int(np.argmax(olb))
    if olb[k] > tol:
        fail(out, contract, "vertices_inside_shape", f"vertex #{k} = {V[k].tolist()} is at least {olb[k]:.3e} outside the analytic {kind}", inp)

    # ---- potentials
    dep = depth(V)
    boundary = np.abs(dep) <= tol
    interior = dep > max(1e-6 * inradius, 10 * tol)
    res["undecided"] += int(np.sum(~boundary & ~interior & (dep > 0)))
    kb = np.where(boundary & (np.abs(Pot) > 1e-12 * L))[0]
    if len(kb):
        fail(out, contract, "potential_boundary_zero", f"boundary vertex #{kb[0]} = {V[kb[0]].tolist()} has potential {Pot[kb[0]]!r}", inp)
    ki = np.where(interior & (np.abs(Pot - inradius) > K_LEN * L))[0]
    if len(ki):
        fail(out, contract, "potential_medial", f"interior vertex #{ki[0]} = {V[ki[0]].tolist()} (depth {dep[ki[0]]:.6g}) has potential "
             f"{Pot[ki[0]]!r}, inradius {inradius!r}", inp)
    if not np.any(interior & used):
        fail(out, contract, "has_medial_vertex", "no interior vertex: the pressure field would be identically zero", inp)

    # ---- helpers on this mesh, at the origin and rigidly moved far away
    R = C.random_rotation(rng)
    t = rng.uniform(-1e3, 1e3, size=3) / math.sqrt(3)
    res["evals"] += check_helpers(out, P, inp, "factory mesh")
    res["evals"] += check_helpers(out, P @ R.T + t, dict(inp, rotation=R.tolist(), translation=t.tolist()), "rigidly moved factory mesh")

    # ---- RigidBody.make_* returns the factory mesh at the given pose; its helpers agree with direct computation
    T = C.pose(R if kind != "sphere" else np.eye(3), t)
    rbc = f"hydroelastic.RigidBody.make_{kind}"
    try:
        rb = call_rigid_body(kind, par, T)
        res["evals"] += 1
        same = (np.array_equal(rb.vertices_, V) and np.array_equal(rb.tetrahedra_, Tt) and np.array_equal(rb.potentials_, Pot)
                and np.array_equal(rb.body2origin_, T))
        if not same:
            fail(out, rbc, "rigid_body_matches_factory", "vertices/tetrahedra/potentials/pose differ from the factory output", dict(inp, pose=T.tolist()))
        vols, aabbs, com = direct_helpers(P[:: len(P) // 600 + 1]) if len(P) > 600 else direct_helpers(P)
        if len(P) <= 600:
            if not np.array_equal(rb.aabbs, aabbs):
                fail(out, rbc, "helper_agrees", "RigidBody.aabbs differ from min/max of tetrahedra_points", dict(inp, pose=T.tolist()))
            if not np.all(np.abs(rb.com - com) <= 1e-9 * L):
                fail(out, rbc, "helper_agrees", f"RigidBody.com {rb.com} vs direct {com}", dict(inp, pose=T.tolist()))
            if not np.array_equal(rb.tetrahedra_potentials, Pot[Tt]):
                fail(out, rbc, "helper_agrees", "tetrahedra_potentials != potentials[tetrahedra]", dict(inp, pose=T.tolist()))
        # RigidBody.aabb(): 'the aabb of the rigid body' - used as collider AABB by HydroelasticBoundingVolumeHierarchy, i.e. in
        # the frame body2origin_ maps to.  Direct computation: min/max of the vertices mapped by the pose.
        if len(P) <= 1500:
            try:
                box = np.asarray(rb.aabb())
                res["evals"] += 1
                W = V[used] @ T[:3, :3].T + T[:3, 3]
                direct = np.stack((W.min(axis=0), W.max(axis=0)), axis=1)
                if box.shape != (3, 2) or np.max(np.abs(box - direct)) > 1e-9 * max(1.0, float(np.abs(direct).max())):
                    fail(out, "hydroelastic.RigidBody.aabb", "helper_agrees",
                         f"aabb() = {box.tolist()} vs min/max of the posed vertices {direct.tolist()}", dict(inp, pose=T.tolist()))
            except Exception as e:
                fail(out, "hydroelastic.RigidBody.aabb", "no_exception", f"{type(e).__name__}: {e}", dict(inp, pose=T.tolist()))
    except Exception as e:
        fail(out, rbc, "no_exception", f"{type(e).__name__}: {e}", dict(inp, pose=T.tolist()))

    res["nontrivial"] = (kind, cls, repr(sorted(par.items()))) if (len(Tt) >= 8 and np.any(interior)) else None
    res["sample"] = dict(contract=contract, input=inp, n_vertices=int(len(V)), n_tetrahedra=int(len(Tt)), volume_sum=total,
                         hull_volume=hv, min_volume=float(vol.min()), n_interior=int(np.sum(interior)), inradius=inradius)
    return res


def run_soup(task):
    """helpers on random tetrahedron soups (incl. lattice coordinates and flat tetrahedra)"""
    rng = np.random.default_rng(task["seed"])
    out = []
    n = int(rng.integers(1, 40))
    if rng.random() < 0.5:
        P = rng.integers(-2, 3, size=(n, 4, 3)).astype(float) * rng.choice([0.01, 0.5, 1.0, 100.0])
    else:
        P = rng.normal(size=(n, 4, 3)) * 10.0 ** rng.uniform(-2, 2) + rng.uniform(-1e3, 1e3, size=3) * rng.choice([0.0, 1.0])
    vols = direct_helpers(P)[0]
    if vols.sum() <= 1e-9 * np.max(np.abs(P)) ** 3:       # centre of mass undefined
        P[0] = np.array([[0, 0, 0], [1, 0, 0], [0, 1, 0], [0, 0, 1.0]])
    ev = check_helpers(out, P, dict(tetrahedra_points=P.tolist()), "random tetrahedra")
    return dict(evals=ev, failures=out, nontrivial=("soup", task["seed"]), sample=None, undecided=0, neg_oriented=0)


def run_group(group):
    return [run_task(t) for t in group]


def run_task(task):
    try:
        return run_soup(task) if task["kind"] == "soup" else run_case(task)
    except Exception as e:                                   # harness error: never hide, never blame the library
        import traceback
        return dict(evals=0, failures=[], nontrivial=None, sample=None, undecided=1, neg_oriented=0,
                    harness_error=f"{type(e).__name__}: {e} :: {traceback.format_exc()[-400:]} :: {task}")


# ------------------------------------------------------------------------------------------------- domain
def box_class(s):
    h = 0.5 * np.asarray(s, dtype=float)
    m = h.min()
    rt = 1e-14 * max(1.0, m)
    eq = int(np.sum(h - m <= rt))
    return {1: "one_min", 2: "two_equal", 3: "three_equal"}[eq]


def cyl_class(r, length):
    tz = 0.5 * length
    tol = 1e-14 * max(1.0, min(tz, r))
    if tz - r > tol:
        return "long"
    if r - tz > tol:
        return "short"
    return "medium"


def build_tasks(tier, rng):
    tasks = []
    thorough = tier == "thorough"
    ns = 4000 if thorough else 1500
    sizes = [1e-2, 0.1, 0.5, 1.0, 3.7, 10.0, 100.0] if not thorough else [1e-2, 0.03, 0.1, 0.25, 0.5, 1.0, 2.0, 3.7, 10.0, 31.0, 100.0]
    rnd = lambda: float(10.0 ** rng.uniform(-2, 2))
    # spheres, orders 0-4
    for r in sizes + [rnd() for _ in range(20 if not thorough else 60)]:
        for order in range(5):
            tasks.append(dict(kind="sphere", par=dict(radius=r, order=order), cls=f"order{order}"))
    # ellipsoids
    triples = [(1, 1, 1), (1, 1, 2), (2, 1, 1), (1, 2, 3), (0.01, 0.01, 0.01), (100, 100, 100), (0.01, 100, 1), (100, 0.01, 0.01),
               (0.5, 0.25, 0.375), (0.2, 1.0, 0.5), (3, 3, 0.01)]
    triples += [tuple(rnd() for _ in range(3)) for _ in range(30 if not thorough else 150)]
    for tr in triples:
        for order in range(5):
            tasks.append(dict(kind="ellipsoid", par=dict(radii=[float(x) for x in tr], order=order), cls=f"order{order}"))
    # cubes
    for s in sizes + [rnd() for _ in range(60 if not thorough else 600)]:
        tasks.append(dict(kind="cube", par=dict(size=s), cls="cube"))
    # boxes: all equality patterns incl. which axis carries the minimum, exact and near ties
    bs = []
    for a, b in itertools.product([1e-2, 0.5, 1.0, 100.0], repeat=2):
        if a == b:
            bs.append((a, a, a))
        else:
            bs += [(a, a, b), (a, b, a), (b, a, a)]
    for a, b, c in itertools.permutations([0.3, 1.0, 2.5]):
        bs.append((a, b, c))
    bs += [(1e-2, 1.0, 100.0), (100.0, 1e-2, 1.0), (1.0, 100.0, 1e-2)]
    for e in [1e-15, 2e-14, 1e-13, 1e-9, 1e-6]:     # near ties around the factory's relative tolerance 1e-14
        bs += [(1.0, 1.0 + e, 2.0), (1.0 + e, 1.0, 1.0), (1.0, 1.0, 1.0 + e), (2.0, 1.0 + e, 1.0), (100.0, 100.0 * (1 + e), 100.0),
               (0.01, 0.01 * (1 + e), 0.01 * (1 + 2 * e))]
    for _ in range(300 if not thorough else 3000):
        k = rng.integers(3)
        a, b, c = rnd(), rnd(), rnd()
        bs.append([(a, b, c), (a, a, b), (a, a, a)][k])
    for s in bs:
        tasks.append(dict(kind="box", par=dict(size=[float(x) for x in s]), cls=box_class(s)))
    # cylinders: three classes, class boundary length = 2 radius exactly and +- a few ulps / tolerance widths, vertex counts 3..~200
    cy = []
    radii = [1e-2, 0.1, 0.5, 1.0, 3.0, 100.0] if not thorough else [1e-2, 0.05, 0.1, 0.5, 1.0, 3.0, 17.0, 100.0]
    nvs = [3, 4, 5, 8, 16, 50] if not thorough else [3, 4, 5, 6, 7, 8, 16, 33, 64, 200]
    for r in radii:
        lengths = [2 * r, 2 * r * (1 + 1e-15), 2 * r * (1 - 1e-15), 2 * r * (1 + 1e-13), 2 * r * (1 - 1e-13), 2 * r * (1 + 1e-9), 2 * r * (1 - 1e-9),
                   2 * r + 4e-14, 2 * r - 4e-14, 2.5 * r, 1.5 * r, 0.2 * r, 10 * r]
        lengths += [1e-2, 100.0]
        for length in lengths:
            if not (1e-2 <= length <= 100.0):
                continue
            for nv in nvs:
                cy.append((r, float(length), nv))
    for _ in range(200 if not thorough else 2000):
        cy.append((rnd(), rnd(), int(rng.integers(3, 40))))
    for r, length, nv in cy:
        hint = 2 * math.pi * r / (nv - 0.5)          # ceil(2 pi r / hint) = nv
        tasks.append(dict(kind="cylinder", par=dict(radius=r, length=length, resolution_hint=hint), cls=cyl_class(r, length)))
    for r, length in [(1.0, 2.0), (1.0, 3.0), (1.0, 0.5), (0.05, 0.1), (0.05, 1.0)]:      # the default hint of RigidBody.make_cylinder
        tasks.append(dict(kind="cylinder", par=dict(radius=r, length=length, resolution_hint=0.1), cls=cyl_class(r, length)))
    tasks.append(dict(kind="cylinder", par=dict(radius=1.0, length=2.0, resolution_hint=100.0), cls="medium"))
    for r, length, hint in [(1.0, 2.0, 0.01), (1.0, 0.3, 0.02), (10.0, 50.0, 0.1)] if thorough else [(1.0, 2.0, 0.02)]:     # fine hints
        tasks.append(dict(kind="cylinder", par=dict(radius=r, length=length, resolution_hint=hint), cls=cyl_class(r, length)))     # coarse hint -> 3 vertices
    # capsules
    ca = []
    for r in radii:
        for h in [1e-2, 0.1 * r, r, 2 * r, 10 * r, 100.0]:
            if not (1e-2 <= h <= 100.0):
                continue
            for nv in ([3, 4, 5, 8, 13, 24] if not thorough else [3, 4, 5, 6, 7, 8, 13, 24, 40]):
                ca.append((r, float(h), nv))
    for _ in range(150 if not thorough else 1500):
        ca.append((rnd(), rnd(), int(rng.integers(3, 30))))
    for r, h, nv in ca:
        hint = 2 * math.pi * r / (nv + 0.5)          # int(2 pi r / hint) = nv
        tasks.append(dict(kind="capsule", par=dict(radius=r, height=h, resolution_hint=hint), cls=f"circles_per_cap={nv // 2}" if nv < 6 else "fine"))
    for r, h in [(0.5, 1.0), (0.05, 0.2)]:
        tasks.append(dict(kind="capsule", par=dict(radius=r, height=h, resolution_hint=0.1), cls="fine"))
    tasks.append(dict(kind="capsule", par=dict(radius=1.0, height=1.0, resolution_hint=100.0), cls="circles_per_cap=1"))
    for _ in range(1000 if not thorough else 10000):
        tasks.append(dict(kind="soup", par={}, cls="soup"))
    for i, t in enumerate(tasks):
        t["seed"] = int(rng.integers(2 ** 31))
        t["n_samples"] = ns
    return tasks


def pmap_partial(fn, tasks, jobs=16, timeout=600):
    """like _common.pmap but task-wise: returns (results, pending) where results[i] is None for the tasks that had not returned at
    the deadline.  A native hang blocks one worker with one task while the others drain the queue, so 'few pending, rest done' is
    the signature of a hang; 'many pending' means the time budget was too small for this machine load (reported as undecided)."""
    import multiprocessing as mp
    ctx = mp.get_context("fork")
    pool = ctx.Pool(min(jobs, max(1, len(tasks))))
    handles = [pool.apply_async(fn, (t,)) for t in tasks]
    results = [None] * len(tasks)
    pending = set(range(len(tasks)))
    deadline = time.time() + timeout
    while pending and time.time() < deadline:
        for i in list(pending):
            if handles[i].ready():
                try:
                    results[i] = handles[i].get(0)
                except Exception as e:           # the worker function itself never raises; this is a pickling / pool problem
                    results[i] = dict(pool_error=f"{type(e).__name__}: {e}")
                pending.discard(i)
        time.sleep(0.05)
    pool.terminate()
    pool.join()
    return results, sorted(pending)


def order_failures(failures):
    """emit() keeps the first 60 failures: put one representative of every (contract, obligation) first, and count all"""
    counts, first, rest = {}, [], []
    for f in failures:
        k = f["contract"] + " | " + f["obligation"]
        counts[k] = counts.get(k, 0) + 1
        (first if counts[k] == 1 else rest).append(f)
    return first + rest, dict(sorted(counts.items()))


def main():
    a = C.args()
    t0 = time.time()
    rng = np.random.default_rng(a.seed)
    tasks = build_tasks(a.tier, rng)
    warm = None
    try:        # import (and, with a cold numba cache, compile) once in the parent; the forked workers inherit the loaded modules
        import distance3d.hydroelastic_contact  # noqa: F401
    except Exception as e:
        warm = f"{type(e).__name__}: {e}"
    # heavy cases (order 4) first so that the pool is balanced
    order = sorted(range(len(tasks)), key=lambda i: -(tasks[i]["par"].get("order", 0)))
    tasks = [tasks[i] for i in order]
    ng = (len(tasks) + 7) // 8
    groups = [tasks[i::ng] for i in range(ng)]
    gres, pending = pmap_partial(run_group, groups, jobs=a.jobs, timeout=(1150 if a.tier == "thorough" else 140) - (time.time() - t0))
    failures, samples, nontrivial = [], [], set()
    evals = undecided = neg = 0
    extra = {}
    if pending:
        extra["unfinished_task_groups"] = len(pending)
        if len(pending) <= a.jobs:        # hang signature, see pmap_partial
            for i in pending:
                failures.append(dict(contract="hydroelastic.make_tetrahedral_*", obligation="terminates",
                                     detail="a group of 8 cases did not return before the watchdog deadline while all other groups finished",
                                     input=dict(cases=[dict(kind=t["kind"], **t["par"]) for t in groups[i]])))
        else:
            undecided += 8 * len(pending)
    herr = [g["pool_error"] for g in gres if isinstance(g, dict)]
    results = [r for g in gres if isinstance(g, list) for r in g]
    for r in results:
        evals += r["evals"]
        failures += r["failures"]
        undecided += r["undecided"]
        neg += r["neg_oriented"]
        if r["nontrivial"] is not None:
            nontrivial.add(r["nontrivial"])
        if r.get("harness_error"):
            herr.append(r["harness_error"])
    seen = set()
    for r in results:
        s = r["sample"]
        if s and s["contract"].split("[")[0] not in seen:
            seen.add(s["contract"].split("[")[0])
            samples.append(s)
    by_kind = {}
    for t in tasks:
        by_kind[t["kind"]] = by_kind.get(t["kind"], 0) + 1
    if herr:
        extra["harness_errors"] = herr[:5]
    if warm:
        extra["warm_up_error"] = warm
    failures, extra["failure_counts"] = order_failures(failures)
    import distance3d
    extra["library"] = os.path.dirname(distance3d.__file__)
    C.emit(t0, evals, len(nontrivial),
           "a factory case is non-trivial when the mesh has >= 8 tetrahedra and at least one vertex classified interior by the closed-form "
           "depth of the analytic shape (so volume, tiling and both potential clauses are all exercised); a helper case when the "
           "tetrahedron soup has positive total volume",
           samples, failures,
           f"parameter grid, tier {a.tier}: {by_kind} cases; sizes/radii/lengths/heights in [1e-2,1e2] (grid + log-uniform random), sphere/ellipsoid "
           "orders 0-4, boxes in all equality classes incl. near ties 1e-15..1e-6 around the factory tolerance, cylinders long/medium/short "
           "incl. length = 2*radius exactly and +-1e-15..1e-9 relative, 3..200 vertices per circle, capsules 3..40 vertices per circle, "
           "default hints 0.1; helpers on factory meshes at the origin, rigidly moved within 1e3, and on random/lattice tetrahedron soups; "
           "RigidBody.make_* at random poses",
           undecided=undecided, negatively_oriented_tetrahedra=neg, **extra)


if __name__ == "__main__":
    main()
