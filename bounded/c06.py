"""Bounded stand-in for C06: BVH broad phase plus narrow phase finds exactly the brute-force collisions.

Runs the REAL distance3d.broad_phase.BoundingVolumeHierarchy / distance3d.self_collision (JIT as installed) on generated robots
(URDF strings: serial chains, branching trees, an axis-aligned 'lattice' family with prismatic joints where AABBs and colliders
touch exactly; and BVHs filled via add_collider with sphere/box/cylinder/capsule/cone/mesh colliders and hand-made, partly
asymmetric whitelists).  After every step of a history of joint / pose changes followed by update_collider_poses it checks

  pose_refreshed     collider.collider2origin() == tm.get_transform(frame, "origin")   (sphere: translation)
  overlap_set_exact  aabb_overlapping_colliders(q, whitelist) == {f : aabb_f overlaps aabb_q (closed intervals)} - whitelist
  pairs_exact        aabb_overlapping_with_self / aabb_overlapping_with_other_bvh == brute-force pairs, no duplicates
  detect_marks_all   detect marks f if some g != f outside W[f] has gjk_intersection(c_f, c_g)
  detect_marks_only  detect marks f only if some g with (g not in W[f] or f not in W[g]) collides with f
  detect_any_exact   detect_any == exists f, g outside W[f] colliding
  no_exception / terminates

Oracles: brute force over collider.aabb() with my own closed-interval test; all-pairs gjk_intersection (the narrow phase itself
is C01/C02's business: C06 is about pairs lost or invented between broad phase, whitelists and narrow phase).
contracts: broad_phase.BoundingVolumeHierarchy[<family>], self_collision.detect[<family>]
"""
import itertools
import math
import sys
import time
import warnings

import numpy as np

import _common as C
from c05 import run_guarded, exc_text            # forked workers with watchdog (my own helper, see c05.py)

FAMILIES = ("urdf_chain", "urdf_tree", "urdf_lattice", "add_collider", "empty")
HALF_PI = math.pi / 2


# ------------------------------------------------------------------------------------------------ closed-interval oracle
def aabb_overlap(a, b):
    a, b = np.asarray(a, dtype=float), np.asarray(b, dtype=float)
    return bool(np.all(a[:, 0] <= b[:, 1]) and np.all(a[:, 1] >= b[:, 0]))


def aabb_gap(a, b):
    """largest per-axis separation (> 0 iff disjoint)"""
    a, b = np.asarray(a, dtype=float), np.asarray(b, dtype=float)
    return float(max(np.max(a[:, 0] - b[:, 1]), np.max(b[:, 0] - a[:, 1])))


# ------------------------------------------------------------------------------------------------ URDF generation
def fmt(v):
    return " ".join(repr(float(x)) for x in v)


def geometry_xml(g):
    if g["type"] == "sphere":
        return '<sphere radius="%r"/>' % g["radius"]
    if g["type"] == "box":
        return '<box size="%s"/>' % fmt(g["size"])
    return '<cylinder radius="%r" length="%r"/>' % (g["radius"], g["length"])


def urdf_string(spec):
    out = ['<?xml version="1.0"?>', '<robot name="%s">' % spec["name"]]
    for l in spec["links"]:
        out.append('  <link name="%s">' % l["name"])
        for c in l["colliders"]:
            nm = ' name="%s"' % c["name"] if c.get("name") else ""
            out.append('    <collision%s><origin xyz="%s" rpy="%s"/><geometry>%s</geometry></collision>' % (
                nm, fmt(c["xyz"]), fmt(c["rpy"]), geometry_xml(c)))
        out.append("  </link>")
    for j in spec["joints"]:
        out.append('  <joint name="%s" type="%s"><origin xyz="%s" rpy="%s"/><parent link="%s"/><child link="%s"/>' % (
            j["name"], j["type"], fmt(j["xyz"]), fmt(j["rpy"]), j["parent"], j["child"]))
        if j["type"] != "fixed":
            out.append('    <axis xyz="%s"/><limit lower="%r" upper="%r"/>' % (fmt(j["axis"]), j["lower"], j["upper"]))
        out.append("  </joint>")
    out.append("</robot>")
    return "\n".join(out)


def random_geometry(rng, lattice=False):
    t = ("sphere", "box", "cylinder")[rng.integers(3)]
    if lattice:
        if t == "sphere":
            return dict(type="sphere", radius=0.5)
        if t == "box":
            return dict(type="box", size=[1.0, 1.0, float(rng.choice([0.5, 1.0]))])
        return dict(type="cylinder", radius=0.5, length=1.0)
    if t == "sphere":
        return dict(type="sphere", radius=float(rng.uniform(0.1, 0.4)))
    if t == "box":
        return dict(type="box", size=[float(x) for x in rng.uniform(0.1, 0.7, size=3)])
    return dict(type="cylinder", radius=float(rng.uniform(0.08, 0.3)), length=float(rng.uniform(0.2, 0.9)))


def robot_spec(family, rng):
    """serial chain / branching tree / lattice robot"""
    lattice = family == "urdf_lattice"
    n = int(rng.integers(2, 7))
    links, joints = [], []
    for i in range(n):
        k = int(rng.choice([0, 1, 1, 1, 2])) if i else int(rng.choice([0, 1]))
        cols = []
        for c in range(k):
            g = random_geometry(rng, lattice)
            if lattice:
                g["xyz"] = [float(x) for x in rng.integers(-1, 2, size=3) * 0.5]
                g["rpy"] = [float(x) for x in rng.integers(0, 4, size=3) * 0.0]
            else:
                g["xyz"] = [float(x) for x in rng.normal(size=3) * 0.15 + np.array([0, 0, 0.3])]
                g["rpy"] = [float(x) for x in (rng.integers(-2, 3, size=3) * HALF_PI if rng.random() < 0.4 else rng.uniform(-3, 3, size=3))]
            if rng.random() < 0.3:
                g["name"] = "c%d" % c
            cols.append(g)
        links.append(dict(name="l%d" % i, colliders=cols))
    if all(not l["colliders"] for l in links):
        g = random_geometry(rng, lattice)
        g["xyz"], g["rpy"] = [0.0, 0.0, 0.0], [0.0, 0.0, 0.0]
        links[-1]["colliders"].append(g)
    for i in range(1, n):
        if family == "urdf_chain":
            parent = i - 1
        elif family == "urdf_tree":
            parent = int(rng.integers(0, i)) if i > 2 else (0 if i == 2 or i == 1 else i - 1)
        else:
            parent = int(rng.integers(max(0, i - 2), i))
        if lattice:
            jt = ("prismatic", "prismatic", "fixed")[rng.integers(3)]
            axis = [0.0, 0.0, 0.0]
            axis[rng.integers(3)] = float(rng.choice([1.0, -1.0]))
            xyz = [float(x) for x in rng.integers(-1, 2, size=3)]
            rpy = [0.0, 0.0, 0.0]
            lower, upper = -2.0, 2.0
        else:
            jt = ("revolute", "revolute", "revolute", "prismatic", "fixed")[rng.integers(5)]
            if rng.random() < 0.6:
                axis = [0.0, 0.0, 0.0]
                axis[rng.integers(3)] = 1.0
            else:
                v = rng.normal(size=3)
                axis = [float(x) for x in v / np.linalg.norm(v)]
            xyz = [float(x) for x in rng.normal(size=3) * 0.1 + np.array([0, 0, 0.5])]
            rpy = [float(x) for x in (rng.integers(-1, 2, size=3) * HALF_PI if rng.random() < 0.5 else rng.uniform(-1, 1, size=3))]
            if jt == "revolute":
                lower, upper = (-math.pi, math.pi) if rng.random() < 0.5 else (float(-rng.uniform(0.5, 3)), float(rng.uniform(0.5, 3)))
            else:
                lower, upper = -0.8, 0.8
        joints.append(dict(name="j%d" % i, type=jt, parent="l%d" % parent, child="l%d" % i, xyz=xyz, rpy=rpy, axis=axis,
                           lower=lower, upper=upper))
    return dict(name="robot", links=links, joints=joints)


def joint_value(j, rng, lattice):
    if lattice:
        return float(rng.integers(-4, 5) * 0.5)
    r = rng.random()
    if r < 0.15:
        return j["lower"]
    if r < 0.3:
        return j["upper"]
    if r < 0.45:
        return float(rng.choice([-math.pi, -HALF_PI, 0.0, HALF_PI, math.pi])) if j["type"] == "revolute" else float(rng.choice([-0.5, 0.0, 0.5]))
    if r < 0.5:
        return j["upper"] + 1.0                      # beyond the limit: clipped by the transform manager
    return float(rng.uniform(j["lower"], j["upper"]))


def base_pose(rng, lattice):
    if lattice:
        return C.pose(C.CUBE[rng.integers(len(C.CUBE))] if rng.random() < 0.5 else np.eye(3), rng.integers(-1, 2, size=3).astype(float))
    r = rng.random()
    if r < 0.4:
        return np.eye(4)
    return C.lattice_or_random_pose(rng, scale=0.5, p_lattice=0.5)


# ------------------------------------------------------------------------------------------------ scene = BVH + bookkeeping
QUERY_KINDS = ("box", "sphere", "capsule", "cylinder", "cone", "mesh", "ellipsoid")
ADD_KINDS = ("sphere", "box", "cylinder", "capsule", "cone", "mesh")


class Scene:
    pass


def build_scene(sc, rng):
    from pytransform3d.urdf import UrdfTransformManager
    from pytransform3d.transform_manager import TransformManager
    from distance3d import broad_phase
    fam = sc["family"]
    s = Scene()
    s.family, s.lattice = fam, fam == "urdf_lattice"
    s.desc = {}
    if fam in ("urdf_chain", "urdf_tree", "urdf_lattice", "empty"):
        spec = robot_spec("urdf_chain" if fam == "empty" else fam, rng)
        if fam == "empty":
            for l in spec["links"]:
                l["colliders"] = []
        s.spec = spec
        s.urdf = urdf_string(spec)
        tm = UrdfTransformManager()
        tm.load_urdf(s.urdf)
        b2o = base_pose(rng, s.lattice)
        bvh = broad_phase.BoundingVolumeHierarchy(tm, spec["name"], base_frame2origin=b2o)
        bvh.fill_tree_with_colliders(tm, make_artists=False, fill_self_collision_whitelists=True)
        s.joints = [j for j in spec["joints"] if j["type"] != "fixed"]
        s.base = spec["name"]
        s.desc = dict(urdf=s.urdf, base_frame2origin=b2o.tolist())
        s.free_frames = []
    else:
        tm = TransformManager()
        b2o = base_pose(rng, False)
        bvh = broad_phase.BoundingVolumeHierarchy(tm, "world", base_frame2origin=b2o)
        n = int(rng.integers(1, 9))
        s.free_frames, cols = [], []
        for i in range(n):
            kind = ADD_KINDS[rng.integers(len(ADD_KINDS))]
            T = C.lattice_or_random_pose(rng, scale=0.6, p_lattice=0.4)
            size = float(rng.choice([0.25, 0.5, 0.5, 1.0]))
            col = C.make_collider(kind, T, size, rng)
            frame = "f%d_%s" % (i, kind)
            tm.add_transform(frame, "world", T)
            bvh.add_collider(frame, col["obj"])
            s.free_frames.append(frame)
            cols.append(dict(frame=frame, kind=kind, size=size, pose=T.tolist()))
        # hand-made whitelists: own frame mostly whitelisted, random others (asymmetric on purpose)
        for f in s.free_frames:
            w = [f] if rng.random() < 0.85 else []
            for g in s.free_frames:
                if g != f and rng.random() < 0.25:
                    w.append(g)
            bvh.self_collision_whitelists_[f] = w
        bvh.update_collider_poses()
        s.joints, s.base = [], "world"
        s.desc = dict(colliders=cols, base_frame2origin=b2o.tolist(),
                      whitelists={k: list(v) for k, v in bvh.self_collision_whitelists_.items()})
    s.tm, s.bvh = tm, bvh
    return s


def apply_step(s, rng):
    """a batch of joint / pose changes; returns a JSON-able description"""
    log = []
    if s.joints:
        k = int(rng.integers(1, len(s.joints) + 1))
        for idx in rng.permutation(len(s.joints))[:k]:
            j = s.joints[idx]
            v = joint_value(j, rng, s.lattice)
            s.tm.set_joint(j["name"], v)
            log.append(["set_joint", j["name"], v])
        if rng.random() < 0.3:                       # a second write to one of them before the refresh
            j = s.joints[rng.integers(len(s.joints))]
            v = joint_value(j, rng, s.lattice)
            s.tm.set_joint(j["name"], v)
            log.append(["set_joint", j["name"], v])
    if s.free_frames:
        k = int(rng.integers(1, len(s.free_frames) + 1))
        for idx in rng.permutation(len(s.free_frames))[:k]:
            f = s.free_frames[idx]
            T = C.lattice_or_random_pose(rng, scale=0.6, p_lattice=0.4)
            s.tm.add_transform(f, "world", T)
            log.append(["add_transform", f, "world", T.tolist()])
    if rng.random() < 0.25:                          # move the whole robot / scene
        T = base_pose(rng, s.lattice)
        s.tm.add_transform(s.base, "origin", T)
        log.append(["add_transform", s.base, "origin", T.tolist()])
    return log


def make_queries(s, rng, boxes, nq):
    """query colliders: random / lattice ones near the scene, and axis-aligned boxes whose AABB touches a collider's AABB"""
    qs = []
    frames = list(boxes.keys())
    for t in range(nq):
        kind = QUERY_KINDS[rng.integers(len(QUERY_KINDS))]
        if frames and t % 3 == 0:                    # touching: axis-aligned unit box placed against an AABB face / edge / corner
            b = boxes[frames[rng.integers(len(frames))]]
            ctr = 0.5 * (b[:, 0] + b[:, 1])
            half = float(rng.choice([0.25, 0.5]))
            for a in rng.permutation(3)[: int(rng.integers(1, 4))]:
                ctr[a] = b[a, 1] + half if rng.random() < 0.5 else b[a, 0] - half
            if rng.random() < 0.5:
                col = C.make_collider("sphere", C.pose(np.eye(3), ctr), half)
            else:
                from distance3d import colliders
                col = dict(kind="box", obj=colliders.Box(C.pose(np.eye(3), ctr), np.full(3, 2 * half)), size=2 * half)
            qs.append(("touch", col))
        else:
            if frames and rng.random() < 0.6:
                b = boxes[frames[rng.integers(len(frames))]]
                ctr = 0.5 * (b[:, 0] + b[:, 1]) + rng.normal(size=3) * 0.3
            else:
                ctr = rng.normal(size=3)
            R = C.CUBE[rng.integers(len(C.CUBE))] if rng.random() < 0.4 else C.random_rotation(rng)
            qs.append((kind, C.make_collider(kind, C.pose(R, ctr), float(rng.choice([0.2, 0.5, 1.0])))))
    return qs


def make_other_bvh(s, rng, boxes):
    from pytransform3d.transform_manager import TransformManager
    from distance3d import broad_phase
    tm2 = TransformManager()
    other = broad_phase.BoundingVolumeHierarchy(tm2, "world2")
    m = int(rng.integers(1, 6))
    frames = list(boxes.keys())
    for i in range(m):
        kind = ADD_KINDS[rng.integers(len(ADD_KINDS))]
        if frames and rng.random() < 0.7:
            b = boxes[frames[rng.integers(len(frames))]]
            ctr = 0.5 * (b[:, 0] + b[:, 1]) + rng.normal(size=3) * 0.3
        else:
            ctr = rng.normal(size=3)
        T = C.pose(C.CUBE[rng.integers(len(C.CUBE))] if rng.random() < 0.5 else C.random_rotation(rng), ctr)
        col = C.make_collider(kind, T, float(rng.choice([0.25, 0.5, 1.0])))
        tm2.add_transform("o%d" % i, "world2", T)
        other.add_collider("o%d" % i, col["obj"])
    if rng.random() < 0.5:
        for i in range(m):                           # move them and refresh: the other BVH has a history too
            T = tm2.get_transform("o%d" % i, "world2").copy()
            T[:3, 3] += rng.integers(-1, 2, size=3) * 0.5
            tm2.add_transform("o%d" % i, "world2", T)
        other.update_collider_poses()
    return other


# ------------------------------------------------------------------------------------------------ checks
def check_step(s, rng, sc, step_log, out, history):
    from distance3d import self_collision, gjk
    from distance3d.colliders import Sphere
    bvh, tm, fam = s.bvh, s.tm, s.family
    cB = "broad_phase.BoundingVolumeHierarchy[%s]" % fam
    cD = "self_collision.detect[%s]" % fam
    base_inp = dict(scenario=sc["id"], family=fam, history=history, **s.desc)

    def fail(contract, obl, detail, **extra):
        out["fails"].append((contract, obl, detail, dict(base_inp, **extra)))

    frames = list(bvh.colliders_.keys())
    # ---- pose_refreshed
    out["evals"] += 1
    L = 1.0
    for f in frames:
        col = bvh.colliders_[f]
        want = tm.get_transform(f, "origin")
        got = np.asarray(col.collider2origin(), dtype=float)
        L = max(L, float(np.linalg.norm(want[:3, 3])))
        if isinstance(col, Sphere):
            bad = not np.allclose(got[:3, 3], want[:3, 3], rtol=0, atol=1e-12)
        else:
            bad = not np.allclose(got, want, rtol=0, atol=1e-12)
        if bad:
            fail(cB, "pose_refreshed", "collider of frame %s has pose %s, transform manager says %s" % (f, got.tolist(), want.tolist()))
            break
    boxes = {f: np.asarray(bvh.colliders_[f].aabb(), dtype=float) for f in frames}
    # ---- overlap_set_exact: the BVH's own colliders (with own frame / generated whitelist) and external query colliders
    queries = [("own:" + f, bvh.colliders_[f], boxes[f], wl) for f in frames
               for wl in ((f,), tuple(bvh.self_collision_whitelists_.get(f, ())))]
    for kind, q in make_queries(s, rng, boxes, sc["nq"]):
        qb = np.asarray(q["obj"].aabb(), dtype=float)
        wl = tuple(f for f in frames if rng.random() < 0.2) if rng.random() < 0.3 else ()
        queries.append((kind, q["obj"], qb, wl))
    for kind, qobj, qb, wl in queries:
        out["evals"] += 1
        want = {f for f in frames if aabb_overlap(boxes[f], qb)} - set(wl)
        try:
            res = bvh.aabb_overlapping_colliders(qobj, whitelist=wl)
        except Exception as e:                       # noqa
            fail(cB, "no_exception", "aabb_overlapping_colliders raised " + exc_text(e), query_kind=kind, query_aabb=qb.tolist())
            continue
        got = set(res.keys())
        if got != want:
            fail(cB, "overlap_set_exact", "missing %s, spurious %s (whitelist %s)" % (sorted(want - got), sorted(got - want), list(wl)),
                 query_kind=kind, query_aabb=qb.tolist(), aabbs={f: boxes[f].tolist() for f in frames})
        elif any(res[f] is not bvh.colliders_[f] for f in got):
            fail(cB, "overlap_set_exact", "a returned collider is not the collider registered for its frame", query_kind=kind)
    # ---- pairs_exact: with self
    out["evals"] += 1
    want_pairs = {(f, g) for f in frames for g in frames if f != g and aabb_overlap(boxes[f], boxes[g])}
    try:
        res = bvh.aabb_overlapping_with_self()
        got_list = [(p[0][0], p[1][0]) for p in res]
        ok_objs = all(p[0][1] is bvh.colliders_[p[0][0]] and p[1][1] is bvh.colliders_[p[1][0]] for p in res)
        if len(set(got_list)) != len(got_list):
            fail(cB, "pairs_exact", "aabb_overlapping_with_self reports pairs more than once: %s" % (
                [p for p in set(got_list) if got_list.count(p) > 1][:4],))
        if set(got_list) != want_pairs or not ok_objs:
            fail(cB, "pairs_exact", "aabb_overlapping_with_self: missing %s, spurious %s%s" % (
                sorted(want_pairs - set(got_list))[:6], sorted(set(got_list) - want_pairs)[:6], "" if ok_objs else ", wrong collider objects"),
                aabbs={f: boxes[f].tolist() for f in frames})
    except Exception as e:                           # noqa
        fail(cB, "no_exception", "aabb_overlapping_with_self raised " + exc_text(e))
    # ---- pairs_exact: with another BVH (both directions) and with itself as 'other'
    try:
        other = make_other_bvh(s, rng, boxes)
        oboxes = {f: np.asarray(c.aabb(), dtype=float) for f, c in other.colliders_.items()}
    except Exception as e:                           # noqa
        other = None
        fail(cB, "no_exception", "building the second BVH raised " + exc_text(e))
    pairs_jobs = [("self_as_other", bvh, boxes, bvh, boxes)]
    if other is not None:
        pairs_jobs += [("other", bvh, boxes, other, oboxes), ("other_reversed", other, oboxes, bvh, boxes)]
    for name, A, bA, B, bB in pairs_jobs:
        out["evals"] += 1
        want = {(f, g) for f in bA for g in bB if aabb_overlap(bA[f], bB[g])}
        try:
            res = A.aabb_overlapping_with_other_bvh(B)
        except Exception as e:                       # noqa
            fail(cB, "no_exception", "aabb_overlapping_with_other_bvh (%s) raised " % name + exc_text(e))
            continue
        try:
            got_list = [(p[0][0], p[1][0]) for p in res]
            ok_objs = all(p[0][1] is A.colliders_[p[0][0]] and p[1][1] is B.colliders_[p[1][0]] for p in res)
            if len(set(got_list)) != len(got_list):
                fail(cB, "pairs_exact", "aabb_overlapping_with_other_bvh (%s) reports pairs more than once" % name)
            if set(got_list) != want or not ok_objs:
                fail(cB, "pairs_exact", "aabb_overlapping_with_other_bvh (%s): missing %s, spurious %s%s" % (
                    name, sorted(want - set(got_list))[:6], sorted(set(got_list) - want)[:6], "" if ok_objs else ", wrong collider objects"),
                    aabbs_self={f: b.tolist() for f, b in bA.items()}, aabbs_other={f: b.tolist() for f, b in bB.items()})
        except Exception as e:                       # noqa
            fail(cB, "pairs_exact", "aabb_overlapping_with_other_bvh (%s): result is not a list of ((frame, collider), (frame, collider)) "
                 "of registered colliders: %s" % (name, exc_text(e)))
    # ---- self collision
    W = {f: set(bvh.self_collision_whitelists_.get(f, ())) for f in frames}
    if frames and all(f in bvh.self_collision_whitelists_ for f in frames):
        out["evals"] += 2
        coll, unknown = {}, []
        for f in frames:
            for g in frames:
                try:
                    coll[(f, g)] = bool(gjk.gjk_intersection(bvh.colliders_[f], bvh.colliders_[g]))
                except Exception as e:               # noqa  the narrow phase itself failed on this pair: the oracle cannot decide it
                    coll[(f, g)] = None
                    unknown.append((f, g, exc_text(e)))
        if unknown:
            out["undecided"] += 1
            if out.get("oracle_exception") is None:
                f, g, txt = unknown[0]
                out["oracle_exception"] = dict(scenario=sc["id"], family=fam, pair=[f, g], error=txt, history=history,
                                               colliders=[type(bvh.colliders_[x]).__name__ for x in (f, g)],
                                               poses=[np.asarray(bvh.colliders_[x].collider2origin()).tolist() for x in (f, g)])
        if True:
            try:
                contacts = self_collision.detect(bvh)
            except Exception as e:                   # noqa
                contacts = None
                fail(cD, "no_exception", "detect raised " + exc_text(e))
            try:
                any_ = bool(self_collision.detect_any(bvh))
            except Exception as e:                   # noqa
                any_ = None
                fail(cD, "no_exception", "detect_any raised " + exc_text(e))
            tol_gap = 1e-9 * L

            def witnesses(f):
                return [g for g in frames if g != f and g not in W[f] and coll[(f, g)] is True]

            def classify(ws_pairs):
                """some witness pair has overlapping AABBs -> 'broad' (pipeline lost it); all have a real AABB gap -> 'aabb'; else undecided"""
                gaps = [aabb_gap(boxes[f], boxes[g]) for f, g in ws_pairs]
                if any(x <= 0 for x in gaps):
                    return "broad", gaps
                if all(x > tol_gap for x in gaps):
                    return "aabb", gaps
                return "undecided", gaps

            if contacts is not None:
                if set(contacts.keys()) - set(frames):
                    fail(cD, "detect_marks_only", "detect reports unknown frames %s" % sorted(set(contacts.keys()) - set(frames)))
                for f in frames:
                    marked = bool(contacts.get(f, False))
                    ws = witnesses(f)
                    if ws and not marked:
                        kind, gaps = classify([(f, g) for g in ws])
                        if kind == "undecided":
                            out["undecided"] += 1
                        else:
                            fail(cD, "detect_marks_all", "frame %s collides (gjk_intersection) with %s outside its whitelist %s but is not marked%s"
                                 % (f, ws, sorted(W[f]), "" if kind == "broad" else " (their AABBs do not overlap: gaps %s)" % gaps),
                                 contacts={k: bool(v) for k, v in contacts.items()})
                    if marked:
                        may = [g for g in frames if (g not in W[f] or f not in W[g]) and (coll[(f, g)] is not False or coll[(g, f)] is not False)]
                        if not may:
                            fail(cD, "detect_marks_only", "frame %s is marked but collides with no frame g with g outside W[f] or f outside W[g]" % f,
                                 contacts={k: bool(v) for k, v in contacts.items()}, whitelists={k: sorted(v) for k, v in W.items()})
            if any_ is not None:
                must = [(f, g) for f in frames for g in witnesses(f)]
                may = any(coll[(f, g)] is not False for f in frames for g in frames if g not in W[f])
                if must and not any_:
                    kind, gaps = classify(must)
                    if kind == "undecided":
                        out["undecided"] += 1
                    else:
                        fail(cD, "detect_any_exact", "detect_any is False although %s collide outside the whitelist" % (must[:4],))
                if any_ and not may:
                    fail(cD, "detect_any_exact", "detect_any is True although no frame collides with a frame outside its whitelist",
                         whitelists={k: sorted(v) for k, v in W.items()})
            n_col = sum(1 for f in frames for g in frames if f < g and coll[(f, g)])
    else:
        n_col = 0
    # ---- non-triviality of this step
    n_pairs = len(frames) * (len(frames) - 1)
    if 0 < len(want_pairs) < max(n_pairs, 1):
        out["nontrivial"] += 1
        if out["sample"] is None and sc["id"] % 53 == 0:
            out["sample"] = dict(contract=cB, scenario=sc["id"], n_colliders=len(frames), n_boxes=len(frames), step=step_log,
                                 aabb_pairs=len(want_pairs) // 2, colliding_pairs=n_col,
                                 robot=s.desc.get("urdf", s.desc.get("colliders")))


def run_scenario(sc):
    warnings.filterwarnings("ignore")
    rng = np.random.default_rng([sc["seed"], sc["id"], 6])
    out = dict(evals=0, nontrivial=0, fails=[], sample=None, undecided=0)
    fam = sc["family"]
    cB = "broad_phase.BoundingVolumeHierarchy[%s]" % fam
    try:
        s = build_scene(sc, rng)
    except Exception as e:                           # noqa
        out["evals"] += 1
        out["fails"].append((cB, "no_exception", "building the BVH raised " + exc_text(e), dict(scenario=sc["id"], family=fam)))
        return out
    history = []
    try:
        check_step(s, rng, sc, ["initial"], out, list(history))          # right after fill_tree_with_colliders / first refresh
    except Exception as e:                           # noqa
        out["fails"].append((cB, "no_exception", "harness/step raised " + exc_text(e), dict(scenario=sc["id"], family=fam, **s.desc)))
    for k in range(sc["steps"]):
        try:
            log = apply_step(s, rng)
            history.append(log)
            s.bvh.update_collider_poses()
            if rng.random() < 0.2:
                s.bvh.update_collider_poses()        # refreshing twice must not change anything
                history.append(["update_collider_poses again"])
        except Exception as e:                       # noqa
            out["evals"] += 1
            out["fails"].append((cB, "no_exception", "joint change / update_collider_poses raised " + exc_text(e),
                                 dict(scenario=sc["id"], family=fam, history=history, **s.desc)))
            break
        check_step(s, rng, sc, log, out, list(history))
    return out


# ------------------------------------------------------------------------------------------------ main
def warm_up():
    for i, fam in enumerate(FAMILIES[:-1]):        # not the family `empty`: it may crash / hang and compiles nothing new
        for k in range(3):
            run_scenario(dict(id=10 ** 7 + i * 10 + k, family=fam, seed=0, steps=1, nq=7))


def _warm_task(t):
    try:
        warm_up()
        return dict(evals=0, nontrivial=0, fails=[], sample=None, ok=True)
    except Exception as e:                           # noqa
        return dict(evals=0, nontrivial=0, fails=[], sample=None, ok=False, error=exc_text(e))


def main():
    a = C.args()
    t0 = time.time()
    thorough = a.tier == "thorough"
    deadline = t0 + (1050 if thorough else 125)
    import distance3d
    repo_file = distance3d.__file__
    n_per = dict(urdf_chain=4000, urdf_tree=4000, urdf_lattice=4000, add_collider=4000, empty=12) if thorough else \
        dict(urdf_chain=400, urdf_tree=400, urdf_lattice=400, add_collider=400, empty=4)
    steps = 6 if thorough else 4
    nq = 9 if thorough else 6
    scenarios = []
    sid = 0
    for i in range(max(n_per.values())):             # interleave the families
        for fam in FAMILIES:
            if i < n_per[fam]:
                scenarios.append(dict(id=sid, family=fam, seed=a.seed, steps=steps, nq=nq))
                sid += 1
    # compile in a guarded worker (populates numba's on-disk cache), then in the parent so that forked workers inherit the code
    warm_res, warm_inc, _ = run_guarded([(_warm_task, [dict(id=-1, history=())], 600.0)], 1, deadline)
    warm_ok = bool(warm_res) and warm_res[0][1].get("ok")
    if warm_ok:
        try:
            warm_up()
        except Exception:                            # noqa
            warm_ok = False
    tot = dict(evals=0, nontriv=0, undecided=0)
    agg, samples, harness_errors, oracle_exc = {}, [], [], []

    def add(contract, obl, detail, inp, cnt=1):
        key = (contract, obl)
        sidx = inp.get("scenario", 1 << 60) if isinstance(inp, dict) else 1 << 61
        cur = agg.get(key)
        if cur is None:
            agg[key] = [cnt, sidx, detail, inp]
        else:
            cur[0] += cnt
            if inp is not None and sidx < cur[1]:
                cur[1:] = [sidx, detail, inp]

    def on_result(task, r):
        tot["evals"] += r["evals"]
        tot["nontriv"] += r["nontrivial"]
        tot["undecided"] += r.get("undecided", 0)
        if r.get("oracle_exception") is not None:
            oracle_exc.append((task["id"], r["oracle_exception"]))
        if r.get("harness_error") and len(harness_errors) < 20:
            harness_errors.append(dict(task=task.get("id"), error=r["harness_error"]))
        for (c, o, n_, d, i) in r["fails"]:
            add(c, o, d, i, n_)
        if r.get("sample") is not None and len(samples) < 2000:
            samples.append((task["id"], r["sample"]))

    chunk_n = 8
    tmo = 60.0 if warm_ok else 600.0
    chunks = [(run_scenario, scenarios[i:i + chunk_n], tmo) for i in range(0, len(scenarios), chunk_n)]
    _, incidents, skipped = run_guarded(chunks, a.jobs, deadline, on_result)
    for task, kind, info in incidents + [(dict(id=-1, family="warm_up"), k, "during warm-up: " + i) for _, k, i in warm_inc]:
        tot["evals"] += 1
        contract = "broad_phase.BoundingVolumeHierarchy[%s]" % task.get("family", "?")
        inp = dict(scenario=task["id"], family=task.get("family"), seed=a.seed, note="re-run run_scenario(dict(id=.., family=.., seed=.., steps=%d, nq=%d))" % (steps, nq))
        add(contract, "terminates" if kind == "hang" else "no_exception",
            ("scenario did not finish: " if kind == "hang" else "process crashed: ") + info, inp)
    failures = []
    for (c, o) in sorted(agg):
        cnt, sidx, detail, inp = agg[(c, o)]
        failures.append(dict(contract=c, obligation=o, detail="%s  [%d case(s) of this kind]" % (detail, cnt), input=inp))
    samples.sort(key=lambda x: x[0])
    pick = [x[1] for x in samples[:: max(1, len(samples) // 6)]][:6]
    domain = ("%d scenarios (%s), each = generated robot / collider set + history of %d steps (random subsets of joints set to limits, lattice angles "
              "0/+-pi/2/pi, out-of-limit and random values; moved free frames; moved base; double refresh) with all checks after the initial fill and after "
              "every update_collider_poses; URDF robots: 2-6 links, 0-2 sphere/box/cylinder colliders per link, revolute/prismatic/fixed joints, chain or "
              "branching, random or lattice base pose; urdf_lattice: unit colliders on the half-integer lattice, axis-parallel prismatic joints with "
              "half-integer values (exactly touching AABBs and colliders); add_collider: 1-8 sphere/box/cylinder/capsule/cone/mesh colliders with "
              "hand-made asymmetric whitelists; per step: 2 queries per own collider + %d external query colliders (%s; every third touches an AABB "
              "exactly), self pairs, pairs against a second BVH (1-5 colliders, both directions) and against itself, detect and detect_any against "
              "all-pairs gjk_intersection; repo %s") % (len(scenarios), ", ".join("%s: %d" % (f, n_per[f]) for f in FAMILIES), steps, nq,
                                                          "/".join(QUERY_KINDS), repo_file)
    rule = ("non-trivial = step in which the set of collider pairs with overlapping AABBs is neither empty nor all pairs; distinct by (scenario, step): "
            "every scenario has its own robot and every step its own joint configuration")
    extra = dict(failure_counts={"%s :: %s" % k: v[0] for k, v in sorted(agg.items())}, scenarios=len(scenarios), skipped_for_time=skipped,
                 undecided=tot["undecided"])
    if harness_errors:
        extra["harness_errors"] = harness_errors[:5]
    if oracle_exc:
        oracle_exc.sort(key=lambda x: x[0])
        extra["oracle_exceptions"] = dict(count=len(oracle_exc), meaning="gjk_intersection raised on a pair in the all-pairs oracle; the pair is "
                                          "treated as unknown (lenient both ways), the step is counted in `undecided`", first=oracle_exc[0][1])
    if not warm_ok:
        extra["note"] = "warm-up failed: %s" % ((warm_res[0][1].get("error") if warm_res else None) or warm_inc,)
    C.emit(t0, tot["evals"], tot["nontriv"], rule, pick, failures, domain, **extra)


if __name__ == "__main__":
    main()
