"""BOUNDED stand-in for C11: the d returned by every function of distance3d.distance is the global minimum distance: no pair
of points, one on each primitive, is closer than d - 1e-6*L (5e-3*L for line_to_circle).  Inputs whose direction cosines fall
strictly inside (0, 1e-2) of a parallel / perpendicular decision of a function with a documented epsilon argument are skipped.

Oracles (all written here or in bounded/c10.py, independent of the code under test, and SOUND):
  * UPPER bounds = witness pairs of verified member points:
      - exact feature enumeration for flat / polyhedral primitives (vertex -> other primitive, edge x edge closest pair of own
        clamped-QP solver, edge x face piercing point, plane x plane intersection point);
      - dense 1-D scans over the circle angle / disk rims with bounded Brent refinement;
      - closed-form support points (plane vs ellipsoid / cylinder), closed-form disk-disk common points;
      - brute-force parameter sampling + scipy L-BFGS-B multi-start over the parameters of one primitive (objective: exact
        closed-form distance to the other), scipy SLSQP over the joint parameters, alternating closed-form projections.
    a failure is reported ONLY when such a pair is closer than d - tol.
  * LOWER bounds (to count a case as decided-optimal, never to fail it): separating-slab certificate with closed-form support
    functions for convex pairs; Lipschitz branch-and-bound over the circle angle for circle pairs.
  A case with neither a refuting witness nor a certificate is counted as undecided.

    cd /verif && .venv/bin/python bounded/c11.py --tier quick|thorough --seed N
"""
import inspect
import math
import os
import sys
import time

for _v in ("OMP_NUM_THREADS", "OPENBLAS_NUM_THREADS", "MKL_NUM_THREADS", "NUMBA_NUM_THREADS"):
    os.environ.setdefault(_v, "1")

sys.path.insert(0, os.path.dirname(os.path.abspath(__file__)))
import _common as C
import numpy as np
from scipy import optimize

import c10 as K
from c10 import nrm, unit, proj, member_residual, orth_basis, EXACT, EPSF

D = K.D
HAS_EPS = {name: ("epsilon" in inspect.signature(getattr(D, name)).parameters) for name, _, _ in K.FUNCS}
INF = math.inf


def tolerance(fname, L):
    return (5e-3 if fname == "line_to_circle" else 1e-6) * L


# ------------------------------------------------------------------------------------------------- epsilon bands
def in_epsilon_band(fname, A, B):
    """True when the input lies strictly inside a thin band around a parallel / perpendicular decision that the function
    documents as epsilon-controlled (conservative: every pair of direction elements of the two primitives is looked at)"""
    if not HAS_EPS[fname]:
        return False
    for c, s in K.axis_cosines(A, B):
        if EXACT <= c < 1e-2 or EXACT <= s < 1e-2:
            return True
    if fname == "point_to_circle":                      # epsilon decides 'point on the axis of the circle'
        w = A["x"] - B["c"]
        rho = nrm(w - float(w @ B["n"]) * B["n"])
        if 0.0 < rho < 1e-2 * max(1.0, nrm(w)):
            return True
    return False


# ------------------------------------------------------------------------------------------------- features of flat primitives
POLY = {"point", "line", "segment", "plane", "triangle", "rectangle", "box"}


def rect_corners(P):
    h = 0.5 * P["lengths"]
    return [P["c"] + sx * h[0] * P["axes"][0] + sy * h[1] * P["axes"][1] for sx, sy in ((-1, -1), (1, -1), (1, 1), (-1, 1))]


def features(P):
    """(vertices, edges, faces): edges are (a, d, lo, hi) = {a + s d : lo <= s <= hi}, faces are flat primitives"""
    k = P["kind"]
    if k == "point":
        return [P["x"]], [], []
    if k == "line":
        return [P["p"]], [(P["p"], P["u"], -INF, INF)], []
    if k == "segment":
        return [P["a"], P["b"]], [(P["a"], P["b"] - P["a"], 0.0, 1.0)], []
    if k == "plane":
        return [P["p"]], [], [P]
    if k == "triangle":
        V = P["V"]
        return [V[0], V[1], V[2]], [(V[i], V[(i + 1) % 3] - V[i], 0.0, 1.0) for i in range(3)], [P]
    if k == "rectangle":
        cs = rect_corners(P)
        return cs, [(cs[i], cs[(i + 1) % 4] - cs[i], 0.0, 1.0) for i in range(4)], [P]
    if k == "box":
        R, t, h = P["T"][:3, :3], P["T"][:3, 3], 0.5 * P["size"]
        verts = [t + R @ (np.array([sx, sy, sz]) * h) for sx in (-1, 1) for sy in (-1, 1) for sz in (-1, 1)]
        edges = []
        for i in range(3):
            j, l = (i + 1) % 3, (i + 2) % 3
            for sj in (-1, 1):
                for sl in (-1, 1):
                    y = np.zeros(3)
                    y[i], y[j], y[l] = -h[i], sj * h[j], sl * h[l]
                    edges.append((t + R @ y, 2 * h[i] * R[:, i], 0.0, 1.0))
        faces = []
        for i in range(3):
            j, l = (i + 1) % 3, (i + 2) % 3
            for s in (-1, 1):
                faces.append(dict(kind="rectangle", c=t + s * h[i] * R[:, i], axes=np.array([R[:, j], R[:, l]]),
                                  lengths=np.array([P["size"][j], P["size"][l]])))
        return verts, edges, faces
    raise ValueError(k)


def face_plane(F):
    k = F["kind"]
    if k == "plane":
        return F["p"], F["n"]
    if k == "triangle":
        V = F["V"]
        return V[0], unit(np.cross(V[1] - V[0], V[2] - V[0]))
    return F["c"], unit(np.cross(F["axes"][0], F["axes"][1]))


def closest_param_lines(a1, d1, lo1, hi1, a2, d2, lo2, hi2):
    """candidate minimisers (s, t) of |a1 + s d1 - a2 - t d2|^2 over the box [lo1,hi1] x [lo2,hi2] (convex QP in two variables:
    the minimum is the interior stationary point or lies on a side of the box, where it is a clamped 1-D projection)"""
    Aq, Bq, Cq = float(d1 @ d1), float(d1 @ d2), float(d2 @ d2)
    w = a1 - a2
    Dq, Eq = float(d1 @ w), float(d2 @ w)
    clip1 = lambda s: min(hi1, max(lo1, s))
    clip2 = lambda t: min(hi2, max(lo2, t))
    out = []
    det = Aq * Cq - Bq * Bq
    if det > (EXACT ** 2) * Aq * Cq:
        s = (Bq * Eq - Cq * Dq) / det
        t = (Aq * Eq - Bq * Dq) / det
        if lo1 <= s <= hi1 and lo2 <= t <= hi2:
            out.append((s, t))
    for s0 in {clip1(0.0), lo1, hi1}:
        if math.isfinite(s0):
            out.append((s0, clip2((Eq + Bq * s0) / Cq)))
    for t0 in {clip2(0.0), lo2, hi2}:
        if math.isfinite(t0):
            out.append((clip1((Bq * t0 - Dq) / Aq), t0))
    return out


def poly_candidates(A, B):
    """candidate points near the closest pair of two flat / polyhedral primitives (exact feature enumeration)"""
    vA, eA, fA = features(A)
    vB, eB, fB = features(B)
    cands = list(vA) + list(vB)
    for (a1, d1, lo1, hi1) in eA:
        for (a2, d2, lo2, hi2) in eB:
            for s, t in closest_param_lines(a1, d1, lo1, hi1, a2, d2, lo2, hi2):
                cands.append(a1 + s * d1)
                cands.append(a2 + t * d2)
    for edges, faces in ((eA, fB), (eB, fA)):
        for (a, d, lo, hi) in edges:
            for F in faces:
                p, n = face_plane(F)
                den = float(d @ n)
                if abs(den) > EXACT * nrm(d):
                    s = float((p - a) @ n) / den
                    if lo <= s <= hi:
                        cands.append(a + s * d)
    if A["kind"] == "plane" and B["kind"] == "plane":
        n1, n2 = A["n"], B["n"]
        c = np.cross(n1, n2)
        if nrm(c) > EXACT:
            M = np.array([n1, n2, c])
            cands.append(np.linalg.solve(M, np.array([float(n1 @ A["p"]), float(n2 @ B["p"]), float(c @ (0.5 * (A["p"] + B["p"])))])))
    return cands


# ------------------------------------------------------------------------------------------------- vectorised distances (scans)
def dist_many(P, X):
    """distances of the rows of X to a point / line / segment / disk / circle (vectorised closed forms)"""
    k = P["kind"]
    if k == "point":
        return np.linalg.norm(X - P["x"], axis=1)
    if k == "line":
        W = X - P["p"]
        return np.linalg.norm(W - np.outer(W @ P["u"], P["u"]), axis=1)
    if k == "segment":
        d = P["b"] - P["a"]
        W = X - P["a"]
        tau = np.clip(W @ d / float(d @ d), 0.0, 1.0)
        return np.linalg.norm(W - np.outer(tau, d), axis=1)
    if k in ("disk", "circle"):
        W = X - P["c"]
        h = W @ P["n"]
        rho = np.linalg.norm(W - np.outer(h, P["n"]), axis=1)
        return np.hypot(np.maximum(rho - P["r"], 0.0) if k == "disk" else rho - P["r"], h)
    raise ValueError(k)


def rim_points(P, th):
    e1, e2 = orth_basis(P["n"])
    return P["c"] + P["r"] * (np.outer(np.cos(th), e1) + np.outer(np.sin(th), e2))


def rim_scan(P, other, n=4096, refine=3):
    """candidate points of the rim of a circle / disk that are closest to `other`: dense scan + bounded Brent refinement"""
    th = (np.arange(n) + 0.5) * (2 * math.pi / n)
    if other["kind"] in ("point", "line", "segment", "disk", "circle"):
        f = dist_many(other, rim_points(P, th))
        fun = lambda a: float(dist_many(other, rim_points(P, np.array([a])))[0])
    else:
        pts = rim_points(P, th[::8])
        th = th[::8]
        f = np.array([nrm(x - proj(other, x)) for x in pts])
        fun = lambda a: (lambda x: nrm(x - proj(other, x)))(rim_points(P, np.array([a]))[0])
    h = th[1] - th[0]
    loc = np.where((f <= np.roll(f, 1)) & (f <= np.roll(f, -1)))[0]
    loc = loc[np.argsort(f[loc])][:refine]
    out = []
    for i in loc:
        r = optimize.minimize_scalar(fun, bounds=(th[i] - h, th[i] + h), method="bounded", options=dict(xatol=1e-14))
        a = r.x if r.fun <= f[i] else th[i]
        out.append(rim_points(P, np.array([a]))[0])
    return out


def circle_lower_bound(Pc, other, target, cap=600000):
    """Lipschitz branch and bound over the circle angle: theta -> dist(c(theta), other) is r-Lipschitz, so on an interval of
    half-width w around a sample the function is >= sample - r*w.  Returns a certified lower bound of the minimum (>= target
    when the search could close every interval), or None when the budget is exceeded"""
    n = 4096
    w = math.pi / n
    th = (np.arange(n) + 0.5) * (2 * w)
    r = Pc["r"]
    lb_done = INF
    for _ in range(40):
        f = dist_many(other, rim_points(Pc, th))
        lb = f - r * w * (1 + 1e-9) - 1e-13 * (1 + float(np.max(np.abs(f))))
        keep = lb < target
        if np.any(~keep):
            lb_done = min(lb_done, float(np.min(lb[~keep])))
        if not np.any(keep):
            return lb_done
        th = th[keep]
        if 2 * len(th) > cap:
            return None
        w *= 0.5
        th = np.concatenate([th - w, th + w])
    return None


def line_param_lower_bound(A, Pc, target, d, cap=600000):
    """Lipschitz branch and bound over the arclength s of the line / segment A: s -> dist(x(s), circle) (closed form
    hypot(rho - r, h)) is 1-Lipschitz.  For a line only |s - s_c| <= r + d has to be searched (s_c = foot of the circle centre):
    outside, dist(x(s), circle) >= |x(s) - c| - r >= |s - s_c| - r > d >= target."""
    if A["kind"] == "segment":
        a0, u = A["a"], A["b"] - A["a"]
        lo, hi = 0.0, nrm(u)
        u = u / hi
    else:
        a0, u = A["p"], A["u"] / nrm(A["u"])
        sc = float((Pc["c"] - a0) @ u)
        half = (Pc["r"] + max(d, 0.0)) * (1 + 1e-9) + 1e-9
        lo, hi = sc - half, sc + half
    n = 4096
    w = (hi - lo) / (2 * n)
    sv = lo + (2 * np.arange(n) + 1) * w
    lb_done = INF
    for _ in range(40):
        F = dist_many(Pc, a0 + np.outer(sv, u))
        lb = F - w * (1 + 1e-9) - 1e-13 * (1 + float(np.max(np.abs(F))) + float(np.max(np.abs(sv))))
        keep = lb < target
        if np.any(~keep):
            lb_done = min(lb_done, float(np.min(lb[~keep])))
        if not np.any(keep):
            return lb_done
        sv = sv[keep]
        if 2 * len(sv) > cap:
            return None
        w *= 0.5
        sv = np.concatenate([sv - w, sv + w])
    return None


# ------------------------------------------------------------------------------------------------- parameter maps (scipy)
def param_spec(P, L):
    """(bounds, map u -> member point, special parameter values) of a primitive"""
    k = P["kind"]
    T = 1e3
    if k == "point":
        return [], (lambda u: P["x"]), []
    if k == "line":
        return [(-T, T)], (lambda u: P["p"] + (u[0] * L) * P["u"]), [[0.0]]
    if k == "segment":
        return [(0, 1)], (lambda u: P["a"] + u[0] * (P["b"] - P["a"])), [[0.0], [1.0], [0.5]]
    if k == "plane":
        e1, e2 = orth_basis(P["n"])
        return [(-T, T)] * 2, (lambda u: P["p"] + (u[0] * L) * e1 + (u[1] * L) * e2), [[0.0, 0.0]]
    if k == "triangle":
        V = P["V"]
        return [(0, 1)] * 2, (lambda u: V[0] + u[0] * ((1 - u[1]) * (V[1] - V[0]) + u[1] * (V[2] - V[0]))), \
            [[0, 0], [1, 0], [1, 1], [1, 0.5], [0.5, 0], [0.5, 1], [2 / 3, 0.5]]
    if k == "rectangle":
        h = 0.5 * P["lengths"]
        return [(-1, 1)] * 2, (lambda u: P["c"] + u[0] * h[0] * P["axes"][0] + u[1] * h[1] * P["axes"][1]), \
            [[a, b] for a in (-1, 0, 1) for b in (-1, 0, 1)]
    if k in ("circle", "disk"):
        e1, e2 = orth_basis(P["n"])
        if k == "circle":
            return [(None, None)], (lambda u: P["c"] + P["r"] * (math.cos(u[0]) * e1 + math.sin(u[0]) * e2)), \
                [[i * math.pi / 4] for i in range(8)]
        return [(0, 1), (None, None)], (lambda u: P["c"] + u[0] * P["r"] * (math.cos(u[1]) * e1 + math.sin(u[1]) * e2)), \
            [[0.0, 0.0]] + [[1.0, i * math.pi / 4] for i in range(8)]
    R, t = P["T"][:3, :3], P["T"][:3, 3]
    if k == "box":
        h = 0.5 * P["size"]
        return [(-1, 1)] * 3, (lambda u: t + R @ (np.asarray(u) * h)), [[a, b, c] for a in (-1, 0, 1) for b in (-1, 0, 1) for c in (-1, 0, 1)]
    if k == "ellipsoid":
        r = P["radii"]
        return [(0, 1), (None, None), (None, None)], \
            (lambda u: t + R @ (u[0] * r * np.array([math.sin(u[2]) * math.cos(u[1]), math.sin(u[2]) * math.sin(u[1]), math.cos(u[2])]))), \
            [[0, 0, 0]] + [[1, a * math.pi / 2, b * math.pi / 2] for a in range(4) for b in (0, 1, 2)]
    if k == "cylinder":
        return [(0, 1), (None, None), (-1, 1)], \
            (lambda u: t + R @ np.array([u[0] * P["r"] * math.cos(u[1]), u[0] * P["r"] * math.sin(u[1]), u[2] * 0.5 * P["l"]])), \
            [[0, 0, 0], [0, 0, 1], [0, 0, -1]] + [[1, a * math.pi / 2, z] for a in range(4) for z in (-1, 0, 1)]
    raise ValueError(k)


def sample_params(bounds, rng, n):
    U = np.empty((n, len(bounds)))
    for j, (lo, hi) in enumerate(bounds):
        if lo is None:
            U[:, j] = rng.uniform(0, 2 * math.pi, size=n)
        elif hi >= 100:                                  # unbounded primitive: parameters in units of L, concentrate near 0
            U[:, j] = rng.normal(size=n) * 2.0
        else:
            U[:, j] = rng.uniform(lo, hi, size=n)
    return U


def optimise_over(Pa, Pb, L, rng, n_samples, n_starts):
    """brute-force sampling of the parameters of Pa + L-BFGS-B multi-start; objective = squared closed-form distance to Pb.
    Returns (parameters, point of Pa, squared distance) per start"""
    bounds, fmap, specials = param_spec(Pa, L)
    if not bounds:
        return []
    g = lambda u: (lambda x: float(np.sum((x - proj(Pb, x)) ** 2)))(fmap(u))
    U = np.vstack([np.array(specials, dtype=float).reshape(-1, len(bounds)), sample_params(bounds, rng, n_samples)])
    vals = np.array([g(u) for u in U])
    out = []
    for i in np.argsort(vals)[:n_starts]:
        try:
            r = optimize.minimize(g, U[i], method="L-BFGS-B", bounds=bounds, options=dict(maxiter=200, ftol=1e-16, gtol=1e-12))
            u = r.x if r.fun <= vals[i] else U[i]
        except Exception:
            u = U[i]
        out.append((np.asarray(u, dtype=float), fmap(u), g(u)))
    return out


def joint_slsqp(A, B, L, ua, ub):
    """SLSQP over the joint parameters of both primitives (smooth objective |A(u) - B(v)|^2), started at the given parameters"""
    ba, fa, spa = param_spec(A, L)
    bb, fb, spb = param_spec(B, L)
    na = len(ba)
    if na + len(bb) == 0:
        return []
    u0 = np.concatenate([ua if ua is not None else np.zeros(0), ub if ub is not None else np.zeros(0)])
    if len(u0) != na + len(bb):
        return []
    obj = lambda u: float(np.sum((fa(u[:na]) - fb(u[na:])) ** 2))
    try:
        r = optimize.minimize(obj, u0, method="SLSQP", bounds=[(lo, hi) for lo, hi in ba + bb], options=dict(maxiter=100, ftol=1e-18))
        return [fa(r.x[:na]), fb(r.x[na:])]
    except Exception:
        return []


# ------------------------------------------------------------------------------------------------- special closed forms
def special_candidates(A, B):
    kA, kB = A["kind"], B["kind"]
    out = []
    if kA == "plane" and kB in ("ellipsoid", "cylinder"):
        R, t = B["T"][:3, :3], B["T"][:3, 3]
        l = R.T @ A["n"]
        for sgn in (-1.0, 1.0):
            if kB == "ellipsoid":
                r = B["radii"]
                q = nrm(r * l)
                y = sgn * r * r * l / q
            else:
                rho = math.hypot(l[0], l[1])
                y = np.array([sgn * B["r"] * l[0] / rho if rho > 0 else 0.0, sgn * B["r"] * l[1] / rho if rho > 0 else 0.0,
                              sgn * 0.5 * B["l"] * (1 if l[2] >= 0 else -1)])
            out.append(t + R @ y)
        out.append(t.copy())
        out.append(proj(A, t))
    if kA == "disk" and kB == "disk":
        out += [A["c"], B["c"]]
        n1, n2 = A["n"], B["n"]
        c = np.cross(n1, n2)
        if nrm(c) > EXACT:                          # common points lie on the intersection line of the two planes
            M = np.array([n1, n2, c])
            x0 = np.linalg.solve(M, np.array([float(n1 @ A["c"]), float(n2 @ B["c"]), float(c @ (0.5 * (A["c"] + B["c"])))]))
            u = unit(c)
            iv = []
            for P in (A, B):
                w = x0 - P["c"]
                b = float(w @ u)
                disc = b * b - (float(w @ w) - P["r"] ** 2)
                iv.append(None if disc < 0 else (-b - math.sqrt(disc), -b + math.sqrt(disc)))
            if iv[0] and iv[1]:
                lo, hi = max(iv[0][0], iv[1][0]), min(iv[0][1], iv[1][1])
                if lo <= hi:
                    out.append(x0 + 0.5 * (lo + hi) * u)
            for P, Q in ((A, B), (B, A)):           # closest point of the line to each centre, clamped into the other disk
                out.append(proj(Q, proj(dict(kind="line", p=x0, u=u), P["c"])))
        else:                                       # parallel planes: segment between the centres
            for s in (0.0, 0.25, 0.5, 0.75, 1.0):
                out.append(A["c"] + s * (B["c"] - A["c"]))
    return out


# ------------------------------------------------------------------------------------------------- witness search
def best_witness(fname, A, B, L, rng, tier):
    """smallest distance between VERIFIED member points found by all searches: a sound upper bound of the true distance"""
    kA, kB = A["kind"], B["kind"]
    cands = [K.centre(A), K.centre(B)]
    if kA in POLY and kB in POLY:
        cands += poly_candidates(A, B)
    cands += special_candidates(A, B)
    for P, Q in ((A, B), (B, A)):
        if P["kind"] in ("circle", "disk"):
            cands += rim_scan(P, Q)
    thorough = tier == "thorough"
    curved = not (kA in POLY and kB in POLY)
    ns, nst = (300, 4) if thorough else ((150, 3) if curved else (60, 2))
    oa = optimise_over(A, B, L, rng, ns, nst)
    ob = optimise_over(B, A, L, rng, ns, nst)
    cands += [o[1] for o in oa + ob]

    best, pair = INF, None

    def consider(x):
        nonlocal best, pair
        if not np.all(np.isfinite(x)):
            return
        for P, Q in ((A, B), (B, A)):
            a = proj(P, x)
            b = proj(Q, a)
            dd = nrm(a - b)
            if dd < best:
                best, pair = dd, ((a, b) if P is A else (b, a))
    for x in cands:
        consider(np.asarray(x, dtype=float))
    # alternating closed-form projections from the best pair
    a, b = pair
    prev = best
    for it in range(300 if thorough else 100):
        a = proj(A, b)
        b = proj(B, a)
        dd = nrm(a - b)
        if prev - dd <= 1e-15 * (1 + prev):
            break
        prev = dd
    consider(a)
    if thorough or curved:
        ua = min(oa, key=lambda o: o[2])[0] if oa else None
        ub = min(ob, key=lambda o: o[2])[0] if ob else None
        for x in joint_slsqp(A, B, L, ua, ub):
            consider(x)
    a, b = pair
    # the witness must consist of member points: closed-form predicates of c10; the residuals (float noise of the projections)
    # are ADDED to the bound, which keeps it an upper bound of the true distance
    ra, rb = member_residual(A, a), member_residual(B, b)
    if B["kind"] == "ellipsoid":                    # member_residual is only a lower bound there; proj() scales into the solid
        rb = max(rb, 4 * EPSF * float(max(B["radii"])))
    return best + ra + rb, a, b


# ------------------------------------------------------------------------------------------------- lower bounds
def support(P, n):
    """closed-form support value max_{x in P} n.x of a convex primitive (inf when unbounded along n)"""
    k = P["kind"]
    if k == "point":
        return float(n @ P["x"])
    if k == "line":
        return float(n @ P["p"]) if abs(float(n @ P["u"])) < EXACT else INF
    if k == "plane":
        return float(n @ P["p"]) if nrm(np.cross(n, P["n"])) < EXACT else INF
    if k == "segment":
        return max(float(n @ P["a"]), float(n @ P["b"]))
    if k == "triangle":
        return float(np.max(P["V"] @ n))
    if k == "rectangle":
        return float(n @ P["c"]) + float(np.abs(P["axes"] @ n) @ (0.5 * P["lengths"]))
    if k == "disk":
        return float(n @ P["c"]) + P["r"] * nrm(n - float(n @ P["n"]) * P["n"])
    R, t = P["T"][:3, :3], P["T"][:3, 3]
    l = R.T @ n
    if k == "box":
        return float(n @ t) + float(np.abs(l) @ (0.5 * P["size"]))
    if k == "ellipsoid":
        return float(n @ t) + nrm(P["radii"] * l)
    if k == "cylinder":
        return float(n @ t) + P["r"] * math.hypot(l[0], l[1]) + 0.5 * P["l"] * abs(l[2])
    raise ValueError(k)


def slab_lower_bound(A, B, pa, pb):
    """separating-slab certificate: for ANY unit n, dist(A, B) >= -(h_A(n) + h_B(-n)).  n is taken from the pair (pa, pb) and made
    orthogonal to the unbounded directions"""
    n = pb - pa
    if nrm(n) == 0.0:
        return -INF
    n = n / nrm(n)
    qs = []                                             # orthonormal basis of the unbounded line directions
    for P in (A, B):
        if P["kind"] == "line":
            q = P["u"] / nrm(P["u"])
            for _ in range(2):
                for q0 in qs:
                    q = q - float(q @ q0) * q0
            if nrm(q) > 1e-9:
                qs.append(q / nrm(q))
    for P in (A, B):
        if P["kind"] == "plane":
            sgn = float(n @ P["n"])
            if sgn == 0.0:
                return -INF
            n = math.copysign(1.0, sgn) * P["n"]
    for _ in range(2):
        for q0 in qs:
            n = n - float(n @ q0) * q0
    if nrm(n) < 1e-9:
        return -INF
    n = n / nrm(n)
    v = -(support(A, n) + support(B, -n))
    return v if math.isfinite(v) else -INF


# ------------------------------------------------------------------------------------------------- one case
def check_c11(fname, A, B, rng, tier):
    """returns (status, detail, d) with status in pass_trivial | certified | undecided | fail | skipped_band | skipped_c10"""
    if in_epsilon_band(fname, A, B):
        return "skipped_band", "", None
    try:
        d, p1, p2 = K.call_library(fname, A, B)
        d = float(d)
        p1 = np.asarray(p1, dtype=float).reshape(3)
        p2 = np.asarray(p2, dtype=float).reshape(3)
    except Exception as e:                                                      # noqa  (C10: no_exception)
        return "skipped_c10", "exception %s" % type(e).__name__, None
    if not math.isfinite(d):
        return "skipped_c10", "d not finite", None
    L = K.scene_L(A, B)
    tol = tolerance(fname, L) + 32 * EPSF * K.scene_extent(A, B)
    if d <= tol:
        return "pass_trivial", "", d
    w, a, b = best_witness(fname, A, B, L, rng, tier)
    if w < d - tol:
        return "fail", ("returned d=%.9g but member points a=%s (on primitive 1), b=%s (on primitive 2) are only %.9g apart "
                        "(d - witness = %.3e = %.2e*L > tol %.1e, L=%.3g)" % (d, a.tolist(), b.tolist(), w, d - w, (d - w) / L, tol, L)), d
    kA, kB = A["kind"], B["kind"]
    if kA in K.CONVEX and kB in K.CONVEX:
        lbs = [slab_lower_bound(A, B, a, b)]
        if np.all(np.isfinite(p1)) and np.all(np.isfinite(p2)):
            lbs.append(slab_lower_bound(A, B, p1, p2))
        if max(lbs) >= d - tol:
            return "certified", "", d
        return "undecided", "slab lower bound %.9g < d - tol = %.9g" % (max(lbs), d - tol), d
    if kB == "circle":
        if kA == "point":                          # closed form: |x - c(phi)|^2 = h^2 + rho^2 + r^2 - 2 rho r cos(phi) >= h^2 + (rho - r)^2
            if member_residual(B, A["x"]) * (1 - 1e-12) >= d - tol:
                return "certified", "", d
            return "undecided", "closed-form point-circle distance %.9g < d - tol" % member_residual(B, A["x"]), d
        lb = line_param_lower_bound(A, B, d - tol, d)
        if lb is None or lb < d - tol:
            lb = circle_lower_bound(B, A, d - tol)
        if lb is not None and lb >= d - tol:
            return "certified", "", d
        return "undecided", "neither branch and bound (over the line parameter, over the circle angle) closed", d
    return "undecided", "no certificate for this pair", d


RULE = ("distinct input bytes AND not inside an epsilon band AND library call returned a finite d > tol (so that the global search had "
        "to run) AND at least one of: a direction element of primitive 1 exactly parallel / perpendicular to one of primitive 2 "
        "(|sin| or |cos| < 1e-12); d smaller than the smallest feature size (near contact)")


def _worker_c11(task):
    fi, chunk, n, seed, tier = task
    fname, k1, k2 = K.FUNCS[fi]
    rng = np.random.default_rng([seed, 11, fi, chunk])
    orng = np.random.default_rng([seed, 1111, fi, chunk])
    out = dict(fi=fi, n=0, fails=[], digests=set(), nontrivial=set(), samples=[], status={}, undecided=[])
    directed = K.directed_cases(fname) if chunk == 0 else []
    for i in range(n + len(directed)):
        A, B, tag = directed[i - n] if i >= n else K.make_scene(k1, k2, rng)
        K.mark_progress(min(i, n - 1))
        st, detail, d = check_c11(fname, A, B, orng, tier)
        out["n"] += 1
        out["status"][st] = out["status"].get(st, 0) + 1
        dg = K.case_digest(fname, A, B)
        out["digests"].add(dg)
        if st in ("certified", "undecided", "fail"):
            fs = K.feature_sizes(A) + K.feature_sizes(B)
            if K.has_exact_degeneracy(A, B) or (fs and d < min(fs)):
                out["nontrivial"].add(dg)
        if st == "fail":
            out["fails"].append(dict(contract="distance." + fname, obligation="global_minimum", detail="[%s] %s" % (tag, detail),
                                     input=dict(primitive1=K.describe(A), primitive2=K.describe(B))))
        if st == "undecided" and len(out["undecided"]) < 2:
            out["undecided"].append(dict(function=fname, placement=tag, why=detail, primitive1=K.describe(A), primitive2=K.describe(B)))
        if i == 0 and chunk == 0:
            out["samples"].append(dict(function=fname, placement=tag, primitive1=K.describe(A), primitive2=K.describe(B), d=d, status=st))
    return out


def library_call_returns(fname, A, B, timeout=5.0):
    """runs the library call alone in a child process; False when it does not come back"""
    import multiprocessing as mp
    ctx = mp.get_context("fork")

    def target():
        try:
            K.call_library(fname, A, B)
        except Exception:                                                        # noqa (C10: no_exception)
            pass
    pr = ctx.Process(target=target, daemon=True)
    pr.start()
    pr.join(timeout)
    if pr.is_alive():
        pr.terminate()
        return False
    return True


DOMAIN = ("as bounded/c10.py (" + K.DOMAIN + ")  Minus: inputs of functions with a documented epsilon argument for which some pair of "
          "direction elements (line / edge directions, plane / face normals, box / rectangle / ellipsoid axes, circle / disk / "
          "cylinder axis) has |cos| or |sin| in [1e-12, 1e-2), and point_to_circle inputs with the point within 1e-2*max(1,|x-c|) of "
          "(but not on) the axis.  Tolerance 1e-6*L (5e-3*L for line_to_circle), L = max(1, largest feature size, centre distance).")


def main():
    a = C.args()
    t0 = time.time()
    per_fn = 400 if a.tier == "quick" else 3000
    chunk_n = 25 if a.tier == "quick" else 100
    deadline = t0 + (125 if a.tier == "quick" else 1050)
    tasks = [(fi, c, chunk_n, a.seed, a.tier) for c in range(per_fn // chunk_n) for fi in K.selected_functions()]
    res = K.run_chunks(_worker_c11, tasks, a.jobs, 15 if a.tier == "quick" else 60, deadline)
    fails, samples, digests, nontriv, n, status, und, lost, hangs, checks = [], [], set(), set(), 0, {}, [], 0, set(), 0
    for t, r in zip(tasks, res):
        if r is None:
            lost += 1                                       # wall budget used up before the task could run: counted, not failed
            continue
        if "hung" in r or "crash" in r:
            f = K.watchdog_failure(11, t, r, a.seed)
            if "hung" in r and r["hung"] >= 0:              # is it the library call that hangs, or was the oracle slow?
                fname = K.FUNCS[t[0]][0]
                if fname not in hangs and checks < 6:
                    checks += 1
                    A, B, tag = K.replay_scene(11, t[0], t[1], r["hung"], a.seed)
                    if library_call_returns(fname, A, B):
                        lost += 1
                        continue
                    hangs.add(fname)
                elif fname not in hangs:
                    lost += 1
                    continue
            fails.append(f)
            continue
        n += r["n"]
        fails += r["fails"]
        samples += r["samples"]
        digests |= r["digests"]
        nontriv |= r["nontrivial"]
        und += r["undecided"]
        for k, v in r["status"].items():
            status[k] = status.get(k, 0) + v
    ordered, counts = K.order_failures(fails, per_pair=3)
    rngs = np.random.default_rng(a.seed)
    samples = [samples[i] for i in rngs.permutation(len(samples))[:8]] if samples else []
    C.emit(t0, n, len(nontriv), RULE, samples, ordered, DOMAIN, n_failures=len(fails), failure_counts=counts,
           distinct_inputs=len(digests), status=status, undecided=status.get("undecided", 0), undecided_examples=und[:6],
           chunks_lost_to_budget=lost, repo=os.path.dirname(K.distance3d.__file__), tier=a.tier, seed=a.seed)


if __name__ == "__main__":
    main()
