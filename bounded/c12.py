"""BOUNDED, METAMORPHIC stand-in for C12: results are symmetric in the arguments and invariant under rigid motion.

    Swapping the two arguments of any distance or collision query swaps the returned points and leaves distance, depth and the
    boolean answer unchanged; applying one rigid motion to both arguments leaves distances, depths and booleans unchanged and
    moves returned points by the same motion (within the tolerance of the respective property); uniformly scaling a scene scales
    distances and depths by the same factor.

The REAL library is run natively on a BASE scene and on its image under
    rigid_motion_invariance       x -> Q x + v, Q a random rotation, |v| such that everything stays within 1e3 of the origin
    axis_permutation_invariance   x -> Q x,     Q one of the 23 non-trivial cube-group rotations (exact in floating point)
    translation_invariance        x -> x + v,   v lattice (exact) or random, up to 1e3
    scale_equivariance            x -> s x,     s in {1e-2, 0.5, 2, 1e2} + one random s, kept only if the image is still in the domain
    argument_swap_symmetry        f(B, A) where the API offers both orders
and the scalar outputs are compared with the tolerance of the property the query belongs to (C10/C11: 1e-6*L, 5e-3*L for
line_to_circle; C01: 1e-5*L; C09: 1e-3*L; C08: 2e-3*L; C07: 1e-6*L; C02 booleans only when BOTH scenes are certified to lie
outside the delta = 1e-3*L band by closed forms).  No oracle of the true value is needed: a discrepancy between two frames means
that at least one of the two answers is wrong.  Base scenes contain exactly axis-aligned / lattice configurations (direction
components exactly 0.0 in the box frame, lines exactly parallel to box faces with non-diagonal in-plane directions, touching,
parallel, coincident) next to random ones: frame dependent slips hide in branches that are only taken for exact zeros; the randomly
rotated image takes the generic branch.

Returned POINTS are compared only where the optimum is provably unique and well conditioned: point_to_<convex primitive> (metric
projection; |p - p*|^2 <= 2 d delta + delta^2 when the distance is delta-optimal) and the sphere side of sphere-vs-X GJK queries.

Scenes inside the epsilon bands of C11 (direction cosines strictly inside (1e-12, 1e-2) of a parallel / perpendicular decision of a
function with an epsilon argument) are skipped - in the base AND in the image.  Pairs of two UNBOUNDED primitives (line / plane)
that are exactly parallel in the base are only compared under exact maps (axis permutation, lattice translation, swap, scaling by
powers of two): a rotated image is no longer exactly parallel and its true distance is a different number (0), so a discrepancy
there is not a violation (counted as undecided).

Tolerances are taken literally from the property texts (k*L, L = max(1, largest feature size or centre distance), for scaled scenes
the larger of the two scenes' k*L) plus 64 ulp of the largest coordinate.  MPR's depth is compared as a scalar output although MPR does
not compute a unique optimum (its direction comes from the portal); EPA is run on the simplex of gjk_distance_jolt exactly as in
bounded/c07.py (np.empty primed with zeros, so the result is deterministic).

Development aids (environment): D3VC_ONLY=<fnmatch on the distance function name> (primitives only), D3VC_C12_PART=prim|col,
D3VC_C12_DUMP=<file> (all failure records; the JSON line keeps 60), D3VC_REPO=<scratch copy of the library> (mutant runs).

    cd /verif && .venv/bin/python bounded/c12.py --tier quick|thorough --seed N
"""
import inspect
import math
import os
import sys
import time

for _v in ("OMP_NUM_THREADS", "OPENBLAS_NUM_THREADS", "MKL_NUM_THREADS", "NUMBA_NUM_THREADS"):
    os.environ.setdefault(_v, "1")
sys.path.insert(0, os.path.dirname(os.path.abspath(__file__)))
import _common as C
import numpy as np

import c10 as K
from c10 import nrm, ca, EPSF, EXACT

D = K.D
HAS_EPS = {name: ("epsilon" in inspect.signature(getattr(D, name)).parameters) for name, _, _ in K.FUNCS}

OBL_RIGID, OBL_PERM, OBL_TRANS, OBL_SCALE, OBL_SWAP = ("rigid_motion_invariance", "axis_permutation_invariance",
                                                       "translation_invariance", "scale_equivariance", "argument_swap_symmetry")
SCALES = [1e-2, 0.5, 2.0, 1e2]
NONTRIVIAL_CUBE = [q for q in C.CUBE if not np.array_equal(q, np.eye(3))]
assert len(NONTRIVIAL_CUBE) == 23
MAX_FAILS_PER_NAME_PER_TASK = 3


# =================================================================================================== part 1: distance primitives
def tol_factor(fname):
    return 5e-3 if fname == "line_to_circle" else 1e-6


def transform(P, Q, v, s=1.0):
    """image of a placed primitive under x -> Q (s x) + v (directions / normals / axes are rotated only, sizes are scaled)"""
    Q = np.asarray(Q, dtype=float)
    v = np.asarray(v, dtype=float)
    m = lambda x: ca(Q @ (s * np.asarray(x, dtype=float)) + v)
    r = lambda u: ca(Q @ np.asarray(u, dtype=float))
    k = P["kind"]
    out = dict(kind=k, R=ca(Q @ P["R"]), t=m(P["t"]))
    if k == "point":
        out.update(x=m(P["x"]))
    elif k == "line":
        out.update(p=m(P["p"]), u=r(P["u"]))
    elif k == "segment":
        out.update(a=m(P["a"]), b=m(P["b"]))
    elif k == "plane":
        out.update(p=m(P["p"]), n=r(P["n"]))
    elif k == "triangle":
        out.update(V=ca(np.array([m(x) for x in P["V"]])))
    elif k == "rectangle":
        out.update(c=m(P["c"]), axes=ca(np.array([r(a) for a in P["axes"]])), lengths=ca(s * P["lengths"]))
    elif k in ("circle", "disk"):
        out.update(c=m(P["c"]), r=float(s * P["r"]), n=r(P["n"]))
    elif k == "box":
        out.update(T=C.pose(Q @ P["T"][:3, :3], m(P["T"][:3, 3])), size=ca(s * P["size"]))
    elif k == "ellipsoid":
        out.update(T=C.pose(Q @ P["T"][:3, :3], m(P["T"][:3, 3])), radii=ca(s * P["radii"]))
    elif k == "cylinder":
        out.update(T=C.pose(Q @ P["T"][:3, :3], m(P["T"][:3, 3])), r=float(s * P["r"]), l=float(s * P["l"]))
    else:
        raise ValueError(k)
    return out


def all_sizes(P):
    """feature sizes that the primitive domain P bounds to [0.2, 1e2] (c10.feature_sizes + the altitude of a triangle)"""
    fs = list(K.feature_sizes(P))
    if P["kind"] == "triangle":
        V = P["V"]
        fs.append(nrm(np.cross(V[1] - V[0], V[2] - V[0])) / max(fs))
    return fs


def in_domain(A, B):
    for P in (A, B):
        fs = all_sizes(P)
        if fs and (min(fs) < K.SMIN * (1 - 1e-9) or max(fs) > K.SMAX * (1 + 1e-9)):
            return False
        if nrm(K.centre(P)) > K.POSMAX * (1 + 1e-9):
            return False
    return True


def in_epsilon_band(fname, A, B):
    """as bounded/c11.py: direction cosines strictly inside (1e-12, 1e-2) of a parallel / perpendicular decision of a function with a
    documented epsilon argument; point_to_circle: point within 1e-2*max(1,|x-c|) of (but not, up to 1e-12, on) the axis"""
    if not HAS_EPS[fname]:
        return False
    for c, s in K.axis_cosines(A, B):
        if EXACT <= c < 1e-2 or EXACT <= s < 1e-2:
            return True
    if fname == "point_to_circle":
        w = A["x"] - B["c"]
        rho = nrm(w - float(w @ B["n"]) * B["n"])
        ref = max(1.0, nrm(w))
        if EXACT * ref < rho < 1e-2 * ref:
            return True
    return False


UNBOUNDED = {"line", "plane"}


def unbounded_parallel(A, B):
    """both primitives unbounded and exactly parallel: the distance is a discontinuous function of the directions there"""
    if A["kind"] not in UNBOUNDED or B["kind"] not in UNBOUNDED:
        return False
    c = abs(float(A["R"][:, 2] @ B["R"][:, 2]))
    s = nrm(np.cross(A["R"][:, 2], B["R"][:, 2]))
    if A["kind"] == B["kind"]:
        return s < 1e-6                      # line || line, plane || plane
    return c < 1e-6                          # line || plane


def is_exact_map(ob, Q, v, s, A, B):
    """True when the image scene is the exact (bit for bit) image of the base scene"""
    if ob == OBL_SWAP or ob == OBL_PERM:
        return True
    A2, B2 = transform(A, Q, v, s), transform(B, Q, v, s)
    Qi = np.asarray(Q).T
    for P, P2 in ((A, A2), (B, B2)):
        back = transform(P2, Qi, -(Qi @ np.asarray(v)) / s, 1.0 / s)
        for key, val in P.items():
            if isinstance(val, np.ndarray) and key not in ("R",) and not np.array_equal(val, back[key]):
                return False
    return True


# ------------------------------------------------------------------------------------------------- base scenes
ROT345 = []
for _ax in range(3):
    for _c, _s in ((0.6, 0.8), (0.8, 0.6), (0.6, -0.8), (-0.8, 0.6), (0.28, 0.96), (5.0 / 13.0, 12.0 / 13.0)):
        _i, _j = (_ax + 1) % 3, (_ax + 2) % 3
        _m = np.eye(3)
        _m[_i, _i], _m[_i, _j], _m[_j, _i], _m[_j, _j] = _c, -_s, _s, _c
        ROT345.append(_m)


def axis_scene(k1, k2, rng):
    """scene in an axis-aligned frame: A in the identity / a cube-group frame at a lattice position; B rotated relative to A about ONE
    coordinate axis by a non-diagonal angle (pythagorean 3-4-5 / 7-24-25 / 5-12-13 rotations, pi/6, pi/3, random; rarely pi/4) or by
    a cube-group element, so that direction components are exactly 0.0 in the other primitive's frame; lattice / glued / axis / random
    translation"""
    RA = np.eye(3) if rng.random() < 0.6 else C.CUBE[rng.integers(24)]
    mode = "round" if rng.random() < 0.7 else "random"
    m = rng.random()
    if m < 0.5:
        tA = np.zeros(3)
    elif m < 0.9:
        tA = rng.integers(-4, 5, size=3).astype(float) * float(rng.choice([0.5, 1.0, 10.0]))
    else:
        tA = rng.integers(-4, 5, size=3).astype(float) * 100.0
    shA = K.draw_shape(k1, rng, mode)
    A = K.place(k1, shA, RA, tA)
    m = rng.random()
    if m < 0.12:
        Crel, rel = np.eye(3), "same"
    elif m < 0.35:
        Crel, rel = C.CUBE[rng.integers(24)], "cube"
    else:
        m2 = rng.random()
        if m2 < 0.45:
            Rz = ROT345[rng.integers(len(ROT345))]
        else:
            ax = np.zeros(3)
            ax[rng.integers(3)] = 1.0
            ang = float(rng.choice([math.pi / 6, math.pi / 3, 2 * math.pi / 3, rng.uniform(0, 2 * math.pi), rng.uniform(0, 2 * math.pi),
                                    math.pi / 4]))
            Rz = K.rot(ax, ang)
        Crel, rel = C.CUBE[rng.integers(24)] @ Rz @ C.CUBE[rng.integers(24)], "axisrot"
    RB = RA @ Crel
    if k2 == k1 and rng.random() < 0.25:
        shB = shA
    else:
        shB = K.draw_shape(k2, rng, mode)
    m = rng.random()
    if m < 0.08:
        tB, tr = tA.copy(), "zero"
    elif m < 0.40:
        step = float(rng.choice([0.25, 0.5, 0.5, 1.0, 1.0, 2.0]))
        tB, tr = tA + RA @ (rng.integers(-4, 5, size=3).astype(float) * step), "lattice"
    elif m < 0.65:
        B0 = K.place(k2, shB, RB, np.zeros(3))
        tB, tr = K.sample_member(A, rng) - K.sample_member(B0, rng), "glue"
    elif m < 0.80:
        j = rng.integers(3)
        amt = float(rng.choice(K.ROUND)) * float(rng.choice([-1, 1])) if rng.random() < 0.6 else float(rng.normal() * 5)
        tB, tr = tA + RA[:, j] * amt, "axis"
    else:
        tB, tr = tA + rng.normal(size=3) * float(rng.choice([0.3, 1.0, 3.0, 10.0])), "random"
    tB = K._clip_pos(tB)
    B = K.place(k2, shB, RB, tB)
    return A, B, "axisframe/%s/%s/%s" % (rel, tr, mode)


def base_scene(fname, k1, k2, seed, fi, chunk, i):
    """the i-th base scene of a chunk (own generator per scene, so that a scene can be replayed from its index)"""
    rng = np.random.default_rng([seed, 12, fi, chunk, i])
    if rng.random() < 0.5:
        A, B, tag = axis_scene(k1, k2, rng)
    else:
        A, B, tag = K.make_scene(k1, k2, rng)
    return A, B, tag, rng


# ------------------------------------------------------------------------------------------------- transformations
def _centres_ok(A, B, Q, v):
    return all(nrm(Q @ K.centre(P) + v) <= K.POSMAX for P in (A, B))


def pick_translation(A, B, Q, rng):
    """translation v such that the image Q x + v of both primitives stays within 1e3 of the origin; lattice valued (exact for
    lattice scenes), random, or large (up to 1e3)"""
    cA = Q @ K.centre(A)
    for _ in range(8):
        m = rng.random()
        if m < 0.3:
            target = rng.integers(-4, 5, size=3).astype(float) * float(rng.choice([0.5, 1.0, 10.0, 100.0]))
            v = target if rng.random() < 0.5 else target - cA
        elif m < 0.7:
            v = rng.normal(size=3) * float(rng.choice([1.0, 10.0, 100.0, 300.0]))
        else:
            d = K.unit(rng.normal(size=3))
            v = d * float(rng.uniform(300.0, 990.0)) - cA          # the image of A's centre lies 300 .. 990 from the origin
        if nrm(v) > 0 and _centres_ok(A, B, Q, v):
            return ca(v)
    v = -0.5 * (Q @ K.centre(A) + Q @ K.centre(B))                 # symmetric about the origin
    return ca(v) if _centres_ok(A, B, Q, v) else None


def valid_scales(A, B, rng):
    out = []
    fs = all_sizes(A) + all_sizes(B)
    far = max(nrm(K.centre(A)), nrm(K.centre(B)))
    lo, hi = 1e-2, 1e2
    if fs:
        lo, hi = max(lo, K.SMIN / min(fs)), min(hi, K.SMAX / max(fs))
    if far > 0:
        hi = min(hi, K.POSMAX / far)
    for s in SCALES:
        if lo * (1 + 1e-9) <= s <= hi * (1 - 1e-9):
            out.append(s)
    if hi > lo * 1.05:
        s = float(math.exp(rng.uniform(math.log(lo * 1.001), math.log(hi * 0.999))))
        if abs(s - 1.0) > 1e-3:
            out.append(s)
    return out


def variants(A, B, k1, k2, rng, tier):
    """list of (obligation, Q, v, s, swap)"""
    I3, z3 = np.eye(3), np.zeros(3)
    out = []
    for _ in range(1 if tier == "quick" else 2):
        Q = C.random_rotation(rng)
        v = pick_translation(A, B, Q, rng)
        if v is not None:
            out.append((OBL_RIGID, Q, v, 1.0, False))
    Q = NONTRIVIAL_CUBE[rng.integers(23)]
    if _centres_ok(A, B, Q, z3):
        out.append((OBL_PERM, Q, z3, 1.0, False))
    v = pick_translation(A, B, I3, rng)
    if v is not None:
        out.append((OBL_TRANS, I3, v, 1.0, False))
    for s in valid_scales(A, B, rng):
        out.append((OBL_SCALE, I3, z3, s, False))
    if k1 == k2:
        out.append((OBL_SWAP, I3, z3, 1.0, True))
    return out


# ------------------------------------------------------------------------------------------------- one evaluation
def evaluate(fname, A, B):
    """('ok', d, p1, p2) | ('band',) | ('exception', text) | ('nonfinite', text)"""
    if in_epsilon_band(fname, A, B):
        return ("band",)
    try:
        d, p1, p2 = K.call_library(fname, A, B)
        d = float(d)
        p1 = np.asarray(p1, dtype=float).reshape(3)
        p2 = np.asarray(p2, dtype=float).reshape(3)
    except Exception as e:                                                       # noqa: C10 / C19 own 'no_exception'
        return ("exception", "%s: %s" % (type(e).__name__, str(e)[:100]))
    if not (math.isfinite(d) and np.all(np.isfinite(p1)) and np.all(np.isfinite(p2))):
        return ("nonfinite", "d=%r" % d)
    return ("ok", d, p1, p2)


POINT_UNIQUE = {"point_to_line", "point_to_line_segment", "point_to_plane", "point_to_triangle", "point_to_rectangle", "point_to_disk",
                "point_to_box", "point_to_cylinder", "point_to_ellipsoid"}


def check_scene(fname, k1, k2, A, B, tag, rng, tier, out):
    """runs the base scene and all its images; appends failures to out['fails']; returns (d of the base or None, number of comparisons)"""
    base = evaluate(fname, A, B)
    out["calls"] += 1
    if base[0] != "ok":
        out["status"][base[0] + "_base"] = out["status"].get(base[0] + "_base", 0) + 1
        return None, 0
    d0, p10, p20 = base[1], base[2], base[3]
    L0 = K.scene_L(A, B)
    kf = tol_factor(fname)
    ncmp = 0
    for ob, Q, v, s, swap in variants(A, B, k1, k2, rng, tier):
        if swap:
            A2, B2 = B, A
        else:
            A2, B2 = transform(A, Q, v, s), transform(B, Q, v, s)
            if not in_domain(A2, B2):
                out["status"]["image_outside_domain"] = out["status"].get("image_outside_domain", 0) + 1
                continue
        res = evaluate(fname, A2, B2)
        out["calls"] += 1
        if res[0] != "ok":
            out["status"][res[0] + "_image"] = out["status"].get(res[0] + "_image", 0) + 1
            continue
        d2, p12, p22 = res[1], res[2], res[3]
        L2 = K.scene_L(A2, B2)
        ulp = 64.0 * EPSF * max(K.scene_extent(A, B) * s, K.scene_extent(A2, B2))
        tol = kf * max(L2, s * L0) + ulp
        ncmp += 1
        out["status"]["compared_" + ob] = out["status"].get("compared_" + ob, 0) + 1
        bad = []
        if abs(d2 - s * d0) > tol:
            bad.append("distance %.12g in the base scene (x s = %.12g) but %.12g in the image: difference %.3e = %.2e*L > tol %.2e (L=%.4g)"
                       % (d0, s * d0, d2, abs(d2 - s * d0), abs(d2 - s * d0) / max(L2, s * L0), tol, max(L2, s * L0)))
        elif fname in POINT_UNIQUE and not swap:
            # the closest point of a convex primitive to a point is unique; two delta-optimal answers are within
            # 2*sqrt(2 d delta + delta^2) (+ membership slack 1e-9*L each) of each other
            delta = 3e-6 * max(L2, s * L0)          # d within 1e-6*L of the optimum, |x - p| within 1e-6*L of d, p within 1e-9*L of K
            ptol = 2.0 * math.sqrt(2.0 * max(d2, s * d0) * delta + delta * delta) + 2e-9 * max(L2, s * L0) + 2.0 * delta + ulp
            exp = Q @ (s * p20) + v
            if nrm(p22 - exp) > ptol:
                bad.append("closest point %s in the base scene maps to %s but the image scene returns %s: off by %.3e > %.2e "
                           "(unique projection onto a convex primitive; d=%.9g, L=%.4g)"
                           % (p20.tolist(), exp.tolist(), p22.tolist(), nrm(p22 - exp), ptol, d2, max(L2, s * L0)))
        if not bad:
            continue
        if ob in (OBL_RIGID, OBL_TRANS, OBL_SCALE) and unbounded_parallel(A, B) and not is_exact_map(ob, Q, v, s, A, B):
            # two unbounded primitives, exactly parallel in the base, not exactly parallel in the rounded image: no violation
            out["undecided"] += 1
            if len(out["undecided_examples"]) < 2:
                out["undecided_examples"].append(dict(function=fname, obligation=ob, why="unbounded exactly parallel pair under an inexact map; " + bad[0],
                                                      primitive1=K.describe(A), primitive2=K.describe(B)))
            continue
        key = (fname, ob)
        out["fail_counts"][key] = out["fail_counts"].get(key, 0) + 1
        if out["fail_counts"][key] <= MAX_FAILS_PER_NAME_PER_TASK:
            out["fails"].append(dict(
                contract="distance." + fname, obligation=ob, detail="[%s] %s" % (tag, "; ".join(bad)),
                input=dict(function=fname, primitive1=K.describe(A), primitive2=K.describe(B),
                           map=dict(kind=ob, Q=np.asarray(Q).tolist(), v=np.asarray(v).tolist(), s=s, swap=swap, formula="x -> Q (s x) + v"),
                           image_primitive1=K.describe(A2), image_primitive2=K.describe(B2),
                           d_base=d0, d_image=d2, p1_base=p10.tolist(), p2_base=p20.tolist(), p1_image=p12.tolist(), p2_image=p22.tolist())))
    return d0, ncmp


def _worker_prim(task):
    _, fi, chunk, n, seed, tier = task
    fname, k1, k2 = K.FUNCS[fi]
    out = dict(part="prim", fi=fi, n=0, calls=0, fails=[], fail_counts={}, digests=set(), nontrivial=set(), samples=[], status={},
               undecided=0, undecided_examples=[], classes={})
    directed = K.directed_cases(fname) if chunk == 0 else []
    for i in range(n + len(directed)):
        if i >= n:
            A, B, tag = directed[i - n]
            rng = np.random.default_rng([seed, 12, fi, chunk, i])
        else:
            A, B, tag, rng = base_scene(fname, k1, k2, seed, fi, chunk, i)
        K.mark_progress(min(i, n - 1))
        d0, ncmp = check_scene(fname, k1, k2, A, B, tag, rng, tier, out)
        out["n"] += 1
        dg = K.case_digest(fname, A, B)
        out["digests"].add(dg)
        if ncmp > 0 and K.nontrivial(A, B, d0, K.scene_L(A, B)):
            out["nontrivial"].add(dg)
        cls = "/".join(tag.split("/")[:2])
        out["classes"][cls] = out["classes"].get(cls, 0) + 1
        if i == 1 and chunk == 0:
            out["samples"].append(dict(function=fname, placement=tag, primitive1=K.describe(A), primitive2=K.describe(B), d_base=d0,
                                       comparisons=ncmp))
    return out


# =================================================================================================== part 2: collider queries
PRIMS = ("sphere", "capsule", "box", "ellipsoid", "cylinder")        # accepted by the Nesterov 'primitives' flavour
FAM_REPS = [("coincident", 0), ("coincident", 1), ("axis_offset", 0), ("axis_offset", 2), ("axis_offset", 3), ("axis_offset", 4),
            ("axis_offset", 7), ("support_touch_lattice", 0), ("support_touch_lattice", 2), ("lattice_offset", 0), ("lattice_offset", 1),
            ("lattice_offset", 2), ("random", 0), ("random", 1), ("random", 2), ("random", 3), ("support_touch_random", 0),
            ("support_touch_random", 2), ("far", 0)]
SIZE_CLASSES = [(1.0, 1.0), (1.0, 1.0), (0.25, 1.0), (1.0, 0.25), (4.0, 1.0), (0.5, 2.0)]


def col_specs(seed, tier):
    rng = np.random.default_rng([seed, 12, 777])
    specs = []
    reps = 2 if tier == "quick" else 8
    for kA in C.COLLIDER_TYPES:
        for kB in C.COLLIDER_TYPES:
            for r in range(reps):
                for fam, rep in FAM_REPS:
                    if tier == "quick" and rng.random() < 0.3 and fam not in ("axis_offset", "lattice_offset"):
                        continue
                    sA, sB = SIZE_CLASSES[rng.integers(len(SIZE_CLASSES))]
                    specs.append(dict(i=len(specs), kA=kA, kB=kB, sA=sA, sB=sB, mA=0.0, mB=0.0, fam=fam, rep=rep, sub=int(rng.integers(2 ** 31))))
    return specs


def _c01():
    import c01
    return c01


def col_pair(kA, TA, sA, kB, TB, sB):
    c01 = _c01()
    return c01.make_col(kA, TA, sA), c01.make_col(kB, TB, sB)


def move_pose(T, Q, v, s):
    return C.pose(Q @ T[:3, :3], Q @ (s * T[:3, 3]) + v)


def col_in_domain(TA, sA, TB, sB):
    return (1e-2 * (1 - 1e-9) <= min(sA, sB) and max(sA, sB) <= 1e2 * (1 + 1e-9)
            and nrm(TA[:3, 3]) <= 1e3 and nrm(TB[:3, 3]) <= 1e3)


def col_truth(A, B, L, a, b):
    """'gap' / 'overlap' when closed forms certify that the pair lies outside the band of C02 with margin 2 (gap >= 2*delta, or a
    common point at least 2*delta inside both), else None.  a, b (the library's closest points) are only hints."""
    import c07
    c01 = _c01()
    delta = 1e-3 * L
    dirs = []
    if a is not None and b is not None and np.all(np.isfinite(a)) and np.all(np.isfinite(b)) and nrm(b - a) > 0:
        dirs.append((b - a) / nrm(b - a))
    cd = c01.center_of(B) - c01.center_of(A)
    if nrm(cd) > 0:
        dirs.append(cd / nrm(cd))
    for n in dirs:
        if c01.cert(A, B, n) >= 2.0 * delta:
            return "gap"
    cands = [c01.center_of(A), c01.center_of(B), 0.5 * (c01.center_of(A) + c01.center_of(B))]
    if a is not None and b is not None and np.all(np.isfinite(a)) and np.all(np.isfinite(b)):
        cands.append(0.5 * (a + b))
    for x in cands:
        if min(c07.inner_radius(A, x), c07.inner_radius(B, x)) >= 2.0 * delta:
            return "overlap"
    return None


def _call(fn, *a, **k):
    try:
        return fn(*a, **k), None
    except Exception as e:                                                       # noqa: exceptions are C19's / C02's clause
        return None, "%s: %s" % (type(e).__name__, str(e)[:80])


def col_queries(A, B):
    """all scalar / boolean outputs of one (ordered) pair; colliders are used in a fixed order (MeshGraph caches a vertex index)"""
    from distance3d import gjk, mpr, epa
    from distance3d.utils import MAX_FLOAT
    import c07
    res = {}
    r, e = _call(gjk.gjk, A["obj"], B["obj"])
    if e is None and r[1] is not None and r[0] != MAX_FLOAT and math.isfinite(float(r[0])):
        res["gjk.gjk"] = float(r[0])
        res["_a"], res["_b"] = np.asarray(r[1], dtype=float), np.asarray(r[2], dtype=float)
    for name, fn in (("gjk.gjk_distance_original", gjk.gjk_distance_original),):
        r, e = _call(fn, A["obj"], B["obj"])
        if e is None and math.isfinite(float(r[0])):
            res[name] = float(r[0])
    r, e = _call(gjk.gjk_nesterov_accelerated_distance, A["obj"], B["obj"])
    if e is None and math.isfinite(float(r)):
        res["gjk.gjk_nesterov_accelerated_distance"] = float(r)
    prim = A["kind"] in PRIMS and B["kind"] in PRIMS
    if prim:
        r, e = _call(gjk.gjk_nesterov_accelerated_primitives_distance, A["obj"], B["obj"])
        if e is None and math.isfinite(float(r)):
            res["gjk.gjk_nesterov_accelerated_primitives_distance"] = float(r)
    for name, fn, ok in (("gjk.gjk_intersection", gjk.gjk_intersection, True),
                         ("gjk.gjk_intersection_libccd", gjk.gjk_intersection_libccd, True),
                         ("mpr.mpr_intersection", mpr.mpr_intersection, True),
                         ("gjk.gjk_nesterov_accelerated_intersection", gjk.gjk_nesterov_accelerated_intersection, True),
                         ("gjk.gjk_nesterov_accelerated_primitives_intersection", gjk.gjk_nesterov_accelerated_primitives_intersection, prim)):
        if ok:
            r, e = _call(fn, A["obj"], B["obj"])
            if e is None and isinstance(r, (bool, np.bool_)):
                res[name] = bool(r)
    r, e = _call(mpr.mpr_penetration, A["obj"], B["obj"])
    if e is None:
        res["mpr.mpr_penetration/bool"] = bool(r[0])
        if bool(r[0]) and r[1] is not None and math.isfinite(float(r[1])):
            res["mpr.mpr_penetration"] = float(r[1])
    # EPA on the simplex of the Jolt distance query (composed call of C07); np.empty of the GJK is primed with zeros so that the
    # rows it does not write are defined (determinism)
    c07.prime(0.0)
    r, e = _call(gjk.gjk_distance_jolt, A["obj"], B["obj"])
    if e is None and r[3] is not None and float(r[0]) < 1e-12:
        q, e2 = _call(epa.epa, np.array(r[3]), A["obj"], B["obj"])
        if e2 is None and bool(q[2]) and np.all(np.isfinite(q[0])):
            res["epa.epa"] = float(np.linalg.norm(q[0]))
    return res


DIST_TOL = {"gjk.gjk": 1e-5, "gjk.gjk_distance_original": 1e-3, "gjk.gjk_nesterov_accelerated_distance": 1e-3,
            "gjk.gjk_nesterov_accelerated_primitives_distance": 1e-3, "mpr.mpr_penetration": 2e-3, "epa.epa": 1e-6}
BOOLS = ("gjk.gjk_intersection", "gjk.gjk_intersection_libccd", "mpr.mpr_intersection", "gjk.gjk_nesterov_accelerated_intersection",
         "gjk.gjk_nesterov_accelerated_primitives_intersection", "mpr.mpr_penetration/bool")


def _worker_col(task):
    _, chunk, specs, seed, tier = task
    c01 = _c01()
    out = dict(part="col", n=0, calls=0, fails=[], fail_counts={}, digests=set(), nontrivial=set(), samples=[], status={}, undecided=0,
               undecided_examples=[], classes={})
    I3, z3 = np.eye(3), np.zeros(3)
    for j, spec in enumerate(specs):
        K.mark_progress(j)
        rng = np.random.default_rng([seed, 12, 778, spec["i"]])
        TA, TB, note, _ = c01.realise(spec)
        kA, kB, sA, sB = spec["kA"], spec["kB"], spec["sA"], spec["sB"]
        if not col_in_domain(TA, sA, TB, sB):
            continue
        A, B = col_pair(kA, TA, sA, kB, TB, sB)
        L0 = c01.scene_L(A, B)
        base = col_queries(A, B)
        out["calls"] += 1
        out["n"] += 1
        truth0 = col_truth(A, B, L0, base.get("_a"), base.get("_b"))
        out["classes"][spec["fam"]] = out["classes"].get(spec["fam"], 0) + 1
        dg = hash((kA, kB, sA, sB, TA.tobytes(), TB.tobytes()))
        out["digests"].add(dg)
        # images
        vs = []
        Q = C.random_rotation(rng)
        vs.append((OBL_RIGID, Q, rng.normal(size=3) * float(rng.choice([1.0, 10.0, 100.0, 250.0])), 1.0, False))
        vs.append((OBL_PERM, NONTRIVIAL_CUBE[rng.integers(23)], z3, 1.0, False))
        vs.append((OBL_TRANS, I3, (rng.integers(-4, 5, size=3).astype(float) * float(rng.choice([0.5, 1.0, 10.0, 100.0]))
                                   if rng.random() < 0.5 else rng.normal(size=3) * float(rng.choice([1.0, 30.0, 300.0]))), 1.0, False))
        for s in (SCALES[rng.integers(4)], float(math.exp(rng.uniform(math.log(0.05), math.log(20.0))))):
            vs.append((OBL_SCALE, I3, z3, s, False))
        vs.append((OBL_SWAP, I3, z3, 1.0, True))
        ncmp = 0
        for ob, Q, v, s, swap in vs:
            if swap:
                kA2, TA2, sA2, kB2, TB2, sB2 = kB, TB, sB, kA, TA, sA
            else:
                kA2, TA2, sA2, kB2, TB2, sB2 = kA, move_pose(TA, Q, v, s), s * sA, kB, move_pose(TB, Q, v, s), s * sB
                if not col_in_domain(TA2, sA2, TB2, sB2):
                    continue
            A2, B2 = col_pair(kA2, TA2, sA2, kB2, TB2, sB2)
            L2 = c01.scene_L(A2, B2)
            img = col_queries(A2, B2)
            out["calls"] += 1
            truth2 = col_truth(A2, B2, L2, img.get("_a"), img.get("_b"))
            Lc = max(L2, s * L0)
            bad = []
            for name, kf in DIST_TOL.items():
                if name in base and name in img:
                    ncmp += 1
                    tol = kf * Lc + 64 * EPSF * (nrm(TA2[:3, 3]) + nrm(TB2[:3, 3]) + sA2 + sB2)
                    if abs(img[name] - s * base[name]) > tol:
                        bad.append((name, "%s = %.12g in the base scene (x s = %.12g) but %.12g in the image: difference %.3e = %.2e*L > tol %.2e (L=%.4g)"
                                    % (name, base[name], s * base[name], img[name], abs(img[name] - s * base[name]),
                                       abs(img[name] - s * base[name]) / Lc, tol, Lc)))
            if truth0 is not None and truth0 == truth2:
                for name in BOOLS:
                    if name in base and name in img:
                        ncmp += 1
                        if base[name] != img[name]:
                            bad.append((name.replace("/bool", ""), "%s answers %r in the base scene and %r in the image although both scenes are a certified clear %s "
                                        "(margin 2*delta, delta = 1e-3*L)" % (name, base[name], img[name], truth0)))
            # closest points: unique on the sphere side when the pair is separated
            if "gjk.gjk" in base and "gjk.gjk" in img and min(base["gjk.gjk"], img["gjk.gjk"] / s) > 1e-3 * L0:
                delta = 3e-5 * Lc
                for side, kind, size in (("_a", kA, sA), ("_b", kB, sB)):
                    if kind != "sphere":
                        continue
                    p0 = base[side]
                    p2 = img["_b" if (swap and side == "_a") else ("_a" if swap else side)]
                    exp = Q @ (s * p0) + v
                    ptol = 2.0 * math.sqrt(2.0 * (img["gjk.gjk"] + s * size) * delta + delta * delta) + 4.0 * delta
                    ncmp += 1
                    if nrm(p2 - exp) > ptol:
                        bad.append(("gjk.gjk", "closest point on the sphere %s maps to %s but the image scene returns %s (off by %.3e > %.2e)"
                                    % (p0.tolist(), exp.tolist(), p2.tolist(), nrm(p2 - exp), ptol)))
            for name, detail in bad:
                contract = "%s[%s,%s]" % (name, kA, kB)
                key = (contract, ob)
                out["fail_counts"][key] = out["fail_counts"].get(key, 0) + 1
                if out["fail_counts"][key] <= MAX_FAILS_PER_NAME_PER_TASK:
                    out["fails"].append(dict(
                        contract=contract, obligation=ob, detail="[%s] %s" % (spec["fam"], detail),
                        input=dict(kindA=kA, kindB=kB, sizeA=sA, sizeB=sB, TA=TA.tolist(), TB=TB.tolist(), family=spec["fam"], note=note,
                                   map=dict(kind=ob, Q=np.asarray(Q).tolist(), v=np.asarray(v).tolist(), s=s, swap=swap, formula="T -> [Q R, Q (s t) + v], size -> s size"),
                                   image=dict(kindA=kA2, kindB=kB2, sizeA=sA2, sizeB=sB2, TA=TA2.tolist(), TB=TB2.tolist()),
                                   how="A=_common.make_collider(kindA,TA,sizeA), B likewise",
                                   base={k: v_ for k, v_ in base.items() if not k.startswith("_")},
                                   image_results={k: v_ for k, v_ in img.items() if not k.startswith("_")})))
        d0 = base.get("gjk.gjk")
        if ncmp > 0 and (spec["fam"] not in ("random", "far") or (d0 is not None and d0 <= 1e-5 * L0)):
            out["nontrivial"].add(dg)
        if j == 0 and chunk % 7 == 0 and len(out["samples"]) < 1:
            out["samples"].append(dict(query="colliders", kindA=kA, kindB=kB, sizeA=sA, sizeB=sB, TA=TA.tolist(), TB=TB.tolist(), family=spec["fam"],
                                       base={k: v_ for k, v_ in base.items() if not k.startswith("_")}, comparisons=ncmp))
    return out


# =================================================================================================== driver
def _worker(task):
    return _worker_prim(task) if task[0] == "prim" else _worker_col(task)


def _warm_body(fis, do_col):
    """calls every function once (JIT compilation / cache load)"""
    rng = np.random.default_rng(4242)
    for fi in fis:
        fname, k1, k2 = K.FUNCS[fi]
        for _ in range(3):
            A, B, _t = K.make_scene(k1, k2, rng)
            evaluate(fname, A, B)
    if do_col:
        c01 = _c01()
        for kA in C.COLLIDER_TYPES:
            for kB in C.COLLIDER_TYPES:
                for t in ((0.2, 0.1, 0.05), (3.0, 0.5, 0.2)):
                    A, B = col_pair(kA, C.pose(C.random_rotation(rng), np.zeros(3)), 1.0, kB, C.pose(C.CUBE[5], np.array(t)), 1.0)
                    col_queries(A, B)


def warm_up(fis, do_col, limit=900.0):
    """first in a killable child (fills numba's on-disk cache; a native hang there only loses the warm-up), then - only if the
    child came back - in this process, so that forked workers inherit the loaded functions"""
    import multiprocessing as mp
    ctx = mp.get_context("fork")

    def body():
        try:
            _warm_body(fis, do_col)
        finally:
            os._exit(0)
    p = ctx.Process(target=body, daemon=True)
    p.start()
    p.join(limit)
    if p.is_alive():
        p.kill()
        p.join(5)
        return False
    _warm_body(fis, do_col)
    return True


RULE = ("distinct base scene (blake2b of function name + argument bytes / hash of types, sizes, poses) for which at least one metamorphic "
        "comparison was executed (base and image both outside the epsilon bands and answered) AND the base scene is degenerate: a "
        "direction element of primitive 1 exactly parallel / perpendicular (|sin| or |cos| < 1e-12) to one of primitive 2, or d <= 1e-6*L "
        "(touching / intersecting), or d smaller than the smallest feature size; collider scenes: lattice / touching / coincident / axis "
        "families or d <= 1e-5*L")

DOMAIN = ("PART 1: 34 functions of distance3d.distance x base scenes: 50% bounded/c10.make_scene (" + K.DOMAIN + ") and 50% axis-frame scenes "
          "(A in the identity or a cube-group frame at a lattice position; B = A's frame x cube element x rotation about ONE coordinate axis by a "
          "pythagorean angle (3-4-5, 7-24-25, 5-12-13), pi/6, pi/3, 2pi/3, random, rarely pi/4 | cube element | identity; translation lattice | "
          "glued member points | along an axis | random | zero), feature sizes in [0.2, 1e2], positions within 1e3.  Images of every base scene: "
          "1 (thorough: 2) random rotation + translation (lattice, random normal x {1..300}, or placing the scene 300..990 from the origin), 1 of "
          "the 23 non-trivial cube-group rotations (exact), 1 pure translation, every s in {1e-2, 0.5, 2, 1e2} and one log-uniform s for which all "
          "feature sizes stay in [0.2, 1e2] and positions within 1e3, and the swapped call for the 6 same-kind functions.  Scenes in the epsilon "
          "bands of C11 are skipped (base or image).  Tolerance 1e-6*L (5e-3*L line_to_circle) + 64 ulp of the largest coordinate.  "
          "PART 2: all 100 ordered pairs of " + str(C.COLLIDER_TYPES) + " x placement families of bounded/c01.realise (coincident, axis_offset "
          "touching / gap / overlap, support_touch_lattice, lattice_offset, random, support_touch_random, far) x size classes " + str(SIZE_CLASSES) +
          "; images: random rigid motion, cube-group rotation, translation, two scale factors (one of {1e-2,0.5,2,1e2}, one log-uniform in "
          "[0.05,20]; sizes stay in [1e-2,1e2]), swapped arguments; queries gjk.gjk (1e-5*L), gjk_distance_original / Nesterov distances "
          "(1e-3*L), the five boolean tests + the flag of mpr_penetration (only when closed forms certify a gap >= 2*delta or a common point "
          ">= 2*delta inside both, delta = 1e-3*L, in base AND image), mpr_penetration depth (2e-3*L), |mtv| of epa(gjk_distance_jolt(A,B)[3],A,B) "
          "when both runs report success (1e-6*L).")


def order_all(fails):
    """round robin over (query family, obligation) - distance primitives first - so that the 60-entry cut of emit() shows every
    family of failing names; within a family the instances keep their (deterministic) task order"""
    groups = {}
    for f in fails:
        fam = f["contract"].split("[")[0]
        groups.setdefault((0 if fam.startswith("distance.") else 1, fam, f["obligation"]), []).append(f)
    out, r = [], 0
    while True:
        row = [g[r] for _, g in sorted(groups.items()) if len(g) > r]
        if not row:
            return out
        out += row
        r += 1


def main():
    a = C.args()
    t0 = time.time()
    import distance3d
    quick = a.tier == "quick"
    part = os.environ.get("D3VC_C12_PART", "all")
    fis = K.selected_functions() if part in ("all", "prim") else []
    do_col = part in ("all", "col") and not os.environ.get("D3VC_ONLY")
    per_fn = 2500 if quick else 30000
    chunk_n = 250 if quick else 1000
    tasks = []
    specs = col_specs(a.seed, a.tier) if do_col else []
    csize = 25 if quick else 60
    col_tasks = [("col", c, specs[i:i + csize], a.seed, a.tier) for c, i in enumerate(range(0, len(specs), csize))]
    prim_tasks = [("prim", fi, c, chunk_n, a.seed, a.tier) for c in range(per_fn // chunk_n) for fi in fis]
    # interleave (collider chunks are slower per scene)
    ratio = max(1, len(prim_tasks) // max(1, len(col_tasks)))
    ci = 0
    for i, t in enumerate(prim_tasks):
        tasks.append(t)
        if i % ratio == 0 and ci < len(col_tasks):
            tasks.append(col_tasks[ci])
            ci += 1
    tasks += col_tasks[ci:]
    warmed = warm_up(fis, do_col)
    t_w = time.time()
    deadline = max(t0 + (135 if quick else 1100), t_w + (60 if quick else 600))
    res = K.run_chunks(_worker, tasks, a.jobs, 20 if quick else 60, deadline)
    fails, samples, digests, nontriv, n, calls, status, classes, und, und_ex, lost, counts = [], [], set(), set(), 0, 0, {}, {}, 0, [], 0, {}
    n_prim = n_col = 0
    for t, r in zip(tasks, res):
        if r is None:
            lost += 1
            continue
        if "hung" in r or "crash" in r:
            if t[0] == "prim":
                fname, k1, k2 = K.FUNCS[t[1]]
                if "hung" in r:
                    inp = dict(task=[t[0], t[1], t[2], t[3], t[4]])
                    if r["hung"] >= 0:
                        A, B, tag, _ = base_scene(fname, k1, k2, t[4], t[1], t[2], r["hung"])
                        inp.update(primitive1=K.describe(A), primitive2=K.describe(B), placement=tag, case_index=r["hung"],
                                   note="the base scene or one of its images did not return")
                    fails.append(dict(contract="distance." + fname, obligation="terminates",
                                      detail="base scene %d of task %r (or one of its images) did not return within the per-case CPU-time budget" % (r["hung"], t[:5]), input=inp))
                else:
                    fails.append(dict(contract="distance." + fname, obligation="no_exception", detail="worker crashed: " + r["crash"], input=dict(task=list(t[:5]))))
            else:
                sp = t[2][r["hung"]] if "hung" in r and 0 <= r["hung"] < len(t[2]) else None
                fails.append(dict(contract="colliders[%s,%s]" % ((sp["kA"], sp["kB"]) if sp else ("?", "?")),
                                  obligation="terminates" if "hung" in r else "no_exception",
                                  detail="collider chunk %d: %s" % (t[1], r.get("crash", "scene did not return within the per-case CPU-time budget")),
                                  input=dict(spec=sp)))
            continue
        n += r["n"]
        if r["part"] == "prim":
            n_prim += r["n"]
        else:
            n_col += r["n"]
        calls += r["calls"]
        fails += r["fails"]
        samples += r["samples"]
        digests |= {(r["part"], d) for d in r["digests"]}
        nontriv |= {(r["part"], d) for d in r["nontrivial"]}
        und += r["undecided"]
        und_ex += r["undecided_examples"]
        for k, v in r["status"].items():
            status[k] = status.get(k, 0) + v
        for k, v in r["classes"].items():
            classes[k] = classes.get(k, 0) + v
        for (cn, ob), v in r["fail_counts"].items():
            key = "%s|%s" % (("distance." + cn) if r["part"] == "prim" else cn, ob)
            counts[key] = counts.get(key, 0) + v
    ordered = order_all(fails)
    if os.environ.get("D3VC_C12_DUMP"):                    # development aid: emit() keeps 60 failures, this keeps all of them
        import json
        with open(os.environ["D3VC_C12_DUMP"], "w") as fh:
            json.dump(ordered, fh, default=C._js)
    rngs = np.random.default_rng(a.seed)
    samples = [samples[i] for i in rngs.permutation(len(samples))[:8]] if samples else []
    names = sorted(counts)
    C.emit(t0, calls, len(nontriv), RULE, samples, ordered, DOMAIN, n_failures=int(sum(counts.values())) + sum(1 for f in fails if f["obligation"] in ("terminates", "no_exception")),
           failure_counts=dict(sorted(counts.items())), failing_names=[x.replace("|", " :: ") for x in names], n_failing_names=len(names),
           base_scenes=n, base_scenes_primitives=n_prim, base_scenes_colliders=n_col, distinct_inputs=len(digests), status=status,
           placement_classes=classes, undecided=und, undecided_examples=und_ex[:6], chunks_lost_to_budget=lost, warmed_up=warmed,
           repo=os.path.dirname(distance3d.__file__), tier=a.tier, seed=a.seed)


if __name__ == "__main__":
    main()
