"""BOUNDED stand-in for C02: boolean collision tests never miss a clear overlap nor report a clear gap.

Runs the REAL library (JIT as installed) on an explicitly enumerated finite set of collider pairs whose ground truth is
established by an INDEPENDENT, SOUND certificate computed from the closed forms of _common (never from the library):
    gap      a unit direction n with  -(h_A(n) + h_B(-n)) >= delta          (separating plane: dist(A,B) >= delta)
    overlap  a point p with contains(A, p, -m) and contains(B, p, -m), m >= delta (p lies at least delta inside both; for the
             cone the radial slack is enlarged by sqrt(1+(r/h)^2) so that the distance to the lateral surface is >= delta)
with delta = 1e-3 * L and L = max(1, 2*largest feature of A, 2*largest feature of B, |t_A - t_B| + feature A + feature B), an
upper bound of the property's L = max(1, largest feature size or centre distance) whatever 'feature size' (radius/diameter) and
'centre' (pose origin / centroid) are taken to mean; a larger L only removes obligations, it never creates one.
Scenes are CONSTRUCTED with a prescribed gap / penetration (multiples 1.05 ... 1000 of delta along lattice or random
directions, with lattice or random lateral offsets), nested, coincident or identical; scenes for which neither certificate is
found are counted as `undecided` and not executed.  Flat shapes (disk, ellipse) have no interior, so they only get gap scenes.
Obligations per boolean test (gjk.gjk_intersection = jolt, gjk.gjk_intersection_libccd, mpr.mpr_intersection,
gjk.gjk_nesterov_accelerated_intersection, gjk.gjk_nesterov_accelerated_primitives_intersection (5 primitive types)):
    true_on_clear_overlap, false_on_clear_gap, no_exception, terminates (watchdog or > 3000 support evaluations without return).
Each native call runs in a forked grandchild of a pmap worker with a per-call watchdog (20 s of CPU time inside one call ->
`terminates` of that call; CPU time, so a loaded machine cannot cause a failure); the parent never executes library code; when the
time budget of the tier is used up the remaining scenes are reported as `skipped`.  The four/five tests run in the order listed
on the same two collider objects (MeshGraph's support function is stateful: vertex cache).

Replay of a failure input:  python bounded/c02.py --replay '<json of failure["input"]>'
"""
import itertools
import json
import math
import os
import pickle
import select
import signal
import struct
import sys
import time
import traceback

sys.path.insert(0, os.path.dirname(os.path.abspath(__file__)))
import _common as C
import numpy as np

# ---- the sections up to 'the five boolean tests' are verbatim copies of bounded/c19.py (each stand-in is self-contained)
SMOOTH = {"sphere", "ellipsoid", "capsule", "cylinder", "cone", "disk", "ellipse"}
PRIM = ["sphere", "capsule", "box", "ellipsoid", "cylinder"]
TYPES = list(C.COLLIDER_TYPES)
MAX_SUPPORT = 1000
HARD_CAP = 3000
CALL_TIMEOUT = 20.0          # seconds of CPU time per native call; normal calls take < 50 ms (a lazily compiled function: 1-3 s)
WALL_FACTOR = 15.0           # wall-clock limit = WALL_FACTOR * CALL_TIMEOUT for a call that blocks without using CPU
MAX_TIMEOUTS_PER_BATCH = 2   # after that the rest of the batch is skipped (reported as `skipped`), keeps the wall time bounded

_UNIT_POLY = np.array([[1, 0, 0], [-1, 0, 0], [0, 0.5, 0], [0, -0.5, 0], [0, 0, 0.75], [0, 0, -0.75]]
                      + [[0.45 * sx, 0.25 * sy, 0.35 * sz] for sx, sy, sz in itertools.product([-1, 1], repeat=3)], dtype=float)


# ------------------------------------------------------------------------------------------- shapes (no library calls here)
def std_dims(kind, s):
    """same proportions as _common.make_collider"""
    s = float(s)
    if kind == "sphere":
        return dict(r=s)
    if kind == "ellipsoid":
        return dict(radii=[s, 0.5 * s, 0.75 * s])
    if kind == "capsule":
        return dict(r=0.5 * s, h=s)
    if kind == "cylinder":
        return dict(r=0.5 * s, L=s)
    if kind == "cone":
        return dict(r=0.5 * s, h=s)
    if kind == "box":
        return dict(size=[s, 0.5 * s, 0.75 * s])
    if kind == "disk":
        return dict(r=s)
    if kind == "ellipse":
        return dict(radii=[s, 0.5 * s])
    if kind in ("mesh", "hull"):
        return dict(vertices=(_UNIT_POLY * s).tolist())
    raise ValueError(kind)


def side(kind, T, size, dims=None):
    return dict(kind=kind, T=np.ascontiguousarray(T, dtype=float), size=float(size), dims=dims if dims is not None else std_dims(kind, size))


def par_of(sd):
    """parameter dict in the format of _common (support_exact / contains work on it); pure data, no library call"""
    k, T, d = sd["kind"], sd["T"], sd["dims"]
    if k == "sphere":
        par = dict(c=T[:3, 3].copy(), r=d["r"])
    elif k in ("ellipsoid", "ellipse"):
        par = dict(T=T, radii=np.array(d["radii"], dtype=float))
    elif k in ("capsule", "cone"):
        par = dict(T=T, r=d["r"], h=d["h"])
    elif k == "cylinder":
        par = dict(T=T, r=d["r"], L=d["L"])
    elif k == "box":
        par = dict(T=T, size=np.array(d["size"], dtype=float))
    elif k == "disk":
        par = dict(T=T, r=d["r"])
    else:
        v = np.array(d["vertices"], dtype=float).reshape(-1, 3)
        if k == "mesh":
            v = v - np.mean(v, axis=0)
        par = dict(T=T, vertices_world=np.ascontiguousarray((T[:3, :3] @ v.T).T + T[:3, 3]))
    return dict(kind=k, par=par, size=sd["size"])


def feature_extent(sd):
    """largest feature size of the shape (for L)"""
    d = sd["dims"]
    vals = []
    for v in d.values():
        vals.extend(np.abs(np.asarray(v, dtype=float)).ravel().tolist())
    return max(vals) if vals else 0.0


def build_obj(sd):
    """the library object (runs library constructors: only inside the watchdog-protected child)"""
    from distance3d import colliders
    k, T, d = sd["kind"], sd["T"], sd["dims"]
    if k == "sphere":
        return colliders.Sphere(np.ascontiguousarray(T[:3, 3]), d["r"])
    if k == "ellipsoid":
        return colliders.Ellipsoid(T, np.array(d["radii"], dtype=float))
    if k == "capsule":
        return colliders.Capsule(T, d["r"], d["h"])
    if k == "cylinder":
        return colliders.Cylinder(T, d["r"], d["L"])
    if k == "cone":
        return colliders.Cone(T, d["r"], d["h"])
    if k == "box":
        return colliders.Box(T, np.array(d["size"], dtype=float))
    if k == "disk":
        return colliders.Disk(np.ascontiguousarray(T[:3, 3]), d["r"], np.ascontiguousarray(T[:3, 2]))
    if k == "ellipse":
        return colliders.Ellipse(np.ascontiguousarray(T[:3, 3]), np.ascontiguousarray(T[:3, :2].T), np.array(d["radii"], dtype=float))
    v = np.array(d["vertices"], dtype=float).reshape(-1, 3)
    if k == "mesh":
        from distance3d.mesh import make_convex_mesh
        tri = make_convex_mesh(v)
        return colliders.MeshGraph(T, np.ascontiguousarray(v - np.mean(v, axis=0)), tri)
    return colliders.ConvexHullVertices(np.ascontiguousarray((T[:3, :3] @ v.T).T + T[:3, 3]))


def spec_json(sc):
    def sj(sd):
        return dict(kind=sd["kind"], pose=sd["T"].tolist(), size=sd["size"], dims=sd["dims"])
    return dict(A=sj(sc["A"]), B=sj(sc["B"]), same_object=bool(sc.get("same", False)), family=sc["family"])


def spec_from_json(js):
    def sd(j):
        return side(j["kind"], np.array(j["pose"], dtype=float), j["size"], j["dims"])
    return dict(A=sd(js["A"]), B=sd(js["B"]), same=bool(js.get("same_object", False)), family=js.get("family", "replay"))


def place_along(colA, sdB, R, n, g, lateral=None):
    """pose of B (rotation R) such that the support point of B along -n is the support point of A along n moved by g*n (+ a lateral
    offset perpendicular to n): the plane with normal n then separates with signed gap g,  -(h_A(n) + h_B(-n)) = g,  and for
    lateral = None the two extreme features face each other (g = 0: touching, g < 0: penetrating by |g| along n)"""
    n = np.asarray(n, dtype=float)
    n = n / np.linalg.norm(n)
    sd0 = dict(sdB, T=C.pose(R, np.zeros(3)))
    pa = C.support_exact(colA, n)
    pb0 = C.support_exact(par_of(sd0), -n)
    t = pa + g * n - pb0
    if lateral is not None:
        lat = np.asarray(lateral, dtype=float)
        t = t + (lat - (lat @ n) * n)
    return C.pose(R, t)


# ------------------------------------------------------------------------------------------- counting wrappers
class _Budget(BaseException):
    pass


class Counter:
    def __init__(self):
        self.n = {}

    def wrap(self, key, fn, inc=1):
        self.n[key] = 0

        def counted(*a, **k):
            self.n[key] += inc
            if self.n[key] > HARD_CAP:
                raise _Budget()
            return fn(*a, **k)
        return counted

    def evaluations(self, same):
        """number of support evaluations of A-B = calls per collider (the same object passed twice receives both calls)"""
        if not self.n:
            return 0
        if same and "A" in self.n and len(self.n) == 1:
            return (self.n["A"] + 1) // 2
        return max(self.n.values())


class Instrument:
    """installs counting wrappers on the two collider instances (instance attributes: type(obj) is unchanged)"""
    def __init__(self, a, b, nesterov=False):
        self.a, self.b, self.nesterov = a, b, nesterov
        self.counter = Counter()

    def __enter__(self):
        if self.nesterov:
            from distance3d.gjk import _gjk_nesterov_accelerated as m
            self.m, self.orig = m, m.support_function
            m.support_function = self.counter.wrap("AB", self.orig)      # one call = one evaluation of each collider
        else:
            self.a.support_function = self.counter.wrap("A", type(self.a).support_function.__get__(self.a))
            if self.b is not self.a:
                self.b.support_function = self.counter.wrap("B", type(self.b).support_function.__get__(self.b))
        return self.counter

    def __exit__(self, *exc):
        if self.nesterov:
            self.m.support_function = self.orig
        else:
            for o in (self.a, self.b):
                o.__dict__.pop("support_function", None)
        return False


def _exc_info(e):
    tb = traceback.extract_tb(e.__traceback__)
    last = tb[-1] if tb else None
    where = f"{os.path.basename(last.filename)}:{last.lineno} in {last.name}" if last else "?"
    return dict(type=type(e).__name__, msg=str(e)[:200], where=where,
                epa_capacity=bool(isinstance(e, AssertionError) and last is not None and os.path.basename(last.filename) == "epa.py"
                                  and last.name == "extend_with_point"))


# ------------------------------------------------------------------------------------------- watchdog runner
def _send(fd, obj):
    data = pickle.dumps(obj)
    os.write(fd, struct.pack("<I", len(data)) + data)


class _Reader:
    def __init__(self, fd):
        self.fd, self.buf = fd, b""

    def get(self, timeout):
        """next message, or ('TIMEOUT',) / ('EOF',)"""
        deadline = time.time() + timeout
        while True:
            if len(self.buf) >= 4:
                n = struct.unpack("<I", self.buf[:4])[0]
                if len(self.buf) >= 4 + n:
                    msg = pickle.loads(self.buf[4:4 + n])
                    self.buf = self.buf[4 + n:]
                    return msg
            left = deadline - time.time()
            if left <= 0:
                return ("TIMEOUT",)
            r, _, _ = select.select([self.fd], [], [], left)
            if not r:
                return ("TIMEOUT",)
            chunk = os.read(self.fd, 1 << 16)
            if not chunk:
                return ("EOF",)
            self.buf += chunk


def _child(wfd, scenes, start, skip0, evaluator):
    try:
        for i in range(start, len(scenes)):
            skip = skip0 if i == start else set()
            for name, res in evaluator(scenes[i], skip, lambda nm, i=i: _send(wfd, ("S", i, nm))):
                _send(wfd, ("R", i, name, res))
            _send(wfd, ("E", i))
        _send(wfd, ("Q",))
    except BaseException as e:       # harness problem inside the child: report, never hang
        try:
            _send(wfd, ("X", f"{type(e).__name__}: {e}", traceback.format_exc()[-600:]))
        except BaseException:
            pass
    finally:
        os._exit(0)


_TCK = os.sysconf("SC_CLK_TCK")


def _cpu_seconds(pid):
    """CPU time (user + system) consumed so far by the process, from /proc (None if it is gone)"""
    try:
        with open(f"/proc/{pid}/stat") as fh:
            rest = fh.read().rsplit(")", 1)[1].split()
        return (int(rest[11]) + int(rest[12])) / _TCK
    except (OSError, IndexError, ValueError):
        return None


def run_batch_guarded(scenes, evaluator, call_timeout=CALL_TIMEOUT, deadline=None, wall_timeout=None, max_timeouts=MAX_TIMEOUTS_PER_BATCH):
    """runs evaluator over the scenes in a forked child with a per-call watchdog.  The watchdog measures the CPU time the child
    spends inside ONE call (robust against a loaded machine: a busy hang burns CPU, a slow machine does not), plus a wall-clock
    limit of WALL_FACTOR * call_timeout for a call that blocks without using CPU.
    Returns (results: {scene index: {entry: result}}, incidents: [(scene index, entry, kind, detail)], skipped scene indices)"""
    results = {i: {} for i in range(len(scenes))}
    incidents = []
    start, skip = 0, set()
    timeouts = 0
    wall_timeout = WALL_FACTOR * call_timeout if wall_timeout is None else wall_timeout
    while start < len(scenes):
        if timeouts >= max_timeouts or (deadline is not None and time.time() > deadline):
            return results, incidents, list(range(start, len(scenes)))
        rfd, wfd = os.pipe()
        pid = os.fork()
        if pid == 0:
            os.close(rfd)
            _child(wfd, scenes, start, skip, evaluator)
        os.close(wfd)
        rd = _Reader(rfd)
        inflight = None
        done_upto = start
        cpu0, wall0 = _cpu_seconds(pid) or 0.0, time.time()
        why = ""
        while True:
            msg = rd.get(0.5)
            tag = msg[0]
            if tag == "TIMEOUT":                       # nothing new within the slice: look at the clocks
                now = time.time()
                if deadline is not None and now > deadline:
                    tag = "DEADLINE"
                    break
                cpu = _cpu_seconds(pid)
                if cpu is not None and cpu - cpu0 > call_timeout:
                    why = f"no return after {cpu - cpu0:.0f} s of CPU time in this call"
                    break
                if now - wall0 > wall_timeout:
                    why = f"no return after {now - wall0:.0f} s wall time ({(cpu or cpu0) - cpu0:.0f} s CPU) in this call"
                    break
                continue
            if tag in ("S", "R", "E"):
                cpu0, wall0 = _cpu_seconds(pid) or cpu0, time.time()
            if tag == "S":
                inflight = (msg[1], msg[2])
            elif tag == "R":
                results[msg[1]][msg[2]] = msg[3]
                inflight = None
            elif tag == "E":
                done_upto = msg[1] + 1
            elif tag == "Q":
                done_upto = len(scenes)
                break
            else:
                break
        if tag != "Q":
            try:
                os.kill(pid, signal.SIGKILL)
            except OSError:
                pass
        try:
            _, status = os.waitpid(pid, 0)
        except OSError:
            status = 0
        os.close(rfd)
        if tag == "Q":
            break
        if tag == "DEADLINE":                          # out of time: the call in flight is not judged, the rest is `skipped`
            nxt = inflight[0] if inflight is not None else done_upto
            return results, incidents, list(range(min(nxt, len(scenes)), len(scenes)))
        # resume after the incident
        if inflight is not None:
            i, nm = inflight
            if tag == "TIMEOUT":
                incidents.append((i, nm, "terminates", why + " (process killed; a normal call takes < 0.05 s)"))
                timeouts += 1
            elif tag == "EOF":
                sig = os.WTERMSIG(status) if os.WIFSIGNALED(status) else None
                incidents.append((i, nm, "no_exception", f"worker process died during the call (signal {sig}, status {status})"))
            else:
                incidents.append((i, nm, "harness", str(msg[1:])[:400]))
            start = i
            skip = set(results[i].keys()) | {nm}
        else:
            # died between calls (scene construction or harness): skip that scene
            incidents.append((done_upto, "-", "harness", f"{tag}: {why} {str(msg[1:])[:400]}"))
            if tag == "TIMEOUT":
                timeouts += 1
            start, skip = done_upto + 1, set()
    return results, incidents, []


_WARM_SCENES = None      # set by the parent before the pool is forked
_WORKER_WARM = False


def _batch_task(task):
    global _WORKER_WARM
    scenes, evaluator_name, call_timeout, deadline = task
    ev = globals()[evaluator_name]
    if time.time() > deadline:
        return {i: {} for i in range(len(scenes))}, [], list(range(len(scenes)))
    if _WARM_SCENES and not _WORKER_WARM:
        # load the jitted code once per pool worker (its forked children inherit it).  These scenes returned in the guarded
        # warm-up child immediately before, so running them unguarded here cannot hang.  The PARENT never runs library code.
        for sc in _WARM_SCENES:
            for _ in ev(sc, set(), lambda nm: None):
                pass
        _WORKER_WARM = True
    return run_batch_guarded(scenes, ev, call_timeout, deadline)


def guarded_map(scenes, evaluator_name, jobs, call_timeout, budget, batch_size):
    """pmap over batches of scenes; each pmap worker forks a watchdog-protected child per batch.  `budget` = seconds for this phase:
    at the deadline every batch abandons the call in flight (not judged) and reports the remaining scenes as skipped"""
    batches = [scenes[i:i + batch_size] for i in range(0, len(scenes), batch_size)]
    deadline = time.time() + max(5.0, budget - 5.0)
    out = C.pmap(_batch_task, [(b, evaluator_name, call_timeout, deadline) for b in batches], jobs=jobs, chunksize=1, timeout=budget + 90.0)
    return batches, out


def warm_up(evaluator_name, scenes, timeout=120.0):
    """compiles the jitted code / fills numba's on-disk cache in a guarded child.  A call that does not return within `timeout` s
    of CPU time is reported as `terminates` and ends the warm-up; pool workers later pre-load only the scenes that came back"""
    global _WARM_SCENES
    t = time.time()
    res, inc, skipped = run_batch_guarded(scenes, globals()[evaluator_name], call_timeout=timeout, wall_timeout=3 * timeout, max_timeouts=1)
    bad = set(skipped) | {i for i, _, k, _ in inc if k in ("terminates", "harness", "no_exception")}
    first_bad = min(bad) if bad else len(scenes)
    clean = [sc for i, sc in enumerate(scenes) if i < first_bad]
    ok = not bad
    _WARM_SCENES = clean or None
    return ok, res, inc, time.time() - t


def library_path():
    import importlib.util
    spec = importlib.util.find_spec("distance3d")
    return os.path.dirname(spec.origin) if spec and spec.origin else "?"


def run_main(main):
    """exit code 0 and one JSON line whatever happens; stdout is flushed and the interpreter left without finalisers (llvmlite's
    teardown in a process that forked is known to crash occasionally, which would lose the buffered output)"""
    t0 = time.time()
    try:
        main()
    except BaseException as e:      # noqa
        if isinstance(e, SystemExit):
            raise
        C.emit(t0, 0, 0, "-", [], [], "harness error: nothing was checked", harness_error=traceback.format_exc()[-1500:])
    sys.stdout.flush()
    sys.stderr.flush()
    os._exit(0)


# ------------------------------------------------------------------------------------------- scene enumeration
LATTICE_DIRS = [np.array(v, dtype=float) for v in [(1, 0, 0), (0, 1, 0), (0, 0, 1), (-1, 0, 0), (0, 0, -1), (1, 1, 0), (0, 1, -1), (1, 1, 1), (1, -1, 1)]]


def rand_pose(rng, scale, lattice):
    if lattice:
        R = C.CUBE[rng.integers(len(C.CUBE))]
        t = rng.integers(-2, 3, size=3).astype(float) * scale * rng.choice([0.5, 1.0, 1.0, 2.0])
    else:
        R = C.random_rotation(rng)
        t = rng.normal(size=3) * scale
    return R, t


# ------------------------------------------------------------------------------------------- the five boolean tests
def tests():
    from distance3d import gjk, mpr

    def any_pair(ka, kb):
        return True

    def prim_pair(ka, kb):
        return ka in PRIM and kb in PRIM

    return [("gjk.gjk_intersection", any_pair, gjk.gjk_intersection, False),
            ("gjk.gjk_intersection_libccd", any_pair, gjk.gjk_intersection_libccd, False),
            ("mpr.mpr_intersection", any_pair, mpr.mpr_intersection, False),
            ("gjk.gjk_nesterov_accelerated_intersection", any_pair, gjk.gjk_nesterov_accelerated_intersection, True),
            ("gjk.gjk_nesterov_accelerated_primitives_intersection", prim_pair, gjk.gjk_nesterov_accelerated_primitives_intersection, None)]


_TESTS = None


def eval_scene(sc, skip, emit_start):
    """generator over the boolean tests of one scene: yields (test name, dict(result, exc, budget))"""
    global _TESTS
    if _TESTS is None:
        _TESTS = tests()
    kinds = (sc["A"]["kind"], sc["B"]["kind"])
    try:
        a = build_obj(sc["A"])
        b = a if sc.get("same") else build_obj(sc["B"])
    except BaseException as e:
        yield "construct", dict(construct_error=f"{type(e).__name__}: {str(e)[:150]}")
        return
    for name, applicable, fn, nesterov in _TESTS:
        if name in skip or not applicable(*kinds):
            continue
        emit_start(name)
        res = dict(result=None, exc=None, budget=False, evals=0)
        try:
            if nesterov is None:                 # jitted loop with its own cap of 128 iterations: nothing to instrument
                r = fn(a, b)
            else:
                with Instrument(a, b, nesterov=nesterov) as cnt:
                    try:
                        r = fn(a, b)
                    finally:
                        res["evals"] = cnt.evaluations(a is b)
            res["result"] = bool(r) if isinstance(r, (bool, np.bool_)) else repr(r)
        except _Budget:
            res["budget"] = True
        except BaseException as e:      # noqa
            info = _exc_info(e)
            res["exc"] = f"{info['type']}: {info['msg']} at {info['where']}"
        yield name, res


# ------------------------------------------------------------------------------------------- ground truth (closed forms only)
def L_safe(sdA, sdB):
    eA, eB = feature_extent(sdA), feature_extent(sdB)
    return max(1.0, 2 * eA, 2 * eB, float(np.linalg.norm(sdA["T"][:3, 3] - sdB["T"][:3, 3])) + eA + eB)


def inside_by(col, p, m):
    """p lies at least m inside the shape (closed form of _common with negative slack; sound for every type)"""
    if col["kind"] in ("disk", "ellipse"):
        return False
    if col["kind"] == "cone":
        m = m * math.sqrt(1.0 + (col["par"]["r"] / col["par"]["h"]) ** 2)
    return bool(C.contains(col, p, -m))


def ipoint(sd):
    """a deep interior point of the shape (incentre of the cone, pose origin otherwise)"""
    T, d = sd["T"], sd["dims"]
    if sd["kind"] == "cone":
        rho = d["r"] * d["h"] / (d["r"] + math.hypot(d["r"], d["h"]))
        return T[:3, 3] + T[:3, :3] @ np.array([0.0, 0.0, rho])
    return T[:3, 3].copy()


def certified_gap(colA, colB, n):
    n = n / np.linalg.norm(n)
    return -(C.support_value(colA, n) + C.support_value(colB, -n))


def witness_depth(colA, colB, cands, delta):
    """largest m in a ladder with some candidate point lying m inside both (0 if none lies 1.02*delta inside)"""
    best, bp = 0.0, None
    for p in cands:
        for mult in (1.02, 2.0, 5.0, 10.0, 100.0):
            m = mult * delta
            if inside_by(colA, p, m) and inside_by(colB, p, m):
                if m > best:
                    best, bp = m, p
            else:
                break
    return best, bp


def overlap_candidates(sdA, sdB, colA, colB, n):
    n = n / np.linalg.norm(n)
    pa, pb = C.support_exact(colA, n), C.support_exact(colB, -n)
    level = 0.5 * (pa @ n + pb @ n)                    # middle of the overlap slab [min_B n.x, max_A n.x]
    cA, cB = ipoint(sdA), ipoint(sdB)
    mid = 0.5 * (pa + pb)
    cands = [mid, cA, cB, 0.5 * (cA + cB)]
    for q in (cA, cB, 0.5 * (cA + cB), mid):
        cands.append(q + (level - q @ n) * n)
    den = (cB - cA) @ n
    if abs(den) > 1e-300:
        t = (level - cA @ n) / den
        if 0.0 <= t <= 1.0:
            cands.append(cA + t * (cB - cA))
    proj = [q + (level - q @ n) * n for q in (cA, cB)]
    for w in (0.25, 0.5, 0.75):
        cands.append(w * proj[0] + (1 - w) * proj[1])
        cands.append(w * mid + (1 - w) * proj[0])
        cands.append(w * mid + (1 - w) * proj[1])
    return cands


def decide(sc, n=None):
    """attaches truth / margin / delta / L to the scene using closed forms only"""
    sdA, sdB = sc["A"], sc["B"]
    colA, colB = par_of(sdA), par_of(sdB)
    L = L_safe(sdA, sdB)
    delta = 1e-3 * L
    sc.update(L=L, delta=delta, truth=None, margin=0.0, cert=None)
    dirs = []
    if n is not None:
        dirs.append(np.asarray(n, dtype=float))
    c = ipoint(sdB) - ipoint(sdA)
    if np.linalg.norm(c) > 0:
        dirs.append(c)
    best, bn = -math.inf, None
    for d in dirs:
        g = certified_gap(colA, colB, d)
        if g > best:
            best, bn = g, d / np.linalg.norm(d)
    if bn is not None and best >= delta:
        sc.update(truth="gap", margin=best / delta, cert=dict(n=bn.tolist(), gap=best))
        return sc
    cands = overlap_candidates(sdA, sdB, colA, colB, bn if bn is not None else np.array([1.0, 0.0, 0.0]))
    m, p = witness_depth(colA, colB, cands, delta)
    if m > 0:
        sc.update(truth="overlap", margin=m / delta, cert=dict(p=p.tolist(), depth=m))
    return sc


# ------------------------------------------------------------------------------------------- scene enumeration
GAP_MULT = [1.05, 1.5, 3.0, 10.0, 100.0, 1000.0]
PEN_MULT = [2.5, 4.0, 10.0, 30.0, 100.0, 1000.0]
SIZE_CLASSES = [(1.0, 1.0), (1.0, 0.5), (1e-2, 1e-2), (1e2, 1e2), (2.0, 0.1), (0.1, 2.0), (1e2, 1.0), (1.0, 1e2), (1e-2, 1.0), (1.0, 1e-2), (10.0, 0.25)]


def gen_pair_scenes(rng, kA, kB, reps):
    out = []

    def add(family, A, B, n=None, same=False):
        out.append(decide(dict(A=A, B=B, same=same, family=family), n))

    for rep in range(reps):
        lattice = rep % 2 == 0
        sA, sB = SIZE_CLASSES[rep % len(SIZE_CLASSES)] if rep % 3 else (1.0, 1.0)
        if not lattice and rep % 4 == 3:
            sA, sB = 10 ** rng.uniform(-2, 2), 10 ** rng.uniform(-2, 2)
        RA, tA = rand_pose(rng, sA, lattice)
        if rep % 6 == 5:                                        # far from the origin (domain: within 1e3 units)
            tA = tA + rng.choice([-1.0, 1.0], size=3) * rng.choice([100.0, 500.0])
        A = side(kA, C.pose(RA, tA), sA)
        colA = par_of(A)
        RB, _ = rand_pose(rng, sB, lattice)
        B0 = side(kB, C.pose(RB, np.zeros(3)), sB)
        # prescribed gap / prescribed penetration along n
        flat = kA in ("disk", "ellipse") or kB in ("disk", "ellipse")      # no interior: only gap scenes can be decided
        for sign, mults, fam in ((1.0, GAP_MULT, "gap"), (1.0, GAP_MULT, "gap") if flat else (-1.0, PEN_MULT, "penetration")):
            for j in range(3):
                n = (RA @ LATTICE_DIRS[rng.integers(len(LATTICE_DIRS))]) if lattice else rng.normal(size=3)
                n = n / np.linalg.norm(n)
                mult = mults[rng.integers(len(mults))] if j else mults[0]
                lat = None
                if rng.random() < 0.6:
                    lat = (rng.integers(-2, 3, size=3) * 0.125 * min(sA, sB)) if lattice else rng.normal(size=3) * 0.2 * min(sA, sB)
                g = sign * mult * 1e-3 * max(1.0, 2 * sA, 2 * sB)
                B = None
                for _ in range(4):                              # L depends on the placement: fixed-point iteration
                    TB = place_along(colA, B0, RB, n, g, lat)
                    B = side(kB, TB, sB)
                    g_new = sign * mult * 1e-3 * L_safe(A, B)
                    if abs(g_new - g) <= 1e-12 * abs(g):
                        break
                    g = g_new
                add(fam, A, B, n)
        # nested / coincident: interior point of B on an interior point of A
        if flat:
            continue
        sN = [0.3 * sA, sB, max(1e-2, 0.05 * sA)][rep % 3]
        Bn0 = side(kB, C.pose(RB, np.zeros(3)), sN)
        off = RA @ (rng.integers(-1, 2, size=3) * 0.0625 * sA) if lattice else rng.normal(size=3) * 0.05 * sA
        tB = ipoint(A) + (off if rep % 2 else 0.0) - (ipoint(Bn0))
        add("nested" if rep % 3 != 1 else "coincident", A, side(kB, C.pose(RB, tB), sN))
        # lattice / random offsets (decided only when a certificate is found)
        if lattice:
            t = tA + RA @ (rng.integers(-2, 3, size=3).astype(float) * rng.choice([0.25, 0.5, 1.0]) * max(sA, sB))
        else:
            t = tA + rng.normal(size=3) * 0.6 * (sA + sB)
        add("lattice" if lattice else "random", A, side(kB, C.pose(RB, t), sB))
    return out


def _gen_task(task):
    seed, i, j, reps = task
    return gen_pair_scenes(np.random.default_rng([seed, i, j]), TYPES[i], TYPES[j], reps)


def gen_identical(rng, reps):
    out = []
    for k in TYPES:
        for s in (1e-2, 0.1, 1.0, 10.0, 1e2):
            for rep in range(reps):
                R, t = rand_pose(rng, s, rep % 2 == 0)
                A = side(k, C.pose(R, t), s)
                out.append(decide(dict(A=A, B=A, same=True, family="identical")))
    return out


def scene_key(sc):
    a, b = sc["A"], sc["B"]
    return (a["kind"], b["kind"], a["T"].round(9).tobytes(), b["T"].round(9).tobytes(), json.dumps(a["dims"]), json.dumps(b["dims"]), bool(sc.get("same")))


def warm_scenes():
    out = []
    for k in TYPES:
        A = side(k, C.pose(np.eye(3), np.zeros(3)), 1.0)
        for t in ([3.0, 0.1, 0.2], [0.2, 0.1, 0.05]):
            out.append(decide(dict(A=A, B=side("box", C.pose(C.CUBE[3], np.array(t)), 1.0), same=False, family="warmup")))
            out.append(decide(dict(A=side("sphere", C.pose(np.eye(3), np.array(t)), 0.6), B=A, same=False, family="warmup")))
    return [s for s in out if s["truth"]]


def full_input(sc):
    js = spec_json(sc)
    js.update(truth=sc["truth"], certificate=sc["cert"], delta=sc["delta"], L=sc["L"], margin_in_delta=sc["margin"])
    return js


def judge(sc, name, res, failures):
    contract = f"{name}[{sc['A']['kind']},{sc['B']['kind']}]"

    def fail(ob, detail):
        failures.append(dict(contract=contract, obligation=ob, detail=detail, input=full_input(sc)))
    if res.get("budget"):
        fail("terminates", f"aborted after more than {HARD_CAP} support evaluations without return")
    elif res.get("exc"):
        fail("no_exception", res["exc"])
    elif res["result"] is True and sc["truth"] == "gap":
        fail("false_on_clear_gap", f"returned True although a separating plane with gap {sc['cert']['gap']:.6g} = {sc['margin']:.3g}*delta exists "
                                   f"(n={np.round(sc['cert']['n'], 6).tolist()}, delta={sc['delta']:.3g})")
    elif res["result"] is False and sc["truth"] == "overlap":
        fail("true_on_clear_overlap", f"returned False although the point {np.round(sc['cert']['p'], 6).tolist()} lies {sc['cert']['depth']:.6g} = "
                                      f"{sc['margin']:.3g}*delta inside both (delta={sc['delta']:.3g})")
    elif res["result"] not in (True, False):
        fail("no_exception", f"result {res['result']} is not a bool")


def collect(batches, out, failures, stats):
    if out is None:
        # the per-batch deadlines make every batch return by itself; the pool watchdog can only fire on an overloaded machine
        stats["harness_incidents"].append("global pool watchdog fired: nothing of the main phase was evaluated (machine overloaded?)")
        return
    for batch, (results, incidents, skipped) in zip(batches, out):
        stats["skipped"] += len(skipped)
        for i, nm, kind, detail in incidents:
            if kind == "harness" or not (0 <= i < len(batch)):
                stats["harness_incidents"].append(detail[:300])
                continue
            sc = batch[i]
            failures.append(dict(contract=f"{nm}[{sc['A']['kind']},{sc['B']['kind']}]", obligation=kind, detail=detail, input=full_input(sc)))
            stats["evaluations"] += 1
        for i, per in results.items():
            sc = batch[i]
            for nm, res in per.items():
                if res.get("construct_error"):
                    stats["construct_errors"].append(dict(error=res["construct_error"], input=spec_json(sc)))
                    continue
                stats["evaluations"] += 1
                stats["answers"][(nm, sc["truth"], str(res.get("result")))] = stats["answers"].get((nm, sc["truth"], str(res.get("result"))), 0) + 1
                judge(sc, nm, res, failures)
            if per:
                stats["scenes_run"].add(scene_key(sc))
                if len(stats["samples"]) < 6 and sc["margin"] <= 10 and sc["family"] != "warmup":
                    stats["samples"].append(dict(full_input(sc), answers={k: v.get("result") for k, v in per.items()}))


def replay(js):
    j = json.loads(js)
    sc = decide(spec_from_json(j), (j.get("certificate") or {}).get("n"))
    res, inc, skipped = run_batch_guarded([sc], eval_scene, call_timeout=60.0)
    print(json.dumps(dict(truth=sc["truth"], certificate=sc["cert"], delta=sc["delta"], margin_in_delta=sc["margin"],
                          results=res[0], incidents=inc), default=C._js, indent=1))


def main():
    if "--replay" in sys.argv:
        return replay(sys.argv[sys.argv.index("--replay") + 1])
    dump = None
    if "--dump" in sys.argv:            # development aid: write ALL failures (emit keeps 60) to a file
        i = sys.argv.index("--dump")
        dump = sys.argv[i + 1]
        del sys.argv[i:i + 2]
    a = C.args()
    t0 = time.time()
    rng = np.random.default_rng(a.seed)
    thorough = a.tier == "thorough"
    reps_pair, reps_ident = (600, 40) if thorough else (44, 6)
    # scene construction + closed-form certificates: pure Python, one task per ordered type pair with its own sub-seed
    gen = C.pmap(_gen_task, [(a.seed, i, j, reps_pair) for i in range(len(TYPES)) for j in range(len(TYPES))], jobs=a.jobs, timeout=900)
    scenes = [s for part in gen for s in part]
    scenes += gen_identical(rng, reps_ident)
    n_generated = len(scenes)
    undecided = [s for s in scenes if not s["truth"]]
    scenes = [s for s in scenes if s["truth"]]
    order = rng.permutation(len(scenes))
    scenes = [scenes[i] for i in order]
    gen_s = time.time() - t0

    failures = []
    stats = dict(evaluations=0, skipped=0, harness_incidents=[], construct_errors=[], answers={}, scenes_run=set(), samples=[])
    wsc = warm_scenes()
    ok, wres, winc, wt = warm_up("eval_scene", wsc)
    collect([wsc], [(wres, winc, [])], failures, stats)
    budget = (1050.0 if thorough else 135.0) - (time.time() - t0 - wt)     # the (cold-cache) JIT compile time of the warm-up is not charged
    batch_size = max(4, min(60, len(scenes) // (a.jobs * 6) + 1))
    batches, out = guarded_map(scenes, "eval_scene", a.jobs, CALL_TIMEOUT if ok else 90.0, max(20.0, budget), batch_size)
    collect(batches, out, failures, stats)

    allsc = {scene_key(s): s for s in scenes + wsc}
    nontrivial = sum(1 for k, s in allsc.items() if k in stats["scenes_run"] and s["margin"] <= 10.0)
    fams = {}
    for s in scenes:
        key = f"{s['family']}:{s['truth']}"
        fams[key] = fams.get(key, 0) + 1
    und = {}
    for s in undecided:
        und[s["family"]] = und.get(s["family"], 0) + 1
    failures.sort(key=lambda f: (f["contract"], f["obligation"], json.dumps(f["input"], sort_keys=True, default=C._js)))
    seen, seen_fam, lead, first, rest = set(), set(), [], [], []
    for f in failures:          # emit() keeps 60: one per (test, obligation) first, then one per (contract, obligation)
        key = (f["contract"], f["obligation"])
        fam = (f["contract"].split("[")[0], f["obligation"])
        (lead if fam not in seen_fam else rest if key in seen else first).append(f)
        seen.add(key)
        seen_fam.add(fam)
    first = lead + first
    if dump:
        with open(dump, "w") as fh:
            json.dump(first + rest, fh, default=C._js)
    summary = {}
    for f in failures:
        key = f"{f['contract'].split('[')[0]}::{f['obligation']}"
        summary[key] = summary.get(key, 0) + 1
    answers = {f"{k[0]}|{k[1]}|{k[2]}": v for k, v in sorted(stats["answers"].items())}
    C.emit(t0, stats["evaluations"], nontrivial,
           "a decided scene counts as non-trivial when its certified gap resp. witness depth is at most 10*delta, i.e. within one decade of "
           "the band the property excludes; distinct = distinct (types, poses, dimensions, same-object) scenes executed",
           stats["samples"], first + rest,
           f"{n_generated} constructed scenes, {len(scenes)} decided by a closed-form certificate and executed ({len(undecided)} undecided, not run) "
           f"+ {len(wsc)} warm-up scenes x 4 boolean tests (5 for pairs of {PRIM}); all 100 ordered pairs of {TYPES}; families:truth {fams}; "
           f"prescribed gap in {GAP_MULT}*delta and penetration in {PEN_MULT}*delta along cube-group lattice directions (axis, face and space "
           f"diagonals: face/edge/vertex contacts) or random directions, lattice (multiples of 1/8 size) or random lateral offsets, cube-group or "
           f"random rotations, integer/half-integer or random positions, some 1e2..9e2 from the origin, nested/coincident/identical-object scenes, "
           f"size classes {SIZE_CLASSES} and log-uniform sizes in [1e-2,1e2]; seed {a.seed}, tier {a.tier}; library {library_path()}",
           undecided=len(undecided), undecided_by_family=und, failure_summary=summary, distinct_failing=len(first),
           distinct_failures=sorted(f"{c}::{o}" for c, o in seen)[:500], answers=answers, skipped=stats["skipped"],
           harness_incidents=stats["harness_incidents"][:5], construct_errors=stats["construct_errors"][:5], generation_s=round(gen_s, 1),
           warmup_s=round(wt, 1))


if __name__ == "__main__":
    run_main(main)
