"""Shared helpers of the BOUNDED stand-ins (bounded/<pid>.py).  Everything here runs the REAL library natively (JIT as
installed) on an explicitly enumerated finite domain; results are labelled bounded and never counted as proved.

Interface of every bounded/<pid>.py:   .venv/bin/python bounded/<pid>.py --tier quick|thorough --seed N
  prints (last line of stdout) one JSON object:
    {"evaluations": int, "distinct_nontrivial": int, "rule": str, "samples": [..], "domain": str,
     "failures": [{"contract": str, "obligation": str, "detail": str, "input": {...}}, ...], "wall_s": float}
  exit code 0 always (failures are reported in the JSON; the caller turns them into VIOLATION / KNOWN-FINDING lines).
  'contract' and 'obligation' must be STABLE names (function or scenario family / violated clause), because known findings are
  matched on them.
"""
import argparse
import itertools
import json
import math
import multiprocessing as mp
import os
import sys
import time
import types
import warnings

warnings.filterwarnings("ignore")
import numpy as np

VERIF = os.path.dirname(os.path.dirname(os.path.abspath(__file__)))
if os.environ.get("D3VC_REPO"):
    sys.path.insert(0, os.environ["D3VC_REPO"])


def stub_visualization():
    """distance3d.visualization needs open3d (libusb missing here); hydroelastic_contact imports one class from it"""
    if "distance3d.visualization" in sys.modules:
        return
    m = types.ModuleType("distance3d.visualization")

    class RigidBodyTetrahedralMesh:      # only used by RigidBody.make_artist
        def __init__(self, *a, **k):
            pass
    m.RigidBodyTetrahedralMesh = RigidBodyTetrahedralMesh
    m.Mesh = RigidBodyTetrahedralMesh
    m.Ellipse = RigidBodyTetrahedralMesh
    sys.modules["distance3d.visualization"] = m


def args():
    ap = argparse.ArgumentParser()
    ap.add_argument("--tier", default="quick")
    ap.add_argument("--seed", type=int, default=0)
    ap.add_argument("--jobs", type=int, default=16)
    return ap.parse_args()


def emit(t0, evaluations, distinct, rule, samples, failures, domain, **extra):
    # the listed failures are what the check maps onto known findings / reports: EVERY distinct (contract, obligation) must be
    # represented (a plain failures[:60] hid new names behind the known ones), then up to 60 further examples
    reps, rest, seen = [], [], set()
    for f in failures:
        key = (f.get("contract"), f.get("obligation")) if isinstance(f, dict) else None
        if key not in seen:
            seen.add(key)
            reps.append(f)
        else:
            rest.append(f)
    out = dict(evaluations=int(evaluations), distinct_nontrivial=int(distinct), rule=rule, samples=samples[:8], domain=domain,
               failures=reps[:4000] + rest[:60], n_failures=len(failures), n_failing_names=len(seen), wall_s=round(time.time() - t0, 2))
    out.update(extra)
    print(json.dumps(out, default=_js))


def _js(o):
    if isinstance(o, np.ndarray):
        return o.tolist()
    if isinstance(o, (np.floating, np.integer)):
        return o.item()
    return str(o)


def pmap(fn, tasks, jobs=16, chunksize=1, timeout=2400):
    """parallel map with a watchdog: a hang of the native code is reported as a failure of the task, not a hang of the check"""
    ctx = mp.get_context("fork")
    with ctx.Pool(min(jobs, max(1, len(tasks)))) as pool:
        res = pool.map_async(fn, tasks, chunksize=chunksize)
        try:
            return res.get(timeout=timeout)
        except mp.TimeoutError:
            pool.terminate()
            return None


# ---------------------------------------------------------------------------------------------- poses
def cube_group():
    g = []
    for perm in itertools.permutations(range(3)):
        for signs in itertools.product([1, -1], repeat=3):
            m = np.zeros((3, 3))
            for i, p in enumerate(perm):
                m[i, p] = signs[i]
            if np.linalg.det(m) > 0:
                g.append(m)
    return g


CUBE = cube_group()


def pose(R, t):
    T = np.eye(4)
    T[:3, :3] = R
    T[:3, 3] = t
    return np.ascontiguousarray(T)


def random_rotation(rng):
    q = rng.normal(size=4)
    q /= np.linalg.norm(q)
    w, x, y, z = q
    return np.array([[1 - 2 * (y * y + z * z), 2 * (x * y - z * w), 2 * (x * z + y * w)],
                     [2 * (x * y + z * w), 1 - 2 * (x * x + z * z), 2 * (y * z - x * w)],
                     [2 * (x * z - y * w), 2 * (y * z + x * w), 1 - 2 * (x * x + y * y)]])


def lattice_or_random_pose(rng, scale=1.0, p_lattice=0.5):
    if rng.random() < p_lattice:
        R = CUBE[rng.integers(len(CUBE))]
        t = rng.integers(-2, 3, size=3).astype(float) * scale * rng.choice([0.5, 1.0, 1.0, 2.0])
    else:
        R = random_rotation(rng)
        t = rng.normal(size=3) * scale
    return pose(R, t)


# ---------------------------------------------------------------------------------------------- colliders + exact oracles
COLLIDER_TYPES = ["sphere", "ellipsoid", "capsule", "cylinder", "cone", "box", "disk", "ellipse", "mesh", "hull"]


def make_collider(kind, T, size, rng=None):
    """collider of the given type at pose T with feature size `size` (a dict is returned with the object, its type and
    parameters so that oracles can use closed forms)"""
    from distance3d import colliders
    s = float(size)
    if kind == "sphere":
        obj = colliders.Sphere(np.ascontiguousarray(T[:3, 3]), s)
        par = dict(c=T[:3, 3].copy(), r=s)
    elif kind == "ellipsoid":
        radii = np.array([s, 0.5 * s, 0.75 * s])
        obj = colliders.Ellipsoid(T, radii)
        par = dict(T=T, radii=radii)
    elif kind == "capsule":
        obj = colliders.Capsule(T, 0.5 * s, s)
        par = dict(T=T, r=0.5 * s, h=s)
    elif kind == "cylinder":
        obj = colliders.Cylinder(T, 0.5 * s, s)
        par = dict(T=T, r=0.5 * s, L=s)
    elif kind == "cone":
        obj = colliders.Cone(T, 0.5 * s, s)
        par = dict(T=T, r=0.5 * s, h=s)
    elif kind == "box":
        size3 = np.array([s, 0.5 * s, 0.75 * s])
        obj = colliders.Box(T, size3)
        par = dict(T=T, size=size3)
    elif kind == "disk":
        obj = colliders.Disk(np.ascontiguousarray(T[:3, 3]), s, np.ascontiguousarray(T[:3, 2]))
        par = dict(T=T, r=s)
    elif kind == "ellipse":
        radii = np.array([s, 0.5 * s])
        obj = colliders.Ellipse(np.ascontiguousarray(T[:3, 3]), np.ascontiguousarray(T[:3, :2].T), radii)
        par = dict(T=T, radii=radii)
    elif kind in ("mesh", "hull"):
        # octahedron-like convex polytope with 6 + 8 vertices (cube corners scaled in), consistent outward winding from ConvexHull
        from scipy.spatial import ConvexHull
        v = [[s, 0, 0], [-s, 0, 0], [0, 0.5 * s, 0], [0, -0.5 * s, 0], [0, 0, 0.75 * s], [0, 0, -0.75 * s]]
        for sx, sy, sz in itertools.product([-1, 1], repeat=3):
            v.append([0.45 * s * sx, 0.25 * s * sy, 0.35 * s * sz])
        v = np.array(v, dtype=float)
        if kind == "mesh":
            from distance3d.mesh import make_convex_mesh
            tri = make_convex_mesh(v)
            vv = v - np.mean(v, axis=0)
            obj = colliders.MeshGraph(T, np.ascontiguousarray(vv), tri)
            world = (T[:3, :3] @ vv.T).T + T[:3, 3]
        else:
            world = (T[:3, :3] @ v.T).T + T[:3, 3]
            obj = colliders.ConvexHullVertices(np.ascontiguousarray(world))
        par = dict(T=T, vertices_world=np.ascontiguousarray(world))
    else:
        raise ValueError(kind)
    return dict(kind=kind, obj=obj, par=par, size=s)


def support_exact(col, d):
    """closed-form support point of the collider (independent of the library's support functions; float arithmetic)"""
    k, p = col["kind"], col["par"]
    d = np.asarray(d, dtype=float)
    if k == "sphere":
        n = np.linalg.norm(d)
        return p["c"] + (p["r"] * d / n if n > 0 else 0)
    if k in ("mesh", "hull"):
        V = p["vertices_world"]
        return V[np.argmax(V @ d)]
    T = p["T"]
    R, t = T[:3, :3], T[:3, 3]
    l = R.T @ d
    if k == "ellipsoid":
        r = p["radii"]
        n = np.linalg.norm(r * l)
        y = r * r * l / n if n > 0 else np.zeros(3)
    elif k == "capsule":
        n = np.linalg.norm(l)
        y = (p["r"] * l / n if n > 0 else np.zeros(3)) + np.array([0, 0, 0.5 * p["h"] * (1 if l[2] > 0 else -1)])
    elif k == "cylinder":
        rho = math.hypot(l[0], l[1])
        y = np.array([p["r"] * l[0] / rho if rho > 0 else 0.0, p["r"] * l[1] / rho if rho > 0 else 0.0, 0.5 * p["L"] * (1 if l[2] >= 0 else -1)])
    elif k == "cone":
        rho = math.hypot(l[0], l[1])
        rim = np.array([p["r"] * l[0] / rho if rho > 0 else p["r"], p["r"] * l[1] / rho if rho > 0 else 0.0, 0.0])
        apex = np.array([0.0, 0.0, p["h"]])
        y = rim if rim @ l >= apex @ l else apex
    elif k == "box":
        y = 0.5 * p["size"] * np.sign(l)
    elif k == "disk":
        rho = math.hypot(l[0], l[1])
        y = np.array([p["r"] * l[0] / rho if rho > 0 else 0.0, p["r"] * l[1] / rho if rho > 0 else 0.0, 0.0])
    elif k == "ellipse":
        r = p["radii"]
        n = math.hypot(r[0] * l[0], r[1] * l[1])
        y = np.array([r[0] ** 2 * l[0] / n if n > 0 else 0.0, r[1] ** 2 * l[1] / n if n > 0 else 0.0, 0.0])
    else:
        raise ValueError(k)
    return t + R @ y


def support_value(col, d):
    return float(support_exact(col, d) @ np.asarray(d, dtype=float))


def contains(col, x, tol=0.0):
    """closed-form membership of a world point (with slack tol, in length units)"""
    k, p = col["kind"], col["par"]
    x = np.asarray(x, dtype=float)
    if k == "sphere":
        return np.linalg.norm(x - p["c"]) <= p["r"] + tol
    if k in ("mesh", "hull"):
        from scipy.spatial import ConvexHull
        if "_eq" not in p:
            p["_eq"] = ConvexHull(p["vertices_world"]).equations
        return bool(np.all(p["_eq"][:, :3] @ x + p["_eq"][:, 3] <= tol))
    T = p["T"]
    y = T[:3, :3].T @ (x - T[:3, 3])
    if k == "ellipsoid":
        return math.sqrt(np.sum((y / p["radii"]) ** 2)) <= 1 + tol / min(p["radii"])
    if k == "capsule":
        tt = min(max(y[2], -0.5 * p["h"]), 0.5 * p["h"])
        return math.sqrt(y[0] ** 2 + y[1] ** 2 + (y[2] - tt) ** 2) <= p["r"] + tol
    if k == "cylinder":
        return math.hypot(y[0], y[1]) <= p["r"] + tol and abs(y[2]) <= 0.5 * p["L"] + tol
    if k == "cone":
        return -tol <= y[2] <= p["h"] + tol and math.hypot(y[0], y[1]) <= p["r"] * (1 - y[2] / p["h"]) + tol
    if k == "box":
        return bool(np.all(np.abs(y) <= 0.5 * p["size"] + tol))
    if k == "disk":
        return abs(y[2]) <= tol + 1e-12 and math.hypot(y[0], y[1]) <= p["r"] + tol
    if k == "ellipse":
        return abs(y[2]) <= tol + 1e-12 and math.sqrt((y[0] / p["radii"][0]) ** 2 + (y[1] / p["radii"][1]) ** 2) <= 1 + tol / min(p["radii"])
    raise ValueError(k)


def separation_lower_bound(colA, colB, dirs):
    """certificate oracle: max over unit directions n of  -(h_A(n) + h_B(-n))  is a LOWER bound of dist(A,B) (support inequality);
    returns (best value, direction).  Positive value proves the sets are disjoint with at least that gap."""
    best, bd = -math.inf, None
    for n in dirs:
        n = n / np.linalg.norm(n)
        g = -(support_value(colA, n) + support_value(colB, -n))
        if g > best:
            best, bd = g, n
    return best, bd


def refine_direction(colA, colB, n0, iters=60):
    """local maximisation of the separation certificate over directions (projected subgradient); returns best lower bound"""
    n = n0 / np.linalg.norm(n0)
    best = -(support_value(colA, n) + support_value(colB, -n))
    step = 0.5
    for _ in range(iters):
        pa, pb = support_exact(colA, n), support_exact(colB, -n)
        g = -(pa - pb)                      # gradient of the certificate wrt n (before normalisation)
        g = g - (g @ n) * n
        gn = np.linalg.norm(g)
        if gn < 1e-15:
            break
        cand = n + step * g / gn
        cand /= np.linalg.norm(cand)
        val = -(support_value(colA, cand) + support_value(colB, -cand))
        if val > best:
            best, n = val, cand
        else:
            step *= 0.5
            if step < 1e-12:
                break
    return best, n


def fibonacci_sphere(n):
    i = np.arange(n) + 0.5
    phi = np.arccos(1 - 2 * i / n)
    th = np.pi * (1 + 5 ** 0.5) * i
    return np.stack([np.cos(th) * np.sin(phi), np.sin(th) * np.sin(phi), np.cos(phi)], axis=1)


def scene_scale(colA, colB):
    ca = colA["obj"].center()
    cb = colB["obj"].center()
    return max(1.0, colA["size"], colB["size"], float(np.linalg.norm(np.asarray(ca) - np.asarray(cb))))
