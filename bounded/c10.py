"""BOUNDED stand-in for C10: every function of distance3d.distance returns a finite d >= 0, closest points that lie on the
respective primitives (1e-9*L), |p1-p2| = d (1e-6*L), d = 0 => common point; never raises / hangs / returns NaN.

The REAL library is run natively on an explicitly enumerated finite domain of scenes (random + exactly degenerate placements);
every clause is checked against closed-form 'point on primitive' predicates written here (independent of the code under test).
Results are labelled bounded, never proved.

This file also holds the primitive model, the scene generators and the closed-form oracles shared with bounded/c11.py.

    cd /verif && .venv/bin/python bounded/c10.py --tier quick|thorough --seed N
"""
import hashlib
import math
import os
import sys
import time
import traceback

for _v in ("OMP_NUM_THREADS", "OPENBLAS_NUM_THREADS", "MKL_NUM_THREADS", "NUMBA_NUM_THREADS"):
    os.environ.setdefault(_v, "1")
sys.path.insert(0, os.path.dirname(os.path.abspath(__file__)))
import _common as C
import numpy as np

import distance3d
import distance3d.distance as D

EPSF = float(np.finfo(float).eps)

# ------------------------------------------------------------------------------------------------- the 34 functions
_KIND = {"point": "point", "line": "line", "line_segment": "segment", "plane": "plane", "triangle": "triangle",
         "rectangle": "rectangle", "circle": "circle", "disk": "disk", "box": "box", "ellipsoid": "ellipsoid",
         "cylinder": "cylinder"}
FUNCS = []
for _name in D.__all__:
    _a, _b = _name.split("_to_")
    FUNCS.append((_name, _KIND[_a], _KIND[_b]))
FUNCS.sort()
assert len(FUNCS) == 34, len(FUNCS)
CONVEX = {"point", "line", "segment", "plane", "triangle", "rectangle", "disk", "box", "ellipsoid", "cylinder"}
UNBOUNDED = {"line", "plane"}


# ------------------------------------------------------------------------------------------------- small linear algebra
def nrm(v):
    return float(math.sqrt(v[0] * v[0] + v[1] * v[1] + v[2] * v[2]))


def unit(v):
    return v / nrm(v)


def orth_basis(n):
    """two unit vectors spanning the plane orthogonal to the unit vector n (own construction, not the library's)"""
    a = np.zeros(3)
    a[int(np.argmin(np.abs(n)))] = 1.0
    e1 = np.cross(n, a)
    e1 /= nrm(e1)
    e2 = np.cross(n, e1)
    e2 /= nrm(e2)
    return e1, e2


def rot(axis, angle):
    axis = unit(np.asarray(axis, dtype=float))
    K = np.array([[0, -axis[2], axis[1]], [axis[2], 0, -axis[0]], [-axis[1], axis[0], 0]])
    return np.eye(3) + math.sin(angle) * K + (1 - math.cos(angle)) * (K @ K)


def ca(x):
    return np.ascontiguousarray(np.array(x, dtype=float))


# ------------------------------------------------------------------------------------------------- shapes and placement
ROUND = [0.2, 0.25, 0.5, 0.5, 1.0, 1.0, 1.0, 2.0, 2.0, 3.0, 4.0, 10.0, 100.0]
HALFINT = [-2.0, -1.5, -1.0, -1.0, -0.5, -0.5, 0.0, 0.0, 0.0, 0.5, 0.5, 1.0, 1.0, 1.5, 2.0]
SMIN, SMAX, POSMAX = 0.2, 100.0, 1000.0


def draw_size(rng, mode):
    if mode == "round":
        return float(ROUND[rng.integers(len(ROUND))])
    return float(math.exp(rng.uniform(math.log(SMIN), math.log(SMAX))))


def _tri_ok(v2):
    e = [nrm(np.append(v2[(i + 1) % 3] - v2[i], 0.0)) for i in range(3)]
    if min(e) < SMIN or max(e) > SMAX:
        return False
    area2 = abs((v2[1, 0] - v2[0, 0]) * (v2[2, 1] - v2[0, 1]) - (v2[1, 1] - v2[0, 1]) * (v2[2, 0] - v2[0, 0]))
    return area2 / max(e) >= SMIN


def draw_shape(kind, rng, mode):
    """local (pose independent) description of a well-formed primitive: feature sizes in [0.2, 1e2]"""
    s = lambda: draw_size(rng, mode)
    off = lambda: float(HALFINT[rng.integers(len(HALFINT))]) if mode == "round" else float(rng.normal() * 3)
    if kind == "point":
        return {}
    if kind == "line":
        return dict(tau=off())
    if kind == "segment":
        return dict(l=s(), anchored=bool(rng.random() < 0.5))
    if kind == "plane":
        return dict(a=off(), b=off())
    if kind == "triangle":
        for _ in range(1000):
            if mode == "round":
                sc = float(rng.choice([0.5, 1.0, 1.0, 2.0]))
                v2 = rng.integers(-2, 3, size=(3, 2)).astype(float) * sc
            else:
                b = s()
                v2 = np.array([[0.0, 0.0], [b, 0.0], [rng.uniform(-1, 2) * b, s() * (1 if rng.random() < 0.5 else -1)]])
                v2 -= v2.mean(axis=0) * float(rng.random() < 0.5)
            if _tri_ok(v2):
                return dict(v2=v2)
        return dict(v2=np.array([[0.0, 0.0], [1.0, 0.0], [0.0, 1.0]]))
    if kind == "rectangle":
        return dict(lengths=np.array([s(), s()]))
    if kind in ("circle", "disk"):
        return dict(r=s())
    if kind == "box":
        return dict(size=np.array([s(), s(), s()]))
    if kind == "ellipsoid":
        return dict(radii=np.array([s(), s(), s()]))
    if kind == "cylinder":
        return dict(r=s(), l=s())
    raise ValueError(kind)


def place(kind, shape, R, t):
    """world primitive = shape moved by the rigid motion (R, t); all arrays float64 C-contiguous, as the library expects"""
    R = ca(R)
    t = ca(t)
    P = dict(kind=kind, R=R, t=t)
    if kind == "point":
        P.update(x=t.copy())
    elif kind == "line":
        u = ca(R[:, 2])
        P.update(p=ca(t + shape["tau"] * u), u=u)
    elif kind == "segment":
        u = R[:, 2]
        if shape["anchored"]:
            P.update(a=t.copy(), b=ca(t + shape["l"] * u))
        else:
            P.update(a=ca(t - 0.5 * shape["l"] * u), b=ca(t + 0.5 * shape["l"] * u))
    elif kind == "plane":
        P.update(p=ca(t + shape["a"] * R[:, 0] + shape["b"] * R[:, 1]), n=ca(R[:, 2]))
    elif kind == "triangle":
        v2 = shape["v2"]
        P.update(V=ca(t[None, :] + v2[:, 0:1] * R[:, 0][None, :] + v2[:, 1:2] * R[:, 1][None, :]))
    elif kind == "rectangle":
        P.update(c=t.copy(), axes=ca(R[:, :2].T), lengths=ca(shape["lengths"]))
    elif kind in ("circle", "disk"):
        P.update(c=t.copy(), r=float(shape["r"]), n=ca(R[:, 2]))
    elif kind == "box":
        P.update(T=C.pose(R, t), size=ca(shape["size"]))
    elif kind == "ellipsoid":
        P.update(T=C.pose(R, t), radii=ca(shape["radii"]))
    elif kind == "cylinder":
        P.update(T=C.pose(R, t), r=float(shape["r"]), l=float(shape["l"]))
    else:
        raise ValueError(kind)
    return P


def args_of(P):
    """positional arguments of the library functions for this primitive (fresh copies: the library may not alias them)"""
    k = P["kind"]
    if k == "point":
        return (P["x"].copy(),)
    if k == "line":
        return (P["p"].copy(), P["u"].copy())
    if k == "segment":
        return (P["a"].copy(), P["b"].copy())
    if k == "plane":
        return (P["p"].copy(), P["n"].copy())
    if k == "triangle":
        return (P["V"].copy(),)
    if k == "rectangle":
        return (P["c"].copy(), P["axes"].copy(), P["lengths"].copy())
    if k in ("circle", "disk"):
        return (P["c"].copy(), float(P["r"]), P["n"].copy())
    if k == "box":
        return (P["T"].copy(), P["size"].copy())
    if k == "ellipsoid":
        return (P["T"].copy(), P["radii"].copy())
    if k == "cylinder":
        return (P["T"].copy(), float(P["r"]), float(P["l"]))
    raise ValueError(k)


def describe(P):
    k = P["kind"]
    keys = dict(point=["x"], line=["p", "u"], segment=["a", "b"], plane=["p", "n"], triangle=["V"],
                rectangle=["c", "axes", "lengths"], circle=["c", "r", "n"], disk=["c", "r", "n"], box=["T", "size"],
                ellipsoid=["T", "radii"], cylinder=["T", "r", "l"])[k]
    out = dict(kind=k)
    for q in keys:
        v = P[q]
        out[q] = v.tolist() if isinstance(v, np.ndarray) else v
    return out


def centre(P):
    k = P["kind"]
    if k == "point":
        return P["x"]
    if k in ("line", "plane"):
        return P["p"]
    if k == "segment":
        return 0.5 * (P["a"] + P["b"])
    if k == "triangle":
        return P["V"].mean(axis=0)
    if k in ("rectangle", "circle", "disk"):
        return P["c"]
    return P["T"][:3, 3]


def feature_sizes(P):
    k = P["kind"]
    if k in ("point", "line", "plane"):
        return []
    if k == "segment":
        return [nrm(P["b"] - P["a"])]
    if k == "triangle":
        V = P["V"]
        return [nrm(V[(i + 1) % 3] - V[i]) for i in range(3)]
    if k == "rectangle":
        return list(P["lengths"])
    if k in ("circle", "disk"):
        return [P["r"]]
    if k == "box":
        return list(P["size"])
    if k == "ellipsoid":
        return list(P["radii"])
    return [P["r"], P["l"]]


def scene_L(A, B):
    """L = max(1, largest feature size or centre distance of the scene)"""
    return float(max([1.0, nrm(centre(A) - centre(B))] + feature_sizes(A) + feature_sizes(B)))


def scene_extent(A, B):
    """largest coordinate magnitude of the defining data (used only for the float round-off allowance of the oracle)"""
    m = 0.0
    for P in (A, B):
        m = max(m, float(np.max(np.abs(centre(P)))) + (max(feature_sizes(P)) if feature_sizes(P) else 0.0))
    return m


# ------------------------------------------------------------------------------------------------- closed-form oracles
def proj(P, x):
    """closest point of the primitive to x (closed form; ellipsoid: monotone bisection of the secular equation)"""
    k = P["kind"]
    if k == "point":
        return P["x"].copy()
    if k == "line":
        return P["p"] + float((x - P["p"]) @ P["u"]) * P["u"]
    if k == "segment":
        a, b = P["a"], P["b"]
        d = b - a
        tau = min(1.0, max(0.0, float((x - a) @ d) / float(d @ d)))
        return a + tau * d
    if k == "plane":
        return x - float((x - P["p"]) @ P["n"]) * P["n"]
    if k == "triangle":
        V = P["V"]
        n = np.cross(V[1] - V[0], V[2] - V[0])
        n = n / nrm(n)
        q = x - float((x - V[0]) @ n) * n
        inside = True
        for i in range(3):
            e = V[(i + 1) % 3] - V[i]
            if float(np.cross(e, q - V[i]) @ n) < 0.0:
                inside = False
                break
        if inside:
            return q
        best, bd = None, math.inf
        for i in range(3):
            a, b = V[i], V[(i + 1) % 3]
            d = b - a
            tau = min(1.0, max(0.0, float((x - a) @ d) / float(d @ d)))
            c = a + tau * d
            dd = nrm(x - c)
            if dd < bd:
                best, bd = c, dd
        return best
    if k == "rectangle":
        y = P["axes"] @ (x - P["c"])
        y = np.minimum(np.maximum(y, -0.5 * P["lengths"]), 0.5 * P["lengths"])
        return P["c"] + y @ P["axes"]
    if k in ("circle", "disk"):
        # in-plane coordinates in an explicit orthonormal basis, so that the result lies in the plane of the circle even when x is
        # (nearly) on the axis, where the in-plane component is pure rounding noise
        w = x - P["c"]
        e1, e2 = orth_basis(P["n"])
        v1, v2 = float(w @ e1), float(w @ e2)
        rho = math.hypot(v1, v2)
        if k == "circle":
            if rho > 1e-13 * (nrm(w) + P["r"]):
                return P["c"] + (P["r"] / rho) * (v1 * e1 + v2 * e2)
            return P["c"] + P["r"] * e1
        if rho > P["r"]:
            return P["c"] + (P["r"] / rho) * (v1 * e1 + v2 * e2)
        return P["c"] + v1 * e1 + v2 * e2
    if k == "box":
        R, t = P["T"][:3, :3], P["T"][:3, 3]
        y = R.T @ (x - t)
        y = np.minimum(np.maximum(y, -0.5 * P["size"]), 0.5 * P["size"])
        return t + R @ y
    if k == "cylinder":
        R, t = P["T"][:3, :3], P["T"][:3, 3]
        y = R.T @ (x - t)
        rho = math.hypot(y[0], y[1])
        if rho > P["r"]:
            y[0] *= P["r"] / rho
            y[1] *= P["r"] / rho
        y[2] = min(0.5 * P["l"], max(-0.5 * P["l"], y[2]))
        return t + R @ y
    if k == "ellipsoid":
        R, t = P["T"][:3, :3], P["T"][:3, 3]
        r = P["radii"]
        y = R.T @ (x - t)
        if float(np.sum((y / r) ** 2)) <= 1.0:
            return x.copy()
        r2 = r * r
        lo, hi = 0.0, float(max(r) * nrm(y)) + 1.0       # F(lo) > 0 (outside), F(hi) < 0
        F = lambda s: float(np.sum((r * y / (s + r2)) ** 2)) - 1.0
        while F(hi) > 0.0:
            hi *= 2.0
        for _ in range(70):
            mid = 0.5 * (lo + hi)
            if F(mid) > 0.0:
                lo = mid
            else:
                hi = mid
        z = r2 * y / (hi + r2)                      # F(hi) <= 0: inside or on the surface
        q = math.sqrt(float(np.sum((z / r) ** 2)))
        if q > 1.0:
            z = z / q
        return t + R @ z
    raise ValueError(k)


def member_residual(P, x):
    """closed-form 'point on primitive' predicate: a LOWER bound (exact except for the ellipsoid) of the Euclidean distance of
    x to the primitive; x is a member iff this is 0 (up to the property's tolerance)"""
    k = P["kind"]
    if k == "point":
        return nrm(x - P["x"])
    if k == "line":
        return nrm(np.cross(x - P["p"], P["u"])) / nrm(P["u"])
    if k == "plane":
        return abs(float((x - P["p"]) @ P["n"])) / nrm(P["n"])
    if k in ("segment", "triangle"):
        return nrm(x - proj(P, x))
    if k == "rectangle":
        w = x - P["c"]
        y = P["axes"] @ w
        out = float(w @ np.cross(P["axes"][0], P["axes"][1]))
        ex = np.maximum(np.abs(y) - 0.5 * P["lengths"], 0.0)
        return math.sqrt(out * out + float(ex @ ex))
    if k in ("circle", "disk"):
        w = x - P["c"]
        h = float(w @ P["n"])
        rho = nrm(w - h * P["n"])
        if k == "circle":
            return math.hypot(rho - P["r"], h)
        return math.hypot(max(rho - P["r"], 0.0), h)
    if k == "box":
        R, t = P["T"][:3, :3], P["T"][:3, 3]
        ex = np.maximum(np.abs(R.T @ (x - t)) - 0.5 * P["size"], 0.0)
        return nrm(ex)
    if k == "cylinder":
        R, t = P["T"][:3, :3], P["T"][:3, 3]
        y = R.T @ (x - t)
        return math.hypot(max(math.hypot(y[0], y[1]) - P["r"], 0.0), max(abs(y[2]) - 0.5 * P["l"], 0.0))
    if k == "ellipsoid":
        # solid ellipsoid (the library's default distance_to_surface=False; plane_to_ellipsoid returns interior points when the
        # plane cuts it).  y -> y/r is 1/min(r)-Lipschitz, hence dist(x, E) >= (|y/r| - 1) * min(r): sound lower bound.
        R, t = P["T"][:3, :3], P["T"][:3, 3]
        q = math.sqrt(float(np.sum(((R.T @ (x - t)) / P["radii"]) ** 2)))
        return max(q - 1.0, 0.0) * float(min(P["radii"]))
    raise ValueError(k)


# ------------------------------------------------------------------------------------------------- member samplers
def _special(rng, specials, lo, hi, p=0.6):
    if rng.random() < p:
        return float(specials[rng.integers(len(specials))])
    return float(rng.uniform(lo, hi))


def sample_member(P, rng, scale=3.0):
    """a point of the primitive; corners, edges, rims, centres are drawn with high probability"""
    k = P["kind"]
    if k == "point":
        return P["x"].copy()
    if k == "line":
        return P["p"] + _special(rng, HALFINT, -scale, scale) * P["u"]
    if k == "segment":
        return P["a"] + _special(rng, [0.0, 1.0, 0.5, 0.25], 0, 1) * (P["b"] - P["a"])
    if k == "plane":
        e1, e2 = P["R"][:, 0], P["R"][:, 1]
        return P["p"] + _special(rng, HALFINT, -scale, scale) * e1 + _special(rng, HALFINT, -scale, scale) * e2
    if k == "triangle":
        m = rng.integers(4)
        if m == 0:
            w = np.zeros(3)
            w[rng.integers(3)] = 1.0
        elif m == 1:
            w = np.zeros(3)
            i = rng.integers(3)
            s = _special(rng, [0.5, 0.25], 0, 1)
            w[i], w[(i + 1) % 3] = s, 1 - s
        elif m == 2:
            w = np.ones(3) / 3
        else:
            w = rng.dirichlet(np.ones(3))
        return w @ P["V"]
    if k == "rectangle":
        y = np.array([_special(rng, [-1, 1, 0, 0.5], -1, 1), _special(rng, [-1, 1, 0, 0.5], -1, 1)]) * 0.5 * P["lengths"]
        return P["c"] + y @ P["axes"]
    if k in ("circle", "disk"):
        th = _special(rng, [0, 0.5 * math.pi, math.pi, 1.5 * math.pi, 0.25 * math.pi], 0, 2 * math.pi)
        rho = 1.0 if k == "circle" else _special(rng, [1.0, 1.0, 0.0, 0.5], 0, 1)
        e1, e2 = P["R"][:, 0], P["R"][:, 1]
        return P["c"] + rho * P["r"] * (math.cos(th) * e1 + math.sin(th) * e2)
    R, t = P["T"][:3, :3], P["T"][:3, 3]
    if k == "box":
        y = np.array([_special(rng, [-1, 1, 0, 0.5], -1, 1) for _ in range(3)]) * 0.5 * P["size"]
        return t + R @ y
    if k == "ellipsoid":
        if rng.random() < 0.5:
            v = np.zeros(3)
            v[rng.integers(3)] = rng.choice([-1.0, 1.0])
        else:
            v = unit(rng.normal(size=3))
        rho = _special(rng, [1.0, 1.0, 0.0, 0.5], 0, 1)
        return t + R @ (rho * P["radii"] * v)
    if k == "cylinder":
        th = _special(rng, [0, 0.5 * math.pi, math.pi, 1.5 * math.pi], 0, 2 * math.pi)
        rho = _special(rng, [1.0, 1.0, 0.0, 0.5], 0, 1) * P["r"]
        z = _special(rng, [-1, 1, 0, 0.5], -1, 1) * 0.5 * P["l"]
        return t + R @ np.array([rho * math.cos(th), rho * math.sin(th), z])
    raise ValueError(k)


# ------------------------------------------------------------------------------------------------- scene generator
FRAME_A = ["identity", "cube", "random"]
REL = ["same", "cube", "axisrot", "random", "near"]
TRANS = ["zero", "lattice", "glue", "axis", "random"]
NEAR_ANGLES = [1e-9, 1e-7, 1e-5, 1e-4, 5e-4, 2e-3, 5e-3, 2e-2]


def _clip_pos(t):
    n = nrm(t)
    return t if n <= POSMAX else t * (POSMAX / n)


def make_scene(k1, k2, rng):
    """one scene (A of kind k1, B of kind k2) + a tag of the placement class"""
    fa = FRAME_A[rng.choice(3, p=[0.3, 0.25, 0.45])]
    RA = np.eye(3) if fa == "identity" else (C.CUBE[rng.integers(24)] if fa == "cube" else C.random_rotation(rng))
    mode = "round" if rng.random() < 0.55 else "random"
    m = rng.random()
    if m < 0.4:
        tA = np.zeros(3)
    elif m < 0.7:
        tA = rng.integers(-4, 5, size=3).astype(float) * float(rng.choice([0.5, 1.0, 10.0]))
    else:
        tA = rng.normal(size=3) * float(rng.choice([1.0, 10.0, 100.0, 300.0]))
    tA = _clip_pos(tA)
    shA = draw_shape(k1, rng, mode)
    A = place(k1, shA, RA, tA)

    rel = REL[rng.choice(5, p=[0.15, 0.3, 0.15, 0.3, 0.1])]
    if rel == "same":
        Crel = np.eye(3)
    elif rel == "cube":
        Crel = C.CUBE[rng.integers(24)]
    elif rel == "axisrot":
        ax = np.zeros(3)
        ax[rng.integers(3)] = 1.0
        ang = float(rng.choice([math.pi / 4, math.pi / 6, math.pi / 3, rng.uniform(0, 2 * math.pi)]))
        Crel = C.CUBE[rng.integers(24)] @ rot(ax, ang)
    elif rel == "random":
        Crel = C.random_rotation(rng)
    else:
        if rng.random() < 0.5:
            ax = np.zeros(3)
            ax[rng.integers(3)] = 1.0
        else:
            ax = rng.normal(size=3)
        Crel = C.CUBE[rng.integers(24)] @ rot(ax, float(NEAR_ANGLES[rng.integers(len(NEAR_ANGLES))]))
    RB = RA @ Crel
    if k2 == k1 and rng.random() < 0.3:
        shB = shA                                              # identical shape (coincident / congruent primitives)
    else:
        shB = draw_shape(k2, rng, mode if rng.random() < 0.8 else ("random" if mode == "round" else "round"))

    tr = TRANS[rng.choice(5, p=[0.1, 0.25, 0.3, 0.1, 0.25])]
    if tr == "zero":
        tB = tA.copy()
    elif tr == "lattice":
        step = float(rng.choice([0.25, 0.5, 0.5, 1.0, 1.0, 2.0]))
        tB = tA + RA @ (rng.integers(-4, 5, size=3).astype(float) * step)
    elif tr == "axis":
        j = rng.integers(3)
        amt = float(rng.choice(ROUND)) * float(rng.choice([-1, 1])) if rng.random() < 0.6 else float(rng.normal() * 5)
        tB = tA + RA[:, j] * amt
    elif tr == "random":
        tB = tA + rng.normal(size=3) * float(rng.choice([0.3, 1.0, 3.0, 30.0, 300.0]))
    else:
        B0 = place(k2, shB, RB, np.zeros(3))
        tB = sample_member(A, rng) - sample_member(B0, rng)
    tB = _clip_pos(tB)
    B = place(k2, shB, RB, tB)
    return A, B, "%s/%s/%s/%s" % (fa, rel, tr, mode)


def direction_elements(P):
    """unit direction elements of a primitive on which parallel / perpendicular decisions can depend: line and edge directions,
    plane / face normals, rectangle / box / ellipsoid axes, circle / disk / cylinder axis"""
    k, R = P["kind"], P["R"]
    if k == "point":
        return []
    if k in ("line", "segment", "plane", "circle", "disk", "cylinder"):
        return [R[:, 2]]
    if k == "triangle":
        V = P["V"]
        return [R[:, 2]] + [unit(V[(i + 1) % 3] - V[i]) for i in range(3)]
    return [R[:, 0], R[:, 1], R[:, 2]]


def _frame(z):
    e1, e2 = orth_basis(unit(ca(z)))
    return np.array([e1, e2, unit(ca(z))]).T


def directed_cases(fname):
    """fixed inputs that are always part of the domain (reconnaissance findings of the design phase)"""
    if fname == "line_segment_to_circle":
        a, b, c, n = ca([0, -1, -0.5]), ca([2, -1, -0.5]), ca([0, -0.5, 0.5]), ca([0, 0, 1])
        return [(dict(kind="segment", a=a, b=b, R=_frame(b - a), t=0.5 * (a + b)), dict(kind="circle", c=c, r=2.0, n=n, R=_frame(n), t=c),
                 "directed/segment-under-circle")]
    return []


def axis_cosines(A, B):
    """(|cos|, |sin|) of every pair (direction element of A, direction element of B)"""
    res = []
    for u in direction_elements(A):
        for v in direction_elements(B):
            res.append((abs(float(u @ v)), nrm(np.cross(u, v))))
    return res


EXACT = 1e-12       # |cos| or |sin| below this is 'exactly' perpendicular / parallel (float representation of the degenerate case)


def has_exact_degeneracy(A, B):
    return any(c < EXACT or s < EXACT for c, s in axis_cosines(A, B))


# ------------------------------------------------------------------------------------------------- running the library
def call_library(fname, A, B):
    out = getattr(D, fname)(*(args_of(A) + args_of(B)))
    if A["kind"] == "point":
        d, p2 = out
        p1 = A["x"].copy()
    else:
        d, p1, p2 = out
    return d, p1, p2


def case_digest(fname, A, B):
    h = hashlib.blake2b(fname.encode(), digest_size=8)
    for a in args_of(A) + args_of(B):
        h.update(np.asarray(a, dtype=float).tobytes())
    return h.digest()


def check_c10(fname, A, B):
    """returns (list of (obligation, detail), d or None, p1, p2)"""
    L = scene_L(A, B)
    try:
        d, p1, p2 = call_library(fname, A, B)
    except Exception as e:                                                       # noqa
        tb = traceback.extract_tb(sys.exc_info()[2])[-1]
        return [("no_exception", "%s: %s at %s:%d" % (type(e).__name__, str(e)[:120], os.path.basename(tb.filename), tb.lineno))], None, None, None
    fails = []
    try:
        d = float(d)
        p1 = np.asarray(p1, dtype=float).reshape(3)
        p2 = np.asarray(p2, dtype=float).reshape(3)
    except Exception as e:                                                       # noqa
        return [("finite", "malformed return value: %r" % (e,))], None, None, None
    if not (math.isfinite(d) and np.all(np.isfinite(p1)) and np.all(np.isfinite(p2))):
        return [("finite", "d=%r p1=%s p2=%s" % (d, p1.tolist(), p2.tolist()))], None, None, None
    if d < 0.0:
        fails.append(("d_nonneg", "d=%r" % d))
    # float allowance of the ORACLE itself: a point with coordinates of size X cannot be tested (or even represented) better
    # than a few ulp(X)
    ulp = 32.0 * EPSF * max(scene_extent(A, B), float(np.max(np.abs(p1))), float(np.max(np.abs(p2))))
    tol_m = 1e-9 * L + ulp
    tol_d = 1e-6 * L + ulp
    r1 = member_residual(A, p1)
    r2 = member_residual(B, p2)
    if r1 > tol_m:
        fails.append(("p1_on_primitive1", "closest point 1 is %.3e off primitive 1 (tol %.1e, L=%.3g), p1=%s d=%r" % (r1, tol_m, L, p1.tolist(), d)))
    if r2 > tol_m:
        fails.append(("p2_on_primitive2", "closest point 2 is %.3e off primitive 2 (tol %.1e, L=%.3g), p2=%s d=%r" % (r2, tol_m, L, p2.tolist(), d)))
    gap = nrm(p1 - p2)
    if abs(gap - d) > tol_d:
        fails.append(("d_consistent", "|p1-p2|=%.9g but d=%.9g (tol %.1e, L=%.3g)" % (gap, d, tol_d, L)))
    if d == 0.0:
        # p1 = p2 = a common point: both returned points must belong to BOTH primitives (p1, p2 may differ by the consistency
        # tolerance, so the cross membership is tested with 1e-6*L + 1e-9*L)
        c1 = member_residual(B, p1)
        c2 = member_residual(A, p2)
        if max(c1, c2) > tol_d + tol_m:
            fails.append(("zero_means_common_point", "d=0 but p1 is %.3e off primitive 2, p2 is %.3e off primitive 1, |p1-p2|=%.3e (L=%.3g)" % (c1, c2, gap, L)))
    return fails, d, p1, p2


def nontrivial(A, B, d, L):
    """rule used for distinct_nontrivial"""
    fs = feature_sizes(A) + feature_sizes(B)
    return has_exact_degeneracy(A, B) or (d is not None and (d <= 1e-6 * L or (fs and d < min(fs))))


RULE = ("distinct input bytes (blake2b of function name + all argument arrays) AND at least one of: an axis / edge / normal of "
        "primitive 1 exactly parallel or perpendicular (|sin| or |cos| < 1e-12) to one of primitive 2; returned d <= 1e-6*L "
        "(touching / intersecting / contained); returned d smaller than the smallest feature size (near contact)")


# ------------------------------------------------------------------------------------------------- chunked, watched execution
_PROGRESS = None          # shared int array: index of the case a task is currently executing (read by the watchdog)
_TASK_SLOT = -1


def mark_progress(idx):
    if _PROGRESS is not None and _TASK_SLOT >= 0:
        _PROGRESS[_TASK_SLOT] = idx


def _worker_loop(worker, task_q, res_q):
    global _TASK_SLOT
    while True:
        item = task_q.get()
        if item is None:
            return
        i, t = item
        _TASK_SLOT = i
        res_q.put(("start", os.getpid(), i, None))
        try:
            r = worker(t)
        except Exception as e:                                                   # crash outside the guarded library call
            r = dict(crash="%s: %s" % (type(e).__name__, e))
        res_q.put(("done", os.getpid(), i, r))


def _cpu_seconds(pid):
    """user + system CPU time consumed by a process (robust against a loaded machine, unlike wall time)"""
    try:
        with open("/proc/%d/stat" % pid) as f:
            fields = f.read().rsplit(")", 1)[1].split()
        return (int(fields[11]) + int(fields[12])) / float(os.sysconf("SC_CLK_TCK"))
    except Exception:
        return 0.0


def run_chunks(worker, tasks, jobs, per_task_timeout, overall_deadline):
    """own process pool with a watchdog PER CASE: a worker that has consumed more than per_task_timeout seconds of CPU time
    without moving on to its next case (a case normally needs milliseconds to ~1 s; CPU time, not wall time, so that a busy
    machine cannot cause a false alarm) is killed and replaced (native code cannot be interrupted otherwise); its result is
    {'hung': index of the case it was executing}.  Tasks that could not be run / finished before overall_deadline come back as
    None (budget, not a failure)."""
    global _PROGRESS
    import multiprocessing as mp
    import queue
    ctx = mp.get_context("fork")
    _PROGRESS = ctx.Array("i", max(1, len(tasks)), lock=False)
    for i in range(len(tasks)):
        _PROGRESS[i] = -1
    task_q, res_q = ctx.Queue(), ctx.Queue()
    for i, t in enumerate(tasks):
        task_q.put((i, t))
    procs = {}

    def spawn():
        pr = ctx.Process(target=_worker_loop, args=(worker, task_q, res_q), daemon=True)
        pr.start()
        procs[pr.pid] = pr
    for _ in range(min(jobs, max(1, len(tasks)))):
        spawn()
    res = [None] * len(tasks)
    running = {}                                                                 # pid -> (task index, start time)
    n_open = len(tasks)
    while n_open > 0 and time.time() < overall_deadline:
        try:
            kind, pid, i, r = res_q.get(timeout=0.1)
            if kind == "start":
                running[pid] = [i, -2, _cpu_seconds(pid)]
            else:
                running.pop(pid, None)
                res[i] = r
                n_open -= 1
        except queue.Empty:
            pass
        for pid, st in list(running.items()):
            i, cpu = st[0], _cpu_seconds(pid)
            if int(_PROGRESS[i]) != st[1]:
                st[1], st[2] = int(_PROGRESS[i]), cpu
            elif cpu - st[2] > per_task_timeout:
                procs[pid].terminate()
                procs.pop(pid).join(1)
                running.pop(pid)
                res[i] = dict(hung=int(_PROGRESS[i]))
                n_open -= 1
                spawn()
    for pr in procs.values():
        pr.terminate()
    return res


def _worker_c10(task):
    fi, chunk, n, seed = task
    fname, k1, k2 = FUNCS[fi]
    rng = np.random.default_rng([seed, 10, fi, chunk])
    out = dict(fi=fi, n=0, fails=[], digests=set(), nontrivial=set(), samples=[], classes={})
    directed = directed_cases(fname) if chunk == 0 else []
    for i in range(n + len(directed)):
        A, B, tag = directed[i - n] if i >= n else make_scene(k1, k2, rng)
        mark_progress(min(i, n - 1))
        fails, d, p1, p2 = check_c10(fname, A, B)
        out["n"] += 1
        dg = case_digest(fname, A, B)
        out["digests"].add(dg)
        if nontrivial(A, B, d, scene_L(A, B)):
            out["nontrivial"].add(dg)
        cls = "/".join(tag.split("/")[1:3])
        out["classes"][cls] = out["classes"].get(cls, 0) + 1
        for ob, detail in fails:
            out["fails"].append(dict(contract="distance." + fname, obligation=ob, detail="[%s] %s" % (tag, detail),
                                     input=dict(primitive1=describe(A), primitive2=describe(B))))
        if i == 0 and chunk == 0:
            out["samples"].append(dict(function=fname, placement=tag, primitive1=describe(A), primitive2=describe(B),
                                       d=d, p1=None if p1 is None else p1.tolist(), p2=None if p2 is None else p2.tolist()))
    return out


def replay_scene(stream, fi, chunk, idx, seed):
    """the idx-th scene of a chunk (generation is deterministic in (seed, stream, function, chunk))"""
    rng = np.random.default_rng([seed, stream, fi, chunk])
    for _ in range(idx + 1):
        A, B, tag = make_scene(FUNCS[fi][1], FUNCS[fi][2], rng)
    return A, B, tag


def watchdog_failure(stream, t, r, seed):
    """failure record of a task that was killed by the watchdog (r = {'hung': idx}) or crashed"""
    fname = FUNCS[t[0]][0]
    if "hung" in r:
        inp = dict(task=list(t[:4]))
        if r["hung"] >= 0:
            A, B, tag = replay_scene(stream, t[0], t[1], r["hung"], seed)
            inp = dict(primitive1=describe(A), primitive2=describe(B), placement=tag, case_index=r["hung"], task=list(t[:4]))
        return dict(contract="distance." + fname, obligation="terminates",
                    detail="task %r: case %d did not return within the per-case CPU-time budget of the watchdog" % (tuple(t[:4]), r["hung"]), input=inp)
    return dict(contract="distance." + fname, obligation="no_exception", detail="worker crashed: " + r["crash"], input=dict(task=list(t[:4])))


def order_failures(fails, per_pair=2):
    """one example of every (contract, obligation) first, so that the 60-entry cut of emit() shows every distinct pair"""
    by = {}
    for f in fails:
        by.setdefault((f["contract"], f["obligation"]), []).append(f)
    out = []
    for r in range(per_pair):
        for key in sorted(by):
            if len(by[key]) > r:
                out.append(by[key][r])
    counts = {"%s|%s" % k: len(v) for k, v in sorted(by.items())}
    return out, counts


def selected_functions():
    """development aid (mutant runs): D3VC_ONLY=<fnmatch pattern on the function name> restricts the run; unset = all 34"""
    import fnmatch
    pat = os.environ.get("D3VC_ONLY")
    return [i for i, f in enumerate(FUNCS) if not pat or fnmatch.fnmatch(f[0], pat)]


DOMAIN = ("34 functions of distance3d.distance.__all__ x scenes (A, B): feature sizes (segment length, triangle edges and altitude, "
          "rectangle lengths, radii, box sizes, cylinder radius/length) in [0.2, 1e2] (round values 0.2..100 or log-uniform), positions "
          "within 1e3, default epsilon arguments, unit directions / normals, orthonormal axes.  Frame of A: identity | one of the 24 "
          "cube-group rotations | random; rotation of B relative to A: same | cube group (exactly parallel / perpendicular) | cube x "
          "rotation about a coordinate axis by pi/4, pi/6, pi/3, random (direction with an exact zero component) | random | near "
          "(cube x rotation by 1e-9..2e-2 rad); translation of B: zero (concentric / coincident) | half-/quarter-integer lattice in A's "
          "frame | glue (a member point of B - corner, edge, rim, centre or random - is put on a member point of A: touching, "
          "intersecting, contained) | along one axis of A | random normal x {0.3..300}; B has the identical shape as A with p=0.3 when "
          "the kinds agree.")


def main():
    a = C.args()
    t0 = time.time()
    per_fn = 4000 if a.tier == "quick" else 60000
    chunk_n = 500 if a.tier == "quick" else 2500
    deadline = t0 + (120 if a.tier == "quick" else 1000)
    tasks = [(fi, c, chunk_n, a.seed) for c in range(per_fn // chunk_n) for fi in selected_functions()]
    res = run_chunks(_worker_c10, tasks, a.jobs, 15 if a.tier == "quick" else 60, deadline)
    fails, samples, digests, nontriv, n, classes = [], [], set(), set(), 0, {}
    lost = 0
    for t, r in zip(tasks, res):
        if r is None:
            lost += 1                                       # wall budget used up before the task could run: counted, not failed
            continue
        if "hung" in r or "crash" in r:
            fails.append(watchdog_failure(10, t, r, a.seed))
            continue
        n += r["n"]
        fails += r["fails"]
        samples += r["samples"]
        digests |= r["digests"]
        nontriv |= r["nontrivial"]
        for k, v in r["classes"].items():
            classes[k] = classes.get(k, 0) + v
    ordered, counts = order_failures(fails)
    rngs = np.random.default_rng(a.seed)
    samples = [samples[i] for i in rngs.permutation(len(samples))[:8]] if samples else []
    C.emit(t0, n, len(nontriv), RULE, samples, ordered, DOMAIN, n_failures=len(fails), failure_counts=counts,
           distinct_inputs=len(digests), placement_classes=classes, undecided=0, chunks_lost_to_budget=lost, repo=os.path.dirname(distance3d.__file__),
           tier=a.tier, seed=a.seed)


if __name__ == "__main__":
    main()
