#!/usr/bin/env python
"""BOUNDED stand-in for C07 (EPA returns the minimum translation vector whenever it reports success).

Runs the REAL composed call  epa(gjk_distance_jolt(A, B)[3], A, B)  natively on an explicitly enumerated finite domain and
checks the clauses of C07 against independent oracles.  Results are bounded, never "proved".

Oracles (all independent of the code under test, only closed-form supports of bounded/_common.py, numpy and Qhull):
  * polytope pairs (box / hull / mesh): EXACT penetration depth  D = min over facet normals n of the Minkowski difference
    A - B of  h(n) = max_{v in A-B} v.n  (facet normals from scipy.spatial.ConvexHull of all pairwise vertex differences,
    the offsets are recomputed directly from the vertices; two guards make the oracle abstain (undecided) when Qhull's
    offsets disagree with the recomputed ones or when a sampled direction beats the facet minimum).  The translated pair
    A, B+mtv is the same polytope shifted by -mtv: residual overlap = min_n (h(n) - mtv.n) (exact); when that is negative the
    remaining gap is certified from below by a separating plane through the closest boundary point (support inequality).
  * all other pairs: UPPER bound of the depth = min over sampled + locally optimised unit directions of h_A(n) + h_B(-n)
    (so '|mtv| longer than the bound + tol' is sound); LOWER bound of a depth = max over points x of r_A(x) + r_B(x) where
    r_K(x) is a closed-form lower bound of the distance of x to the complement of K (a ball of radius r_A + r_B around 0 then
    lies in A - B); LOWER bound of a gap = separating-plane certificate  max_n -(h_A(n) + h_B'(-n)).
  A failure is only reported when the code's answer contradicts a sound bound by more than 1e-6*L; everything else that is
  not certified to hold is counted as undecided.

Obligations (contract `epa.epa[<A>,<B>]`), checked whenever GJK reports an overlap (distance 0):
  success_on_polytopes  box / hull / mesh pairs: epa returns success=True (AssertionError of the face-capacity assert and
                        success=False count as no success); no_exception: any other exception on such a pair
  mtv_minimal           |mtv| <= penetration depth + 1e-6*L   (exact depth for polytopes, upper bound otherwise)
  mtv_separates         penetration depth of A and B + mtv <= 1e-6*L   (exact / certified lower bound)
  mtv_touching          dist(A, B + mtv) <= 1e-6*L   (certified lower bound of the gap)
  terminates            epa returns (python-level loops: 10 s, repeated once with 30 s; native loops: 60 s in a worker)
L = max(1, 2*size of either collider, distance of the positions).

Uninitialised rows: gjk_distance_jolt allocates its simplex with np.empty and returns it without the number of valid rows, so
the input of epa (and with it the result of the composed call) depends on what the allocator hands out.  To keep the run
deterministic the harness primes numpy's small-block cache before every GJK call and evaluates two memory contents:
  'zero'  - rows that GJK does not write read as 0.0 (fresh pages);
  'stale' - they hold what a preceding gjk_distance_jolt call on a fixed, unrelated reference pair left in the cache (the
            situation of a loop over collision pairs); epa is only run again when that changes the simplex.
A diagnostic third GJK call primed with NaN counts the rows GJK actually wrote (`gjk_rows_written` in the failure input; rows
that were written but are stale duplicates of other rows still count as written).

The helpers in this file are shared with bounded/c08.py (MPR), which imports them from here.
"""
import itertools
import math
import os
import signal
import sys
import time

sys.path.insert(0, os.path.dirname(os.path.abspath(__file__)))
import _common as C
import numpy as np

POLY = ("box", "mesh", "hull")
FLAT = ("disk", "ellipse")
FIB = {n: C.fibonacci_sphere(n) for n in (64, 192, 2000)}
AXES = np.vstack([np.eye(3), -np.eye(3)])


# ------------------------------------------------------------------------------------------------ determinism of np.empty
def prime(fill, n=12):
    """make the next few np.empty((4, 3)) calls return blocks filled with `fill` (numpy small-block cache, LIFO)"""
    a = [np.full((4, 3), fill) for _ in range(n)]
    del a


def priming_effective():
    prime(7.0)
    ok = bool(np.all(np.empty((4, 3)) == 7.0))
    prime(0.0)
    return ok


class CaseTimeout(Exception):
    pass


def _alarm(signum, frame):
    raise CaseTimeout()


def _limited(fn, seconds):
    old = signal.signal(signal.SIGALRM, _alarm)
    signal.setitimer(signal.ITIMER_REAL, seconds)
    try:
        return fn()
    finally:
        signal.setitimer(signal.ITIMER_REAL, 0)
        signal.signal(signal.SIGALRM, old)


def with_timeout(fn, seconds=10.0, retry=30.0):
    """run fn() with a wall-clock limit (python-level loops of the library can spin forever).  A first timeout may be a JIT
    compilation on a loaded machine, so the call is repeated once with a generous limit before CaseTimeout is raised."""
    try:
        return _limited(fn, seconds)
    except CaseTimeout:
        return _limited(fn, retry)


def warm_up(use_epa=True, use_mpr=True):
    """compile / load every jitted function in the parent (no alarm running) so that the forked workers never compile"""
    from distance3d import gjk, epa, mpr
    rng = np.random.default_rng(12345)
    for shift in (0.15, 3.0):
        cols = [C.make_collider(k, C.pose(C.random_rotation(rng) if shift < 1 else np.eye(3), np.array([0.1, 0.07, 0.03]) * i), 1.0)
                for i, k in enumerate(C.COLLIDER_TYPES)]
        for A in cols:
            for k in C.COLLIDER_TYPES:
                B = C.make_collider(k, C.pose(C.CUBE[7], position(A) + shift * np.array([1.0, 0.3, -0.2])), 0.8)
                try:
                    r = gjk.gjk_distance_jolt(A["obj"], B["obj"])
                    if use_epa and r[0] < 1e-12:
                        epa.epa(np.array(r[3]), A["obj"], B["obj"])
                except Exception:
                    pass
                if use_mpr:
                    try:
                        mpr.mpr_penetration(A["obj"], B["obj"])
                    except Exception:
                        pass


# ------------------------------------------------------------------------------------------------ pool with deadline
_POOL = {}
PHASES = {0: "harness", 1: "gjk", 2: "epa", 3: "mpr"}
HANG_SECONDS = 60.0


def _init_slot(counter, slots):
    with counter.get_lock():
        _POOL["slot"] = counter.value % (len(slots) // 3)
        counter.value += 1
    _POOL["slots"] = slots


def set_phase(code):
    """tell the parent which call the worker is in (a native loop that never returns cannot be interrupted by SIGALRM)"""
    s, sl = _POOL.get("slot"), _POOL.get("slots")
    if sl is not None:
        sl[3 * s + 2] = code


def _tracked(case):
    s, sl = _POOL.get("slot"), _POOL.get("slots")
    if sl is not None:
        sl[3 * s + 1] = time.time()
        sl[3 * s + 2] = 0
        sl[3 * s] = case["id"]
    try:
        return _POOL["fn"](case)
    finally:
        if sl is not None:
            sl[3 * s] = -1.0


def run_pool(fn, cases, jobs, deadline):
    """parallel map that never turns slowness into a finding: results that are not there at the deadline are reported as
    `incomplete` (count); a case that occupies a worker for more than HANG_SECONDS is reported as hung together with the
    phase it is in (native code that does not return; python-level loops are already limited by with_timeout, whose two
    attempts end before HANG_SECONDS)."""
    import multiprocessing as mp
    ctx = mp.get_context("fork")
    jobs = min(jobs, max(1, len(cases)))
    slots = ctx.Array("d", [-1.0] * (3 * jobs), lock=False)
    counter = ctx.Value("i", 0)
    _POOL["fn"] = fn
    results, hung = [], {}
    last = time.time()
    with ctx.Pool(jobs, initializer=_init_slot, initargs=(counter, slots)) as pool:
        it = pool.imap_unordered(_tracked, cases, chunksize=1)
        while time.time() < deadline:
            try:
                results.append(it.next(timeout=2.0))
                last = time.time()
            except mp.TimeoutError:
                now = time.time()
                for j in range(jobs):
                    if slots[3 * j] >= 0 and now - slots[3 * j + 1] > HANG_SECONDS:
                        hung[int(slots[3 * j])] = PHASES.get(int(slots[3 * j + 2]), "?")
                if hung and now - last > 20.0:
                    break
            except StopIteration:
                break
        pool.terminate()
    results.sort(key=lambda r: r["id"])
    return results, sorted(hung.items())


# ------------------------------------------------------------------------------------------------ scenes
def build(spec, scale=1.0, origin=(0.0, 0.0, 0.0)):
    """spec: dict(kind, size, R, t[, size3][, vseed, nverts]) -> collider dict of _common (obj, kind, par, size)"""
    from distance3d import colliders
    R = np.array(spec["R"], dtype=float)
    t = np.array(spec["t"], dtype=float) * scale + np.asarray(origin, dtype=float)
    T = C.pose(R, t)
    k = spec["kind"]
    s = float(spec["size"]) * scale
    if k == "box" and "size3" in spec:
        size3 = np.array(spec["size3"], dtype=float) * scale
        return dict(kind="box", obj=colliders.Box(T, size3), par=dict(T=T, size=size3), size=float(max(size3)))
    if k == "hull" and "vseed" in spec:
        rng = np.random.default_rng(spec["vseed"])
        v = rng.normal(size=(int(spec["nverts"]), 3)) * 0.5 * s
        world = np.ascontiguousarray((R @ v.T).T + t)
        return dict(kind="hull", obj=colliders.ConvexHullVertices(world), par=dict(T=T, vertices_world=world),
                    size=float(np.max(np.linalg.norm(v, axis=1))))
    return C.make_collider(k, T, s)


def build_pair(case):
    A = build(case["A"], case.get("scale", 1.0), case.get("origin", (0, 0, 0)))
    B = build(case["B"], case.get("scale", 1.0), case.get("origin", (0, 0, 0)))
    return A, B


def position(col):
    p = col["par"]
    return p["c"] if col["kind"] == "sphere" else p["T"][:3, 3]


def scale_L(A, B):
    """L = max(1, largest feature size (diameter-like: 2*size) or centre distance)"""
    return max(1.0, 2.0 * A["size"], 2.0 * B["size"], float(np.linalg.norm(position(A) - position(B))))


def translated(col, t):
    """oracle-side copy of the collider translated by t (no library object)"""
    p = dict(col["par"])
    p.pop("_eq", None)
    p.pop("_ineq", None)
    if col["kind"] == "sphere":
        p["c"] = p["c"] + t
    else:
        T = p["T"].copy()
        T[:3, 3] = T[:3, 3] + t
        p["T"] = T
        if "vertices_world" in p:
            p["vertices_world"] = p["vertices_world"] + t
    return dict(kind=col["kind"], par=p, size=col["size"], obj=None)


def poly_vertices(col):
    if col["kind"] == "box":
        T = col["par"]["T"]
        corners = np.array(list(itertools.product([-1.0, 1.0], repeat=3))) * (0.5 * col["par"]["size"])
        return corners @ T[:3, :3].T + T[:3, 3]
    return col["par"]["vertices_world"]


def frame_dirs(A, B):
    """directions that are special for the scene: frame axes of both colliders, centre difference"""
    d = [AXES]
    for c in (A, B):
        if "T" in c["par"]:
            Rm = c["par"]["T"][:3, :3]
            d.append(Rm.T)
            d.append(-Rm.T)
    cd = position(B) - position(A)
    if np.linalg.norm(cd) > 0:
        d.append(np.array([cd, -cd]) / np.linalg.norm(cd))
    return np.vstack(d)


def h_pair(A, B, n):
    """extent of A - B along the unit direction n"""
    return C.support_value(A, n) + C.support_value(B, -n)


# ------------------------------------------------------------------------------------------------ exact oracle for polytope pairs
def closest_on_triangles(p, tri):
    """closest point of a triangle soup (n, 3, 3) to p; brute force over face interiors and edges"""
    a, b, c = tri[:, 0], tri[:, 1], tri[:, 2]
    cands = []
    for u, v in ((a, b), (b, c), (c, a)):
        uv = v - u
        den = np.sum(uv * uv, axis=1)
        tt = np.where(den > 0, np.sum((p - u) * uv, axis=1) / np.where(den > 0, den, 1.0), 0.0)
        cands.append(u + np.clip(tt, 0.0, 1.0)[:, None] * uv)
    n = np.cross(b - a, c - a)
    nn = np.sum(n * n, axis=1)
    ok = nn > 0
    q = p - (np.sum((p - a) * n, axis=1) / np.where(ok, nn, 1.0))[:, None] * n
    inside = ok.copy()
    for u, v in ((a, b), (b, c), (c, a)):
        inside &= np.sum(np.cross(v - u, q - u) * n, axis=1) >= 0
    cands.append(np.where(inside[:, None], q, a))
    P = np.vstack(cands)
    d = np.linalg.norm(P - p, axis=1)
    i = int(np.argmin(d))
    return P[i], float(d[i])


class MinkPoly:
    """Minkowski difference A - B of two polytopes given by world vertices; exact depth / gap queries for a shift t"""

    def __init__(self, VA, VB):
        from scipy.spatial import ConvexHull
        M = (VA[:, None, :] - VB[None, :, :]).reshape(-1, 3)
        self.M = M
        hull = ConvexHull(M)
        N = hull.equations[:, :3]
        N = N / np.linalg.norm(N, axis=1)[:, None]
        _, idx = np.unique(np.round(N, 10), axis=0, return_index=True)
        self.N = N[idx]
        self.hN = (M @ self.N.T).max(axis=0)                 # offsets recomputed from the vertices (not Qhull's)
        self.tri = M[hull.simplices]
        ext = float(np.max(np.abs(M))) + 1.0
        self.consistent = bool(np.max(np.abs(self.hN + hull.equations[idx, 3])) <= 1e-9 * ext)
        # guard: no sampled direction may beat the facet minimum of the unshifted polytope (origin inside: the minimum
        # over all directions is attained at a facet normal; outside it is not, the value is then only used as a bound)
        D, _ = self.signed_depth(np.zeros(3))
        hs = (M @ FIB[2000].T).max(axis=0)
        if D > 0 and hs.min() < D - 1e-9 * ext:
            self.consistent = False

    def signed_depth(self, t):
        """min over facet normals of the extent of (A - B) - t; > 0: exact penetration depth of A, B + t"""
        vals = self.hN - self.N @ t
        i = int(np.argmin(vals))
        return float(vals[i]), self.N[i]

    def gap(self, t):
        """for a shift t outside the polytope: (certified lower bound, witness upper bound) of dist(A, B + t)"""
        c, d = closest_on_triangles(t, self.tri)
        if d == 0.0:
            return 0.0, 0.0
        n = (t - c) / d
        return float(n @ t - (self.M @ n).max()), d


# ------------------------------------------------------------------------------------------------ bounds for general pairs
def certificate(A, B, extra=None, nfib=192, nref=4, polish=True):
    """max over sampled and locally optimised unit n of  g(n) = -(h_A(n) + h_B(-n)).
    g > 0: the sets are disjoint with gap >= g (sound lower bound); g < 0: penetration depth <= -g (sound upper bound)."""
    dirs = [FIB[nfib], frame_dirs(A, B)]
    if extra is not None and len(extra):
        e = np.atleast_2d(np.asarray(extra, dtype=float))
        nr = np.linalg.norm(e, axis=1)
        e = e[nr > 0] / nr[nr > 0][:, None]
        if len(e):
            dirs.append(e)
    dirs = np.vstack(dirs)
    vals = np.array([-h_pair(A, B, n) for n in dirs])
    best, bn = -math.inf, None
    for i in np.argsort(-vals)[:nref]:
        v, n = C.refine_direction(A, B, dirs[i])
        if v > best:
            best, bn = v, n
    if polish:
        from scipy.optimize import minimize
        e1 = np.cross(bn, AXES[int(np.argmin(np.abs(bn)))])
        e1 /= np.linalg.norm(e1)
        e2 = np.cross(bn, e1)

        def f(z):
            n = bn + z[0] * e1 + z[1] * e2
            return h_pair(A, B, n / np.linalg.norm(n))
        r = minimize(f, np.zeros(2), method="Nelder-Mead",
                     options=dict(xatol=1e-12, fatol=1e-14, maxfev=160, initial_simplex=[[0, 0], [1e-3, 0], [0, 1e-3]]))
        if -r.fun > best:
            n = bn + r.x[0] * e1 + r.x[1] * e2
            best, bn = float(-r.fun), n / np.linalg.norm(n)
    return float(best), bn


def inner_radius(col, x):
    """closed-form LOWER bound of the distance of x to the complement of the collider (>= 0 iff x is certified inside);
    flat shapes: 0 when x lies in the shape (within rounding, 1e-12 relative, of its plane), negative otherwise"""
    k, p = col["kind"], col["par"]
    x = np.asarray(x, dtype=float)
    if k == "sphere":
        return p["r"] - float(np.linalg.norm(x - p["c"]))
    if k in ("mesh", "hull"):
        if "_ineq" not in p:
            from scipy.spatial import ConvexHull
            V = p["vertices_world"]
            eq = ConvexHull(V).equations
            N = eq[:, :3] / np.linalg.norm(eq[:, :3], axis=1)[:, None]
            p["_ineq"] = (N, (V @ N.T).max(axis=0))
        N, hN = p["_ineq"]
        return float(np.min(hN - N @ x))
    T = p["T"]
    y = T[:3, :3].T @ (x - T[:3, 3])
    if k == "box":
        return float(np.min(0.5 * p["size"] - np.abs(y)))
    if k == "capsule":
        tt = min(max(y[2], -0.5 * p["h"]), 0.5 * p["h"])
        return p["r"] - math.sqrt(y[0] ** 2 + y[1] ** 2 + (y[2] - tt) ** 2)
    if k == "cylinder":
        return min(p["r"] - math.hypot(y[0], y[1]), 0.5 * p["L"] - abs(y[2]))
    if k == "cone":
        r, hh = p["r"], p["h"]
        return min(y[2], (r * (1.0 - y[2] / hh) - math.hypot(y[0], y[1])) * hh / math.hypot(hh, r))
    if k == "ellipsoid":
        return (1.0 - math.sqrt(float(np.sum((y / p["radii"]) ** 2)))) * float(np.min(p["radii"]))
    if k == "disk":
        inpl = p["r"] - math.hypot(y[0], y[1])
        return min(0.0, inpl) - max(0.0, abs(y[2]) - 1e-12 * (1.0 + float(np.max(np.abs(T[:3, 3]))) + p["r"]))
    if k == "ellipse":
        inpl = (1.0 - math.sqrt((y[0] / p["radii"][0]) ** 2 + (y[1] / p["radii"][1]) ** 2)) * float(np.min(p["radii"]))
        return min(0.0, inpl) - max(0.0, abs(y[2]) - 1e-12 * (1.0 + float(np.max(np.abs(T[:3, 3]))) + float(np.max(p["radii"]))))
    raise ValueError(k)


def depth_lower_bound(A, B, seeds):
    """sound lower bound of the penetration depth of A and B: for every x, ball(x, r_A(x)) in A and ball(x, r_B(x)) in B give
    ball(0, r_A + r_B) in A - B.  Maximised over x by Nelder-Mead; -inf when no common point was certified."""
    from scipy.optimize import minimize
    fa, fb = A["kind"] in FLAT, B["kind"] in FLAT
    if fa and fb:
        return -math.inf
    flat = A if fa else (B if fb else None)
    if flat is not None:
        T = flat["par"]["T"]
        o, E = T[:3, 3], T[:3, :2]
        to_x = lambda z: o + E @ z
        to_z = lambda x: E.T @ (x - o)
    else:
        to_x = lambda z: z
        to_z = lambda x: np.asarray(x, dtype=float)

    def f(z):
        x = to_x(z)
        ra, rb = inner_radius(A, x), inner_radius(B, x)
        if ra >= 0 and rb >= 0:
            return -(ra + rb)
        return 10.0 * (max(0.0, -ra) + max(0.0, -rb))
    zs = [to_z(np.asarray(s, dtype=float)) for s in seeds if s is not None and np.all(np.isfinite(s))]
    if not zs:
        return -math.inf
    vals = [f(z) for z in zs]
    best = -math.inf
    step = 0.1 * min(A["size"], B["size"])
    for i in np.argsort(vals)[:2]:
        z0 = zs[i]
        sim = [z0] + [z0 + step * e for e in np.eye(len(z0))]
        r = minimize(f, z0, method="Nelder-Mead", options=dict(xatol=1e-10, fatol=1e-12, maxfev=300, initial_simplex=sim))
        x = to_x(r.x)
        ra, rb = inner_radius(A, x), inner_radius(B, x)
        if ra >= 0 and rb >= 0:
            best = max(best, ra + rb)
    return best


def witness_distance(A, B, n):
    """UPPER bound of dist(A, B) from explicit points: support points of A (of B) for directions around n (around -n) span
    parts of the two contact faces; the closest pair of convex combinations (non-negative least squares, weights renormalised
    to sum to 1, so both points lie in the sets whatever the solver does) is a witness pair."""
    from scipy.optimize import nnls
    e1 = np.cross(n, AXES[int(np.argmin(np.abs(n)))])
    e1 /= np.linalg.norm(e1)
    e2 = np.cross(n, e1)
    dirs = [n]
    for eps, k in ((1e-6, 8), (1e-2, 8)):
        for j in range(k):
            ang = 2 * math.pi * (j + 0.25) / k
            d = n + eps * (math.cos(ang) * e1 + math.sin(ang) * e2)
            dirs.append(d / np.linalg.norm(d))
    P = np.array([C.support_exact(A, d) for d in dirs])
    Q = np.array([C.support_exact(B, -d) for d in dirs])
    o = P[0]
    sc = max(1.0, float(np.max(np.abs(P - o))), float(np.max(np.abs(Q - o))))
    w = 1e3
    k = len(dirs)
    M = np.zeros((5, 2 * k))
    M[:3, :k] = (P - o).T / sc
    M[:3, k:] = -(Q - o).T / sc
    M[3, :k] = w
    M[4, k:] = w
    try:
        x, _ = nnls(M, np.array([0, 0, 0, w, w], dtype=float), maxiter=400)
    except Exception:
        return math.inf
    la, mu = x[:k], x[k:]
    if la.sum() <= 0 or mu.sum() <= 0:
        return math.inf
    a = (la / la.sum()) @ P
    b = (mu / mu.sum()) @ Q
    return float(np.linalg.norm(a - b))


class PairOracle:
    """penetration depth / residual overlap / gap bounds of the pair (A, B + t)"""

    def __init__(self, A, B):
        self.A, self.B = A, B
        self.exact = None
        self._depth0 = None
        if A["kind"] in POLY and B["kind"] in POLY:
            try:
                mp_ = MinkPoly(poly_vertices(A), poly_vertices(B))
                if mp_.consistent:
                    self.exact = mp_
            except Exception:
                self.exact = None

    def depth_bounds(self, extra=None, seeds=(), lb_above=0.0):
        """(lower, upper) bound of the signed penetration depth of A and B (positive: overlap); lower = -inf when no common
        point is certified or when upper <= lb_above (the caller does not need it then).  Exact for polytope pairs."""
        if self.exact is not None:
            d, _ = self.exact.signed_depth(np.zeros(3))
            return d, d
        if self._depth0 is None:
            self._depth0 = self._bounds(self.B, extra, seeds, lb_above)[:2]
        elif extra is not None:
            lb, ub = self._depth0
            for e in np.atleast_2d(np.asarray(extra, dtype=float)):
                if np.linalg.norm(e) > 0:
                    ub = min(ub, h_pair(self.A, self.B, e / np.linalg.norm(e)))
            self._depth0 = (min(lb, ub), ub)
        return self._depth0

    def _bounds(self, Bt, extra, seeds, lb_above=0.0):
        g, n = certificate(self.A, Bt, extra)
        a, b = C.support_exact(self.A, n), C.support_exact(Bt, -n)         # a in A, b in B + t: witness pair
        ub = -g
        lb = -math.inf
        if ub > max(0.0, lb_above):
            cen = [position(self.A), position(Bt), 0.5 * (position(self.A) + position(Bt)), 0.5 * (a + b), a, b]
            lb = min(depth_lower_bound(self.A, Bt, list(seeds) + cen), ub)
        wit = float(np.linalg.norm(a - b))
        if g > -1e-3 * max(1.0, self.A["size"], Bt["size"]) and wit > 0:
            wit = min(wit, witness_distance(self.A, Bt, n))
        return lb, ub, max(g, 0.0), wit

    def shifted_bounds(self, t, extra=None, seeds=(), lb_above=0.0):
        """for the pair A, B + t: (lower, upper) bound of the residual penetration depth (lower only when upper > lb_above)
        and (certified lower, witness upper) bound of the remaining gap dist(A, B + t)"""
        t = np.asarray(t, dtype=float)
        if self.exact is not None:
            d, _ = self.exact.signed_depth(t)
            if d >= 0:
                return d, d, 0.0, 0.0
            glb, gub = self.exact.gap(t)
            return d, d, glb, gub
        lb, ub, glb, gub = self._bounds(translated(self.B, t), extra, seeds, lb_above)
        if lb >= 0:
            glb, gub = 0.0, 0.0                                            # a common point is certified
        return lb, ub, glb, gub


# ------------------------------------------------------------------------------------------------ domain
def _spec(kind, size, R, t, **kw):
    d = dict(kind=kind, size=float(size), R=np.asarray(R, dtype=float).tolist(), t=np.asarray(t, dtype=float).tolist())
    d.update(kw)
    return d


SCALES = [(1.0, (0.0, 0.0, 0.0)), (1.0, (0.0, 0.0, 0.0)), (1.0, (0.0, 0.0, 0.0)), (0.01, (0.0, 0.0, 0.0)),
          (100.0, (0.0, 0.0, 0.0)), (1.0, (300.0, -400.0, 500.0)), (0.01, (3.0, -4.0, 5.0)), (100.0, (300.0, -400.0, 500.0))]


def enumerate_cases(rng, tier, kinds=C.COLLIDER_TYPES, poly_boost=1):
    """overlap-biased scenes: all ordered type pairs x (lattice, random, special placements) + axis-aligned box grid +
    random vertex hulls; every scene optionally rescaled (0.01, 100) / moved away from the origin"""
    thorough = tier == "thorough"
    n_lat, n_rnd = (48, 30) if thorough else (8, 5)
    cases = []
    sizes = [(1.0, 1.0), (1.0, 0.5), (0.5, 1.0), (2.0, 1.0), (1.0, 2.0)]
    lat = [-1.0, -0.5, -0.25, 0.0, 0.25, 0.5, 1.0]
    for ka, kb in itertools.product(kinds, kinds):
        boost = poly_boost if (ka in POLY and kb in POLY) else 1
        for i in range(n_lat * boost):
            sa, sb = sizes[rng.integers(len(sizes))]
            off = rng.choice(lat, size=3) * rng.choice([0.5, 1.0]) * max(sa, sb)
            sc, org = SCALES[rng.integers(len(SCALES))]
            cases.append(dict(family="lattice", scale=sc, origin=org,
                              A=_spec(ka, sa, C.CUBE[rng.integers(24)], rng.integers(-1, 2, size=3) * 0.5),
                              B=_spec(kb, sb, C.CUBE[rng.integers(24)], np.zeros(3))))
            cases[-1]["B"]["t"] = (np.array(cases[-1]["A"]["t"]) + off).tolist()
        for i in range(n_rnd * boost):
            sa, sb = sizes[rng.integers(len(sizes))]
            ta = rng.normal(size=3)
            sc, org = SCALES[rng.integers(len(SCALES))]
            cases.append(dict(family="random", scale=sc, origin=org,
                              A=_spec(ka, sa, C.random_rotation(rng), ta),
                              B=_spec(kb, sb, C.random_rotation(rng), ta + rng.normal(size=3) * 0.3 * (sa + sb))))
        # special placements: identical / coincident, nested concentric, nested off-centre, touching along an axis, parallel
        R0 = C.CUBE[rng.integers(24)]
        Rr = C.random_rotation(rng)
        for R in (np.eye(3), R0, Rr):
            cases.append(dict(family="coincident", scale=1.0, origin=(0, 0, 0), A=_spec(ka, 1.0, R, [0, 0, 0]), B=_spec(kb, 1.0, R, [0, 0, 0])))
            cases.append(dict(family="nested", scale=1.0, origin=(0, 0, 0), A=_spec(ka, 2.0, R, [0, 0, 0]), B=_spec(kb, 0.25, R, [0, 0, 0])))
            cases.append(dict(family="nested", scale=1.0, origin=(0, 0, 0), A=_spec(ka, 0.25, R, [0.125, 0, 0.125]), B=_spec(kb, 2.0, R, [0, 0, 0.25])))
            cases.append(dict(family="parallel", scale=1.0, origin=(0, 0, 0), A=_spec(ka, 1.0, R, [0, 0, 0]), B=_spec(kb, 1.0, R, (R @ np.array([0.25, 0.0, 0.0])))))
            cases.append(dict(family="parallel", scale=1.0, origin=(0, 0, 0), A=_spec(ka, 1.0, R, [0, 0, 0]), B=_spec(kb, 1.0, R, (R @ np.array([0.0, 0.0, 0.5])))))
    # exactly touching boxes / spheres / box-sphere (depth 0)
    for R in (np.eye(3), C.CUBE[5], C.CUBE[17]):
        cases.append(dict(family="touching", scale=1.0, origin=(0, 0, 0), A=_spec("box", 1.0, R, [0, 0, 0], size3=[1, 1, 1]), B=_spec("box", 1.0, R, [1, 0, 0], size3=[1, 1, 1])))
        cases.append(dict(family="touching", scale=1.0, origin=(0, 0, 0), A=_spec("box", 1.0, R, [0, 0, 0], size3=[1, 1, 1]), B=_spec("box", 1.0, R, [1, 1, 0], size3=[1, 1, 1])))
        cases.append(dict(family="touching", scale=1.0, origin=(0, 0, 0), A=_spec("box", 1.0, R, [0, 0, 0], size3=[1, 1, 1]), B=_spec("box", 1.0, R, [1, 1, 1], size3=[1, 1, 1])))
        cases.append(dict(family="touching", scale=1.0, origin=(0, 0, 0), A=_spec("sphere", 1.0, R, [0, 0, 0]), B=_spec("sphere", 0.5, R, [1.5, 0, 0])))
        cases.append(dict(family="touching", scale=1.0, origin=(0, 0, 0), A=_spec("sphere", 1.0, R, [0, 0, 0]), B=_spec("box", 1.0, R, [1.5, 0, 0], size3=[1, 1, 1])))
    # axis-aligned boxes on the lattice (sizes {0.5,1,2}^3, offsets {-1,-0.5,0,0.25,0.5,1}^3)
    n_grid = 12000 if thorough else 1200
    for i in range(n_grid):
        s1 = rng.choice([0.5, 1.0, 2.0], size=3)
        s2 = rng.choice([0.5, 1.0, 2.0], size=3)
        off = rng.choice([-1.0, -0.5, 0.0, 0.25, 0.5, 1.0], size=3)
        sc, org = SCALES[rng.integers(len(SCALES))]
        Ra, Rb = (np.eye(3), np.eye(3)) if i % 3 else (C.CUBE[rng.integers(24)], C.CUBE[rng.integers(24)])
        cases.append(dict(family="boxgrid", scale=sc, origin=org, A=_spec("box", 1.0, Ra, [0, 0, 0], size3=s1), B=_spec("box", 1.0, Rb, off, size3=s2)))
    # random vertex hulls (8..40 vertices)
    n_hull = 4000 if thorough else 400
    for i in range(n_hull):
        sc, org = SCALES[rng.integers(len(SCALES))]
        cases.append(dict(family="randhull", scale=sc, origin=org,
                          A=_spec("hull", 2.0, np.eye(3), [0, 0, 0], vseed=int(rng.integers(1 << 30)), nverts=int(rng.integers(8, 41))),
                          B=_spec("hull", 1.6, np.eye(3), rng.normal(size=3) * 0.3, vseed=int(rng.integers(1 << 30)), nverts=int(rng.integers(8, 41)))))
    for i, c in enumerate(cases):
        c["id"] = i
    return cases


def case_key(case):
    import hashlib
    import json
    return hashlib.sha1(json.dumps({k: case[k] for k in ("A", "B", "scale", "origin")}, sort_keys=True, default=C._js).encode()).hexdigest()


def clean(o):
    """strict JSON: non-finite floats become strings, numpy types become python types"""
    if isinstance(o, dict):
        return {str(k): clean(v) for k, v in o.items()}
    if isinstance(o, (list, tuple)):
        return [clean(v) for v in o]
    if isinstance(o, np.ndarray):
        return clean(o.tolist())
    if isinstance(o, (np.floating, float)):
        o = float(o)
        return o if math.isfinite(o) else str(o)
    if isinstance(o, (np.integer,)):
        return int(o)
    if isinstance(o, (np.bool_,)):
        return bool(o)
    return o


def order_failures(failures):
    """round robin over (contract, obligation) so that the truncated list shows every distinct name"""
    groups = {}
    for f in failures:
        groups.setdefault((f["contract"], f["obligation"]), []).append(f)
    out = []
    for rank in itertools.count():
        row = [g[rank] for g in groups.values() if len(g) > rank]
        if not row:
            break
        out.extend(row)
    return out, {"%s|%s" % k: len(v) for k, v in sorted(groups.items())}


# ------------------------------------------------------------------------------------------------ C07 evaluation
MEMORY = ("zero", "stale")
_REF = []


def run_gjk(A, B, memory):
    """gjk_distance_jolt with a defined content of the memory np.empty hands out:
    'nan'  : NaN (diagnostic: rows that are still NaN afterwards were never written),
    'zero' : 0.0 (fresh pages),
    'stale': whatever a preceding gjk_distance_jolt call on a fixed, unrelated reference pair left in numpy's block cache
             (the situation of a loop over collision pairs)"""
    from distance3d import gjk
    set_phase(1)
    if memory == "nan":
        prime(np.nan)
    else:
        prime(0.0)
        if memory == "stale":
            if not _REF:
                _REF.append(C.make_collider("box", C.pose(np.eye(3), np.array([0.3, 0.2, 0.1])), 1.0)["obj"])
                _REF.append(C.make_collider("hull", C.pose(C.CUBE[3], np.zeros(3)), 1.0)["obj"])
            gjk.gjk_distance_jolt(_REF[0], _REF[1])
    r = gjk.gjk_distance_jolt(A["obj"], B["obj"])
    set_phase(0)
    return r


def eval_case(case):
    """returns dict(id, status, failures, undecided, info, runs)"""
    from distance3d import epa
    out = dict(id=case["id"], status="", failures=[], undecided=[], info={}, runs=0)
    A, B = build_pair(case)
    contract = "epa.epa[%s,%s]" % (A["kind"], B["kind"])
    poly = A["kind"] in POLY and B["kind"] in POLY
    L = scale_L(A, B)
    tol = 1e-6 * L

    # diagnostic: how many rows does GJK write?
    try:
        rd = with_timeout(lambda: run_gjk(A, B, "nan"))
        rows = int(np.sum(np.all(np.isfinite(rd[3]), axis=1))) if rd[3] is not None else -1
    except Exception:
        rows = -1
    out["info"]["rows_written"] = rows
    # placement family and the number of simplex rows GJK actually wrote are part of the name (known findings are pinned to them)
    contract = "epa.epa[%s,%s;fam=%s;rows=%d]" % (A["kind"], B["kind"], case.get("family"), rows)

    orc = None
    first = None
    for memory in MEMORY:
        try:
            dist, _, _, simplex = with_timeout(lambda: run_gjk(A, B, memory))
        except CaseTimeout:
            st = "gjk_timeout"
            out["status"] = out["status"] or st
            break
        except Exception as e:                               # GJK's own contract is C01, not C07
            out["status"] = out["status"] or ("gjk_exception:" + type(e).__name__)
            break
        if simplex is None or not dist < 1e-12:
            out["status"] = out["status"] or "gjk_no_overlap"
            break
        simplex = np.array(simplex)
        if first is not None and np.array_equal(simplex, first, equal_nan=True):
            out["info"]["stale_same_simplex"] = True          # same input to epa: nothing new to run
            break
        if first is None:
            first = simplex
        if orc is None:
            orc = PairOracle(A, B)
            if poly and orc.exact is None:
                out["status"] = "oracle_abstains"
                out["undecided"].append("exact_oracle")
                break
            if poly:
                out["info"]["D"] = orc.depth_bounds()[1]
                if out["info"]["D"] < -tol:
                    out["status"] = "gjk_false_overlap"      # truly separated by more than tol: outside C07's premise
                    break
        inp = dict(case=case, L=L, memory=memory, gjk_simplex=simplex.tolist(), gjk_rows_written=rows)
        st = check_epa(epa, A, B, orc, poly, simplex, tol, contract, inp, out, memory)
        out["runs"] += 1
        if memory == "zero":
            out["status"] = st
        else:
            out["info"]["status_stale"] = st
    return out


def check_epa(epa, A, B, orc, poly, simplex, tol, contract, inp, out, memory):
    rows = inp["gjk_rows_written"]
    tag = "; gjk wrote %d rows, other rows read as %s" % (rows, memory)
    info = out["info"] if memory == "zero" else out["info"].setdefault("stale", {})

    def fail(ob, detail):
        out["failures"].append(dict(contract=contract, obligation=ob, detail=detail + tag, input=inp))

    def undecided(ob):
        if ob not in out["undecided"]:
            out["undecided"].append(ob)

    set_phase(2)
    try:
        mtv, faces, success = with_timeout(lambda: epa.epa(simplex.copy(), A["obj"], B["obj"]))
        exc = None
    except CaseTimeout:
        set_phase(0)
        fail("terminates", "epa did not return (10 s, repeated with 30 s)")
        return "epa_timeout"
    except Exception as e:
        exc, success, mtv = e, False, None
    set_phase(0)
    info["success"] = bool(success)
    if exc is not None or not success:
        if poly:
            D = out["info"]["D"]
            why = ("%s: %s" % (type(exc).__name__, str(exc)[:80])) if exc is not None else "success=False"
            ob = "success_on_polytopes" if (exc is None or isinstance(exc, AssertionError)) else "no_exception"
            fail(ob, "polytope pair with exact penetration depth %.9g (tol %.3g): epa gives %s (mtv %s)" % (
                D, tol, why, None if mtv is None else np.asarray(mtv).tolist()))
        return "no_success" + ("" if exc is None else ":" + type(exc).__name__)

    mtv = np.asarray(mtv, dtype=float)
    inp["mtv"] = mtv.tolist()
    if not np.all(np.isfinite(mtv)):
        fail("mtv_separates", "success=True with non-finite mtv %s" % mtv.tolist())
        return "success"
    m = float(np.linalg.norm(mtv))
    info["m"] = m
    if poly:
        D_lb = D_ub = out["info"]["D"]
    else:
        u = mtv / m if m > 0 else np.array([1.0, 0.0, 0.0])
        seeds = [0.5 * (C.support_exact(A, u) + C.support_exact(B, -u))]
        D_lb, D_ub = orc.depth_bounds(extra=[mtv, -mtv], seeds=seeds)
        out["info"]["D"] = D_ub
        if D_ub < -tol:
            return "gjk_false_overlap"
    # (1) minimality: |mtv| = penetration depth
    if m > max(D_ub, 0.0) + tol:
        fail("mtv_minimal", "|mtv| = %.9g but the penetration depth is %s %.9g (tol %.3g)" % (m, "exactly" if poly else "at most", D_ub, tol))
    elif not (m <= max(D_lb, 0.0) + tol):
        # non-polytope pair: |mtv| agrees with the property's own oracle (upper bound from sampled + optimised directions)
        # but the closed-form inner-ball lower bound is not tight enough to certify equality from below
        info["minimal_only_vs_upper_bound"] = True
    # (2) after the translation: residual overlap <= tol, remaining gap <= tol
    R_lb, R_ub, G_lb, G_ub = orc.shifted_bounds(mtv, extra=[mtv, -mtv], lb_above=tol)
    info["residual"] = R_ub
    if R_lb > tol:
        fail("mtv_separates", "after translating B by mtv (|mtv| = %.9g, penetration depth %.9g) the pair still overlaps by %s %.9g (tol %.3g)" % (
            m, D_ub, "exactly" if poly else "at least", R_lb, tol))
    elif not (R_ub <= tol):
        undecided("mtv_separates")
    info["gap"] = G_lb
    if G_lb > tol:
        fail("mtv_touching", "after translating B by mtv (|mtv| = %.9g, penetration depth %.9g) a gap of at least %.9g remains (tol %.3g)" % (
            m, D_ub, G_lb, tol))
    elif not (G_ub <= tol):
        undecided("mtv_touching")
    return "success"


def _worker(case):
    try:
        return eval_case(case)
    except Exception as e:                                   # harness error: never a finding, but visible
        import traceback
        return dict(id=case["id"], status="harness_error:" + type(e).__name__, failures=[], undecided=["harness_error"], runs=0,
                    info=dict(trace=traceback.format_exc()[-400:]))


def main():
    a = C.args()
    t0 = time.time()
    rng = np.random.default_rng(a.seed)
    from distance3d import gjk, epa                           # noqa: F401  (compile / load the JIT cache before forking)
    import distance3d
    cases = enumerate_cases(rng, a.tier, poly_boost=3)
    primed = priming_effective()
    warm_up(use_epa=True, use_mpr=False)
    order = [cases[i] for i in np.random.default_rng(a.seed).permutation(len(cases))]
    res, hung = run_pool(_worker, order, a.jobs, t0 + (1080.0 if a.tier == "thorough" else 125.0))
    failures, samples, status, status_stale, undec = [], [], {}, {}, {}
    nontrivial = set()
    succ_by_pair = {}
    hung_elsewhere = []
    for i, phase in hung:
        c = cases[i]
        if phase == "epa":
            failures.append(dict(contract="epa.epa[%s,%s]" % (c["A"]["kind"], c["B"]["kind"]), obligation="terminates",
                                 detail="epa occupied a worker for more than %g s (native code does not return)" % HANG_SECONDS, input=dict(case=c)))
        else:                                                  # e.g. the mesh support function inside GJK: not C07's call
            hung_elsewhere.append(dict(phase=phase, case=c))
    by_id = {c["id"]: c for c in cases}
    runs = only_ub = 0
    for r in res:
        st = r["status"].split(":")[0]
        status[st] = status.get(st, 0) + 1
        runs += max(1, r["runs"])
        if "status_stale" in r["info"]:
            s2 = r["info"]["status_stale"].split(":")[0]
            status_stale[s2] = status_stale.get(s2, 0) + 1
        for u in r["undecided"]:
            undec[u] = undec.get(u, 0) + 1
        only_ub += bool(r["info"].get("minimal_only_vs_upper_bound")) + bool(r["info"].get("stale", {}).get("minimal_only_vs_upper_bound"))
        failures.extend(r["failures"])
        c = by_id[r["id"]]
        D = r["info"].get("D")
        if st in ("success", "no_success") and D is not None and D > 1e-6:
            nontrivial.add(case_key(c))
        if st in ("success", "no_success"):
            k = "%s,%s" % (c["A"]["kind"], c["B"]["kind"])
            s = succ_by_pair.setdefault(k, [0, 0])
            s[0] += st == "success"
            s[1] += 1
        if st == "success" and len(samples) < 8 and r["id"] % 97 == 0:
            samples.append(dict(case=c, result=r["info"]))
        if st == "harness_error" and len(samples) < 8:
            samples.append(dict(case=c, harness_error=r["info"]))
    by_rows = {}
    for f in failures:
        k = "%s|rows_written=%s|memory=%s" % (f["obligation"], f["input"].get("gjk_rows_written"), f["input"].get("memory"))
        by_rows[k] = by_rows.get(k, 0) + 1
    if os.environ.get("D3VC_DUMP"):                          # full, untruncated result list for triage
        import json
        with open(os.environ["D3VC_DUMP"], "w") as fh:
            json.dump(dict(failures=failures, results=res), fh, default=C._js)
    failures, keys = order_failures(clean(failures))
    samples = clean(samples)
    fams = {}
    for c in cases:
        fams[c["family"]] = fams.get(c["family"], 0) + 1
    C.emit(t0, runs, len(nontrivial),
           "gjk_distance_jolt reports an overlap, epa was run, and the oracle's penetration depth (exact for polytopes, upper bound otherwise) exceeds 1e-6",
           samples, failures,
           "composed call epa(gjk_distance_jolt(A,B)[3],A,B) on %d scenes: all 100 ordered pairs of %s x families %s; lattice = cube-group rotations, "
           "offsets from {0,+-.25,+-.5,+-1}*{.5,1}*size; random = uniform rotations, gaussian offsets; sizes {0.5,1,2}, scene scale {0.01,1,100}, "
           "origin shift up to 707; boxgrid = boxes with sizes {0.5,1,2}^3 at offsets {-1,-.5,0,.25,.5,1}^3 (2/3 axis-aligned, 1/3 cube-group rotated); "
           "randhull = gaussian vertex hulls with 8..40 vertices; every scene with memory 'zero' (rows of the simplex that GJK does not write read as 0.0) "
           "and, when that changes the simplex, 'stale' (they hold what a preceding GJK call on a fixed reference pair left behind)" % (
               len(cases), C.COLLIDER_TYPES, fams),
           scenes=len(res), incomplete=len(cases) - len(res), hung_outside_epa=clean(hung_elsewhere), undecided=sum(undec.values()), undecided_by_obligation=undec, status=status, status_stale_runs=status_stale,
           failure_keys=keys, failures_by_obligation_rows_memory=by_rows, minimal_passed_against_upper_bound_only=only_ub,
           success_by_pair={k: v for k, v in sorted(succ_by_pair.items())}, priming_effective=primed,
           library=os.path.dirname(distance3d.__file__), tier=a.tier, seed=a.seed)


if __name__ == "__main__":
    try:
        main()
    except Exception as _e:                                  # never a finding, never a non-zero exit code
        import traceback
        C.emit(time.time(), 0, 0, "harness error", [], [], "nothing was evaluated", harness_error=traceback.format_exc()[-1500:])
