"""BOUNDED stand-in for C18: the simplex solvers return the minimum-norm point of the convex hull of 1..4 points.

Code under test (REAL library, JIT as installed):
  * distance3d.gjk._gjk_jolt.get_closest_point_to_origin(Y, k, MAX_FLOAT)              contract gjk_jolt.get_closest_point_to_origin[k=<k>]
  * distance3d.gjk._gjk_original.distance_subalgorithm_with_backup_procedure(.., True)  contract gjk_original.backup_procedure[k=<k>]
  * distance3d.gjk._gjk_original.distance_subalgorithm_with_backup_procedure(.., False) contract gjk_original.distance_subalgorithm[k=<k>]
    (Johnson's fast path; judged ONLY on configurations that satisfy the loop invariant of gjk_distance_original, see `gjk_invariant`)

Oracle (independent of both solvers): EXACT arithmetic.  Every input coordinate is a float, hence a dyadic rational; the configuration is
scaled to Python integers.  For every non-empty subset S the projection of the origin onto aff(S) is obtained from the Gram system of
the edge vectors by Cramer's rule (integers), subsets with a negative weight or a singular Gram matrix are dropped and the minimum norm
is taken.  The optimum is then re-verified by the KKT characterisation  v = sum l_i y_i, l >= 0, sum l = 1, v.y_i >= v.v for all i
(exactly; a failure of this self check aborts the run with an exception: it would be a defect of the checker).

Contract names: lattice configurations (integer coordinates: every intermediate of the solvers is exact in float64, so a failure is a
logic defect) use the plain names `...[k=<k>]`; random REAL configurations use `...[k=<k>,real]` (failures there are rounding /
absolute-threshold findings).  `gjk_original.distance_subalgorithm` is judged on lattice configurations inside the GJK loop invariant
only; its results outside the invariant and on real configurations (documented numerical fragility: the backup procedure exists for
it, and the property statement does not cover it) are counted under `info`, not reported as failures.

Obligations
  norm_optimal             | |v_code| - |v*| | <= 1e-9 * L          L = max(1, max_i |y_i|)
  point_in_hull_of_subset  the returned subset is a non-empty subset of the input points and dist(v_code, conv(subset)) <= 1e-9 * L
                           (witness by float least squares, exact min-norm oracle on the shifted subset when the witness is not enough)
  weights_valid            (backup procedure) weights >= -1e-9, |sum - 1| <= 1e-9, |sum_j w_j p_j - v_code| <= 1e-9 * L with p_j the j-th
                           point of the returned (reordered) simplex
  no_exception             the call raises / returns success=False / returns a malformed result
"""
import time
t0 = time.time()
import math
import os
import sys
from fractions import Fraction

sys.path.insert(0, os.path.dirname(os.path.abspath(__file__)))
import _common as C
import numpy as np

REL = 1e-9
NAN = float("nan")

J = O = MAX_FLOAT = None


def _load():
    global J, O, MAX_FLOAT
    if J is None:
        from distance3d.gjk import _gjk_jolt as _J
        from distance3d.gjk import _gjk_original as _O
        from distance3d.utils import MAX_FLOAT as _M
        J, O, MAX_FLOAT = _J, _O, _M


# ------------------------------------------------------------------------------------------------ exact oracle
def _dot(a, b):
    return a[0] * b[0] + a[1] * b[1] + a[2] * b[2]


def _affine_weights(P, idx):
    """integer numerators n_i and common denominator D > 0 of the barycentric weights (w.r.t. P[i], i in idx) of the projection
    of the origin onto aff{P[i]}; None when the points are affinely dependent"""
    m = len(idx)
    p0 = P[idx[0]]
    if m == 1:
        return [1], 1
    E = [(P[j][0] - p0[0], P[j][1] - p0[1], P[j][2] - p0[2]) for j in idx[1:]]
    r = [-_dot(e, p0) for e in E]
    if m == 2:
        D = _dot(E[0], E[0])
        N = [r[0]]
    elif m == 3:
        g00, g01, g11 = _dot(E[0], E[0]), _dot(E[0], E[1]), _dot(E[1], E[1])
        D = g00 * g11 - g01 * g01
        N = [r[0] * g11 - g01 * r[1], g00 * r[1] - g01 * r[0]]
    else:
        g = [[_dot(E[a], E[b]) for b in range(3)] for a in range(3)]

        def det3(M):
            return (M[0][0] * (M[1][1] * M[2][2] - M[1][2] * M[2][1]) - M[0][1] * (M[1][0] * M[2][2] - M[1][2] * M[2][0])
                    + M[0][2] * (M[1][0] * M[2][1] - M[1][1] * M[2][0]))
        D = det3(g)
        N = []
        for c in range(3):
            M = [row[:] for row in g]
            for a in range(3):
                M[a][c] = r[a]
            N.append(det3(M))
    if D == 0:
        return None
    assert D > 0
    return [D - sum(N)] + N, D


def min_norm_exact(P):
    """P: list of k integer 3-tuples.  Returns dict(n2=Fraction |v*|^2, v=3 Fractions, support=minimal size of a subset with positive
    weights attaining the optimum, masks=subsets attaining the optimum, dependent=bool, active=#{i: v.y_i = v.v})"""
    k = len(P)
    best = None
    masks = []
    for mask in range(1, 1 << k):
        idx = [i for i in range(k) if mask >> i & 1]
        w = _affine_weights(P, idx)
        if w is None:
            continue
        num, D = w
        if min(num) < 0:
            continue
        vn = [sum(n * P[i][c] for n, i in zip(num, idx)) for c in range(3)]
        n2 = Fraction(_dot(vn, vn), D * D)
        if best is None or n2 < best[0]:
            best = (n2, vn, D)
            masks = [mask]
        elif n2 == best[0]:
            masks.append(mask)
    n2, vn, D = best
    v = tuple(Fraction(x, D) for x in vn)
    # KKT self check (exact): v.y_i >= v.v for every i   <=>   vn.y_i * D >= vn.vn
    vv = _dot(vn, vn)
    active = 0
    for p in P:
        lhs = _dot(vn, p) * D
        if lhs < vv:
            raise RuntimeError("oracle self check failed (KKT) for %r" % (P,))
        if lhs == vv:
            active += 1
    full = _affine_weights(P, list(range(k))) if k > 1 else [1]
    support = min(bin(m).count("1") for m in masks)
    return dict(n2=n2, v=v, support=support, masks=masks, dependent=(k > 1 and full is None), active=active)


def to_int(rows):
    """exact common scaling of float rows to integers: returns (list of int tuples, scale) with float = int / scale"""
    scale = 1
    ratios = []
    for r in rows:
        rr = []
        for x in r:
            n, d = float(x).as_integer_ratio()
            rr.append((n, d))
            if d > scale:
                scale = d
        ratios.append(rr)
    return [tuple(n * (scale // d) for n, d in rr) for rr in ratios], scale


def oracle_float(Y):
    P, s = to_int(Y)
    o = min_norm_exact(P)
    o = dict(o)
    o["norm"] = math.sqrt(o["n2"] / (s * s)) if o["n2"] else 0.0
    o["vf"] = [float(x / s) for x in o["v"]]
    return o


def dist_to_hull(v, pts, tol):
    """distance of float point v to conv(pts): <= tol proven by a float least-squares witness (convex combination evaluated in
    float, rounding error ~1e-15 * size << tol), otherwise exact"""
    pts = np.asarray(pts, dtype=float)
    v = np.asarray(v, dtype=float)
    m = len(pts)
    if m == 1:
        return float(np.linalg.norm(pts[0] - v))
    A = np.vstack([pts.T, np.ones(m)])
    b = np.append(v, 1.0)
    try:
        lam = np.linalg.lstsq(A, b, rcond=None)[0]
        lam = np.clip(lam, 0.0, None)
        if lam.sum() > 0:
            lam /= lam.sum()
            dwit = float(np.linalg.norm(lam @ pts - v))
            if dwit <= 0.5 * tol:
                return dwit
    except Exception:
        pass
    P, s = to_int(np.vstack([pts, v[None]]))
    pv = P[-1]
    Q = [(p[0] - pv[0], p[1] - pv[1], p[2] - pv[2]) for p in P[:-1]]
    o = min_norm_exact(Q)
    return math.sqrt(o["n2"] / (s * s)) if o["n2"] else 0.0


def gjk_invariant(Y, k):
    """loop invariant of gjk_distance_original at the call of the fast path with k points: rows 1..k-1 are the simplex selected by the
    previous call (affinely independent, its min-norm point v_old has all weights > 0) and row 0 is a support point in direction
    -v_old, i.e. v_old.y_0 <= v_old.y for all points of the Minkowski difference, in particular <= v_old.v_old; for k = 4 the loop
    additionally sorts rows 1..3 by their dot product with row 0 (non-decreasing).  Returns (holds, kind) with kind one of
    'v_old.y0<v_old.v_old' (new point improves), 'v_old.y0=v_old.v_old' (converged: new point on the supporting plane), 'v_old=0'."""
    if k == 1:
        return True, "k1"
    P, s = to_int(Y[:k])
    old = P[1:]
    w = _affine_weights(old, list(range(k - 1)))
    if w is None:
        return False, ""
    num, D = w
    if min(num) <= 0:
        return False, ""
    vn = [sum(n * old[i][c] for i, n in enumerate(num)) for c in range(3)]
    lhs, rhs = _dot(vn, P[0]) * D, _dot(vn, vn)
    if lhs > rhs:
        return False, ""
    if k == 4:
        d = [_dot(P[0], P[i]) for i in (1, 2, 3)]
        if not (d[0] <= d[1] <= d[2]):
            return False, ""
    return True, ("v_old=0" if rhs == 0 else "v_old.y0=v_old.v_old" if lhs == rhs else "v_old.y0<v_old.v_old")


# ------------------------------------------------------------------------------------------------ drivers of the code under test
def run_jolt(Y, k):
    Y4 = np.full((4, 3), NAN)
    Y4[:k] = Y[:k]
    out = J.get_closest_point_to_origin(Y4, k, MAX_FLOAT)
    ok, v, vlsq, bits = out
    if not ok:
        raise RuntimeError("success=False with prev_v_len_sq=MAX_FLOAT: %r" % (out,))
    v = np.array(v, dtype=float)
    bits = int(bits)
    if bits <= 0 or bits >= (1 << k):
        raise RuntimeError("bit set %s outside the first %d points" % (bin(bits), k))
    return v, float(vlsq), [i for i in range(k) if bits >> i & 1]


def make_simplex(Y, k):
    s = O.SimplexInfo()
    order = list(range(1, k)) + [0] if k > 1 else [0]
    for n, i in enumerate(order):
        if n == 0:
            s.set_first_point(i, i, np.array(Y[i], dtype=float))
        else:
            s.add_new_point(i, i, np.array(Y[i], dtype=float))
    assert len(s) == k and np.array_equal(s.points[:k], Y[:k]) and list(s.indices_polytope1[:k]) == list(range(k))
    return s


def run_original(Y, k, backup):
    s = make_simplex(Y, k)
    sol, flag = O.distance_subalgorithm_with_backup_procedure(s, O.Solution(), backup)
    n = len(s)
    v = np.array(sol.search_direction, dtype=float)
    if not (1 <= n <= k) or v.shape != (3,):
        raise RuntimeError("malformed result: n=%r v=%r" % (n, v))
    pts = np.array(s.points[:n], dtype=float)
    idx = [int(i) for i in s.indices_polytope1[:n]]
    bc = np.array(sol.barycentric_coordinates[:n], dtype=float)
    return v, float(sol.distance_squared), pts, idx, bc, bool(flag)


# ------------------------------------------------------------------------------------------------ one configuration
def _inc(info, key, n=1):
    info[key] = info.get(key, 0) + n


def check_config(Y, k, orc, fam, real, fails, info):
    """Y float array (k,3); orc = oracle dict (norm, ...); real = configuration with non-lattice coordinates (contract names get the
    suffix ',real' so that rounding findings and logic findings stay apart).  Appends failures, returns number of solver evaluations"""
    L = max(1.0, float(np.max(np.linalg.norm(Y[:k], axis=1))))
    tol = REL * L
    opt = orc["norm"]
    inp = dict(k=k, points=Y[:k].tolist(), family=fam, optimum_norm=opt, optimum_point=orc["vf"])
    tag = "[k=%d,real]" % k if real else "[k=%d]" % k

    def fail(contract, obligation, detail, **extra):
        d = dict(inp)
        d.update(extra)
        fails.append(dict(contract=contract + tag, obligation=obligation, detail=detail, input=d))

    # ---- Jolt
    name = "gjk_jolt.get_closest_point_to_origin"
    try:
        v, vlsq, sub = run_jolt(Y, k)
    except Exception as e:
        fail(name, "no_exception", "%s: %s" % (type(e).__name__, str(e)[:200]))
    else:
        nv = float(np.linalg.norm(v))
        if not (abs(nv - opt) <= tol) or not (vlsq >= 0 and abs(math.sqrt(vlsq) - opt) <= tol):
            fail(name, "norm_optimal", "returned |v| = %.17g (v_len_sq = %.17g), optimum %.17g, excess %.3g > tol %.3g"
                 % (nv, vlsq, opt, nv - opt, tol), returned_point=v.tolist(), returned_set=sub)
        dh = dist_to_hull(v, Y[sub], tol) if np.all(np.isfinite(v)) else float("inf")
        if not dh <= tol:
            fail(name, "point_in_hull_of_subset", "returned point is %.3g away from the hull of the returned set %s (tol %.3g)"
                 % (dh, sub, tol), returned_point=v.tolist(), returned_set=sub)
        elif abs(nv - opt) <= tol and abs(nv - opt) > REL * opt and abs(nv - opt) > 1e-14 * L:
            _inc(info, "within_1e-9*L_but_not_within_1e-9*optimum[jolt]")
    n_eval = 1

    # ---- original GJK: backup procedure, fast path
    for backup in (True, False):
        name = "gjk_original.backup_procedure" if backup else "gjk_original.distance_subalgorithm"
        inv, kind = (True, "") if backup else gjk_invariant(Y, k)
        n_eval += 1
        try:
            v, d2, pts, idx, bc, flag = run_original(Y, k, backup)
        except Exception as e:
            if backup or (inv and not real):
                fail(name, "no_exception", "%s: %s" % (type(e).__name__, str(e)[:200]))
            else:
                _inc(info, "fast_path_exception[%s]" % ("real,in_invariant" if inv else "outside_invariant"))
            continue
        bad = []
        nv = float(np.linalg.norm(v))
        if not (abs(nv - opt) <= tol) or not (d2 >= 0 and abs(math.sqrt(d2) - opt) <= tol):
            bad.append(("norm_optimal", "returned |v| = %.17g (distance_squared = %.17g), optimum %.17g, excess %.3g > tol %.3g"
                        % (nv, d2, opt, nv - opt, tol)))
        elif backup and abs(nv - opt) > REL * opt and abs(nv - opt) > 1e-14 * L:
            _inc(info, "within_1e-9*L_but_not_within_1e-9*optimum[backup]")
        subset_ok = len(set(idx)) == len(idx) and all(0 <= i < k for i in idx) and all(
            np.array_equal(pts[j], Y[idx[j]]) for j in range(len(idx)))
        if not subset_ok:
            bad.append(("point_in_hull_of_subset", "returned simplex rows are not distinct input points (indices %s)" % (idx,)))
        else:
            dh = dist_to_hull(v, pts, tol) if np.all(np.isfinite(v)) else float("inf")
            if not dh <= tol:
                bad.append(("point_in_hull_of_subset", "returned point is %.3g away from the hull of the returned subset %s (tol %.3g)"
                            % (dh, idx, tol)))
        wbad = None
        if not np.all(np.isfinite(bc)) or bc.min() < -REL or abs(bc.sum() - 1.0) > REL:
            wbad = "weights %s are not non-negative with sum 1" % (bc.tolist(),)
        elif not float(np.linalg.norm(bc @ pts - v)) <= tol:
            wbad = "weights %s applied to the returned subset %s in order give %s, returned point %s (off by %.3g > tol %.3g)" % (
                bc.tolist(), idx, (bc @ pts).tolist(), v.tolist(), float(np.linalg.norm(bc @ pts - v)), tol)
        if backup:
            if wbad:
                bad.append(("weights_valid", wbad))
        else:
            # the property claims weights in subset order for the backup procedure only (gjk_distance_original computes the witness
            # points from the backup result); for the fast path this is recorded, not judged
            if wbad and not flag:
                _inc(info, "fast_path_weights_not_in_subset_order")
            if flag:
                _inc(info, "fast_path_fell_back_to_backup")
            if inv:
                _inc(info, "fast_path_in_invariant[%s]" % kind)
            if bad and not inv:
                # the fast path is only claimed under the loop invariant of gjk_distance_original
                _inc(info, "fast_path_mismatch[outside_invariant]")
                continue
            if bad and real:
                # rounding fragility of Johnson's fast path on near-degenerate REAL simplices is documented in the library (the backup
                # procedure exists for it) and is outside the property statement: recorded, not judged
                _inc(info, "fast_path_mismatch[real,in_invariant]")
                if "fast_path_mismatch[real,in_invariant]_example" not in info:
                    info["fast_path_mismatch[real,in_invariant]_example"] = dict(points=Y[:k].tolist(), family=fam, detail=bad[0][1])
                continue
        for ob, det in bad:
            fail(name, ob, det, returned_point=v.tolist(), returned_subset=idx, returned_weights=bc.tolist(),
                 **({} if backup else {"gjk_loop_invariant": kind, "fell_back_to_backup": flag}))
            if not backup:
                _inc(info, "fast_path_failure_kind[%s]" % kind)
    return n_eval


def nontrivial(k, orc):
    return k >= 2 and (orc["support"] >= 2 or orc["dependent"] or orc["active"] > orc["support"])


RULE = ("k >= 2 and (the minimal support of the exact optimum has >= 2 points, or the k points are affinely dependent, or the active set "
        "{i: v.y_i = v.v} is larger than the minimal support, i.e. the origin lies on a Voronoi-region boundary)")


# ------------------------------------------------------------------------------------------------ domains
def lattice_points(r):
    rng_ = range(-r, r + 1)
    return [(x, y, z) for x in rng_ for y in rng_ for z in rng_]


LAT = {1: lattice_points(1), 2: lattice_points(2)}
TABLE = {}       # multiset of point ids of the {-1,0,1} lattice -> oracle (filled in the parent before forking)


def _table_task(keys):
    pts = LAT[1]
    out = []
    for key in keys:
        o = min_norm_exact([pts[i] for i in key])
        out.append((key, dict(norm=math.sqrt(o["n2"]), vf=[float(x) for x in o["v"]], support=o["support"], dependent=o["dependent"],
                              active=o["active"])))
    return out


def build_table(kmax, jobs):
    import itertools
    keys = []
    for k in range(1, kmax + 1):
        keys.extend(itertools.combinations_with_replacement(range(27), k))
    chunks = [keys[i:i + 400] for i in range(0, len(keys), 400)]
    res = C.pmap(_table_task, chunks, jobs=jobs, timeout=600)
    if res is None:
        raise RuntimeError("oracle table timed out")
    for part in res:
        for key, o in part:
            TABLE[key] = o
    return len(keys)


def decode(n, k, base):
    ids = []
    for _ in range(k):
        ids.append(n % base)
        n //= base
    return ids


def _merge_info(dst, src):
    for a, b in src.items():
        if isinstance(b, dict):
            dst.setdefault(a, b)
        else:
            dst[a] = dst.get(a, 0) + b


def _cap(fails, per=3):
    seen, out, counts = {}, [], {}
    for f in fails:
        key = (f["contract"], f["obligation"])
        counts[key] = counts.get(key, 0) + 1
        if seen.get(key, 0) < per:
            seen[key] = seen.get(key, 0) + 1
            out.append(f)
    return out, counts


def lattice_task(task):
    """task = (r, k, indices) with r the lattice radius; indices = iterable of configuration numbers"""
    _load()
    r, k, indices = task
    pts = LAT[r]
    base = len(pts)
    fails, info, samples = [], {}, []
    ev = nt = 0
    for n in indices:
        ids = decode(int(n), k, base)
        Y = np.array([pts[i] for i in ids], dtype=float)
        if r == 1:
            orc = TABLE[tuple(sorted(ids))]
        else:
            orc = oracle_float(Y)
        ev += check_config(Y, k, orc, "lattice{-%d..%d}" % (r, r), False, fails, info)
        if nontrivial(k, orc):
            nt += 1
            if len(samples) < 1 and orc["support"] >= 2 and (orc["dependent"] or k == 2) and n % 7 == 3:
                samples.append(dict(tag="lattice%d,k=%d" % (r, k), k=k, points=Y.tolist(), optimum_norm=orc["norm"],
                                    optimum_point=orc["vf"]))
    fails, counts = _cap(fails)
    return dict(ev=ev, cases=len(indices), nt=nt, fails=fails, counts=counts, info=info, samples=samples)


def gen_real(rng, k):
    """random real configuration with a prescribed aspect ratio 10^-u, u in [0, 12], overall size S in [1e-2, 1e2]"""
    S = 10.0 ** rng.uniform(-2, 2)
    a = 10.0 ** (-rng.uniform(0, 12))
    mode = rng.choice(["squash1", "squash2", "neardup", "small_far", "origin_near_face", "plain"])
    P = rng.uniform(-1, 1, size=(k, 3))
    R = C.random_rotation(rng) if rng.random() < 0.7 else C.CUBE[rng.integers(len(C.CUBE))]
    c = P.mean(axis=0)
    if mode == "squash1":                      # sliver: one direction compressed
        P = c + (P - c) * np.array([1.0, 1.0, a])
    elif mode == "squash2":                    # needle: two directions compressed
        P = c + (P - c) * np.array([1.0, a, a])
    elif mode == "neardup" and k >= 2:
        i, j = rng.choice(k, size=2, replace=False)
        P[i] = P[j] + a * rng.normal(size=3) * (0.0 if rng.random() < 0.15 else 1.0)
    elif mode == "small_far":                  # tiny simplex at distance 1
        P = c + (P - c) * a
    if mode == "origin_near_face" or rng.random() < 0.4:
        # move the origin to (a point of a random face) + offset of relative size a (or exactly on it)
        m = rng.integers(1, k + 1)
        sel = rng.choice(k, size=m, replace=False)
        lam = rng.dirichlet(np.ones(m))
        q = lam @ P[sel]
        off = rng.normal(size=3)
        off *= rng.choice([0.0, a, 1.0]) / np.linalg.norm(off)
        P = P - (q + off)
    Y = np.ascontiguousarray((P @ R.T) * S)
    return Y, dict(mode=str(mode), aspect=a, size=S)


def real_task(task):
    _load()
    seed, n = task
    rng = np.random.default_rng(seed)
    fails, info, samples = [], {}, []
    ev = nt = 0
    keys = []
    dec, dec_all = {}, {}
    for it in range(n):
        k = int(rng.integers(1, 5)) if it % 8 == 0 else int(rng.integers(2, 5))
        Y, meta = gen_real(rng, k)
        orc = oracle_float(Y)
        before = len(fails)
        ev += check_config(Y, k, orc, "real:%s:aspect=%.1e:size=%.1e" % (meta["mode"], meta["aspect"], meta["size"]), True, fails, info)
        if nontrivial(k, orc):
            nt += 1
            keys.append(Y.tobytes())
            if len(samples) < 1 and k == 4 and meta["aspect"] < 1e-6:
                samples.append(dict(tag="real", k=k, points=Y.tolist(), optimum_norm=orc["norm"], meta=meta))
        u = str(int(-math.log10(meta["aspect"])))
        dec_all[u] = dec_all.get(u, 0) + 1
        if len(fails) > before:
            dec[u] = dec.get(u, 0) + 1
    fails, counts = _cap(fails)
    return dict(ev=ev, cases=n, nt=nt, fails=fails, counts=counts, info=info, samples=samples, keys=keys, decades=dec, decades_all=dec_all)


def main():
    a = C.args()
    rng = np.random.default_rng(a.seed)
    thorough = a.tier == "thorough"
    n_table = build_table(4, a.jobs)
    # compile / load the jitted kernels once in the parent (the workers are forked afterwards and inherit them)
    _load()
    for k in (1, 2, 3, 4):
        run_jolt(np.eye(4, 3) + 1.0, k)

    tasks = []            # (function, payload)
    dom = []
    # exhaustive k = 1..3 on {-1,0,1}
    for k in (1, 2, 3):
        N = 27 ** k
        step = 1000
        for s in range(0, N, step):
            tasks.append((1, k, range(s, min(N, s + step))))
        dom.append("k=%d: all %d configurations on {-1,0,1}^3" % (k, N))
    N4 = 27 ** 4
    if thorough:
        step = 2500
        for s in range(0, N4, step):
            tasks.append((1, 4, range(s, min(N4, s + step))))
        dom.append("k=4: all %d configurations on {-1,0,1}^3" % N4)
    else:
        n4 = 40000
        sel = np.sort(rng.choice(N4, size=n4, replace=False))
        for part in np.array_split(sel, 64):
            tasks.append((1, 4, part.tolist()))
        dom.append("k=4: %d of %d configurations on {-1,0,1}^3 sampled without replacement (seed %d)" % (n4, N4, a.seed))
    # {-2..2}
    if thorough:
        plan2 = {1: None, 2: None, 3: 60000, 4: 120000}
    else:
        plan2 = {2: 1500, 3: 1500, 4: 1500}
    for k, cnt in plan2.items():
        N = 125 ** k
        if cnt is None:
            sel = np.arange(N)
            dom.append("k=%d: all %d configurations on {-2..2}^3" % (k, N))
        else:
            sel = np.sort(rng.choice(N, size=cnt, replace=False))
            dom.append("k=%d: %d of %d configurations on {-2..2}^3 sampled without replacement" % (k, cnt, N))
        for part in np.array_split(sel, max(1, len(sel) // 750)):
            tasks.append((2, k, part.tolist()))
    n_real = 60000 if thorough else 6000
    per = 250
    real_tasks = [(int(rng.integers(2 ** 62)), per) for _ in range(n_real // per)]
    dom.append("%d random real configurations (k=1..4; slivers, needles, near-duplicates, tiny-far simplices, origin on / near a face; "
               "aspect ratio 10^-u with u uniform in [0,12], size log-uniform in [1e-2,1e2], random and lattice rotations)" % n_real)

    res1 = C.pmap(lattice_task, tasks, jobs=a.jobs, timeout=1000 if thorough else 140)
    res2 = C.pmap(real_task, real_tasks, jobs=a.jobs, timeout=600 if thorough else 140) if res1 is not None else None

    failures, counts, info, samples = [], {}, {}, []
    ev = cases = nt = 0
    decades, decades_all = {}, {}
    real_keys = set()
    by_tag = {}
    if res1 is None or res2 is None:
        failures.append(dict(contract="c18.harness", obligation="terminates",
                             detail="worker pool did not finish within the watchdog time (native hang or overload)", input={}))
    for res in (res1 or []), (res2 or []):
        for r in res:
            ev += r["ev"]
            cases += r["cases"]
            nt += r["nt"]
            failures.extend(r["fails"])
            for key, c in r["counts"].items():
                counts[key] = counts.get(key, 0) + c
            _merge_info(info, r["info"])
            for smp in r["samples"]:
                by_tag.setdefault(smp.pop("tag"), smp)
            for key in r.get("keys", []):
                real_keys.add(key)
            for d, c in (r.get("decades") or {}).items():
                decades[d] = decades.get(d, 0) + c
            for d, c in (r.get("decades_all") or {}).items():
                decades_all[d] = decades_all.get(d, 0) + c
    samples = [by_tag[t] for t in sorted(by_tag)][:8]
    # distinctness: lattice configurations are enumerated / sampled without replacement (distinct by construction); real ones by hash
    n_real_nt = sum(len(r.get("keys", [])) for r in (res2 or []))
    nt = nt - n_real_nt + len(real_keys)
    failures, _ = _cap(failures, per=3)
    failures.sort(key=lambda f: (f["contract"], f["obligation"]))
    C.emit(t0, ev, nt, RULE, samples, failures, "; ".join(dom) + "; exact oracle table for all %d multisets of <= 4 points of {-1,0,1}^3"
           % n_table, configurations=cases, failure_counts={"%s / %s" % k_: v for k_, v in sorted(counts.items())}, info=info,
           real_configs_with_failures_by_aspect_decade={d: "%d of %d" % (decades.get(d, 0), decades_all[d])
                                                        for d in sorted(decades_all, key=int)}, tolerance="1e-9 * L, L = max(1, max_i |y_i|)", undecided=0)


if __name__ == "__main__":
    main()
